package main

import (
	"fmt"
	"go/ast"
	"go/constant"
	"go/token"
	"go/types"
	"sort"
	"strings"
)

func init() {
	register(&Rule{ID: "R-prec", Floor: 50, Run: rulePrec,
		Doc: "the binding-power table TokenKind.Prec and its consumers fix the expression tree (DESIGN Appendix C): (a) the levels assignment < || < && < | < ^ < & < equality < comparison < shift < additive < multiplicative < as < ** form a strict chain (all kinds of a level share one pair, max of a level < min of the next), left<right on every level except ** (left>right: right-associative), and range, call/index, member sit above; (b) the climbing loop of Parser.expression continues exactly while left(current) > minimum (strict); (c) infix and assignment operands are parsed — by a call of the climbing entry or of a transparent wrapper of it — with the operator's RIGHT power, read before the operator is consumed; (d) the prefix operand is parsed with a constant at least as large as every power of the binary levels and below the left power of call, index and member; (e) the tokens with a non-zero left power are exactly the tokens the loop's switch dispatches, and each clause that converts the token into an operator enum only receives kinds in that conversion's domain. Breaking any one changes the tree of some operator pair/triple (C07)."})
}

type pxPair struct{ l, r int64 }

// pxPrecLevels: the property's levels, in order, by lexeme (the oracle is the
// statement of C07; kinds are found through TokenKind.String).
var pxPrecLevels = []struct {
	name    string
	lexemes []string
	right   bool // right-associative
}{
	{"assignment", nil, false}, // kinds = domain of the token→assign-operator conversion
	{"logical-or", []string{"||"}, false},
	{"logical-and", []string{"&&"}, false},
	{"bit-or", []string{"|"}, false},
	{"bit-xor", []string{"^"}, false},
	{"bit-and", []string{"&"}, false},
	{"equality", []string{"==", "!="}, false},
	{"comparison", []string{"<", ">", "<=", ">="}, false},
	{"shift", []string{"<<", ">>"}, false},
	{"additive", []string{"+", "-"}, false},
	{"multiplicative", []string{"*", "/", "%"}, false},
	{"cast-as", []string{"as"}, false},
	{"power", []string{"**"}, true},
}

// extractPrec reads kind → (left,right) from TokenKind.Prec.
func (r *pxRoles) extractPrec() (table map[string]pxPair, def pxPair, fd *ast.FuncDecl, problems []string) {
	fd = r.decls[r.powerFn()]
	if fd == nil {
		fatalf("anchor unresolved: declaration of the binding-power method of lexer.TokenKind")
	}
	info := r.lex.info
	table = map[string]pxPair{}
	sig := info.Defs[fd.Name].(*types.Func).Type().(*types.Signature)
	if sig.Results().Len() != 2 {
		fatalf("TokenKind.Prec does not return (left, right)")
	}
	// the table the method denotes: evaluated on every token kind (a switch, an if-chain,
	// a lookup in a map / array literal, named constants give the same rows). The default
	// power is the pair of the kinds no operator conversion and no lexeme of a level names:
	// taken as the most frequent pair. Only when some kind cannot be evaluated is the
	// switch read syntactically (below).
	if recv := pxRecvObj(info, fd); recv != nil {
		rows := map[string]pxPair{}
		count := map[pxPair]int{}
		all := true
		for _, k := range r.kindEnum.Consts {
			res := pxEvalOn(r.c, fd, recv, k)
			if !res.ok || len(res.vals) != 2 {
				all = false
				break
			}
			l, lok := pxValInt(res.vals[0])
			rr, rok := pxValInt(res.vals[1])
			if !lok || !rok {
				all = false
				break
			}
			name := r.canonKindConst(k)
			if old, dup := rows[name]; dup && old != (pxPair{l, rr}) {
				problems = append(problems, fmt.Sprintf("kind %s has two entries", name))
			}
			if _, dup := rows[name]; !dup {
				count[pxPair{l, rr}]++
			}
			rows[name] = pxPair{l, rr}
		}
		if all && len(rows) > 0 {
			best := -1
			for p, n := range count {
				if n > best || (n == best && (p.l < def.l || (p.l == def.l && p.r < def.r))) {
					best, def = n, p
				}
			}
			for k, p := range rows {
				if p != def {
					table[k] = p
				}
			}
			return table, def, fd, problems
		}
		problems = nil
	}
	var sw *ast.SwitchStmt
	for _, s := range fd.Body.List {
		if x, ok := s.(*ast.SwitchStmt); ok && x.Tag != nil {
			if id, ok := ast.Unparen(x.Tag).(*ast.Ident); ok && fd.Recv != nil && len(fd.Recv.List[0].Names) > 0 && info.Uses[id] == info.Defs[fd.Recv.List[0].Names[0]] {
				sw = x
			}
		}
	}
	if sw == nil {
		fatalf("TokenKind.Prec: no switch over the receiver")
	}
	pairOf := func(body []ast.Stmt) (pxPair, bool) {
		if len(body) != 1 {
			return pxPair{}, false
		}
		ret, ok := body[0].(*ast.ReturnStmt)
		if !ok || len(ret.Results) != 2 {
			return pxPair{}, false
		}
		var v [2]int64
		for i, e := range ret.Results {
			tv := info.Types[e]
			if tv.Value == nil {
				return pxPair{}, false
			}
			n, exact := constant.Int64Val(constant.ToInt(tv.Value))
			if !exact {
				return pxPair{}, false
			}
			v[i] = n
		}
		return pxPair{v[0], v[1]}, true
	}
	hasDefault := false
	for _, cl := range sw.Body.List {
		cc := cl.(*ast.CaseClause)
		p, ok := pairOf(cc.Body)
		if !ok {
			problems = append(problems, fmt.Sprintf("clause at %s is not a single `return <const>, <const>`", r.c.Pos(cc.Pos())))
			continue
		}
		if cc.List == nil {
			hasDefault, def = true, p
			continue
		}
		for _, e := range cc.List {
			k := r.canonKind(info, e)
			if k == "" {
				problems = append(problems, "non-constant case "+exprStr(e))
				continue
			}
			if old, dup := table[k]; dup && old != p {
				problems = append(problems, fmt.Sprintf("kind %s has two entries", k))
			}
			table[k] = p
		}
	}
	if !hasDefault {
		// falling out of the switch: look for a trailing return
		if p, ok := pairOf(fd.Body.List[len(fd.Body.List)-1:]); ok {
			def = p
		} else {
			problems = append(problems, "no default power")
		}
	}
	return
}

// opMap is a token→operator conversion function of parser/ast.
type pxOpMap struct {
	fn      *types.Func
	fd      *ast.FuncDecl
	enum    *types.Named
	m       map[string]string // kind → operator const name
	panics  bool              // default clause panics
	display map[string]string // operator const name → String()
}

// opMaps discovers, in parser/ast, every func(lexer.TokenKind) E whose body is
// a switch over the parameter returning constants of a local enum E.
func (r *pxRoles) opMaps() []*pxOpMap {
	ap := r.c.Pkg("homescript/parser/ast")
	info := ap.TypesInfo
	var out []*pxOpMap
	for _, fd := range AllFuncDecls(ap) {
		if fd.Recv != nil {
			continue
		}
		fn := info.Defs[fd.Name].(*types.Func)
		sig := fn.Type().(*types.Signature)
		if sig.Params().Len() != 1 || sig.Results().Len() != 1 || !types.Identical(sig.Params().At(0).Type(), r.kindT) {
			continue
		}
		en, ok := sig.Results().At(0).Type().(*types.Named)
		if !ok || r.c.EnumOf(en) == nil {
			continue
		}
		om := &pxOpMap{fn: fn, fd: fd, enum: en, m: map[string]string{}}
		// the conversion as a relation kind → operator: evaluated per token kind (a switch,
		// an if-chain and a map literal denote the same table); kinds the evaluator cannot
		// decide are read from the switch below
		evalOK := false
		if in := pxParamObj(info, fd, 0); in != nil {
			evalOK = true
			dom := map[string]string{}
			panics := false
			for _, k := range r.kindEnum.Consts {
				res := pxEvalOn(r.c, fd, in, k)
				switch {
				case res.ok && len(res.vals) == 1 && res.vals[0].k == ovConst && res.vals[0].c != nil && types.Identical(res.vals[0].c.Type(), en):
					dom[r.canonKindConst(k)] = res.vals[0].c.Name()
				case res.panics:
					panics = true
				default:
					evalOK = false
				}
			}
			if evalOK {
				om.m, om.panics = dom, panics
			}
		}
		for _, s := range fd.Body.List {
			if evalOK {
				break
			}
			sw, ok := s.(*ast.SwitchStmt)
			if !ok || sw.Tag == nil {
				continue
			}
			for _, cl := range sw.Body.List {
				cc := cl.(*ast.CaseClause)
				if cc.List == nil {
					om.panics = BodyPanics(info, cc.Body)
					continue
				}
				if len(cc.Body) != 1 {
					continue
				}
				ret, ok := cc.Body[0].(*ast.ReturnStmt)
				if !ok || len(ret.Results) != 1 {
					continue
				}
				k := ConstOf(info, ret.Results[0])
				if k == nil {
					continue
				}
				for _, e := range cc.List {
					if tk := r.canonKind(info, e); tk != "" {
						om.m[tk] = k.Name()
					}
				}
			}
		}
		if len(om.m) == 0 {
			continue
		}
		om.display = pxStringerTable(info, ap.Types, en)
		out = append(out, om)
	}
	sort.Slice(out, func(i, j int) bool { return out[i].fn.Name() < out[j].fn.Name() })
	return out
}

// pxStringerTable extracts const name → string from T.String() (switch over
// the receiver with constant string returns/assignments).
func pxStringerTable(info *types.Info, pkg *types.Package, t *types.Named) map[string]string {
	out := map[string]string{}
	var fd *ast.FuncDecl
	for id, ob := range info.Defs {
		f, ok := ob.(*types.Func)
		if !ok || f.Name() != "String" {
			continue
		}
		sig := f.Type().(*types.Signature)
		if sig.Recv() == nil || recvNamed(sig.Recv().Type()) != t {
			continue
		}
		_ = id
		fd = pxFuncDeclOf(info, f)
	}
	if fd == nil || fd.Body == nil {
		return out
	}
	// the table the method denotes: evaluate it on every constant of the enum (switch,
	// if-chain, map literal, named string constants all give the same rows); the
	// syntactic reading below only fills in constants the evaluator cannot decide
	undecided := map[string]bool{}
	if c := pxCtxOfInfo[info]; c != nil {
		if e := c.EnumOf(t); e != nil {
			recv := pxRecvObj(info, fd)
			for _, k := range e.Consts {
				res := pxEvalOn(c, fd, recv, k)
				switch {
				case res.ok && len(res.vals) == 1:
					if s, isStr := pxValString(res.vals[0]); isStr {
						out[k.Name()] = s
						continue
					}
					undecided[k.Name()] = true
				case res.panics:
					// no row: printing this operator panics
				default:
					undecided[k.Name()] = true
				}
			}
			if len(undecided) == 0 {
				return out
			}
		}
	}
	evaluated := len(out) > 0 || len(undecided) > 0
	ast.Inspect(fd.Body, func(n ast.Node) bool {
		cc, ok := n.(*ast.CaseClause)
		if !ok || cc.List == nil {
			return true
		}
		lit, found := "", false
		for _, s := range cc.Body {
			var e ast.Expr
			switch x := s.(type) {
			case *ast.ReturnStmt:
				if len(x.Results) == 1 {
					e = x.Results[0]
				}
			case *ast.AssignStmt:
				if len(x.Rhs) == 1 {
					e = x.Rhs[0]
				}
			}
			if e != nil {
				if tv := info.Types[e]; tv.Value != nil && tv.Value.Kind() == constant.String {
					lit, found = constant.StringVal(tv.Value), true
				}
			}
		}
		if found {
			for _, e := range cc.List {
				if k := ConstOf(info, e); k != nil && (!evaluated || undecided[k.Name()]) {
					out[k.Name()] = lit
				}
			}
		}
		return true
	})
	return out
}

var pxDeclIndex = map[*types.Info]map[*types.Func]*ast.FuncDecl{}
var pxCtxOfInfo = map[*types.Info]*Ctx{}

func pxFuncDeclOf(info *types.Info, f *types.Func) *ast.FuncDecl {
	return pxDeclIndex[info][f]
}

func pxIndexDecls(c *Ctx) {
	for _, p := range c.All {
		if pxDeclIndex[p.TypesInfo] != nil {
			continue
		}
		m := map[*types.Func]*ast.FuncDecl{}
		for _, fd := range AllFuncDecls(p) {
			if f, ok := p.TypesInfo.Defs[fd.Name].(*types.Func); ok {
				m[f] = fd
			}
		}
		pxDeclIndex[p.TypesInfo] = m
		pxCtxOfInfo[p.TypesInfo] = c
	}
}

func rulePrec(c *Ctx) []Obligation {
	r := pxDiscover(c)
	pxIndexDecls(c)
	var obs []Obligation
	add := func(key, pos string, fails []string, okDetail string) {
		o := Obligation{Key: key, Pos: pos, Nontrivial: true}
		if len(fails) > 0 {
			o.Status, o.Detail = Violated, strings.Join(fails, "; ")
		} else {
			o.Status, o.Detail = Discharged, okDetail
		}
		obs = append(obs, o)
	}
	table, def, precFd, problems := r.extractPrec()
	precPos := c.Pos(precFd.Pos())
	for _, p := range problems {
		obs = append(obs, Obligation{Key: "lexer.TokenKind.Prec|table shape|" + p, Pos: precPos, Status: Undecided, Detail: p})
	}
	if def != (pxPair{}) {
		obs = append(obs, Obligation{Key: "lexer.TokenKind.Prec|default power is (0,0)", Pos: precPos, Status: Violated,
			Detail: fmt.Sprintf("tokens without an entry get (%d,%d): every token would continue the climbing loop", def.l, def.r)})
	}
	maps := r.opMaps()
	var assignMap, infixMap, prefixMap, memberMap *pxOpMap
	for _, m := range maps {
		// roles by the lexemes they cover
		switch {
		case m.m[r.byDisp["="]] != "" && m.m[r.byDisp["+="]] != "":
			assignMap = m
		case m.m[r.byDisp["+"]] != "" && m.m[r.byDisp["*"]] != "":
			infixMap = m
		case m.m[r.byDisp["!"]] != "":
			prefixMap = m
		case m.m[r.byDisp["."]] != "":
			memberMap = m
		}
	}
	if assignMap == nil || infixMap == nil || prefixMap == nil || memberMap == nil {
		fatalf("anchor unresolved: token→operator conversions (assign/infix/prefix/member) in parser/ast")
	}

	// ---- (a) levels
	type level struct {
		name  string
		kinds []string
		lo    int64
		hi    int64
		right bool
		ok    bool
	}
	var levels []level
	for _, lv := range pxPrecLevels {
		L := level{name: lv.name, right: lv.right}
		if lv.lexemes == nil {
			for k := range assignMap.m {
				L.kinds = append(L.kinds, k)
			}
		} else {
			for _, lx := range lv.lexemes {
				k := r.byDisp[lx]
				if k == "" {
					obs = append(obs, Obligation{Key: "prec level " + lv.name + "|lexeme " + lx, Pos: precPos, Status: Undecided, Detail: "no token kind displays as " + lx})
					continue
				}
				L.kinds = append(L.kinds, k)
			}
		}
		sort.Strings(L.kinds)
		var fails []string
		var pair pxPair
		first := true
		for _, k := range L.kinds {
			p, ok := table[k]
			if !ok || p == (pxPair{}) {
				fails = append(fails, fmt.Sprintf("%s (%q) has no binding power: the operator is never taken by the climbing loop", k, r.display[k]))
				continue
			}
			if first {
				pair, first = p, false
			} else if p != pair {
				fails = append(fails, fmt.Sprintf("%s has (%d,%d) but %s has (%d,%d): operators of one level must share one pair", k, p.l, p.r, L.kinds[0], pair.l, pair.r))
			}
		}
		if !first {
			L.ok = true
			L.lo, L.hi = pair.l, pair.r
			if L.lo > L.hi {
				L.lo, L.hi = L.hi, L.lo
			}
			if lv.right && !(pair.l > pair.r) {
				fails = append(fails, fmt.Sprintf("(%d,%d): right-associative level needs left > right", pair.l, pair.r))
			}
			if !lv.right && !(pair.l < pair.r) {
				fails = append(fails, fmt.Sprintf("(%d,%d): left-associative level needs left < right (with left >= right `a op b op c` groups to the right)", pair.l, pair.r))
			}
		}
		assoc := "left"
		if lv.right {
			assoc = "right"
		}
		add("prec level "+lv.name+"|one pair, "+assoc+"-associative", precPos, fails, fmt.Sprintf("%s → (%d,%d)", strings.Join(L.kinds, ","), pair.l, pair.r))
		levels = append(levels, L)
	}
	for i := 0; i+1 < len(levels); i++ {
		a, b := levels[i], levels[i+1]
		if !a.ok || !b.ok {
			continue
		}
		var fails []string
		if !(a.hi < b.lo) {
			fails = append(fails, fmt.Sprintf("level %s spans [%d,%d], level %s spans [%d,%d]: need max(%s) < min(%s), otherwise an operator of the looser level captures an operand of the tighter one", a.name, a.lo, a.hi, b.name, b.lo, b.hi, a.name, b.name))
		}
		add("prec chain|"+a.name+" < "+b.name, precPos, fails, fmt.Sprintf("[%d,%d] < [%d,%d]", a.lo, a.hi, b.lo, b.hi))
	}
	// postfix groups
	var maxBinary int64
	for _, L := range levels {
		if L.ok && L.hi > maxBinary {
			maxBinary = L.hi
		}
	}
	rangeK := r.byDisp[".."]
	callK, indexK := r.byDisp["("], r.byDisp["["]
	var memberKs []string
	for k := range memberMap.m {
		memberKs = append(memberKs, k)
	}
	sort.Strings(memberKs)
	{
		var fails []string
		rp, ok := table[rangeK]
		if !ok {
			fails = append(fails, "range `..` has no binding power")
		} else if !(rp.l > maxBinary && rp.r > maxBinary) {
			fails = append(fails, fmt.Sprintf("range (%d,%d) is not above the binary levels (max %d)", rp.l, rp.r, maxBinary))
		}
		rangeHi := rp.l
		if rp.r > rangeHi {
			rangeHi = rp.r
		}
		cp, ip := table[callK], table[indexK]
		if cp == (pxPair{}) || ip == (pxPair{}) {
			fails = append(fails, "call `(` / index `[` have no binding power")
		} else {
			if cp != ip {
				fails = append(fails, fmt.Sprintf("call (%d,%d) and index (%d,%d) differ", cp.l, cp.r, ip.l, ip.r))
			}
			if !(cp.l > rangeHi && ip.l > rangeHi) {
				fails = append(fails, fmt.Sprintf("left power of call/index (%d/%d) is not above range (max %d)", cp.l, ip.l, rangeHi))
			}
		}
		for _, k := range memberKs {
			mp := table[k]
			if mp == (pxPair{}) {
				fails = append(fails, k+" has no binding power")
			} else if !(mp.l > cp.l && mp.l > ip.l) {
				fails = append(fails, fmt.Sprintf("left power of member %s (%d) is not above call/index (%d)", k, mp.l, cp.l))
			}
		}
		add("prec chain|binary levels < range < call/index < member", precPos, fails, fmt.Sprintf("max binary %d < range (%d,%d) < call/index left %d < member left %d", maxBinary, rp.l, rp.r, cp.l, table[memberKs[0]].l))
	}

	// ---- (b) the climbing loop
	exprFd, loop, precParam := r.findClimbingLoop()
	if loop == nil {
		obs = append(obs, Obligation{Key: "parser.Parser.expression|climbing loop", Pos: "-", Status: Undecided, Detail: "no *Parser method has a `for` whose condition compares the left power of the current token with a parameter"})
		return obs
	}
	exprFn := r.info.Defs[exprFd.Name].(*types.Func)
	ekey := pxDeclKey(r.pkg, exprFd)
	{
		var fails []string
		cc := r.climbCondOf(loop, func(o types.Object) bool { return o == precParam })
		x, y, op := cc.x, cc.y, cc.op
		if id, ok := ast.Unparen(y).(*ast.Ident); !ok || r.info.Uses[id] != precParam {
			// operands swapped
			x, y = y, x
			switch op {
			case token.LSS:
				op = token.GTR
			case token.LEQ:
				op = token.GEQ
			case token.GTR:
				op = token.LSS
			case token.GEQ:
				op = token.LEQ
			}
		}
		if op != token.GTR {
			fails = append(fails, fmt.Sprintf("the loop continues while `%s`: it must be the strict `left > %s` — with >= an operator of equal power met in the recursive call is taken there, which flips the associativity of every level", cc.text, precParam.Name()))
		}
		leftVar, _ := ast.Unparen(x).(*ast.Ident)
		var lobj types.Object
		if leftVar != nil {
			lobj = r.info.Uses[leftVar]
		}
		for _, part := range cc.loads {
			as, ok := part.s.(*ast.AssignStmt)
			good := false
			if ok && len(as.Lhs) == 2 && len(as.Rhs) == 1 {
				if id, ok := as.Lhs[0].(*ast.Ident); ok {
					o := r.info.Defs[id]
					if o == nil {
						o = r.info.Uses[id]
					}
					if o == lobj && r.isPrecOfCursor(as.Rhs[0]) {
						good = true
					}
				}
			}
			if !good {
				fails = append(fails, fmt.Sprintf("the loop's %s statement does not (re)load the compared variable from the FIRST (left) result of <current token>.Kind.Prec()", part.name))
			}
		}
		okDetail := fmt.Sprintf("for %s; %s; %s", pxStmtStr(loop.Init), exprStr(loop.Cond), pxStmtStr(loop.Post))
		if cc.inBody {
			okDetail = fmt.Sprintf("for { %s; if !(%s) { break }; … }", pxStmtStr(cc.loads[0].s), cc.text)
		}
		add(ekey+"|(b) loop continues while left(current) > minimum, strictly", c.Pos(loop.Pos()), fails, okDetail)
	}

	// ---- (e) switch coverage + (c) operand powers + (f) conversion domains
	// the dispatch: the switch over the current token kind the loop body runs — written in
	// the body or in a parser method the body calls (extracted loop body)
	sw, swHost := r.dispatchSwitch(exprFd, loop.Body)
	if sw == nil {
		obs = append(obs, Obligation{Key: ekey + "|(e) loop switch", Pos: c.Pos(loop.Pos()), Status: Undecided, Detail: "neither the loop body nor the parser methods it calls switch over the current token kind"})
		return obs
	}
	eng := pxPrecEngineOf(c, r, exprFn, precParam)
	if eng.e == nil {
		obs = append(obs, Obligation{Key: "summary|operand powers decided without the provenance engine", Pos: "-", Status: Info, Detail: "the r2parse provenance engine is unavailable (" + eng.why + "): (c), (d), (f) read the builders directly"})
	}
	branched := map[string]*ast.CaseClause{}
	for _, cl := range sw.Body.List {
		cc := cl.(*ast.CaseClause)
		for _, e := range cc.List {
			if k := r.canonKind(r.info, e); k != "" {
				branched[k] = cc
			}
		}
	}
	var powered []string
	for k, p := range table {
		if p.l != 0 {
			powered = append(powered, k)
		}
	}
	sort.Strings(powered)
	for _, k := range powered {
		var fails []string
		if branched[k] == nil {
			fails = append(fails, fmt.Sprintf("%s (%q) has left power %d, so the loop is entered on it, but the switch has no case for it: the default clause turns `a %s b` into an error", k, r.display[k], table[k].l, r.display[k]))
		}
		add(ekey+"|(e) powered token "+k+" has a branch", c.Pos(sw.Pos()), fails, "case present")
	}
	var bks []string
	for k := range branched {
		bks = append(bks, k)
	}
	sort.Strings(bks)
	for _, k := range bks {
		if table[k].l == 0 {
			add(ekey+"|(e) branch "+k+" has a left power", c.Pos(branched[k].Pos()), []string{fmt.Sprintf("the switch has a case for %s (%q) but its left power is 0: the loop condition never lets it through (dead branch — the operator is not parsed)", k, r.display[k])}, "")
		}
	}

	// clause → callee; operand-power and domain checks
	type clauseUse struct {
		cc     *ast.CaseClause
		kinds  []string
		callee *types.Func
		call   *ast.CallExpr
	}
	var uses []clauseUse
	for _, cl := range sw.Body.List {
		cc := cl.(*ast.CaseClause)
		if cc.List == nil {
			continue
		}
		u := clauseUse{cc: cc}
		for _, e := range cc.List {
			if k := r.canonKind(r.info, e); k != "" {
				u.kinds = append(u.kinds, k)
			}
		}
		for _, s := range cc.Body {
			ast.Inspect(s, func(n ast.Node) bool {
				if call, ok := n.(*ast.CallExpr); ok && u.callee == nil {
					if g := CalleeOf(r.info, call); g != nil && r.decls[g] != nil && r.declPkg[g] == r.pkg {
						u.callee, u.call = g, call
					}
				}
				return true
			})
		}
		uses = append(uses, u)
	}
	isSubset := func(ks []string, m map[string]string) []string {
		var miss []string
		for _, k := range ks {
			if m[k] == "" {
				miss = append(miss, k)
			}
		}
		return miss
	}
	checkedRight := 0
	for _, u := range uses {
		if u.callee == nil {
			continue
		}
		fd := r.decls[u.callee]
		// which conversion does the callee (or the clause) apply to the token the clause dispatched on?
		var conv *pxOpMap
		if ms := eng.entryConversions(fd, maps); len(ms) > 0 {
			conv = ms[0]
		}
		ast.Inspect(u.cc, func(n ast.Node) bool {
			call, ok := n.(*ast.CallExpr)
			if !ok || len(call.Args) != 1 {
				return true
			}
			if _, isCur := r.curKindRead(r.info, swHost, call.Args[0]); !isCur {
				return true
			}
			g := CalleeOf(r.info, call)
			for _, m := range maps {
				if m.fn == g {
					conv = m
				}
			}
			return true
		})
		if conv != nil {
			var fails []string
			if miss := isSubset(u.kinds, conv.m); len(miss) > 0 {
				what := "has no entry"
				if conv.panics {
					what = "panics"
				}
				fails = append(fails, fmt.Sprintf("the clause dispatches %s to %s, whose conversion %s %s for them", strings.Join(miss, ","), u.callee.Name(), conv.fn.Name(), what))
			}
			// and conversely every kind of the conversion's domain with a power is routed here
			for k := range conv.m {
				if table[k].l != 0 && branched[k] != nil && branched[k] != u.cc && conv != prefixMap {
					fails = append(fails, fmt.Sprintf("%s is in the domain of %s but is dispatched by another clause", k, conv.fn.Name()))
				}
			}
			sort.Strings(fails)
			add(ekey+"|(f) clause → "+u.callee.Name()+" only receives kinds "+conv.fn.Name()+" converts", c.Pos(u.cc.Pos()), fails, fmt.Sprintf("%d kinds ⊆ domain of %s (%d)", len(u.kinds), conv.fn.Name(), len(conv.m)))
		}
	}
	// ---- (c) operand powers of the infix / assignment builders. Decided on the calls of the
	// climbing entry the builder makes — directly or through transparent wrappers of it
	// (the provenance engine of R-prec-operand-source, which decides the same per path).
	for _, conv := range []*pxOpMap{infixMap, assignMap} {
		builders := eng.buildersOf(r, conv)
		if len(builders) > 0 {
			checkedRight++
		}
		for _, fd := range builders {
			ck := pxDeclKey(r.pkg, fd)
			var fails []string
			var calls []pxEntryCall
			var undec []string
			eng.stable(func() { calls, undec = eng.entryCalls(fd) })
			okDetail := ""
			if len(calls) == 0 {
				fails = append(fails, "does not parse its right operand with "+exprFn.Name()+"(<power>) (directly or through a transparent wrapper of it)")
			}
			for _, ec := range calls {
				pv := ec.pv
				how := exprFn.Name()
				if ec.via != "" {
					how = ec.via + "() → " + exprFn.Name()
				}
				switch {
				case pv == nil:
					fails = append(fails, how+" is called without a power")
				case pv.k != r2parsePrecV:
					fails = append(fails, fmt.Sprintf("the operand power %s is not loaded from <current token>.Kind.Prec()", pv))
				case pv.idx != 1:
					fails = append(fails, fmt.Sprintf("the right operand is parsed with %s, the LEFT power of the operator (result #1 of Prec): for `**` (left>right) a following `**` is refused by the recursive call, so `a ** b ** c` groups as `(a ** b) ** c`", pv))
				case pv.at != nil && pv.at.off == 0 && pv.at.U == 0:
					okDetail = "_, p := <current>.Kind.Prec(); next(); " + how + "(p)"
				case pv.at != nil && pv.at.off == -1 && pv.at.D == 1 && pv.at.U == 1:
					okDetail = "next(); _, p := <previous>.Kind.Prec(); " + how + "(p)"
				default:
					fails = append(fails, fmt.Sprintf("the power passed at %s is read from the %s: it is the power of a token FOLLOWING the operator", c.Pos(ec.call.Pos()), pv.at))
				}
			}
			if len(fails) == 0 && len(undec) > 0 {
				obs = append(obs, Obligation{Key: ck + "|(c) right operand parsed with the operator's right power, read before it is consumed", Pos: c.Pos(fd.Pos()), Status: Undecided, Nontrivial: true, Detail: strings.Join(undec, "; ")})
				continue
			}
			add(ck+"|(c) right operand parsed with the operator's right power, read before it is consumed", c.Pos(fd.Pos()), pxDedupe(fails), okDetail)
		}
	}
	// (f) for every other switch over the current token kind in the parser
	{
		type item struct {
			fd *ast.FuncDecl
			sw *ast.SwitchStmt
			n  int
		}
		var items []item
		var fns []*types.Func
		for fn := range r.decls {
			if r.declPkg[fn] == r.pkg {
				fns = append(fns, fn)
			}
		}
		sort.Slice(fns, func(i, j int) bool { return r.decls[fns[i]].Pos() < r.decls[fns[j]].Pos() })
		for _, fn := range fns {
			fd := r.decls[fn]
			n := 0
			ast.Inspect(fd.Body, func(nd ast.Node) bool {
				if x, ok := nd.(*ast.SwitchStmt); ok && x.Tag != nil && pxIsCurKindTag(r, fd, x.Tag) {
					n++
					if x != sw {
						items = append(items, item{fd, x, n})
					}
				}
				return true
			})
		}
		for _, it := range items {
			for _, cl := range it.sw.Body.List {
				cc := cl.(*ast.CaseClause)
				if cc.List == nil {
					continue
				}
				var kinds []string
				for _, e := range cc.List {
					if k := r.canonKind(r.info, e); k != "" {
						kinds = append(kinds, k)
					}
				}
				seen := map[*types.Func]bool{}
				for _, st := range cc.Body {
					ast.Inspect(st, func(nd ast.Node) bool {
						call, ok := nd.(*ast.CallExpr)
						if !ok {
							return true
						}
						g := CalleeOf(r.info, call)
						if g == nil || seen[g] {
							return true
						}
						var conv *pxOpMap
						if gfd := r.decls[g]; gfd != nil && r.declPkg[g] == r.pkg {
							// conversion applied by the callee to the token that is current when it is entered
							// (read directly, through a local, or from the look-behind field right after it was consumed)
							if ms := eng.entryConversions(gfd, maps); len(ms) > 0 {
								conv = ms[0]
							}
						} else if _, isCur := r.curKindRead(r.info, it.fd, pxFirstArg(call)); isCur && len(call.Args) == 1 {
							for _, m := range maps {
								if m.fn == g {
									conv = m
								}
							}
						}
						if conv == nil {
							return true
						}
						seen[g] = true
						var fails []string
						if miss := isSubset(kinds, conv.m); len(miss) > 0 {
							what := "has no entry"
							if conv.panics {
								what = "panics"
							}
							fails = append(fails, fmt.Sprintf("the clause dispatches %s to %s, whose conversion %s %s for them", strings.Join(miss, ","), g.Name(), conv.fn.Name(), what))
						}
						add(fmt.Sprintf("%s|(f) switch#%d clause %s → %s only receives kinds %s converts", pxDeclKey(r.pkg, it.fd), it.n, strings.Join(kinds, ","), g.Name(), conv.fn.Name()),
							c.Pos(cc.Pos()), fails, fmt.Sprintf("%d kinds ⊆ domain of %s (%d)", len(kinds), conv.fn.Name(), len(conv.m)))
						return true
					})
				}
			}
		}
	}
	if checkedRight < 2 {
		obs = append(obs, Obligation{Key: ekey + "|(c) infix and assignment clauses found", Pos: c.Pos(sw.Pos()), Status: Undecided, Detail: fmt.Sprintf("only %d of the two operand-parsing functions (infix, assignment) were identified", checkedRight)})
	}

	// ---- (d) prefix operand constant (calls of the climbing entry made by the prefix builder,
	// directly or through transparent wrappers)
	{
		prefBuilders := eng.buildersOf(r, prefixMap)
		if len(prefBuilders) == 0 {
			obs = append(obs, Obligation{Key: "parser|(d) prefix operand power", Pos: "-", Status: Undecided, Detail: "no parser function applies " + prefixMap.fn.Name()})
		}
		for _, prefFd := range prefBuilders {
			var fails []string
			var calls []pxEntryCall
			var undec []string
			eng.stable(func() { calls, undec = eng.entryCalls(prefFd) })
			key := pxDeclKey(r.pkg, prefFd) + "|(d) prefix operand power between binary levels and call/index/member"
			okDetail, okPos := "", c.Pos(prefFd.Pos())
			for _, ec := range calls {
				P, isConst := pxConstInt(ec.pv)
				if !isConst {
					fails = append(fails, fmt.Sprintf("the prefix operand power %s is not a constant", ec.pv))
					continue
				}
				before := len(fails)
				if P < maxBinary {
					for _, L := range levels {
						if L.ok && L.hi > P {
							lx := r.display[L.kinds[0]]
							fails = append(fails, fmt.Sprintf("operand power %d is below level %s [%d,%d]: `-a %s b` parses as `-(a %s b)`", P, L.name, L.lo, L.hi, lx, lx))
						}
					}
				}
				for _, k := range append([]string{callK, indexK}, memberKs...) {
					if !(table[k].l > P) {
						fails = append(fails, fmt.Sprintf("operand power %d is not below the left power %d of %s (%q): `-a%sb…` would apply the prefix operator first", P, table[k].l, k, r.display[k], r.display[k]))
					}
				}
				if len(fails) == before {
					okDetail = fmt.Sprintf("max binary power %d <= %d < call/index left %d, member left %d", maxBinary, P, table[callK].l, table[memberKs[0]].l)
					okPos = c.Pos(ec.call.Pos())
				}
			}
			if len(calls) == 0 {
				fails = append(fails, "the prefix function never calls "+exprFn.Name()+" (directly or through a transparent wrapper of it)")
			}
			switch {
			case len(fails) > 0:
				obs = append(obs, Obligation{Key: key, Pos: c.Pos(prefFd.Pos()), Status: Violated, Nontrivial: true, Detail: strings.Join(pxDedupe(fails), "; ")})
			case len(undec) > 0:
				obs = append(obs, Obligation{Key: key, Pos: c.Pos(prefFd.Pos()), Status: Undecided, Nontrivial: true, Detail: strings.Join(undec, "; ")})
			default:
				obs = append(obs, Obligation{Key: key, Pos: okPos, Status: Discharged, Nontrivial: true, Detail: okDetail})
			}
		}
	}

	// ---- operand of range: informational
	if rp, ok := table[rangeK]; ok {
		// the function the range clause calls
		for _, u := range uses {
			if len(u.kinds) == 1 && u.kinds[0] == rangeK && u.callee != nil {
				fd := r.decls[u.callee]
				var calls []pxEntryCall
				eng.stable(func() { calls, _ = eng.entryCalls(fd) })
				for _, ec := range calls {
					if P, isConst := pxConstInt(ec.pv); isConst && P != rp.r {
						obs = append(obs, Obligation{Key: pxDeclKey(r.pkg, fd) + "|range upper bound power", Pos: c.Pos(ec.call.Pos()), Status: Info,
							Detail: fmt.Sprintf("the upper bound of `..` is parsed with power %d, not with the table's right power %d: `a..b = c` and `a..b..c` group to the right and `x + 1..2 * 3` is `x + (1..(2*3))`. Range is not one of the levels C07 states, so this is reported, not failed", P, rp.r)})
					}
				}
			}
		}
	}

	// ---- summary
	var rows []string
	var ks []string
	for k := range table {
		ks = append(ks, k)
	}
	sort.Slice(ks, func(i, j int) bool {
		if table[ks[i]].l != table[ks[j]].l {
			return table[ks[i]].l < table[ks[j]].l
		}
		return ks[i] < ks[j]
	})
	for _, k := range ks {
		rows = append(rows, fmt.Sprintf("%s %q (%d,%d)", k, r.display[k], table[k].l, table[k].r))
	}
	obs = append(obs, Obligation{Key: "summary|binding-power table extracted from TokenKind.Prec", Pos: precPos, Status: Info, Detail: strings.Join(rows, "; ")})
	return obs
}

func pxStmtStr(s ast.Stmt) string {
	switch x := s.(type) {
	case *ast.AssignStmt:
		var l, r []string
		for _, e := range x.Lhs {
			l = append(l, exprStr(e))
		}
		for _, e := range x.Rhs {
			r = append(r, exprStr(e))
		}
		return strings.Join(l, ", ") + " " + x.Tok.String() + " " + strings.Join(r, ", ")
	case nil:
		return ""
	}
	return fmt.Sprintf("%T", s)
}

// isPrecOfCursor: e is <cursor>.Kind.Prec()
func (r *pxRoles) isPrecOfCursor(e ast.Expr) bool {
	call, ok := ast.Unparen(e).(*ast.CallExpr)
	if !ok {
		return false
	}
	fn := CalleeOf(r.info, call)
	if fn == nil || fn != r.powerFn() {
		return false
	}
	sel, ok := ast.Unparen(call.Fun).(*ast.SelectorExpr)
	return ok && r.isCurKind(r.info, sel.X)
}

// findClimbingLoop: the *Parser method with an integer parameter p and a
// `for` whose condition compares a variable loaded from Prec() with p.
func (r *pxRoles) findClimbingLoop() (*ast.FuncDecl, *ast.ForStmt, types.Object) {
	var outFd *ast.FuncDecl
	var outLoop *ast.ForStmt
	var outParam types.Object
	for fn, fd := range r.decls {
		if r.declPkg[fn] != r.pkg || fd.Recv == nil {
			continue
		}
		params := map[types.Object]bool{}
		for _, f := range fd.Type.Params.List {
			for _, n := range f.Names {
				if o := r.info.Defs[n]; o != nil {
					if b, ok := o.Type().Underlying().(*types.Basic); ok && b.Info()&types.IsInteger != 0 {
						params[o] = true
					}
				}
			}
		}
		if len(params) == 0 {
			continue
		}
		ast.Inspect(fd.Body, func(n ast.Node) bool {
			f, ok := n.(*ast.ForStmt)
			if !ok {
				return true
			}
			cc := r.climbCondOf(f, func(o types.Object) bool { return params[o] })
			if cc == nil {
				return true
			}
			for _, side := range []ast.Expr{cc.x, cc.y} {
				if id, ok := ast.Unparen(side).(*ast.Ident); ok && params[r.info.Uses[id]] {
					// the loop must mention Prec() in init/post/body
					mentions := false
					ast.Inspect(f, func(m ast.Node) bool {
						if e, ok := m.(ast.Expr); ok && r.isPrecOfCursor(e) {
							mentions = true
						}
						return true
					})
					if mentions {
						outFd, outLoop, outParam = fd, f, r.info.Uses[id]
					}
				}
			}
			return true
		})
	}
	return outFd, outLoop, outParam
}

func pxFirstArg(call *ast.CallExpr) ast.Expr {
	if len(call.Args) == 0 {
		return nil
	}
	return call.Args[0]
}

func pxIsCurKindTag(r *pxRoles, fd *ast.FuncDecl, tag ast.Expr) bool {
	_, ok := r.curKindRead(r.info, fd, tag)
	return ok
}

// pxClimbCond: the condition under which the climbing loop goes on, whether it
// is the `for` condition (`for l, _ := P(); l > p; l, _ = P()`) or an exit test at the top of
// the body (`for { l, _ := P(); if l <= p { break }; … }`), and the statements that must load
// the compared variable before each evaluation of it.
type pxClimbCond struct {
	x, y   ast.Expr
	op     token.Token // comparison under which the loop CONTINUES
	text   string
	inBody bool
	loads  []struct {
		s    ast.Stmt
		name string
	}
}

func (r *pxRoles) climbCondOf(f *ast.ForStmt, isParam func(types.Object) bool) *pxClimbCond {
	ordering := func(e ast.Expr) (*ast.BinaryExpr, bool) {
		neg := false
		for {
			e = ast.Unparen(e)
			if u, ok := e.(*ast.UnaryExpr); ok && u.Op == token.NOT {
				neg, e = !neg, u.X
				continue
			}
			break
		}
		b, ok := e.(*ast.BinaryExpr)
		if !ok {
			return nil, false
		}
		switch b.Op {
		case token.GTR, token.GEQ, token.LSS, token.LEQ:
			return b, neg
		}
		return nil, false
	}
	negate := func(t token.Token) token.Token {
		switch t {
		case token.GTR:
			return token.LEQ
		case token.GEQ:
			return token.LSS
		case token.LSS:
			return token.GEQ
		case token.LEQ:
			return token.GTR
		}
		return t
	}
	mentionsParam := func(b *ast.BinaryExpr) bool {
		for _, side := range []ast.Expr{b.X, b.Y} {
			if id, ok := ast.Unparen(side).(*ast.Ident); ok && isParam(r.info.Uses[id]) {
				return true
			}
		}
		return false
	}
	type load = struct {
		s    ast.Stmt
		name string
	}
	if f.Cond != nil {
		b, neg := ordering(f.Cond)
		if b == nil || !mentionsParam(b) {
			return nil
		}
		op := b.Op
		if neg {
			op = negate(op)
		}
		return &pxClimbCond{x: b.X, y: b.Y, op: op, text: exprStr(f.Cond), loads: []load{{f.Init, "init"}, {f.Post, "post"}}}
	}
	// `for { … if <exit> { break } … }`: the exit test must come before anything is consumed,
	// i.e. be preceded only by plain assignments
	for i, s := range f.Body.List {
		switch x := s.(type) {
		case *ast.AssignStmt:
			continue
		case *ast.IfStmt:
			if x.Init != nil || x.Else != nil || len(x.Body.List) != 1 {
				return nil
			}
			br, ok := x.Body.List[0].(*ast.BranchStmt)
			if !ok || br.Tok != token.BREAK {
				return nil
			}
			b, neg := ordering(x.Cond)
			if b == nil || !mentionsParam(b) {
				return nil
			}
			op := b.Op // exit condition
			if neg {
				op = negate(op)
			}
			cc := &pxClimbCond{x: b.X, y: b.Y, op: negate(op), inBody: true, text: "!(" + exprStr(x.Cond) + ")"}
			// the load: the last assignment before the test that defines an operand of the comparison
			var ld ast.Stmt
			for _, p := range f.Body.List[:i] {
				if as, ok := p.(*ast.AssignStmt); ok {
					for _, l := range as.Lhs {
						if id, ok := l.(*ast.Ident); ok {
							o := r.info.ObjectOf(id)
							for _, side := range []ast.Expr{b.X, b.Y} {
								if sid, ok := ast.Unparen(side).(*ast.Ident); ok && o != nil && r.info.Uses[sid] == o {
									ld = as
								}
							}
						}
					}
				}
			}
			if ld == nil {
				ld = &ast.EmptyStmt{}
			}
			cc.loads = []load{{ld, "top-of-body"}}
			return cc
		default:
			return nil
		}
	}
	return nil
}
