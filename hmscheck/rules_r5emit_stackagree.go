package main

// R-stack-agreement (r5emit): values the VM pushes on its own initiative are
// the values the compiler's lowering expects — at a handler entry and for the
// result of a value-less callback.

import (
	"fmt"
	"go/ast"
	"go/token"
	"go/types"
	"sort"
	"strings"
)

func init() {
	register(&Rule{ID: "R-stack-agreement", Floor: 2, Run: ruleR5StackAgreement,
		Doc: "two agreements between what the VM pushes by itself and what the lowering consumes. (1) Handler entry: when the run loop delivers a catchable exception it pushes n values (the error object) and continues at the handler address; on every path of every lowering that installs a handler (emits the try-label instruction), the n instructions emitted directly behind the handler's label are pure consumers (opcodes whose VM clause nets -1 without pushing: variable store, drop) — otherwise every caught exception leaves n values on the operand stack. (2) Value-less results: the expression-statement lowering drops the result of an expression only when its static type is not null; therefore, for every opcode the call lowering emits, a value the VM obtained from a Go callback (a call through a function-typed field: builtin callback) and pushes must be pushed only under a test that excludes the null kind — and conversely, if the statement lowering dropped unconditionally, the VM would have to push unconditionally. Necessary for C01/C09/C16 (no residue per call / per caught exception: the operand stack limit is hit by a loop of value-less builtin calls or of caught exceptions, and an enclosing expression sees a shifted stack)"})
}

// r5emPopOps: opcodes whose dispatcher clause nets exactly one pop and never pushes.
func r5emPopOps(c *Ctx) map[*types.Const]bool {
	r := vmRoles(c)
	fn := r.dispatch
	info := fn.info
	ss := r2NewFieldSumm(c, r.fns, r.stack.field, r.stack)
	relevant := func(n ast.Node) bool {
		switch x := n.(type) {
		case *ast.CallExpr:
			g := CalleeOf(info, x)
			if g == nil {
				if id, ok := x.Fun.(*ast.Ident); ok {
					if b, isB := info.Uses[id].(*types.Builtin); isB && b.Name() == "panic" {
						return true
					}
				}
				return false
			}
			if d, u := ss.call(g); d != 0 || u {
				return true
			}
			return vmAlwaysPanics(c, g)
		case *ast.AssignStmt:
			for _, l := range x.Lhs {
				if vmFieldOf(info, vmBaseOfIndex(l)) == r.stack.field {
					return true
				}
			}
		}
		return false
	}
	res := vmWalk(vmWalkOpts{fn: fn, replace: vmSlicer(relevant)})
	out := map[*types.Const]bool{}
	if res.overflow {
		return out
	}
	tops := map[token.Pos]bool{r.dispSw.Pos(): true}
	type acc struct {
		n   int
		bad bool
	}
	byUnit := map[string]*acc{}
	for i := range res.paths {
		p := &res.paths[i]
		u := vmUnitOf(info, tops, p)
		if u == "" || u == "default" || p.o.kind == cPanic {
			continue
		}
		a := byUnit[u]
		if a == nil {
			a = &acc{}
			byUnit[u] = a
		}
		a.n++
		pushes := false
		for _, e := range p.ev {
			if e.K == evCall && e.Fn != nil {
				if d, _ := ss.call(e.Fn); d > 0 {
					pushes = true
				}
			}
		}
		eff := ss.trace(info, p.ev)
		if len(eff.unknown) > 0 || eff.delta != -1 || pushes {
			a.bad = true
		}
	}
	for _, cl := range r.dispSw.Body.List {
		cc := cl.(*ast.CaseClause)
		var names []string
		var ks []*types.Const
		for _, e := range cc.List {
			if k := ConstOf(info, e); k != nil {
				names = append(names, k.Name())
				ks = append(ks, k)
			}
		}
		if a := byUnit["case "+strings.Join(names, ",")]; a != nil && a.n > 0 && !a.bad {
			for _, k := range ks {
				out[k] = true
			}
		}
	}
	return out
}

func ruleR5StackAgreement(c *Ctx) []Obligation {
	r2LoopCtx = c
	roles := vmCompRoles(c)
	r := vmRoles(c)
	var obs []Obligation
	opc := func(n string) *types.Const { return vmConst(c, "homescript/compiler", n) }
	setTry, labelOp := opc("Opcode_SetTryLabel"), opc("Opcode_Label")
	popOps := r5emPopOps(c)
	neutralOps := r5emNeutralOps(c)

	// ---------------------------------------------------------------- (1) handler entry
	// n: values the run loop pushes on the branch that delivers a catchable exception
	nPush := -1
	var nDesc string
	{
		fn := r.run
		info := fn.info
		normalK := vmConst(c, "homescript/runtime/value", "Vm_NormalExceptionInterruptKind")
		ss := r2NewFieldSumm(c, r.fns, r.stack.field, r.stack)
		relevant := func(n ast.Node) bool {
			switch x := n.(type) {
			case *ast.CallExpr:
				g := CalleeOf(info, x)
				if g == nil {
					return false
				}
				if d, u := ss.call(g); d != 0 || u {
					return true
				}
			case *ast.CaseClause:
				for _, e := range x.List {
					if ConstOf(info, e) == normalK {
						return true
					}
				}
			case *ast.Ident:
				return info.Uses[x] == normalK
			}
			return false
		}
		isIntrParam := func(callee *vmFn, call *ast.CallExpr) bool {
			if callee.fd == fn.fd || callee.pkg != fn.pkg || len(callee.fd.Body.List) > 25 {
				return false
			}
			for _, po := range vmParamObjs(callee) {
				if po != nil && vmIsNamed(po.Type(), "homescript/runtime/value", "VmInterrupt") {
					return true
				}
			}
			return false
		}
		relevant0 := relevant
		relevant = func(n ast.Node) bool {
			if relevant0(n) {
				return true
			}
			if call, ok := n.(*ast.CallExpr); ok {
				if callee := vmDeclIndex(c).of(CalleeOf(info, call)); callee != nil && isIntrParam(callee, call) {
					return true
				}
			}
			return false
		}
		res := vmWalk(vmWalkOpts{fn: fn, correlate: true, replace: vmSlicer(relevant), inline: isIntrParam})
		counts := map[int]bool{}
		for _, group := range [][]vmPath{res.paths, res.iters} {
			for i := range group {
				p := &group[i]
				at := -1
				for j, e := range p.ev {
					switch e.K {
					case evCase:
						for _, v := range e.Vals {
							if ConstOf(info, v) == normalK {
								at = j
							}
						}
					case evCond:
						// if-chain form: `(*i).Kind() == Vm_NormalExceptionInterruptKind` decided true
						if be, ok := ast.Unparen(e.X).(*ast.BinaryExpr); ok && (be.Op == token.EQL || be.Op == token.NEQ) {
							if (ConstOf(info, be.X) == normalK || ConstOf(info, be.Y) == normalK) && ((be.Op == token.EQL) == e.Taken) {
								at = j
							}
						}
					}
				}
				if at < 0 {
					continue
				}
				// the handler is taken: the path goes on in the loop (does not return from Run)
				if p.o.kind == cReturn || p.o.kind == cPanic {
					continue
				}
				n := 0
				for _, e := range p.ev[at:] {
					if e.K == evCall && e.Fn != nil && !e.Deferred {
						if d, _ := ss.call(e.Fn); d > 0 {
							n += d
						}
					}
				}
				counts[n] = true
			}
		}
		if len(counts) == 1 {
			for n := range counts {
				nPush = n
			}
			nDesc = fmt.Sprintf("%s pushes %d value(s) on the branch that delivers a catchable exception to a handler", fn.name, nPush)
		}
	}
	units := vmCompUnits(c)
	nSites := 0
	for _, u := range units.units {
		// units that install a handler
		installs := false
		for _, tr := range u.trs {
			for _, e := range tr {
				if e.is(setTry.Name()) {
					installs = true
				}
			}
		}
		if !installs {
			continue
		}
		nSites++
		ob := Obligation{Key: u.key() + "|handler entry: the instructions behind the handler label consume what the run loop pushed", Pos: c.Pos(u.pos), Nontrivial: true}
		if nPush < 0 {
			ob.Status, ob.Detail = Undecided, "the number of values the run loop pushes when it delivers an exception to a handler is not uniform / not found"
			obs = append(obs, ob)
			continue
		}
		var bad []string
		nPaths := 0
		for pi, tr := range u.trs {
			p := u.paths[pi]
			if !vmNormalExit(p) {
				continue
			}
			for i, e := range tr {
				if !e.is(setTry.Name()) || len(e.args) == 0 {
					continue
				}
				// the handler label: the label-typed (string) operand that a Label instruction of this trace carries
				labelAt := -1
				for j := i + 1; j < len(tr) && labelAt < 0; j++ {
					if tr[j].is(labelOp.Name()) && len(tr[j].args) > 0 {
						for _, a := range e.args {
							if exprStr(a) == exprStr(tr[j].args[0]) {
								labelAt = j
							}
						}
					}
				}
				if labelAt < 0 {
					bad = append(bad, fmt.Sprintf("path [%s]: the handler label of the try-label instruction @%s is not emitted on this path", vmTrunc(p.decisions(), 160), c.Pos(e.pos)))
					continue
				}
				nPaths++
				consumed := 0
				var next []string
				for j := labelAt + 1; j < len(tr) && consumed < nPush; j++ {
					t := tr[j]
					if t.kind == emEmit && t.op != nil && popOps[t.op] {
						consumed++
						continue
					}
					if t.kind == emEmit && t.op != nil && neutralOps[t.op] {
						continue // does not touch the operand stack (handler bookkeeping)
					}
					next = append(next, vmTraceStr([]vmEm{t}))
					break
				}
				if consumed < nPush {
					what := "nothing"
					if len(next) > 0 {
						what = next[0]
					}
					bad = append(bad, fmt.Sprintf("path [%s]: behind the handler label @%s only %d of %d pushed value(s) are consumed before `%s`: every exception this handler catches leaves the error object on the operand stack (a loop of caught exceptions runs into the stack limit; an enclosing expression finds a shifted stack)", vmTrunc(p.decisions(), 200), c.Pos(tr[labelAt].pos), consumed, nPush, what))
				}
			}
		}
		switch {
		case len(bad) > 0:
			bad = vmUniq(bad)
			sort.Slice(bad, func(i, j int) bool { return len(bad[i]) < len(bad[j]) })
			if len(bad) > 2 {
				bad = bad[:2]
			}
			ob.Status, ob.Detail = Violated, strings.Join(bad, " | ")
		case nPaths == 0:
			ob.Status, ob.Detail = Undecided, "no normally ending path installs a handler"
		default:
			ob.Status, ob.Detail = Discharged, fmt.Sprintf("%s; on %d path(s) the handler label is followed by %d pure consumer instruction(s)", nDesc, nPaths, nPush)
		}
		obs = append(obs, ob)
	}
	if nSites == 0 {
		obs = append(obs, Obligation{Key: "compiler|handler installation", Status: Undecided, Detail: "no lowering emits the try-label instruction: re-anchor the rule"})
	}

	// ---------------------------------------------------------------- (2) value-less callback results
	// compiler: is the statement-level drop conditional on a non-null static type?
	nullTypeK := (*types.Const)(nil)
	if o := roles.astPkg.Scope().Lookup("NullTypeKind"); o != nil {
		nullTypeK, _ = o.(*types.Const)
	}
	if nullTypeK == nil {
		fatalf("anchor unresolved: analyzer/ast.NullTypeKind")
	}
	condDrop, uncondDrop := 0, 0
	var dropDesc []string
	{
		ex := r2EmitIdx(c)
		for _, fn := range roles.fns {
			info := fn.info
			if !vmMentionsObj(info, fn.fd.Body, nullTypeK) {
				continue
			}
			// conditional emission helpers (`insertIf(needed bool, instr, span)`) are spliced in
			condEmit := func(callee *vmFn, call *ast.CallExpr) bool {
				obj, _ := callee.info.Defs[callee.fd.Name].(*types.Func)
				if obj == nil || callee.fd == fn.fd || !ex.isForward(obj) || obj == roles.insert {
					return false
				}
				for _, po := range vmParamObjs(callee) {
					if po != nil {
						if b, ok := po.Type().Underlying().(*types.Basic); ok && b.Kind() == types.Bool {
							return true
						}
					}
				}
				return false
			}
			relevant := func(n ast.Node) bool {
				switch x := n.(type) {
				case *ast.CallExpr:
					g := CalleeOf(info, x)
					if g == nil {
						if id, ok := x.Fun.(*ast.Ident); ok {
							if b, isB := info.Uses[id].(*types.Builtin); isB && b.Name() == "panic" {
								return true
							}
						}
						return false
					}
					return roles.emitters[g]
				case *ast.Ident:
					return info.Uses[x] == nullTypeK
				}
				return false
			}
			res := vmWalk(vmWalkOpts{fn: fn, correlate: true, replace: vmSlicer(relevant), inline: condEmit})
			if res.overflow {
				continue
			}
			tops := vmTopPosSet(c, fn)
			for i := range res.paths {
				p := &res.paths[i]
				if !vmNormalExit(p) {
					continue
				}
				tests, notNull := false, false
				lastChild, lastEmit := -1, -1
				for j, e := range p.ev {
					switch e.K {
					case evCond:
						cond := e.X
						if res.binds != nil {
							cond, _, _ = vmResolveAt(info, res.binds, p.ev, j, e.X)
						}
						for _, cj := range r5emConjuncts(fn, cond, e.Taken) {
							if !vmMentionsObj(info, cj, nullTypeK) {
								continue
							}
							if be, ok := ast.Unparen(cj).(*ast.BinaryExpr); ok && (be.Op == token.EQL || be.Op == token.NEQ) {
								tests = true
								notNull = (be.Op == token.NEQ) == e.Taken
							}
						}
					case evCase:
						if tops[e.Pos] {
							continue
						}
						listed := false
						for _, v := range e.Vals {
							if ConstOf(info, v) == nullTypeK {
								listed = true
							}
						}
						inOthers := false
						for _, v := range e.Others {
							if ConstOf(info, v) == nullTypeK {
								inOthers = true
							}
						}
						if listed {
							tests, notNull = true, false
						} else if inOthers {
							tests, notNull = true, true
						}
					case evCall:
						if e.Fn == nil || e.Deferred {
							continue
						}
						switch {
						case ex.isForward(e.Fn) || ex.singleOf(e.Fn) != nil:
							lastEmit = j
						case roles.emitters[e.Fn]:
							for _, a := range e.Call.Args {
								if n := vmNamed(info.TypeOf(a)); n != nil && n.Obj().Pkg() == roles.astPkg {
									lastChild = j
								}
							}
						}
					}
				}
				if !tests || lastChild < 0 {
					continue
				}
				drops := lastEmit > lastChild
				switch {
				case notNull && drops:
					condDrop++
					dropDesc = append(dropDesc, fmt.Sprintf("%s emits a consumer behind the child's code when the child's static type is not null", r2UnitKey(c, fn, p.ev[lastChild].Pos)))
				case !notNull && drops:
					uncondDrop++
				}
			}
		}
	}
	dropIsConditional := condDrop > 0 && uncondDrop == 0
	{
		ob := Obligation{Key: "compiler|the statement lowering drops a child's result exactly when its static type is not null", Nontrivial: true}
		switch {
		case dropIsConditional:
			ob.Status, ob.Detail = Discharged, strings.Join(vmUniq(dropDesc), "; ")
		case condDrop+uncondDrop == 0:
			ob.Status, ob.Detail = Undecided, "no lowering tests the static type of a child against the null type before dropping its result"
		default:
			ob.Status, ob.Detail = Info, fmt.Sprintf("the drop is not conditional on the type (%d conditional, %d unconditional path(s)): the VM side is judged against that", condDrop, uncondDrop)
		}
		obs = append(obs, ob)
	}
	// opcodes the call lowering emits
	callLoweringOps := map[*types.Const]bool{}
	for _, u := range units.units {
		takes := false
		for _, fl := range u.fn.fd.Type.Params.List {
			if nt := vmNamed(u.fn.info.TypeOf(fl.Type)); nt != nil && nt.Obj().Pkg() == roles.astPkg && strings.Contains(nt.Obj().Name(), "CallExpression") {
				takes = true
			}
		}
		if !takes {
			continue
		}
		for _, tr := range u.trs {
			for _, e := range tr {
				if e.kind == emEmit && e.op != nil {
					callLoweringOps[e.op] = true
				}
			}
		}
		// opcode held in a variable: the constants assigned to it
		ast.Inspect(u.fn.fd.Body, func(n ast.Node) bool {
			if as, ok := n.(*ast.AssignStmt); ok {
				for i, l := range as.Lhs {
					if i < len(as.Rhs) && types.Identical(u.fn.info.TypeOf(l), roles.opType) {
						if k := ConstOf(u.fn.info, as.Rhs[i]); k != nil {
							callLoweringOps[k] = true
						}
					}
				}
			}
			return true
		})
	}
	// VM: pushes of values obtained from dynamic callbacks
	{
		fn := r.dispatch
		info := fn.info
		nullK := vmConst(c, "homescript/runtime/value", "NullValueKind")
		ss := r2NewFieldSumm(c, r.fns, r.stack.field, r.stack)
		isDyn := func(call *ast.CallExpr) bool {
			if CalleeOf(info, call) != nil {
				return false
			}
			if tv, ok := info.Types[call.Fun]; ok && tv.IsType() {
				return false
			}
			_, isSig := info.TypeOf(call.Fun).Underlying().(*types.Signature)
			if id, ok := ast.Unparen(call.Fun).(*ast.Ident); ok {
				if _, isB := info.Uses[id].(*types.Builtin); isB {
					return false
				}
			}
			return isSig
		}
		relevant := func(n ast.Node) bool {
			switch x := n.(type) {
			case *ast.CallExpr:
				if isDyn(x) {
					return true
				}
				g := CalleeOf(info, x)
				if g == nil {
					return false
				}
				if d, u := ss.call(g); d != 0 || u {
					return true
				}
				return vmAlwaysPanics(c, g)
			case *ast.Ident:
				return info.Uses[x] == nullK
			}
			return false
		}
		res := vmWalk(vmWalkOpts{fn: fn, replace: vmSlicer(relevant)})
		tops := map[token.Pos]bool{r.dispSw.Pos(): true}
		type site struct {
			unit           string
			pos            token.Pos
			guarded, naked int
			nakedWitness   string
			callee         string
		}
		sites := map[string]*site{}
		var order []string
		if !res.overflow {
			for i := range res.paths {
				p := &res.paths[i]
				if p.o.kind == cPanic {
					continue
				}
				u := vmUnitOf(info, tops, p)
				if u == "" || u == "default" {
					continue
				}
				ext := map[types.Object]string{} // variables holding a dynamic callback's result
				excl := map[types.Object]bool{}
				for _, e := range p.ev {
					switch e.K {
					case evAssign:
						if e.Rhs == nil {
							continue
						}
						if call, ok := ast.Unparen(e.Rhs).(*ast.CallExpr); ok && isDyn(call) {
							if o := vmObjOf(info, e.Lhs); o != nil && vmIsNamed(o.Type(), "homescript/runtime/value", "Value") {
								ext[o] = vmTrunc(exprStr(call.Fun), 40)
								delete(excl, o)
							}
						}
					case evCond:
						for _, cj := range r5emConjuncts(fn, e.X, e.Taken) {
							be, ok := ast.Unparen(cj).(*ast.BinaryExpr)
							if !ok || (be.Op != token.EQL && be.Op != token.NEQ) {
								continue
							}
							for o := range ext {
								var k *types.Const
								if vmMentionsObj(info, be.X, o) {
									k = ConstOf(info, be.Y)
								} else if vmMentionsObj(info, be.Y, o) {
									k = ConstOf(info, be.X)
								}
								if k == nullK && ((be.Op == token.NEQ) == e.Taken) {
									excl[o] = true
								}
							}
						}
					case evCall:
						if e.Fn == nil || e.Deferred {
							continue
						}
						if d, _ := ss.call(e.Fn); d <= 0 {
							continue
						}
						for _, a := range e.Call.Args {
							for o, callee := range ext {
								if !vmMentionsObj(info, a, o) {
									continue
								}
								k := u + "|" + callee
								s := sites[k]
								if s == nil {
									s = &site{unit: u, pos: e.Pos, callee: callee}
									sites[k] = s
									order = append(order, k)
								}
								if excl[o] {
									s.guarded++
								} else {
									s.naked++
									if s.nakedWitness == "" {
										s.nakedWitness = fmt.Sprintf("path [%s]", vmTrunc(p.decisions(), 200))
									}
								}
							}
						}
					}
				}
			}
		}
		sort.Strings(order)
		nCall := 0
		for _, k := range order {
			s := sites[k]
			var ks []string
			inCall := false
			for _, n := range strings.Split(strings.TrimPrefix(s.unit, "case "), ",") {
				ks = append(ks, n)
				for op := range callLoweringOps {
					if op.Name() == n {
						inCall = true
					}
				}
			}
			key := fmt.Sprintf("%s|%s|result of %s", r.dispatch.name, s.unit, s.callee)
			if !inCall {
				obs = append(obs, Obligation{Key: key + "|pushed by an opcode the call lowering does not emit", Pos: c.Pos(s.pos), Status: Info, Detail: "the lowering that emits this opcode consumes the result itself (not decided here)"})
				continue
			}
			nCall++
			ob := Obligation{Key: key + "|a value-less (null) result is not pushed: the statement lowering drops only results whose static type is not null", Pos: c.Pos(s.pos), Nontrivial: true}
			switch {
			case dropIsConditional && s.naked > 0:
				ob.Status = Violated
				ob.Detail = fmt.Sprintf("the result of the callback is pushed without a test that excludes the null kind (%s; %d guarded / %d unguarded pushing path(s)), while the compiler emits no drop for an expression statement whose static type is null (%s): every value-less builtin call in statement position (`time.sleep(..);`, `print(..);`) leaves one null on the operand stack — a loop of them ends in the stack-limit interrupt, and an enclosing expression reads a shifted stack", s.nakedWitness, s.guarded, s.naked, strings.Join(vmUniq(dropDesc), "; "))
			case !dropIsConditional && condDrop+uncondDrop > 0 && s.guarded > 0:
				ob.Status, ob.Detail = Violated, "the statement lowering drops the result unconditionally, but the VM pushes the callback's result only when it is not null: a value-less call underflows the operand stack"
			case condDrop+uncondDrop == 0:
				ob.Status, ob.Detail = Undecided, "no lowering tests the static type of a child against the null type before dropping its result: the drop rule of the compiler was not found"
			default:
				ob.Status, ob.Detail = Discharged, fmt.Sprintf("%d pushing path(s), each behind a test that the result's kind is not %s; %s", s.guarded, nullK.Name(), strings.Join(vmUniq(dropDesc), "; "))
			}
			obs = append(obs, ob)
		}
		if nCall == 0 {
			obs = append(obs, Obligation{Key: r.dispatch.name + "|callback results pushed by call opcodes", Status: Undecided, Detail: "no opcode of the call lowering pushes a value obtained from a Go callback: re-anchor the rule"})
		}
	}
	// round 6 (2b): opcodes of the call lowering that push on every completing path need a non-null static type
	obs = append(obs, r6emSpawnTyping(c, roles, r, nullTypeK, dropIsConditional, dropDesc)...)
	return obs
}

// r5emConjuncts: the atomic conditions a decided branch condition stands for: the condition
// itself, or — for a boolean local defined once by a conjunction (`ok := a && b; if ok`) that
// was decided TRUE — the conjuncts of its definition; a single comparison definition is followed
// for both outcomes.
func r5emConjuncts(fn *vmFn, cond ast.Expr, taken bool) []ast.Expr {
	cond = ast.Unparen(cond)
	id, ok := cond.(*ast.Ident)
	if !ok {
		return []ast.Expr{cond}
	}
	o := vmObjOf(fn.info, id)
	if o == nil {
		return []ast.Expr{cond}
	}
	def := vmSingleDef(fn, o)
	if def == nil {
		return []ast.Expr{cond}
	}
	var out []ast.Expr
	var split func(e ast.Expr)
	split = func(e ast.Expr) {
		e = ast.Unparen(e)
		if be, ok := e.(*ast.BinaryExpr); ok && be.Op == token.LAND {
			split(be.X)
			split(be.Y)
			return
		}
		out = append(out, e)
	}
	split(def)
	if len(out) > 1 && !taken {
		return []ast.Expr{cond} // a false conjunction decides nothing about its parts
	}
	return out
}

// r5emNeutralOps: opcodes whose dispatcher clause never touches the operand stack.
func r5emNeutralOps(c *Ctx) map[*types.Const]bool {
	r := vmRoles(c)
	info := r.dispatch.info
	out := map[*types.Const]bool{}
	ss := r2NewFieldSumm(c, r.fns, r.stack.field, r.stack)
	for _, cl := range r.dispSw.Body.List {
		cc := cl.(*ast.CaseClause)
		touches := false
		ast.Inspect(cc, func(n ast.Node) bool {
			switch x := n.(type) {
			case *ast.CallExpr:
				if g := CalleeOf(info, x); g != nil {
					if d, u := ss.call(g); d != 0 || u || ss.writes[g] {
						touches = true
					}
				}
			case *ast.SelectorExpr:
				if vmFieldOf(info, x) == r.stack.field {
					touches = true
				}
			}
			return !touches
		})
		if touches {
			continue
		}
		for _, e := range cc.List {
			if k := ConstOf(info, e); k != nil {
				out[k] = true
			}
		}
	}
	return out
}
