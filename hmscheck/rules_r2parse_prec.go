package main

import (
	"fmt"
	"go/ast"
	"go/constant"
	"go/token"
	"go/types"
	"sort"
	"strings"
)

// R-prec-operand-source (C07).
//
// R-prec fixes the tree *given* that every operand of an operator node is the
// result of the precedence-climbing entry E = Parser.expression(<power>) — the
// argument of DESIGN Appendix C is about E's loop. This rule decides that
// premise on every path: every slot of static type ast.Expression that the
// parser fills (field of a node literal, argument of an ast constructor,
// element appended to a []Expression, field store) takes its value from
//   A  a call of E with the power the position requires
//        - function converts the cursor with the infix / assignment table: the
//          operator's RIGHT power, read from the cursor before anything is consumed;
//        - function converts the cursor with the prefix table: a constant P,
//          max binary power <= P < left power of call / index / member;
//        - every other position: the constant 0 (a full expression) — builders
//          dispatched by the climbing loop may also use the operator's right power;
//   B  a parameter (the left operand handed over by the climbing loop);
//   C  nothing (zero value: optional child);
//   D  a primary parser in its restricted mode — a call h(const) where E itself
//      calls h with the opposite constant — and only in a function/context that
//      E does not select itself (match-arm patterns);
//   E  a recursive call of the same function (`else if` chain);
//   F  a field of another parser's result (unwrapping a sum);
//   G  a transparent wrapper of A (every successful return of the callee is E(p)).
// Anything else — in particular a primary parser called directly, chosen by
// looking at the next token — lets the postfix/infix operators that follow the
// operand attach to the ENCLOSING node: `-(a).b` becomes `(-(a)).b`.
// It also decides (op) that the operator stored in a node is the conversion of
// the cursor's kind taken before any token is consumed after the dispatch that
// selected the branch, and (loop) that each clause of the climbing loop hands
// the tree built so far to the builder and keeps the builder's result.

func init() {
	register(&Rule{ID: "R-prec-operand-source", Floor: 42, Run: ruleR2parseOperandSource,
		Doc: "premise of R-prec / DESIGN Appendix C, decided on every successful path of every parser method: each slot of type ast.Expression filled by the parser (node-literal field, ast-constructor argument, element appended to a []Expression, field store) comes from the precedence-climbing entry expression(<power>) with the power the position requires (infix/assignment builders: the operator's right power read from the cursor before anything is consumed; prefix builder: a constant between the binary levels and call/index/member; all other positions: 0), from a parameter (the left operand the climbing loop hands over), from nothing (optional child), from a primary parser in the restricted mode the climbing function itself never selects (match-arm patterns), from a recursive call of the same function (else-if chain), from a field of another parser's result, or from a transparent wrapper of expression(<power>). A primary parser called directly (e.g. chosen by peeking at the next token) ends the operand before the postfix/infix operators that follow it, which then attach to the enclosing node: `-(a).b` parses as `(-(a)).b`, breaking 'prefix operators bind looser than call, index and member access' and 'parentheses around a single node never change the tree' (C07). Also: the operator field of a node is the conversion of the cursor's kind read before any token is consumed after the dispatch; each clause of the climbing loop passes the tree built so far and keeps the builder's result."})
}

type r2parseSlotAgg struct {
	key    string
	pos    token.Pos
	status Status
	seen   int
	fails  []string
	notes  map[string]bool
}

type r2parseOperandRule struct {
	e         *r2parseEngine
	table     map[string]pxPair
	infixMap  *pxOpMap
	assignMap *pxOpMap
	prefixMap *pxOpMap
	memberMap *pxOpMap
	maxBinary int64
	minPost   int64
	postDesc  string
	eLabels   map[*types.Func]map[string]bool // labels of E's call sites per callee
	loopBuild map[*types.Func]bool            // functions called in the clauses of the climbing loop
	wrap      map[*types.Func]*r2parseWrapper
	family    map[*ast.FuncDecl]bool // the climbing method, its transparent wrappers, their first-operand parsers
	curDom    *pxOpMap               // conversion table applied by the function being classified (infix / assignment)
	fwd       map[string]bool        // memo of forwardsTo
	producers map[*types.Func]bool   // methods whose result is an operand of the climbing loop (primary parsers, transitively)
	aggs      map[string]*r2parseSlotAgg
	order     []string
}

type r2parseWrapper struct {
	ok    bool
	busy  bool
	power *r2parseVal // r2parseConst / r2parsePrecV / r2parseParam (index in paramIdx)
	pidx  int
	why   string
}

func ruleR2parseOperandSource(c *Ctx) []Obligation {
	e := r2parseEngineOf(c)
	var obs []Obligation
	e.stable(func() { obs = r2parseOperandSource(e) })
	return obs
}

func (R *r2parseOperandRule) agg(key string, pos token.Pos) *r2parseSlotAgg {
	a := R.aggs[key]
	if a == nil {
		a = &r2parseSlotAgg{key: key, pos: pos, status: Discharged, notes: map[string]bool{}}
		R.aggs[key] = a
		R.order = append(R.order, key)
	}
	return a
}

func (a *r2parseSlotAgg) fail(st Status, msg string) {
	rank := func(s Status) int {
		switch s {
		case Violated:
			return 3
		case Undecided:
			return 2
		}
		return 1
	}
	if rank(st) > rank(a.status) {
		a.status = st
	}
	for _, f := range a.fails {
		if f == msg {
			return
		}
	}
	if len(a.fails) < 6 {
		a.fails = append(a.fails, msg)
	}
}

func (e *r2parseEngine) labelOfCall(fn *types.Func, call *ast.CallExpr) string {
	info := e.info
	sig := fn.Type().(*types.Signature)
	decl := e.sp.decls[fn]
	var parts []string
	for i := 0; i < sig.Params().Len() && i < len(call.Args); i++ {
		if b, ok := sig.Params().At(i).Type().Underlying().(*types.Basic); !ok || b.Kind() != types.Bool {
			continue
		}
		if decl == nil || !e.steers(decl, sig.Params().At(i)) {
			continue // a flag that is only stored selects no path
		}
		if tv := info.Types[call.Args[i]]; tv.Value != nil && tv.Value.Kind() == constant.Bool {
			c := "F"
			if constant.BoolVal(tv.Value) {
				c = "T"
			}
			parts = append(parts, sig.Params().At(i).Name()+"="+c)
		} else {
			parts = append(parts, sig.Params().At(i).Name()+"=?")
		}
	}
	if len(parts) == 0 {
		return ""
	}
	return "[" + strings.Join(parts, ",") + "]"
}

func r2parseOperandSource(e *r2parseEngine) []Obligation {
	c := e.c
	px := e.px
	R := &r2parseOperandRule{e: e, eLabels: map[*types.Func]map[string]bool{}, loopBuild: map[*types.Func]bool{}, wrap: map[*types.Func]*r2parseWrapper{}, aggs: map[string]*r2parseSlotAgg{}}
	var obs []Obligation
	table, _, _, _ := px.extractPrec()
	R.table = table
	for _, m := range px.opMaps() {
		switch {
		case m.m[px.byDisp["="]] != "" && m.m[px.byDisp["+="]] != "":
			R.assignMap = m
		case m.m[px.byDisp["+"]] != "" && m.m[px.byDisp["*"]] != "":
			R.infixMap = m
		case m.m[px.byDisp["!"]] != "":
			R.prefixMap = m
		case m.m[px.byDisp["."]] != "":
			R.memberMap = m
		}
	}
	if R.assignMap == nil || R.infixMap == nil || R.prefixMap == nil || R.memberMap == nil {
		fatalf("anchor unresolved: token→operator conversions (assign/infix/prefix/member) in parser/ast")
	}
	// bounds of the prefix operand power
	for _, lv := range pxPrecLevels {
		var kinds []string
		if lv.lexemes == nil {
			for k := range R.assignMap.m {
				kinds = append(kinds, k)
			}
		}
		for _, lx := range lv.lexemes {
			if k := px.byDisp[lx]; k != "" {
				kinds = append(kinds, k)
			}
		}
		for _, k := range kinds {
			p := table[k]
			if p.l > R.maxBinary {
				R.maxBinary = p.l
			}
			if p.r > R.maxBinary {
				R.maxBinary = p.r
			}
		}
	}
	R.minPost = 1 << 30
	var post []string
	for _, k := range []string{px.byDisp["("], px.byDisp["["]} {
		post = append(post, k)
	}
	for k := range R.memberMap.m {
		post = append(post, k)
	}
	sort.Strings(post)
	for _, k := range post {
		if p, ok := table[k]; ok && p.l != 0 && p.l < R.minPost {
			R.minPost = p.l
			R.postDesc = fmt.Sprintf("%s %q", k, px.display[k])
		}
	}
	// the climbing family: the climbing method itself, the transparent wrappers of it
	// (entry points such as expression(p) = climb(start, primary(), p)) and the methods
	// those wrappers call to obtain the first operand. Their call sites are "the contexts
	// the climbing function selects".
	R.family = map[*ast.FuncDecl]bool{e.exprFd: true}
	for _, fd := range e.fds {
		if fn := e.fnOf[fd]; fn != e.exprFn && R.wrapperOf(fn).ok {
			R.family[fd] = true
			ast.Inspect(fd.Body, func(n ast.Node) bool {
				if call, ok := n.(*ast.CallExpr); ok {
					if g := CalleeOf(e.info, call); g != nil && g != e.exprFn && e.sp.isConsumer(g) && g != e.sp.next && !e.px.expectF[g] {
						if gs := g.Type().(*types.Signature); gs.Results().Len() > 0 && types.Identical(gs.Results().At(0).Type(), e.exprT) {
							if gd := e.sp.decls[g]; gd != nil {
								R.family[gd] = true
							}
						}
					}
				}
				return true
			})
		}
	}
	for fd := range R.family {
		inE := fd == e.exprFd
		ast.Inspect(fd.Body, func(n ast.Node) bool {
			call, ok := n.(*ast.CallExpr)
			if !ok {
				return true
			}
			fn := CalleeOf(e.info, call)
			if fn == nil || !e.sp.isConsumer(fn) {
				return true
			}
			if R.eLabels[fn] == nil {
				R.eLabels[fn] = map[string]bool{}
			}
			R.eLabels[fn][e.labelOfCall(fn, call)] = true
			if inE && call.Pos() > e.loop.Body.Lbrace && call.End() < e.loop.Body.Rbrace && fn != e.exprFn {
				// a builder: receives the tree built so far
				sig := fn.Type().(*types.Signature)
				for i := 0; i < sig.Params().Len(); i++ {
					if types.Identical(sig.Params().At(i).Type(), e.exprT) {
						R.loopBuild[fn] = true
					}
				}
			}
			return true
		})
	}

	R.producers = R.operandProducers()
	exprSlice := types.NewSlice(e.exprT)
	for _, fd := range e.fds {
		fn := e.fnOf[fd]
		cxs := e.contextsOf(fd)
		for _, cx := range cxs {
			fkey := e.funcKey(fd) + cx.label
			// is this context one the climbing function selects itself?
			selectedByE := false
			for _, in := range cx.inFd {
				if R.family[in] {
					selectedByE = true
				}
			}
			if len(cx.sites) == 0 {
				selectedByE = R.family[fd]
			}
			class := R.classOf(fd)
			R.curDom = R.domOf(fd)
			run := e.newRun(fd, cx.consts)
			slot := func(st *r2parseState, name string, pos token.Pos, v *r2parseVal) {
				if fd == e.exprFd && v.k == r2parseCall && v.call != nil && v.idx == 0 && v.call.Pos() < e.loop.Pos() &&
					pos > e.loop.Body.Lbrace && pos < e.loop.Body.Rbrace {
					// a builder inlined into the climbing loop: the operand is the tree built so far
					v = &r2parseVal{k: r2parseNode, desc: "the tree built before the loop (" + v.desc + ")"}
				}
				st.pend = append(st.pend, r2parsePend{key: fkey + "|" + name, what: "slot", pos: pos, v: v})
			}
			run.obs.lit = func(st *r2parseState, lit *ast.CompositeLit, v *r2parseVal) {
				s := r2parseStructOf(v.typ)
				if s == nil {
					return
				}
				tn := spTypeName(v.typ)
				for i := 0; i < s.NumFields(); i++ {
					f := s.Field(i)
					fv, set := v.fields[f.Name()]
					switch {
					case types.Identical(f.Type(), e.exprT):
						if !set {
							fv = &r2parseVal{k: r2parseZero, desc: "field omitted"}
						}
						slot(st, tn+"."+f.Name(), lit.Pos(), fv)
					case types.Identical(f.Type(), exprSlice) && set && fv.k == r2parseSlice:
						// elements are decided where they are appended
					}
					if n, ok := f.Type().(*types.Named); ok && e.convOf[n] != nil && set {
						st.pend = append(st.pend, r2parsePend{key: fkey + "|" + tn + "." + f.Name() + " (operator)", what: "op", pos: lit.Pos(), v: fv, aux: n.Obj().Name()})
					}
				}
			}
			run.obs.call = func(st *r2parseState, call *ast.CallExpr, callee *types.Func, builtin string, args []*r2parseVal) {
				if builtin == "append" && len(args) > 1 && call.Ellipsis == token.NoPos {
					if t := e.info.Types[call].Type; t != nil && types.Identical(t, exprSlice) {
						dest := exprStr(call.Args[0])
						for _, a := range args[1:] {
							slot(st, "element appended to "+dest, call.Pos(), a)
						}
					}
					return
				}
				if callee == nil {
					return
				}
				sig := callee.Type().(*types.Signature)
				isCtor := callee.Pkg() != nil && callee.Pkg().Path() == e.sp.astPkg
				for i, a := range args {
					if i >= sig.Params().Len() {
						break
					}
					pt := sig.Params().At(i).Type()
					if isCtor && types.Identical(pt, e.exprT) {
						slot(st, callee.Name()+"("+sig.Params().At(i).Name()+")", call.Pos(), a)
					}
					if n, ok := pt.(*types.Named); ok && e.convOf[n] != nil && e.sp.isConsumer(callee) {
						st.pend = append(st.pend, r2parsePend{key: fkey + "|argument " + sig.Params().At(i).Name() + " of " + callee.Name() + " (operator)", what: "op", pos: call.Pos(), v: a, aux: n.Obj().Name()})
					}
				}
			}
			run.obs.store = func(st *r2parseState, as *ast.AssignStmt, lhs ast.Expr, root types.Object, path []string, v *r2parseVal) {
				if t := e.info.Types[lhs].Type; t != nil && types.Identical(t, e.exprT) {
					owner := "?"
					if sel, ok := ast.Unparen(lhs).(*ast.SelectorExpr); ok {
						owner = spTypeName(e.info.Types[sel.X].Type)
					}
					slot(st, owner+"."+path[len(path)-1]+" (store)", as.Pos(), v)
				}
			}
			run.obs.exit = func(st *r2parseState, o outcome, success bool, results []*r2parseVal) {
				if !success {
					return
				}
				for _, p := range st.pend {
					a := R.agg(p.key, p.pos)
					a.seen++
					switch p.what {
					case "slot":
						status, msg := R.classify(run, cx, selectedByE, class, st, p.v)
						if status == Discharged {
							a.notes[msg] = true
						} else {
							a.fail(status, msg+" on path "+st.path())
						}
					case "op":
						status, msg := R.classifyOp(p.aux, p.v)
						if status == Discharged {
							a.notes[msg] = true
						} else {
							a.fail(status, msg+" on path "+st.path())
						}
					}
				}
				if fd == e.exprFd {
					R.checkLoop(st, results)
				}
				// (a producer that merely forwards expression(p) — a transparent wrapper — is an operand
				// producer all the same: only the climbing method itself is exempt)
				if R.producers[fn] && !R.loopBuild[fn] && fd != e.exprFd && class != "prefix" && class != "right" {
					R.checkTail(fkey, fd, st)
				}
			}
			run.walk()
			for _, u := range run.undec {
				a := R.agg(fkey+"|walk", fd.Pos())
				a.fail(Undecided, u)
			}
			_ = fn
		}
	}
	// E must pass constants for the mode flags of the methods it calls
	{
		var fns []*types.Func
		for fn := range R.eLabels {
			fns = append(fns, fn)
		}
		sort.Slice(fns, func(i, j int) bool { return fns[i].Name() < fns[j].Name() })
		for _, fn := range fns {
			var ls []string
			bad := false
			for l := range R.eLabels[fn] {
				ls = append(ls, l)
				if strings.Contains(l, "=?") {
					bad = true
				}
			}
			sort.Strings(ls)
			if len(ls) == 1 && ls[0] == "" {
				continue
			}
			o := Obligation{Key: e.funcKey(e.exprFd) + "|mode flags passed to " + fn.Name() + " are constants", Pos: c.Pos(e.exprFd.Pos()), Status: Discharged, Nontrivial: true,
				Detail: "contexts selected by the climbing function: " + strings.Join(ls, " ")}
			if bad {
				o.Status = Violated
				o.Detail = "the climbing function passes a non-constant mode flag to " + fn.Name() + ": the restricted (non-climbing) operand source of that method becomes reachable from ordinary expressions"
			}
			obs = append(obs, o)
		}
	}
	for _, k := range R.order {
		a := R.aggs[k]
		o := Obligation{Key: a.key, Pos: c.Pos(a.pos), Status: a.status, Nontrivial: true}
		if a.status == Discharged {
			var ns []string
			for n := range a.notes {
				ns = append(ns, n)
			}
			sort.Strings(ns)
			o.Detail = fmt.Sprintf("%s (%d successful path visits)", strings.Join(ns, " | "), a.seen)
		} else {
			o.Detail = strings.Join(a.fails, " || ")
		}
		obs = append(obs, o)
	}
	obs = append(obs, Obligation{Key: "summary|prefix operand power bounds", Pos: "-", Status: Info,
		Detail: fmt.Sprintf("max binary power %d <= P < %d (left power of %s); climbing loop builders: %s", R.maxBinary, R.minPost, R.postDesc, r2parseFuncNames(R.loopBuild))})
	return obs
}

func r2parseFuncNames(m map[*types.Func]bool) string {
	var out []string
	for f := range m {
		out = append(out, f.Name())
	}
	sort.Strings(out)
	return strings.Join(out, ", ")
}

// classOf: which power the operand positions of fd require.
//
//	"right"  fd converts the cursor with the infix / assignment table
//	"prefix" fd converts the cursor with the prefix table
//	"loop"   fd is dispatched by a clause of the climbing loop (range, call, index, member, cast)
//	"zero"   everything else
func (R *r2parseOperandRule) classOf(fd *ast.FuncDecl) string {
	e := R.e
	class := "zero"
	if R.loopBuild[e.fnOf[fd]] {
		class = "loop"
	}
	ast.Inspect(fd.Body, func(n ast.Node) bool {
		call, ok := n.(*ast.CallExpr)
		if !ok || len(call.Args) != 1 {
			return true
		}
		switch CalleeOf(e.info, call) {
		case R.infixMap.fn, R.assignMap.fn:
			class = "right"
		case R.prefixMap.fn:
			class = "prefix"
		}
		return true
	})
	return class
}

func (R *r2parseOperandRule) checkPower(class string, pv *r2parseVal) (bool, string) {
	if pv == nil {
		return false, "expression() called without a power"
	}
	rightOK := func() (bool, string) {
		switch {
		case pv.k != r2parsePrecV:
			return false, fmt.Sprintf("the operand power %s is not read from <current token>.Kind.Prec()", pv)
		case pv.idx != 1:
			return false, "the right operand is parsed with the operator's LEFT power (result #1 of Prec), not its right power; " + R.flipWitness()
		case pv.at != nil && pv.at.off == -1 && pv.at.D == 1 && pv.at.U == 1:
			// read from the previous token after exactly the operator was consumed: the operator's power
		case pv.at == nil || pv.at.U != 0 || pv.at.off != 0:
			return false, fmt.Sprintf("the operand power is read from the cursor after up to %d token(s) were consumed: it is the power of a token FOLLOWING the operator", pv.at.U)
		}
		return true, "expression(right power of the operator, read before it is consumed)"
	}
	switch class {
	case "right":
		return rightOK()
	case "prefix":
		if pv.k != r2parseConst || pv.cst.Kind() != constant.Int {
			return false, fmt.Sprintf("the prefix operand power %s is not a constant", pv)
		}
		P, _ := constant.Int64Val(pv.cst)
		if P < R.maxBinary {
			return false, fmt.Sprintf("prefix operand power %d is below the binary power %d: `-a op b` parses as `-(a op b)` for the levels above %d", P, R.maxBinary, P)
		}
		if P >= R.minPost {
			return false, fmt.Sprintf("prefix operand power %d is not below the left power %d of %s: the prefix operator is applied before the postfix operator", P, R.minPost, R.postDesc)
		}
		return true, fmt.Sprintf("expression(%d): %d <= %d < %d", P, R.maxBinary, P, R.minPost)
	case "loop":
		if pv.k == r2parsePrecV {
			return rightOK()
		}
		fallthrough
	default:
		if pv.k != r2parseConst || pv.cst.Kind() != constant.Int {
			return false, fmt.Sprintf("the power %s of a non-operator position is not the constant 0", pv)
		}
		P, _ := constant.Int64Val(pv.cst)
		if P != 0 {
			return false, fmt.Sprintf("a delimited position is parsed with expression(%d): operators with a left power <= %d are refused there although the grammar allows a full expression", P, P)
		}
		return true, "expression(0)"
	}
}

// wrapperOf: is h a transparent wrapper of E, i.e. does every successful
// return of h deliver E(p) with one and the same p (constant, a power read from
// the cursor before anything is consumed, or a parameter of h)?
func (R *r2parseOperandRule) wrapperOf(h *types.Func) *r2parseWrapper {
	if w := R.wrap[h]; w != nil {
		return w
	}
	e := R.e
	w := &r2parseWrapper{busy: true}
	R.wrap[h] = w
	fd := e.sp.decls[h]
	if fd == nil || fd.Body == nil || h == e.exprFn {
		w.busy = false
		return w
	}
	run := e.newRun(fd, nil)
	n := 0
	good := true
	sig := h.Type().(*types.Signature)
	var sigDesc string
	run.obs.exit = func(st *r2parseState, o outcome, success bool, results []*r2parseVal) {
		if !success {
			return
		}
		n++
		if len(results) == 0 || results[0].k != r2parseCall || results[0].fn != e.exprFn || len(results[0].args) <= e.precIdx || results[0].idx != 0 {
			good = false
			return
		}
		pv := results[0].args[e.precIdx]
		d := ""
		switch pv.k {
		case r2parseConst:
			d = "const " + pv.cst.ExactString()
		case r2parsePrecV:
			d = fmt.Sprintf("prec#%d@%d", pv.idx, pv.at.U)
		case r2parseParam:
			d = "param " + pv.obj.Name()
			for i := 0; i < sig.Params().Len(); i++ {
				if sig.Params().At(i) == pv.obj {
					w.pidx = i
				}
			}
		default:
			good = false
			return
		}
		if sigDesc == "" {
			sigDesc = d
			w.power = pv
		} else if sigDesc != d {
			good = false
		}
	}
	run.walk()
	w.busy = false
	w.ok = good && n > 0 && len(run.undec) == 0
	return w
}

func (R *r2parseOperandRule) classify(run *r2parseRun, cx *r2parseContext, selectedByE bool, class string, st *r2parseState, v *r2parseVal) (Status, string) {
	e := R.e
	switch v.k {
	case r2parseCall:
		if v.idx != 0 {
			return Violated, fmt.Sprintf("the operand is result #%d of %s(), not a tree", v.idx+1, v.fn.Name())
		}
		if v.fn == e.exprFn {
			var pv *r2parseVal
			if len(v.args) > e.precIdx {
				pv = v.args[e.precIdx]
			}
			ok, msg := R.checkPower(class, pv)
			if !ok {
				return Violated, msg
			}
			return Discharged, msg
		}
		if w := R.wrapperOf(v.fn); w.ok && !w.busy {
			pv := w.power
			if pv.k == r2parseParam {
				if w.pidx < len(v.args) {
					pv = v.args[w.pidx]
				} else {
					pv = nil
				}
			} else if pv.k == r2parsePrecV {
				// read inside the wrapper: as many tokens may have been consumed as the caller consumed before the call
				c := *pv
				at := *pv.at
				at.U = spSat(at.U, v.at.U)
				c.at = &at
				pv = &c
			}
			ok, msg := R.checkPower(class, pv)
			if !ok {
				return Violated, "via wrapper " + v.fn.Name() + "(): " + msg
			}
			return Discharged, "via wrapper " + v.fn.Name() + "(): " + msg
		}
		label := e.labelOfCall(v.fn, v.call)
		if label != "" && !strings.Contains(label, "=?") && len(R.eLabels[v.fn]) > 0 && !R.eLabels[v.fn][label] {
			if selectedByE {
				return Violated, fmt.Sprintf("the operand is parsed by %s%s — the restricted mode the climbing function never selects — inside a function/context the climbing function calls itself: ordinary expressions get the restricted operand grammar", v.fn.Name(), label)
			}
			return Discharged, fmt.Sprintf("restricted position: %s%s (the climbing function only selects %s)", v.fn.Name(), label, r2parseLabelSet(R.eLabels[v.fn]))
		}
		if v.fn == run.fn {
			return Discharged, "recursive chain: " + v.fn.Name() + "()"
		}
		if R.forwardsTo(v.fn, run.fn, 0) {
			return Discharged, "recursive chain through the forwarding helper " + v.fn.Name() + "()"
		}
		return Violated, fmt.Sprintf("the operand is the result of %s() called directly, not of %s(<power>): the operand ends where %s() ends, so the call/index/member/infix operators that follow it are not consumed at this position's binding power and attach to the enclosing node instead", v.fn.Name(), e.exprFn.Name(), v.fn.Name())
	case r2parseParam:
		return Discharged, "parameter " + v.obj.Name() + " (operand handed over by the caller)"
	case r2parseZero:
		return Discharged, "optional (zero on some path)"
	case r2parseField:
		b := v.base
		for b != nil && b.k == r2parseField {
			b = b.base
		}
		if b != nil && b.k == r2parseCall {
			return Discharged, "field " + v.sel + " of the result of " + b.fn.Name() + "()"
		}
		if b != nil && b.k == r2parseParam {
			// a component of the operand the caller handed over (p.(T).F, also after p = p.(T).F in a loop):
			// still that operand's tree, minus a wrapper that carries no meaning
			return Discharged, "component " + v.sel + " of parameter " + b.obj.Name() + " (operand handed over by the caller)"
		}
		return Undecided, "operand is " + v.desc + ": provenance not understood"
	case r2parseNode:
		return Discharged, "synthesised node " + v.desc
	}
	return Undecided, "operand is " + v.String() + ": provenance not understood"
}

func r2parseLabelSet(m map[string]bool) string {
	var out []string
	for l := range m {
		if l == "" {
			l = "[]"
		}
		out = append(out, l)
	}
	sort.Strings(out)
	return strings.Join(out, " ")
}

// classifyOp: the operator stored in a node / passed to a builder.
func (R *r2parseOperandRule) classifyOp(enum string, v *r2parseVal) (Status, string) {
	switch v.k {
	case r2parseConst:
		return Violated, fmt.Sprintf("the operator is the constant %s, not the conversion of the token that selected the branch: every operator of the group is parsed as %s", v.desc, v.desc)
	case r2parseParam:
		return Discharged, "parameter " + v.obj.Name() + " (decided at the call site)"
	case r2parseConv:
		if m := R.e.convs[v.fn]; m == nil || m.enum.Obj().Name() != enum {
			return Violated, fmt.Sprintf("operator of type %s produced by %s", enum, v.fn.Name())
		}
		if v.at == nil {
			return Violated, fmt.Sprintf("%s is applied to %s, not to the kind of a token of the cursor", v.fn.Name(), v.args[0])
		}
		if !v.ofCursor {
			return Violated, fmt.Sprintf("%s converts the %s, read after up to %d token(s) were consumed since the branch was selected: that is not the token the dispatch looked at, the node gets the operator of a different token", v.fn.Name(), v.at, v.sinceDisp)
		}
		return Discharged, v.fn.Name() + "(kind of the token the dispatch looked at)"
	}
	return Undecided, "operator value " + v.String() + ": provenance not understood"
}

// checkLoop: on a path of E that ran one iteration of the climbing loop the
// result is the builder's result and the builder received the previous tree.
func (R *r2parseOperandRule) checkLoop(st *r2parseState, results []*r2parseVal) {
	e := R.e
	inLoop := func(p token.Pos) bool { return p > e.loop.Body.Lbrace && p < e.loop.Body.Rbrace }
	var iter *r2parseVal
	for _, m := range st.made {
		if m.call != nil && inLoop(m.call.Pos()) && R.loopBuild[m.fn] {
			iter = m
		}
	}
	if iter == nil || len(results) == 0 {
		return // no iteration, a builder inlined into the loop, or the default clause of the loop's switch (error path)
	}
	key := e.funcKey(e.exprFd) + "|climbing loop clause → " + iter.fn.Name() + "|receives the tree built so far, result kept"
	a := R.agg(key, iter.call.Pos())
	a.seen++
	res := results[0]
	if res.k != r2parseCall || res.call != iter.call {
		if res.k == r2parseCall && res.fn != nil && !R.loopBuild[res.fn] && inLoop(res.call.Pos()) {
			return // default clause (error path)
		}
		a.fail(Violated, fmt.Sprintf("after an iteration that called %s() the function returns %s: the operator node is dropped; path %s", iter.fn.Name(), res, st.path()))
		return
	}
	sig := iter.fn.Type().(*types.Signature)
	okTree, okStart := false, true
	for i, arg := range iter.args {
		if i >= sig.Params().Len() {
			break
		}
		pt := sig.Params().At(i).Type()
		if types.Identical(pt, e.exprT) {
			if (arg.k == r2parseCall && arg.call != nil && arg.call.Pos() < e.loop.Pos() && arg.idx == 0) || (arg.k == r2parseParam && types.Identical(arg.typ, e.exprT)) {
				okTree = true
			} else {
				a.fail(Violated, fmt.Sprintf("the left operand passed to %s() is %s, not the tree parsed before the loop; path %s", iter.fn.Name(), arg, st.path()))
				return
			}
		}
		if types.Identical(pt, e.sp.locT) {
			if ok, _ := r2parseEntryStart(arg); !ok {
				okStart = false
				a.fail(Violated, fmt.Sprintf("the start location passed to %s() is %s, not the start of the first token of the expression; path %s", iter.fn.Name(), arg, st.path()))
			}
		}
	}
	if !okTree {
		a.fail(Violated, fmt.Sprintf("%s() does not receive the tree built so far; path %s", iter.fn.Name(), st.path()))
		return
	}
	if okStart {
		a.notes["lhs' = "+iter.fn.Name()+"(start of the expression, lhs)"] = true
	}
}

// domOf: the infix / assignment conversion table fd applies (nil: none).
func (R *r2parseOperandRule) domOf(fd *ast.FuncDecl) *pxOpMap {
	e := R.e
	var dom *pxOpMap
	ast.Inspect(fd.Body, func(n ast.Node) bool {
		if call, ok := n.(*ast.CallExpr); ok && len(call.Args) == 1 {
			switch CalleeOf(e.info, call) {
			case R.infixMap.fn:
				dom = R.infixMap
			case R.assignMap.fn:
				dom = R.assignMap
			}
		}
		return true
	})
	return dom
}

// flipWitness evaluates the climbing rule on every ordered pair (operator of the
// builder's table, following operator) with the right and with the left power
// as the operand's minimum and names the pairs whose grouping differs.
func (R *r2parseOperandRule) flipWitness() string {
	px := R.e.px
	if R.curDom == nil {
		return "the operand ends at the wrong operator for every following operator whose left power lies between the two numbers"
	}
	var firsts, seconds []string
	for k := range R.curDom.m {
		if p, ok := R.table[k]; ok && p.l != 0 {
			firsts = append(firsts, k)
		}
	}
	for k, p := range R.table {
		if p.l != 0 {
			seconds = append(seconds, k)
		}
	}
	sort.Strings(firsts)
	sort.Strings(seconds)
	var ex []string
	n := 0
	for _, k1 := range firsts {
		for _, k2 := range seconds {
			p1, p2 := R.table[k1], R.table[k2]
			withRight, withLeft := p2.l > p1.r, p2.l > p1.l
			if withRight == withLeft {
				continue
			}
			n++
			if len(ex) < 4 {
				o1, o2 := px.display[k1], px.display[k2]
				good, bad := fmt.Sprintf("(a %s b) %s c", o1, o2), fmt.Sprintf("a %s (b %s c)", o1, o2)
				if withRight {
					good, bad = bad, good
				}
				ex = append(ex, fmt.Sprintf("`a %s b %s c` is %s by the table (%s right %d, %s left %d) but is built as %s", o1, o2, good, o1, p1.r, o2, p2.l, bad))
			}
		}
	}
	if n == 0 {
		return "with today's table no operator pair changes its grouping, but the tree then depends on the LEFT column where the argument of DESIGN Appendix C needs the right one"
	}
	return fmt.Sprintf("%d ordered operator pair(s) change their grouping: %s", n, strings.Join(ex, "; "))
}

// operandProducers: the methods whose result becomes the first operand of the
// climbing loop — called by the climbing family outside the loop with a node
// result — and, transitively, the methods whose result those forward
// (`return self.g()`, `x, err := self.g(); … return x, …`).
func (R *r2parseOperandRule) operandProducers() map[*types.Func]bool {
	e := R.e
	out := map[*types.Func]bool{}
	var work []*types.Func
	add := func(g *types.Func) {
		if g == nil || out[g] || g == e.exprFn || !e.sp.isConsumer(g) || e.sp.decls[g] == nil {
			return
		}
		sig := g.Type().(*types.Signature)
		if sig.Results().Len() == 0 || !e.isNodeType(sig.Results().At(0).Type()) {
			return
		}
		if _, isSlice := sig.Results().At(0).Type().Underlying().(*types.Slice); isSlice {
			return
		}
		out[g] = true
		work = append(work, g)
	}
	var fams []*ast.FuncDecl
	for fd := range R.family {
		fams = append(fams, fd)
	}
	sort.Slice(fams, func(i, j int) bool { return fams[i].Pos() < fams[j].Pos() })
	for _, fd := range fams {
		ast.Inspect(fd.Body, func(n ast.Node) bool {
			if call, ok := n.(*ast.CallExpr); ok {
				if fd == e.exprFd && call.Pos() > e.loop.Body.Lbrace && call.End() < e.loop.Body.Rbrace {
					return true
				}
				add(CalleeOf(e.info, call))
			}
			return true
		})
	}
	for len(work) > 0 {
		g := work[0]
		work = work[1:]
		fd := e.sp.decls[g]
		if fd == nil || fd.Body == nil {
			continue
		}
		// locals defined as result #0 of a parser-method call
		from := map[types.Object]*types.Func{}
		ast.Inspect(fd.Body, func(n ast.Node) bool {
			if as, ok := n.(*ast.AssignStmt); ok && len(as.Rhs) == 1 && len(as.Lhs) >= 1 {
				if call, ok := ast.Unparen(as.Rhs[0]).(*ast.CallExpr); ok {
					if id, ok := as.Lhs[0].(*ast.Ident); ok && id.Name != "_" {
						o := e.info.Defs[id]
						if o == nil {
							o = e.info.Uses[id]
						}
						if o != nil {
							from[o] = CalleeOf(e.info, call)
						}
					}
				}
			}
			return true
		})
		ast.Inspect(fd.Body, func(n ast.Node) bool {
			if _, ok := n.(*ast.FuncLit); ok {
				return false
			}
			ret, ok := n.(*ast.ReturnStmt)
			if !ok || len(ret.Results) == 0 {
				return true
			}
			switch x := ast.Unparen(ret.Results[0]).(type) {
			case *ast.CallExpr:
				if tv, ok := e.info.Types[x.Fun]; ok && tv.IsType() && len(x.Args) == 1 {
					if c2, ok := ast.Unparen(x.Args[0]).(*ast.CallExpr); ok {
						add(CalleeOf(e.info, c2))
					}
				} else {
					add(CalleeOf(e.info, x))
				}
			case *ast.Ident:
				add(from[e.info.Uses[x]])
			}
			return true
		})
	}
	return out
}

// checkTail: an operand producer must not END with a call of the climbing entry
// (directly or through a transparent wrapper): after its last full expression the
// construct consumes, or at least tests for, a token of its own. Otherwise the
// construct is not an operand any more — the nested expression(0) swallows every
// operator that follows the construct.
func (R *r2parseOperandRule) checkTail(fkey string, fd *ast.FuncDecl, st *r2parseState) {
	e := R.e
	a := R.agg(fkey+"|(tail) the construct is delimited after its last full expression", fd.Pos())
	a.seen++
	for _, m := range st.made {
		if m.fn != e.exprFn {
			if w := R.wrapperOf(m.fn); !w.ok || w.busy {
				continue
			}
		}
		if m.end == nil || m.end.lb == nil || st.lastCons > m.end.lb.seq {
			continue
		}
		a.fail(Violated, fmt.Sprintf("%s() is an operand of the precedence-climbing loop but ends with %s at %s and consumes nothing after it: the nested full expression takes every operator that follows the construct (`X … + 1` parses as `X … (… + 1)`), the construct is no longer a single operand; path %s",
			e.fnOf[fd].Name(), m.desc, e.c.Pos(m.call.Pos()), st.path()))
		return
	}
	if a.status == Discharged {
		a.notes["no successful path ends with a call of the climbing entry"] = true
	}
}

// forwardsTo: every successful return of h delivers the result of a call of target
// (possibly through further forwarding helpers).
func (R *r2parseOperandRule) forwardsTo(h, target *types.Func, depth int) bool {
	e := R.e
	fd := e.sp.decls[h]
	if fd == nil || fd.Body == nil || h == e.exprFn || depth > 3 {
		return false
	}
	key := h.Name() + "→" + target.Name()
	if v, ok := R.fwd[key]; ok {
		return v
	}
	if R.fwd == nil {
		R.fwd = map[string]bool{}
	}
	R.fwd[key] = false
	run := e.newRun(fd, nil)
	n, good := 0, true
	run.obs.exit = func(st *r2parseState, o outcome, success bool, results []*r2parseVal) {
		if !success {
			return
		}
		n++
		if len(results) == 0 || results[0].k != r2parseCall || results[0].idx != 0 || results[0].fn == nil {
			good = false
			return
		}
		if g := results[0].fn; g != target && !R.forwardsTo(g, target, depth+1) {
			good = false
		}
	}
	run.walk()
	R.fwd[key] = good && n > 0 && len(run.undec) == 0
	return R.fwd[key]
}
