package main

import (
	"fmt"
	"sort"
	"strings"
)

// r5sib — part of R-decl-unify: types declared by the CONTEXT of a construct.
//
// A return statement has no declared type of its own: the type it must yield is the result type of the function
// it stands in (self.currentModule.CurrentFunction.ReturnType); a trigger statement's callback must fit the
// callback type of the trigger it names (a lookup). Such an expected type does not come from the node, so it
// exists on every path of the construct's analysis. Condition: every path through the function either passes a
// TypeCheck against that expected type or has reported an error (the construct is rejected anyway: the return
// outside of a function, the unknown trigger). A path that does neither accepts the construct unchecked — the
// value-less `return;` in a function that must yield a value.

func r5sibCtxUnifyObligations(c *Ctx) []Obligation {
	e := r2sibEngineOf(c)
	p := c.Pkg("homescript/analyzer")
	var out []Obligation
	for _, fd := range AllFuncDecls(p) {
		if fd.Body == nil {
			continue
		}
		f := r2sibFuncOf(c, p, fd)
		if f.fn == nil || f.fn == e.roles.typeCheck {
			continue
		}
		e.busy[f.fn] = true
		sum := e.extract(f, fd.Body.List, r2sibOpts{NoInline: true, Calls: r4ksAnyCall, Only: map[string]bool{"TypeCheck": true, "error": true, "call": true, "panic": true}}, 0)
		delete(e.busy, f.fn)
		// expected types taken from the context: rooted at the analyzer itself, not at the node, not built on the spot
		byExp := map[string][]*r2sibEvent{}
		var exps []string
		for _, ev := range sum.events {
			if ev.Kind != "TypeCheck" {
				continue
			}
			exp := ev.Attrs["exp"]
			if !strings.HasPrefix(exp, "self.") || strings.Contains(exp, "desc[") {
				continue
			}
			// the context object, without the adapters applied to it: self.a.b(...)#0.Field
			root := exp
			if i := strings.Index(root, ".SetSpan"); i > 0 {
				root = root[:i]
			}
			if byExp[root] == nil {
				exps = append(exps, root)
			}
			byExp[root] = append(byExp[root], ev)
		}
		sort.Strings(exps)
		for _, exp := range exps {
			key := fmt.Sprintf("homescript/analyzer.%s|context type %s|checked on every accepting path", FuncName(fd), f.pretty(exp))
			ob := Obligation{Key: key, Pos: c.Pos(byExp[exp][0].Pos), Nontrivial: true}
			if !sum.ok {
				ob.Status = Undecided
				ob.Detail = "paths not enumerated: " + sum.why
				out = append(out, ob)
				continue
			}
			covered := &r2sibDNF{}
			for _, ev := range byExp[exp] {
				for _, cl := range ev.Guard.clauses {
					covered.add(cl)
				}
			}
			nErr := 0
			for _, ev := range sum.events {
				if ev.Kind == "error" || ev.Kind == "panic" {
					nErr++
					for _, cl := range ev.Guard.clauses {
						covered.add(cl)
					}
				}
			}
			// the paths on which the expected type exists: all of them for a field of the context, those that perform the
			// lookup for a looked-up object (self.currentModule.getTrigger(name)#0.CallbackFnType)
			always := &r2sibDNF{}
			if strings.Contains(exp, "(") {
				best := ""
				for _, ev := range sum.events {
					if ct := ev.Attrs["callterm"]; ev.Kind == "call" && ct != "" && strings.HasPrefix(exp, ct) && len(ct) > len(best) {
						best = ct
					}
				}
				for _, ev := range sum.events {
					if ev.Kind == "call" && best != "" && ev.Attrs["callterm"] == best {
						for _, cl := range ev.Guard.clauses {
							always.add(cl)
						}
					}
				}
			}
			if len(always.clauses) == 0 {
				always.add(r2sibMkClause(nil))
			}
			cmp, m, ok := r2sibPrepare(nil, always, covered)
			if !ok {
				ob.Status = Undecided
				ob.Detail = "too many condition atoms to decide whether every path is checked or rejected"
				out = append(out, ob)
				continue
			}
			var bad []string
			seen := map[string]bool{}
			n := uint(len(cmp.atoms))
			for x := uint32(0); x < 1<<n; x++ {
				if !cmp.feasible(x) || !r2sibEval(m[0], x) || r2sibEval(m[1], x) {
					continue
				}
				var ps []string
				for i, at := range cmp.atoms {
					bit := uint32(1) << uint(i)
					if y := x ^ bit; cmp.feasible(y) && r2sibEval(m[0], y) && !r2sibEval(m[1], y) {
						continue // does not matter
					}
					if x&bit != 0 {
						ps = append(ps, at)
					} else {
						ps = append(ps, "not("+at+")")
					}
				}
				sort.Strings(ps)
				w := strings.Join(ps, " && ")
				if w == "" {
					w = "always"
				}
				if !seen[w] {
					seen[w] = true
					bad = append(bad, w)
				}
			}
			sort.Strings(bad)
			if len(bad) > 0 {
				if len(bad) > 3 {
					bad = append(bad[:3], fmt.Sprintf("… (%d more)", len(bad)-3))
				}
				ob.Status = Violated
				ob.Detail = fmt.Sprintf("the construct must fit %s, a type its context declares, but on the paths where %s neither a TypeCheck against it is passed nor an error reported: the construct is accepted unchecked (TypeCheck at %s)", f.pretty(exp), f.pretty(strings.Join(bad, " | ")), c.Pos(byExp[exp][0].Pos))
			} else {
				ob.Detail = fmt.Sprintf("every path passes TypeCheck(…, %s) (%s) or reports one of the %d errors / panics of the function", f.pretty(exp), c.Pos(byExp[exp][0].Pos), nErr)
			}
			out = append(out, ob)
		}
	}
	sort.SliceStable(out, func(i, j int) bool { return out[i].Key < out[j].Key })
	return out
}
