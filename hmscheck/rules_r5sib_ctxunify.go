package main

import (
	"fmt"
	"go/token"
	"regexp"
	"sort"
	"strings"
)

// r5sib — part of R-decl-unify: types declared by the CONTEXT of a construct.
//
// A return statement has no declared type of its own: the type it must yield is the result type of the function
// it stands in (self.currentModule.CurrentFunction.ReturnType); a trigger statement's callback must fit the
// callback type of the trigger it names (a lookup). Such an expected type does not come from the node, so it
// exists on every path of the construct's analysis. Condition: every path through the function either passes a
// TypeCheck against that expected type or has reported an error (the construct is rejected anyway: the return
// outside of a function, the unknown trigger). A path that does neither accepts the construct unchecked — the
// value-less `return;` in a function that must yield a value.

func r5sibCtxUnifyObligations(c *Ctx) []Obligation {
	e := r2sibEngineOf(c)
	p := c.Pkg("homescript/analyzer")
	var out []Obligation
	// sibling agreement of the looked-up context types: (lookup of the offered value, lookup of the expected object) → uses
	type r6use struct {
		fn, field, pos string
		at             token.Pos
	}
	siblings := map[string][]r6use{}
	lookupRe := regexp.MustCompile(`\.(\w+)\([^#]*\)#0`)
	fieldRe := regexp.MustCompile(`#0\.(\w+)`)
	for _, fd := range AllFuncDecls(p) {
		if fd.Body == nil {
			continue
		}
		f := r2sibFuncOf(c, p, fd)
		if f.fn == nil || f.fn == e.roles.typeCheck {
			continue
		}
		e.busy[f.fn] = true
		sum := e.extract(f, fd.Body.List, r2sibOpts{NoInline: true, Calls: r4ksAnyCall, Only: map[string]bool{"TypeCheck": true, "error": true, "call": true, "panic": true}}, 0)
		delete(e.busy, f.fn)
		// expected types taken from the context: rooted at the analyzer itself, not at the node, not built on the spot
		byExp := map[string][]*r2sibEvent{}
		var exps []string
		for _, ev := range sum.events {
			if ev.Kind != "TypeCheck" {
				continue
			}
			exp := ev.Attrs["exp"]
			if !strings.HasPrefix(exp, "self.") || strings.Contains(exp, "desc[") {
				continue
			}
			if gm, em, fm := lookupRe.FindStringSubmatch(strings.TrimPrefix(ev.Key, "TypeCheck(got=")), lookupRe.FindStringSubmatch(exp), fieldRe.FindStringSubmatch(exp); gm != nil && em != nil && fm != nil && strings.HasPrefix(strings.TrimPrefix(ev.Key, "TypeCheck(got="), "self.") {
				gk := gm[1] + " against " + em[1]
				siblings[gk] = append(siblings[gk], r6use{FuncName(fd), fm[1], c.Pos(ev.Pos), ev.Pos})
			}
			// the context object, without the adapters applied to it: self.a.b(...)#0.Field
			root := exp
			if i := strings.Index(root, ".SetSpan"); i > 0 {
				root = root[:i]
			}
			if byExp[root] == nil {
				exps = append(exps, root)
			}
			byExp[root] = append(byExp[root], ev)
		}
		sort.Strings(exps)
		for _, exp := range exps {
			key := fmt.Sprintf("homescript/analyzer.%s|context type %s|checked on every accepting path", FuncName(fd), f.pretty(exp))
			ob := Obligation{Key: key, Pos: c.Pos(byExp[exp][0].Pos), Nontrivial: true}
			if !sum.ok {
				ob.Status = Undecided
				ob.Detail = "paths not enumerated: " + sum.why
				out = append(out, ob)
				continue
			}
			covered := &r2sibDNF{}
			for _, ev := range byExp[exp] {
				for _, cl := range ev.Guard.clauses {
					covered.add(cl)
				}
			}
			nErr := 0
			for _, ev := range sum.events {
				if ev.Kind == "error" || ev.Kind == "panic" {
					nErr++
					for _, cl := range ev.Guard.clauses {
						covered.add(cl)
					}
				}
			}
			// the paths on which the expected type exists: all of them for a field of the context, those that perform the
			// lookup for a looked-up object (self.currentModule.getTrigger(name)#0.CallbackFnType)
			always := &r2sibDNF{}
			if strings.Contains(exp, "(") {
				best := ""
				for _, ev := range sum.events {
					if ct := ev.Attrs["callterm"]; ev.Kind == "call" && ct != "" && strings.HasPrefix(exp, ct) && len(ct) > len(best) {
						best = ct
					}
				}
				for _, ev := range sum.events {
					if ev.Kind == "call" && best != "" && ev.Attrs["callterm"] == best {
						for _, cl := range ev.Guard.clauses {
							always.add(cl)
						}
					}
				}
			}
			if len(always.clauses) == 0 {
				always.add(r2sibMkClause(nil))
			}
			cmp, m, ok := r2sibPrepare(nil, always, covered)
			if !ok {
				ob.Status = Undecided
				ob.Detail = "too many condition atoms to decide whether every path is checked or rejected"
				out = append(out, ob)
				continue
			}
			var bad []string
			seen := map[string]bool{}
			n := uint(len(cmp.atoms))
			for x := uint32(0); x < 1<<n; x++ {
				if !cmp.feasible(x) || !r2sibEval(m[0], x) || r2sibEval(m[1], x) {
					continue
				}
				var ps []string
				for i, at := range cmp.atoms {
					bit := uint32(1) << uint(i)
					if y := x ^ bit; cmp.feasible(y) && r2sibEval(m[0], y) && !r2sibEval(m[1], y) {
						continue // does not matter
					}
					if x&bit != 0 {
						ps = append(ps, at)
					} else {
						ps = append(ps, "not("+at+")")
					}
				}
				sort.Strings(ps)
				w := strings.Join(ps, " && ")
				if w == "" {
					w = "always"
				}
				if !seen[w] {
					seen[w] = true
					bad = append(bad, w)
				}
			}
			sort.Strings(bad)
			if len(bad) > 0 {
				if len(bad) > 3 {
					bad = append(bad[:3], fmt.Sprintf("… (%d more)", len(bad)-3))
				}
				ob.Status = Violated
				ob.Detail = fmt.Sprintf("the construct must fit %s, a type its context declares, but on the paths where %s neither a TypeCheck against it is passed nor an error reported: the construct is accepted unchecked (TypeCheck at %s)", f.pretty(exp), f.pretty(strings.Join(bad, " | ")), c.Pos(byExp[exp][0].Pos))
			} else {
				ob.Detail = fmt.Sprintf("every path passes TypeCheck(…, %s) (%s) or reports one of the %d errors / panics of the function", f.pretty(exp), c.Pos(byExp[exp][0].Pos), nErr)
			}
			out = append(out, ob)
		}
	}
	// the siblings that check the same kind of looked-up value against the same kind of looked-up object take the
	// expected type from the same field of that object (a callback attached by a trigger statement or by a function
	// annotation is checked against the trigger's CallbackFnType both times)
	var gks []string
	for gk := range siblings {
		gks = append(gks, gk)
	}
	sort.Strings(gks)
	for _, gk := range gks {
		us := siblings[gk]
		if len(us) < 2 {
			continue
		}
		count := map[string]int{}
		for _, u := range us {
			count[u.field]++
		}
		for _, u := range us {
			ob := Obligation{Key: fmt.Sprintf("homescript/analyzer.%s|%s|same field as the sibling checks", u.fn, gk), Pos: c.Pos(u.at), Nontrivial: true}
			if len(count) > 1 && count[u.field]*2 <= len(us) {
				var others []string
				for _, o := range us {
					if o.field != u.field {
						others = append(others, fmt.Sprintf("%s uses %s (%s)", o.fn, o.field, o.pos))
					}
				}
				ob.Status = Violated
				ob.Detail = fmt.Sprintf("%s checks the value looked up by %s against field %s of the looked-up object, but %s: the two ways to attach the same thing are checked against different types", u.fn, strings.Split(gk, " ")[0], u.field, strings.Join(others, "; "))
			} else {
				ob.Detail = fmt.Sprintf("expected type taken from field %s, like %d of %d sibling checks", u.field, count[u.field], len(us))
			}
			out = append(out, ob)
		}
	}
	sort.SliceStable(out, func(i, j int) bool { return out[i].Key < out[j].Key })
	return out
}
