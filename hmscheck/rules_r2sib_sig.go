package main

import (
	"fmt"
	"go/ast"
	"go/token"
	"go/types"
	"math/bits"
	"regexp"
	"sort"
	"strings"

	"golang.org/x/tools/go/packages"
)

// r2sib — sibling-agreement engine, part 2: check signatures.
//
// A *check event* is a call of a verdict function (TypeCheck, CheckAny), a
// diagnostic-producing call (error/warn/hint helpers, an append to the
// diagnostics list, a compatibility-error constructor) or — when a group asks
// for them — a call of a named function, a non-nil return or a map store.
// For every event of a code region the engine collects, over all enumerated
// paths of the region (Walker), the branch decisions taken before the event:
// the event's *guard*, a DNF over normalised condition atoms. Helper methods
// that produce events are summarised once and their events are re-rooted at
// the call site (parameters substituted), so a check moved into a helper
// keeps its signature. Guards are compared semantically by truth table over
// the atoms (with mutual exclusion of `x == C1` / `x == C2`).

type r2sibLit struct {
	atom string
	val  bool
}

type r2sibClause []r2sibLit

func (c r2sibClause) key() string {
	var b strings.Builder
	for _, l := range c {
		if l.val {
			b.WriteString("+")
		} else {
			b.WriteString("-")
		}
		b.WriteString(l.atom)
		b.WriteString("\x00")
	}
	return b.String()
}

func r2sibMkClause(lits []r2sibLit) r2sibClause {
	seen := map[r2sibLit]bool{}
	var out r2sibClause
	for _, l := range lits {
		if !seen[l] {
			seen[l] = true
			out = append(out, l)
		}
	}
	sort.Slice(out, func(i, j int) bool {
		if out[i].atom != out[j].atom {
			return out[i].atom < out[j].atom
		}
		return !out[i].val && out[j].val
	})
	return out
}

type r2sibDNF struct {
	clauses []r2sibClause
	seen    map[string]bool
	over    bool
}

func (d *r2sibDNF) add(c r2sibClause) {
	if d.seen == nil {
		d.seen = map[string]bool{}
	}
	k := c.key()
	if d.seen[k] {
		return
	}
	if len(d.clauses) >= 6000 {
		d.over = true
		return
	}
	d.seen[k] = true
	d.clauses = append(d.clauses, c)
}

type r2sibEvent struct {
	Kind  string
	Key   string
	Attrs map[string]string
	Guard *r2sibDNF
	Pos   token.Pos
	Via   string
	// for R-diag-subject and reports
	Call *ast.CallExpr
}

type r2sibOpts struct {
	Calls         *regexp.Regexp  // additionally record calls whose callee's qualified name matches
	Returns       bool            // record `return X` with X not the nil / zero literal
	Stores        bool            // record map stores `m[k] = v`
	NoInline      bool            // do not re-root the events of helpers
	Descents      bool            // record analysis-descent calls as events `descent <callee>(<term of the node>)`
	CallArgs      bool            // the key of a recorded call names its first argument's term
	InlineDescent *regexp.Regexp  // descents (qualified name) that are re-rooted like helpers
	Only          map[string]bool // when set: only events of these kinds are recorded
	InlineOnly    *regexp.Regexp  // when set: only callees with a matching qualified name are re-rooted (helpers and walkers alike)
	// Relevant, when set, prunes the walked region: compound statements that contain no relevant node and no
	// return / break / continue / panic are skipped (they cannot change which events a path passes)
	Relevant func(n ast.Node) bool
}

type r2sibRoles struct {
	typeCheck, checkAny *types.Func
	diagPrim            map[*types.Func]string // error / warn / hint helpers → level
	errCtor             map[*types.Func]bool   // newCompatibilityErr
	diagField           *types.Var             // Analyzer.diagnostics
}

type r2sibEngine struct {
	c       *Ctx
	decls   map[*types.Func]*ast.FuncDecl
	declPkg map[*types.Func]*packages.Package
	roles   r2sibRoles
	sums    map[string]*r2sibSummary
	busy    map[*types.Func]bool
}

type r2sibSummary struct {
	events []*r2sibEvent
	ok     bool
	why    string
	paths  int
}

var r2sibEngines = map[*Ctx]*r2sibEngine{}

func r2sibEngineOf(c *Ctx) *r2sibEngine {
	if e, ok := r2sibEngines[c]; ok {
		return e
	}
	e := &r2sibEngine{c: c, decls: map[*types.Func]*ast.FuncDecl{}, declPkg: map[*types.Func]*packages.Package{}, sums: map[string]*r2sibSummary{}, busy: map[*types.Func]bool{}}
	for _, p := range c.All {
		for _, fd := range AllFuncDecls(p) {
			if fn, ok := p.TypesInfo.Defs[fd.Name].(*types.Func); ok {
				e.decls[fn] = fd
				e.declPkg[fn] = p
			}
		}
	}
	e.resolveRoles()
	r2sibEngines[c] = e
	return e
}

// resolveRoles finds the analyzer's verdict functions and diagnostic
// primitives by role.
func (e *r2sibEngine) resolveRoles() {
	p := e.c.Pkg("homescript/analyzer")
	info := p.TypesInfo
	e.roles.diagPrim = map[*types.Func]string{}
	e.roles.errCtor = map[*types.Func]bool{}
	an, _ := p.Types.Scope().Lookup("Analyzer").(*types.TypeName)
	if an == nil {
		fatalf("anchor unresolved: analyzer.Analyzer")
	}
	if st, ok := an.Type().Underlying().(*types.Struct); ok {
		for i := 0; i < st.NumFields(); i++ {
			if sl, ok := st.Field(i).Type().(*types.Slice); ok {
				if n, ok := sl.Elem().(*types.Named); ok && n.Obj().Name() == "Diagnostic" {
					e.roles.diagField = st.Field(i)
				}
			}
		}
	}
	if e.roles.diagField == nil {
		fatalf("anchor unresolved: analyzer.Analyzer has no []Diagnostic field")
	}
	for _, fd := range AllFuncDecls(p) {
		fn, _ := info.Defs[fd.Name].(*types.Func)
		if fn == nil {
			continue
		}
		sig := fn.Type().(*types.Signature)
		if fd.Recv != nil && recvTypeName(fd.Recv.List[0].Type) == "Analyzer" {
			switch fd.Name.Name {
			case "TypeCheck":
				e.roles.typeCheck = fn
			case "CheckAny":
				e.roles.checkAny = fn
			}
			// diagnostic primitive, by role: a method (message string, notes []string, span Span) without result
			// whose body names exactly one diagnostic level constant — in the literal it appends or as the
			// argument of the helper that builds / appends it
			if sig.Results().Len() == 0 && sig.Params().Len() == 3 {
				p0, ok0 := sig.Params().At(0).Type().Underlying().(*types.Basic)
				_, ok1 := sig.Params().At(1).Type().Underlying().(*types.Slice)
				p2, ok2 := sig.Params().At(2).Type().(*types.Named)
				if ok0 && p0.Info()&types.IsString != 0 && ok1 && ok2 && p2.Obj().Name() == "Span" {
					levels := map[string]bool{}
					ast.Inspect(fd.Body, func(n ast.Node) bool {
						if e, ok := n.(ast.Expr); ok {
							if kc := ConstOf(info, e); kc != nil {
								if nt, ok := kc.Type().(*types.Named); ok && nt.Obj().Name() == "DiagnosticLevel" {
									levels[kc.Name()] = true
								}
							}
						}
						return true
					})
					if len(levels) == 1 {
						for n := range levels {
							switch {
							case strings.HasSuffix(n, "Error"):
								e.roles.diagPrim[fn] = "error"
							case strings.HasSuffix(n, "Warning"):
								e.roles.diagPrim[fn] = "warn"
							case strings.HasSuffix(n, "Hint"):
								e.roles.diagPrim[fn] = "hint"
							default:
								e.roles.diagPrim[fn] = strings.ToLower(n)
							}
						}
					}
				}
			}
		}
		if fd.Recv == nil && sig.Results().Len() == 1 {
			if pt, ok := sig.Results().At(0).Type().(*types.Pointer); ok {
				if n, ok := pt.Elem().(*types.Named); ok && n.Obj().Name() == "CompatibilityError" && sig.Params().Len() >= 1 {
					if pn, ok := sig.Params().At(0).Type().(*types.Named); ok && pn.Obj().Name() == "Diagnostic" {
						e.roles.errCtor[fn] = true
					}
				}
			}
		}
	}
	if e.roles.typeCheck == nil || e.roles.checkAny == nil {
		fatalf("anchor unresolved: analyzer.Analyzer.TypeCheck / CheckAny")
	}
	r2sibFirstArgOnly[e.roles.typeCheck] = true
	nerr := 0
	for _, l := range e.roles.diagPrim {
		if l == "error" {
			nerr++
		}
	}
	if nerr == 0 || len(e.roles.errCtor) == 0 {
		fatalf("anchor unresolved: analyzer error primitive / compatibility-error constructor")
	}
}

// r2sibLitLevel: the Level of a Diagnostic composite literal as error/warn/hint.
func r2sibLitLevel(info *types.Info, cl *ast.CompositeLit) string {
	for _, el := range cl.Elts {
		kv, ok := el.(*ast.KeyValueExpr)
		if !ok {
			continue
		}
		if k, ok := kv.Key.(*ast.Ident); ok && k.Name == "Level" {
			if kc := ConstOf(info, kv.Value); kc != nil {
				n := kc.Name()
				switch {
				case strings.HasSuffix(n, "Error"):
					return "error"
				case strings.HasSuffix(n, "Warning"):
					return "warn"
				case strings.HasSuffix(n, "Hint"):
					return "hint"
				}
				return strings.ToLower(n)
			}
		}
	}
	return ""
}

func r2sibLitField(cl *ast.CompositeLit, name string) ast.Expr {
	for _, el := range cl.Elts {
		if kv, ok := el.(*ast.KeyValueExpr); ok {
			if k, ok := kv.Key.(*ast.Ident); ok && k.Name == name {
				return kv.Value
			}
		}
	}
	return nil
}

// r2sibMsgFormat: the constant part of a message expression and its
// non-constant operands.
func r2sibMsgFormat(f *r2sibFunc, e ast.Expr) (format string, args []ast.Expr) {
	e = ast.Unparen(e)
	if bl, ok := e.(*ast.BasicLit); ok {
		return bl.Value, nil
	}
	if call, ok := e.(*ast.CallExpr); ok {
		if fn := CalleeOf(f.info, call); fn != nil && fn.Pkg() != nil && fn.Pkg().Path() == "fmt" && len(call.Args) >= 1 {
			if bl, ok := ast.Unparen(call.Args[0]).(*ast.BasicLit); ok {
				return bl.Value, call.Args[1:]
			}
		}
	}
	return f.norm(e), []ast.Expr{e}
}

type r2sibState struct {
	lits  []r2sibLit
	flags map[types.Object]bool
}

func r2sibCloneState(s *r2sibState) *r2sibState {
	n := &r2sibState{lits: append([]r2sibLit(nil), s.lits...), flags: map[types.Object]bool{}}
	for k, v := range s.flags {
		n.flags[k] = v
	}
	return n
}

// atomOf turns a leaf condition + decision into a literal over a canonical atom.
func (f *r2sibFunc) atomOf(cond ast.Expr, taken bool) r2sibLit {
	cond = ast.Unparen(cond)
	if b, ok := cond.(*ast.BinaryExpr); ok {
		switch b.Op {
		case token.NEQ:
			l, r := f.norm(b.X), f.norm(b.Y)
			lc, rc := r2sibConstLike(l), r2sibConstLike(r)
			if lc && !rc || lc == rc && r < l {
				l, r = r, l
			}
			return r2sibLit{l + " == " + r, !taken}
		case token.LEQ: // x <= y  ≡ ¬(y < x)
			return r2sibLit{f.norm(b.Y) + " < " + f.norm(b.X), !taken}
		case token.GEQ: // x >= y ≡ ¬(x < y)
			return r2sibLit{f.norm(b.X) + " < " + f.norm(b.Y), !taken}
		case token.GTR: // x > y ≡ y < x
			return r2sibLit{f.norm(b.Y) + " < " + f.norm(b.X), taken}
		}
	}
	s := f.norm(cond)
	// a local defined as a negation / comparison keeps its polarity handling simple
	for strings.HasPrefix(s, "!(") && strings.HasSuffix(s, ")") {
		s = s[2 : len(s)-1]
		taken = !taken
	}
	if i := strings.Index(s, " != "); i > 0 && !strings.ContainsAny(s[:i], "()") {
		s = s[:i] + " == " + s[i+4:]
		taken = !taken
	}
	return r2sibLit{s, taken}
}

type r2sibCollector struct {
	e      *r2sibEngine
	f      *r2sibFunc
	opts   r2sibOpts
	depth  int
	events map[string]*r2sibEvent
	order  []string
	fail   string
}

func (k *r2sibCollector) record(kind, key string, attrs map[string]string, pos token.Pos, via string, call *ast.CallExpr, clause r2sibClause) {
	if k.opts.Only != nil && !k.opts.Only[kind] {
		return
	}
	id := fmt.Sprintf("%s|%d|%s", via, pos, key)
	ev := k.events[id]
	if ev == nil {
		ev = &r2sibEvent{Kind: kind, Key: key, Attrs: attrs, Guard: &r2sibDNF{}, Pos: pos, Via: via, Call: call}
		k.events[id] = ev
		k.order = append(k.order, id)
	}
	ev.Guard.add(clause)
}

// scan records the events of one expression / simple statement under the
// current path condition.
func (k *r2sibCollector) scan(st *r2sibState, n ast.Node) {
	if n == nil {
		return
	}
	f := k.f
	clause := r2sibMkClause(st.lits)
	ast.Inspect(n, func(n ast.Node) bool {
		switch x := n.(type) {
		case *ast.FuncLit:
			return false
		case *ast.ReturnStmt:
			if k.opts.Returns {
				for _, r := range x.Results {
					t := f.norm(r)
					if t == "nil" || t == "false" || t == "true" || strings.HasSuffix(t, "{}") {
						continue
					}
					k.record("return", "return "+t, nil, x.Pos(), "", nil, clause)
				}
			}
		case *ast.AssignStmt:
			// self.diagnostics = append(self.diagnostics, X…)
			if len(x.Lhs) == 1 && len(x.Rhs) == 1 {
				if call, ok := x.Rhs[0].(*ast.CallExpr); ok {
					if id, ok := call.Fun.(*ast.Ident); ok && id.Name == "append" && len(call.Args) >= 2 && k.isDiagField(x.Lhs[0]) {
						for _, a := range call.Args[1:] {
							k.diagAppend(a, call, clause)
						}
					}
				}
			}
			if k.opts.Stores {
				for _, l := range x.Lhs {
					if ix, ok := l.(*ast.IndexExpr); ok {
						if tv, ok := f.info.Types[ix.X]; ok && tv.Type != nil {
							if _, isMap := tv.Type.Underlying().(*types.Map); isMap {
								k.record("store", "store "+f.norm(ix), nil, x.Pos(), "", nil, clause)
							}
						}
					}
				}
			}
		case *ast.CallExpr:
			k.call(st, x, clause)
		}
		return true
	})
}

func (k *r2sibCollector) isDiagField(e ast.Expr) bool {
	if sel, ok := ast.Unparen(e).(*ast.SelectorExpr); ok {
		if v, ok := k.f.info.Uses[sel.Sel].(*types.Var); ok && v == k.e.roles.diagField {
			return true
		}
	}
	return false
}

func (k *r2sibCollector) diagAppend(a ast.Expr, call *ast.CallExpr, clause r2sibClause) {
	f := k.f
	a = ast.Unparen(a)
	if cl, ok := a.(*ast.CompositeLit); ok {
		lvl := r2sibLitLevel(f.info, cl)
		if lvl == "" {
			lvl = "diag"
		}
		format, _ := r2sibMsgFormat(f, r2sibLitField(cl, "Message"))
		k.record(lvl, lvl+" "+format, map[string]string{"span": f.norm(r2sibLitField(cl, "Span"))}, call.Pos(), "", call, clause)
		return
	}
	t := f.norm(a)
	if strings.HasSuffix(t, ".ExpectedDiagnostic") {
		k.record("hint", "diag+= "+t, nil, call.Pos(), "", call, clause)
		return
	}
	k.record("diag+=", "diag+= "+t, nil, call.Pos(), "", call, clause)
}

func r2sibQualName(fn *types.Func) string {
	if fn == nil {
		return ""
	}
	sig := fn.Type().(*types.Signature)
	pk := ""
	if fn.Pkg() != nil {
		pk = fn.Pkg().Name() + "."
	}
	if r := sig.Recv(); r != nil {
		t := r.Type()
		if p, ok := t.(*types.Pointer); ok {
			t = p.Elem()
		}
		if n, ok := t.(*types.Named); ok {
			return pk + n.Obj().Name() + "." + fn.Name()
		}
	}
	return pk + fn.Name()
}

func (k *r2sibCollector) call(st *r2sibState, x *ast.CallExpr, clause r2sibClause) {
	f := k.f
	callee := CalleeOf(f.info, x)
	if callee == nil {
		// the builtin panic: the path ends here (recorded only when a rule asks for it)
		if id, ok := ast.Unparen(x.Fun).(*ast.Ident); ok && id.Name == "panic" {
			if _, isBuiltin := f.info.Uses[id].(*types.Builtin); isBuiltin && k.opts.Only != nil && k.opts.Only["panic"] {
				k.record("panic", "panic", nil, x.Pos(), "", x, clause)
			}
		}
		return
	}
	ro := &k.e.roles
	switch {
	case callee == ro.typeCheck && len(x.Args) >= 2:
		attrs := map[string]string{"exp": f.norm(x.Args[1])}
		if len(x.Args) >= 3 {
			attrs["opts"] = f.norm(x.Args[2])
		}
		k.record("TypeCheck", "TypeCheck(got="+f.norm(x.Args[0])+")", attrs, x.Pos(), "", x, clause)
		return
	case callee == ro.checkAny && len(x.Args) >= 1:
		k.record("CheckAny", "CheckAny("+f.norm(x.Args[0])+")", nil, x.Pos(), "", x, clause)
		return
	case ro.diagPrim[callee] != "" && len(x.Args) >= 3:
		lvl := ro.diagPrim[callee]
		format, margs := r2sibMsgFormat(f, x.Args[0])
		var as []string
		for _, a := range margs {
			as = append(as, f.norm(a))
		}
		k.record(lvl, lvl+" "+format, map[string]string{"span": f.norm(x.Args[2]), "args": strings.Join(as, " ; ")}, x.Pos(), "", x, clause)
		return
	case ro.errCtor[callee] && len(x.Args) >= 1:
		format := f.norm(x.Args[0])
		span := ""
		if cl, ok := ast.Unparen(x.Args[0]).(*ast.CompositeLit); ok {
			format, _ = r2sibMsgFormat(f, r2sibLitField(cl, "Message"))
			span = f.norm(r2sibLitField(cl, "Span"))
		}
		k.record("errret", "errret "+format, map[string]string{"span": span}, x.Pos(), "", x, clause)
		return
	}
	qn := r2sibQualName(callee)
	if k.opts.Calls != nil && k.opts.Calls.MatchString(qn) {
		key := "call " + qn
		attrs := map[string]string{"callee": qn, "callterm": f.norm(x)}
		if len(x.Args) > 0 {
			attrs["term"] = f.norm(x.Args[0])
		}
		if len(x.Args) > 1 {
			attrs["arg1"] = f.norm(x.Args[1])
		}
		if k.opts.CallArgs && len(x.Args) > 0 {
			key += "(" + attrs["term"] + ")"
		}
		k.record("call", key, attrs, x.Pos(), "", x, clause)
	}
	isDescent := r2sibDescent(callee)
	if k.opts.Descents && isDescent && len(x.Args) > 0 && k.e.declPkg[callee] == f.pkg {
		t := f.norm(x.Args[0])
		k.record("descent", "descent "+qn+"("+t+")", map[string]string{"callee": qn, "term": t}, x.Pos(), "", x, clause)
	}
	if isDescent && k.opts.InlineDescent != nil && k.opts.InlineDescent.MatchString(qn) {
		isDescent = false
	}
	if k.opts.InlineOnly != nil {
		if !k.opts.InlineOnly.MatchString(qn) {
			return
		}
		isDescent = false
	}
	// helper with a summary: re-root its events here
	fd := k.e.decls[callee]
	if fd == nil || k.opts.NoInline || isDescent || k.depth >= 3 || k.e.busy[callee] {
		return
	}
	if k.e.declPkg[callee] != f.pkg {
		return
	}
	sum := k.e.summary(callee, k.opts, k.depth+1)
	if sum == nil || !sum.ok || len(sum.events) == 0 {
		if sum != nil && !sum.ok {
			// not summarised: keep the call itself as an (opaque) event so that siblings can still agree on it
			var as []string
			for _, a := range x.Args {
				as = append(as, f.norm(a))
			}
			k.record("helper", "helper "+qn+"("+strings.Join(as, ",")+")", map[string]string{"why": sum.why}, x.Pos(), "", x, clause)
		}
		return
	}
	var args []string
	for _, a := range x.Args {
		args = append(args, f.norm(a))
	}
	via := fmt.Sprintf("%s@%d", qn, x.Pos())
	for _, ev := range sum.events {
		attrs := map[string]string{}
		for ak, av := range ev.Attrs {
			attrs[ak] = r2sibSubst(av, args)
		}
		key := r2sibSubst(ev.Key, args)
		v := via
		if ev.Via != "" {
			v = via + ">" + ev.Via
		}
		for _, c := range ev.Guard.clauses {
			lits := append([]r2sibLit(nil), st.lits...)
			for _, l := range c {
				lits = append(lits, r2sibLit{r2sibSubst(l.atom, args), l.val})
			}
			k.record(ev.Kind, key, attrs, ev.Pos, v, ev.Call, r2sibMkClause(lits))
		}
	}
}

func (e *r2sibEngine) summary(fn *types.Func, opts r2sibOpts, depth int) *r2sibSummary {
	fd := e.decls[fn]
	if fd == nil {
		return nil
	}
	key := fmt.Sprintf("%p|%v|%v|%v|%v|%v|%v|%v|%v", fn, opts.Calls, opts.Returns, opts.Stores, opts.Descents, opts.CallArgs, opts.InlineDescent, opts.Only, opts.InlineOnly)
	if s, ok := e.sums[key]; ok {
		return s
	}
	e.busy[fn] = true
	defer delete(e.busy, fn)
	f := r2sibFuncOf(e.c, e.declPkg[fn], fd)
	// helper summaries never record returns/stores of the helper itself
	o := opts
	o.Returns, o.Stores = false, false
	s := e.extract(f, fd.Body.List, o, depth)
	e.sums[key] = s
	return s
}

// extract enumerates the paths of a region and returns its events.
func (e *r2sibEngine) extract(f *r2sibFunc, region []ast.Stmt, opts r2sibOpts, depth int) *r2sibSummary {
	k := &r2sibCollector{e: e, f: f, opts: opts, depth: depth, events: map[string]*r2sibEvent{}}
	info := f.info
	if opts.Relevant != nil {
		region = r2sibPrune(info, region, opts.Relevant)
	}
	w := &Walker[*r2sibState]{Clone: r2sibCloneState}
	w.MaxPaths = 30000
	w.IsPanic = func(s ast.Stmt) bool { return IsPanicCall(info, s) }
	setFlags := func(st *r2sibState, s ast.Stmt) {
		as, ok := s.(*ast.AssignStmt)
		if !ok {
			if ds, ok := s.(*ast.DeclStmt); ok {
				if gd, ok := ds.Decl.(*ast.GenDecl); ok {
					for _, sp := range gd.Specs {
						if vs, ok := sp.(*ast.ValueSpec); ok && len(vs.Values) == len(vs.Names) {
							for i, n := range vs.Names {
								if o := info.Defs[n]; o != nil && f.isFlag(o) {
									if v, ok := r2sibBoolConst(info, vs.Values[i]); ok {
										st.flags[o] = v
									}
								}
							}
						}
					}
				}
			}
			return
		}
		if len(as.Lhs) != len(as.Rhs) {
			return
		}
		for i, l := range as.Lhs {
			id, ok := l.(*ast.Ident)
			if !ok {
				continue
			}
			o := f.objOf(id)
			if o == nil || !f.isFlag(o) {
				continue
			}
			if v, ok := r2sibBoolConst(info, as.Rhs[i]); ok {
				st.flags[o] = v
			} else {
				delete(st.flags, o)
			}
		}
	}
	w.OnStmt = func(st *r2sibState, s ast.Stmt) (*r2sibState, bool) {
		k.scan(st, s)
		setFlags(st, s)
		return st, true
	}
	w.OnCond = func(st *r2sibState, cond ast.Expr, taken bool) (*r2sibState, bool) {
		k.scan(st, cond)
		if f.loopCond[cond] {
			return st, true
		}
		if id, ok := ast.Unparen(cond).(*ast.Ident); ok {
			if o := f.objOf(id); o != nil && f.isFlag(o) {
				if v, known := st.flags[o]; known {
					return st, v == taken
				}
			}
		}
		lit := f.atomOf(cond, taken)
		// contradiction with an earlier decision on the same atom: infeasible
		for _, l := range st.lits {
			if l.atom == lit.atom && l.val != lit.val && !strings.Contains(lit.atom, "flag(") {
				return st, false
			}
		}
		st.lits = append(st.lits, lit)
		return st, true
	}
	w.OnCase = func(st *r2sibState, sw *ast.SwitchStmt, vals, others []ast.Expr) (*r2sibState, bool) {
		k.scan(st, sw.Tag)
		tag := f.norm(sw.Tag)
		// decisions already taken on this path about the tag: infeasible clauses are not entered
		known := map[string]bool{}
		trueConst := ""
		for _, l := range st.lits {
			if strings.HasPrefix(l.atom, tag+" == ") {
				known[l.atom] = l.val
				if l.val && r2sibConstLike(l.atom[len(tag)+4:]) {
					trueConst = l.atom[len(tag)+4:]
				}
			}
		}
		if vals == nil {
			for _, o := range others {
				a := tag + " == " + f.norm(o)
				if v, ok := known[a]; ok && v {
					return st, false
				}
				st.lits = append(st.lits, r2sibLit{a, false})
			}
			return st, true
		}
		var vs []string
		for _, v := range vals {
			vs = append(vs, f.norm(v))
		}
		allFalse, allConst, hasTrue := true, true, false
		for _, v := range vs {
			if kv, ok := known[tag+" == "+v]; !ok || kv {
				allFalse = false
			}
			if !r2sibConstLike(v) {
				allConst = false
			}
			if v == trueConst {
				hasTrue = true
			}
		}
		if allFalse || trueConst != "" && allConst && !hasTrue {
			return st, false
		}
		if len(vals) == 1 {
			st.lits = append(st.lits, r2sibLit{tag + " == " + vs[0], true})
			return st, true
		}
		sort.Strings(vs)
		st.lits = append(st.lits, r2sibLit{"in(" + tag + "\x01" + strings.Join(vs, "\x01") + ")", true})
		return st, true
	}
	w.OnTypeCase = func(st *r2sibState, sw *ast.TypeSwitchStmt, cc *ast.CaseClause) (*r2sibState, bool) {
		var ts []string
		for _, t := range cc.List {
			ts = append(ts, exprStr(t))
		}
		if cc.List == nil {
			ts = []string{"default"}
		}
		st.lits = append(st.lits, r2sibLit{"typeswitch@" + fmt.Sprint(f.c.Pos(sw.Pos())) + " is " + strings.Join(ts, ","), true})
		return st, true
	}
	w.OnRange = func(st *r2sibState, r *ast.RangeStmt) (*r2sibState, bool) {
		k.scan(st, r.X)
		return st, true
	}
	w.OnDefer = func(st *r2sibState, d *ast.DeferStmt) (*r2sibState, bool) {
		k.scan(st, d.Call)
		return st, true
	}
	w.Run(&ast.BlockStmt{List: region}, &r2sibState{flags: map[types.Object]bool{}})
	s := &r2sibSummary{ok: true, paths: w.Paths}
	if w.Overflow {
		s.ok, s.why = false, fmt.Sprintf("more than %d paths", w.MaxPaths)
	}
	if len(w.Unsupported) > 0 {
		s.ok, s.why = false, "goto/fallthrough/select at "+f.c.Pos(w.Unsupported[0])
	}
	for _, id := range k.order {
		ev := k.events[id]
		if ev.Guard.over {
			s.ok, s.why = false, "guard of "+ev.Key+" has too many clauses"
		}
		s.events = append(s.events, ev)
	}
	return s
}

// ---- guard algebra ----

type r2sibAssume struct {
	re  *regexp.Regexp
	val bool
}

// r2sibExpand rewrites in(tag;v…) literals into plain equality atoms.
func r2sibExpand(d *r2sibDNF) [][]r2sibLit {
	var out [][]r2sibLit
	for _, c := range d.clauses {
		cur := [][]r2sibLit{{}}
		for _, l := range c {
			if strings.HasPrefix(l.atom, "in(") {
				parts := strings.Split(l.atom[3:len(l.atom)-1], "\x01")
				tag, vals := parts[0], parts[1:]
				if l.val {
					var next [][]r2sibLit
					for _, p := range cur {
						for _, v := range vals {
							next = append(next, append(append([]r2sibLit(nil), p...), r2sibLit{tag + " == " + v, true}))
						}
					}
					cur = next
				} else {
					for i := range cur {
						for _, v := range vals {
							cur[i] = append(cur[i], r2sibLit{tag + " == " + v, false})
						}
					}
				}
				continue
			}
			for i := range cur {
				cur[i] = append(cur[i], l)
			}
		}
		out = append(out, cur...)
	}
	return out
}

type r2sibCmp struct {
	atoms  []string
	index  map[string]int
	excl   []uint32 // masks of mutually exclusive atoms
	fixed1 uint32   // atoms assumed true
	fixed0 uint32   // atoms assumed false
}

type r2sibMasked struct{ pos, neg uint32 }

func r2sibPrepare(assume []r2sibAssume, dnfs ...*r2sibDNF) (*r2sibCmp, [][]r2sibMasked, bool) {
	cmp := &r2sibCmp{index: map[string]int{}}
	expanded := make([][][]r2sibLit, len(dnfs))
	for i, d := range dnfs {
		expanded[i] = r2sibExpand(d)
		for _, c := range expanded[i] {
			for _, l := range c {
				if _, ok := cmp.index[l.atom]; !ok {
					cmp.index[l.atom] = len(cmp.atoms)
					cmp.atoms = append(cmp.atoms, l.atom)
				}
			}
		}
	}
	if len(cmp.atoms) > 22 {
		return cmp, nil, false
	}
	byLhs := map[string]uint32{}
	for i, a := range cmp.atoms {
		if j := strings.LastIndex(a, " == "); j > 0 && r2sibConstLike(a[j+4:]) && a[j+4:] != "nil" {
			byLhs[a[:j]] |= 1 << uint(i)
		}
		for _, as := range assume {
			if as.re.MatchString(a) {
				if as.val {
					cmp.fixed1 |= 1 << uint(i)
				} else {
					cmp.fixed0 |= 1 << uint(i)
				}
			}
		}
	}
	for _, m := range byLhs {
		if bits.OnesCount32(m) > 1 {
			cmp.excl = append(cmp.excl, m)
		}
	}
	masked := make([][]r2sibMasked, len(dnfs))
	for i := range dnfs {
		for _, c := range expanded[i] {
			var m r2sibMasked
			for _, l := range c {
				b := uint32(1) << uint(cmp.index[l.atom])
				if l.val {
					m.pos |= b
				} else {
					m.neg |= b
				}
			}
			if m.pos&m.neg != 0 {
				continue
			}
			masked[i] = append(masked[i], m)
		}
	}
	return cmp, masked, true
}

func (c *r2sibCmp) feasible(a uint32) bool {
	if a&c.fixed1 != c.fixed1 || a&c.fixed0 != 0 {
		return false
	}
	for _, m := range c.excl {
		if bits.OnesCount32(a&m) > 1 {
			return false
		}
	}
	return true
}

func r2sibEval(cl []r2sibMasked, a uint32) bool {
	for _, m := range cl {
		if a&m.pos == m.pos && a&m.neg == 0 {
			return true
		}
	}
	return false
}

// r2sibRelate compares two guards: aImpB (A ⇒ B), bImpA, decided. witA is a
// feasible assignment under which A holds and B does not, witB the reverse.
func r2sibRelate(a, b *r2sibDNF, assume []r2sibAssume) (aImpB, bImpA, decided bool) {
	aImpB, bImpA, decided, _, _ = r2sibRelateW(a, b, assume)
	return
}

func r2sibRelateW(a, b *r2sibDNF, assume []r2sibAssume) (aImpB, bImpA, decided bool, witA, witB string) {
	cmp, m, ok := r2sibPrepare(assume, a, b)
	if !ok {
		// too many atoms for a truth table: syntactic implication (every clause of X contains a clause of Y)
		// is sound; it decides only the positive answers
		ab, ba := r2sibSyntacticImp(a, b), r2sibSyntacticImp(b, a)
		if ab && ba {
			return true, true, true, "", ""
		}
		return ab, ba, false, "", ""
	}
	aImpB, bImpA = true, true
	n := uint(len(cmp.atoms))
	show := func(x uint32) string {
		var ps []string
		va, vb := r2sibEval(m[0], x), r2sibEval(m[1], x)
		for i, at := range cmp.atoms {
			bit := uint32(1) << uint(i)
			if (cmp.fixed1|cmp.fixed0)&bit != 0 {
				continue
			}
			// an atom whose value does not matter for the difference is left out
			if y := x ^ bit; cmp.feasible(y) && r2sibEval(m[0], y) == va && r2sibEval(m[1], y) == vb {
				continue
			}
			if x&bit != 0 {
				ps = append(ps, at)
			} else if !strings.Contains(at, " == const:") { // false equalities with constants are implied by the true one
				ps = append(ps, "not("+at+")")
			} else {
				// keep it only when no other equality on the same lhs is true
				lhs := at[:strings.LastIndex(at, " == ")]
				other := false
				for j, at2 := range cmp.atoms {
					if j != i && x&(1<<uint(j)) != 0 && strings.HasPrefix(at2, lhs+" == ") {
						other = true
					}
				}
				if !other {
					ps = append(ps, "not("+at+")")
				}
			}
		}
		sort.Strings(ps)
		return strings.Join(ps, " && ")
	}
	for x := uint32(0); x < 1<<n; x++ {
		if !cmp.feasible(x) {
			continue
		}
		va, vb := r2sibEval(m[0], x), r2sibEval(m[1], x)
		if va && !vb && aImpB {
			aImpB = false
			witA = show(x)
		}
		if vb && !va && bImpA {
			bImpA = false
			witB = show(x)
		}
		if !aImpB && !bImpA {
			break
		}
	}
	return aImpB, bImpA, true, witA, witB
}

// r2sibNecessary: the literals common to every (satisfiable) clause of the guard.
func r2sibNecessary(d *r2sibDNF, assume []r2sibAssume) []string {
	var common map[string]bool
	for _, c := range r2sibExpand(d) {
		set := map[string]bool{}
		sat := true
		seen := map[string]bool{}
		for _, l := range c {
			if v, ok := seen[l.atom]; ok && v != l.val {
				sat = false
			}
			seen[l.atom] = l.val
			s := l.atom
			if !l.val {
				s = "not(" + l.atom + ")"
			}
			skip := false
			for _, as := range assume {
				if as.re.MatchString(l.atom) && as.val == l.val {
					skip = true
				}
			}
			if !skip {
				set[s] = true
			}
		}
		if !sat {
			continue
		}
		if common == nil {
			common = set
			continue
		}
		for k := range common {
			if !set[k] {
				delete(common, k)
			}
		}
	}
	var out []string
	for k := range common {
		out = append(out, k)
	}
	sort.Strings(out)
	return out
}

func r2sibGuardString(d *r2sibDNF, assume []r2sibAssume) string {
	// simplified DNF for display: assumed literals dropped, unsatisfiable and subsumed clauses removed,
	// complementary pairs merged
	var cls []map[string]bool
	for _, c := range r2sibExpand(d) {
		set := map[string]bool{}
		seen := map[string]bool{}
		sat := true
		for _, l := range c {
			if v, ok := seen[l.atom]; ok && v != l.val {
				sat = false
			}
			seen[l.atom] = l.val
			skip := false
			for _, as := range assume {
				if as.re.MatchString(l.atom) {
					if as.val == l.val {
						skip = true
					} else {
						sat = false
					}
				}
			}
			if skip {
				continue
			}
			if l.val {
				set[l.atom] = true
			} else {
				set["not("+l.atom+")"] = true
			}
		}
		if sat {
			cls = append(cls, set)
		}
	}
	if len(cls) == 0 {
		return "never"
	}
	neg := func(s string) string {
		if strings.HasPrefix(s, "not(") && strings.HasSuffix(s, ")") {
			return s[4 : len(s)-1]
		}
		return "not(" + s + ")"
	}
	subset := func(a, b map[string]bool) bool {
		for k := range a {
			if !b[k] {
				return false
			}
		}
		return true
	}
	for changed := true; changed && len(cls) < 400; {
		changed = false
		// merge X∪{a}, X∪{¬a} → X ; absorb X∪{a}, Y⊆X with ¬a … (only the simple resolution step)
	merge:
		for i := 0; i < len(cls); i++ {
			for j := 0; j < len(cls); j++ {
				if i == j {
					continue
				}
				// cls[j] \ {¬a} ⊆ cls[i] \ {a}  for some a in cls[i] with ¬a in cls[j]  →  drop a from cls[i]
				for a := range cls[i] {
					if !cls[j][neg(a)] {
						continue
					}
					rest := map[string]bool{}
					for k := range cls[j] {
						if k != neg(a) {
							rest[k] = true
						}
					}
					reduced := map[string]bool{}
					for k := range cls[i] {
						if k != a {
							reduced[k] = true
						}
					}
					if subset(rest, reduced) {
						cls[i] = reduced
						changed = true
						break merge
					}
				}
			}
		}
		// subsumption
		var keep []map[string]bool
		for i, c := range cls {
			sub := false
			for j, o := range cls {
				if i != j && subset(o, c) && (len(o) < len(c) || j < i) {
					sub = true
					break
				}
			}
			if !sub {
				keep = append(keep, c)
			} else {
				changed = true
			}
		}
		cls = keep
	}
	var parts []string
	for _, c := range cls {
		if len(c) == 0 {
			return "always"
		}
		var ls []string
		for k := range c {
			ls = append(ls, k)
		}
		sort.Strings(ls)
		parts = append(parts, strings.Join(ls, " && "))
	}
	sort.Strings(parts)
	if len(parts) == 1 {
		return parts[0]
	}
	if len(parts) > 5 {
		return fmt.Sprintf("(%s) || … %d more path conditions", parts[0], len(parts)-1)
	}
	return "(" + strings.Join(parts, ") || (") + ")"
}

// r2sibMergeByKey ORs the guards of the events with the same key.
func r2sibMergeByKey(events []*r2sibEvent) (map[string]*r2sibEvent, []string) {
	out := map[string]*r2sibEvent{}
	var order []string
	for _, ev := range events {
		m := out[ev.Key]
		if m == nil {
			m = &r2sibEvent{Kind: ev.Kind, Key: ev.Key, Attrs: ev.Attrs, Guard: &r2sibDNF{}, Pos: ev.Pos, Via: ev.Via, Call: ev.Call}
			out[ev.Key] = m
			order = append(order, ev.Key)
		}
		for _, c := range ev.Guard.clauses {
			m.Guard.add(c)
		}
		if ev.Guard.over {
			m.Guard.over = true
		}
	}
	return out, order
}

// r2sibSyntacticImp: every clause of a is a superset of some clause of b (a ⇒ b).
func r2sibSyntacticImp(a, b *r2sibDNF) bool {
	bx := r2sibExpand(b)
	for _, ca := range r2sibExpand(a) {
		have := map[r2sibLit]bool{}
		for _, l := range ca {
			have[l] = true
		}
		ok := false
		for _, cb := range bx {
			sub := true
			for _, l := range cb {
				if !have[l] {
					sub = false
					break
				}
			}
			if sub {
				ok = true
				break
			}
		}
		if !ok {
			return false
		}
	}
	return true
}

// r2sibPrune drops the statements of a region that can influence neither the events nor the control flow
// between them: simple statements and compound statements without a relevant node and without a jump.
func r2sibPrune(info *types.Info, list []ast.Stmt, relevant func(ast.Node) bool) []ast.Stmt {
	matters := func(n ast.Node) bool {
		hit := false
		ast.Inspect(n, func(m ast.Node) bool {
			if hit || m == nil {
				return false
			}
			switch x := m.(type) {
			case *ast.FuncLit:
				return false
			case *ast.ReturnStmt, *ast.BranchStmt, *ast.GoStmt, *ast.DeferStmt:
				hit = true
			case *ast.ExprStmt:
				if IsPanicCall(info, x) {
					hit = true
				}
			}
			if !hit && relevant(m) {
				hit = true
			}
			return !hit
		})
		return hit
	}
	var prune func(list []ast.Stmt) []ast.Stmt
	pruneBlock := func(b *ast.BlockStmt) *ast.BlockStmt {
		if b == nil {
			return nil
		}
		return &ast.BlockStmt{Lbrace: b.Lbrace, List: prune(b.List), Rbrace: b.Rbrace}
	}
	prune = func(list []ast.Stmt) []ast.Stmt {
		var out []ast.Stmt
		for _, st := range list {
			switch x := st.(type) {
			case *ast.IfStmt:
				if !matters(x) {
					continue
				}
				cp := *x
				cp.Body = pruneBlock(x.Body)
				if eb, ok := x.Else.(*ast.BlockStmt); ok {
					cp.Else = pruneBlock(eb)
				}
				out = append(out, &cp)
			case *ast.ForStmt:
				if !matters(x) {
					continue
				}
				cp := *x
				cp.Body = pruneBlock(x.Body)
				out = append(out, &cp)
			case *ast.RangeStmt:
				if !matters(x) {
					continue
				}
				cp := *x
				cp.Body = pruneBlock(x.Body)
				out = append(out, &cp)
			case *ast.BlockStmt:
				if !matters(x) {
					continue
				}
				out = append(out, pruneBlock(x))
			case *ast.SwitchStmt, *ast.TypeSwitchStmt, *ast.SelectStmt:
				if !matters(x) {
					continue
				}
				out = append(out, st)
			default:
				out = append(out, st)
			}
		}
		return out
	}
	return prune(list)
}
