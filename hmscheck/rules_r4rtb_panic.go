package main

// R-map-order, part 5 (round 4): A SECOND WAY OUT OF A SEARCH LOOP.
//
// A range over a map that can leave early (return / break) is order-insensitive
// only if it does not matter which qualifying element is met first. A call in
// the body that may PANIC depending on its argument — the callee applies an
// unchecked type assertion (or panics under a test of the dynamic kind/type)
// to a parameter — is a second, different way of leaving when the argument
// derives from the visited element: with one element that makes the loop
// return and another one that makes the callee panic, the visiting order
// decides between a normal result and a crash. Such a call must be dominated,
// inside the loop body, by a guard that excludes the panicking inputs: a
// comparison of the dynamic kind of the receiver (or of another argument) with
// the dynamic kind of the argument whose inequality edge leaves the iteration.
//
// Summaries ("may panic on parameter i") are computed over go/ssa for every
// function of the module and closed over calls that forward a parameter
// unguarded; dynamically dispatched calls use all VTA callees of the site.

import (
	"fmt"
	"go/ast"
	"go/token"
	"go/types"
	"sort"
	"strings"

	"golang.org/x/tools/go/ssa"
)

type r4bPanicWit struct {
	pos  token.Pos
	what string
	fn   string
}

type r4bPanics struct {
	c    *Ctx
	a    *dmAnalysis
	sums map[*ssa.Function]map[int]r4bPanicWit
}

var r4bPanicCache = map[*Ctx]*r4bPanics{}

// r4bParamOf: the parameter of fn the value is (a copy / the pointee / an
// interface conversion of), or -1.
func r4bParamOf(fn *ssa.Function, v ssa.Value, depth int) int {
	if r, ok := r4bParamMemo[v]; ok {
		return r
	}
	r := r4bParamOfRec(fn, v, map[ssa.Value]bool{})
	if r == -2 {
		r = -1
	}
	r4bParamMemo[v] = r
	return r
}

var r4bParamMemo = map[ssa.Value]int{}

// r4bParamOfRec: -2 = no information (a cycle through a phi).
func r4bParamOfRec(fn *ssa.Function, v ssa.Value, seen map[ssa.Value]bool) int {
	if len(seen) > 64 {
		return -1
	}
	switch x := v.(type) {
	case *ssa.Parameter:
		if x.Parent() == fn {
			return dmParamIndex(fn, x)
		}
	case *ssa.UnOp:
		if x.Op == token.MUL {
			if al, ok := x.X.(*ssa.Alloc); ok {
				if p := r4bSpilledParam(al); p != nil && p.Parent() == fn {
					return dmParamIndex(fn, p)
				}
				return -1
			}
			return r4bParamOfRec(fn, x.X, seen)
		}
	case *ssa.ChangeInterface:
		return r4bParamOfRec(fn, x.X, seen)
	case *ssa.MakeInterface:
		return r4bParamOfRec(fn, x.X, seen)
	case *ssa.ChangeType:
		return r4bParamOfRec(fn, x.X, seen)
	case *ssa.Phi:
		if seen[x] {
			return -2
		}
		seen[x] = true
		r := -2
		for _, e := range x.Edges {
			p := r4bParamOfRec(fn, e, seen)
			if p == -2 {
				continue
			}
			if r == -2 {
				r = p
			} else if r != p {
				return -1
			}
		}
		return r
	}
	return -1
}

// r4bCondParams: the parameters whose dynamic kind / type / state the
// condition tests.
func r4bCondParams(fn *ssa.Function, v ssa.Value, depth int, out map[int]bool) {
	if depth > 8 || v == nil {
		return
	}
	switch x := v.(type) {
	case *ssa.BinOp:
		r4bCondParams(fn, x.X, depth+1, out)
		r4bCondParams(fn, x.Y, depth+1, out)
	case *ssa.UnOp:
		if x.Op == token.NOT {
			r4bCondParams(fn, x.X, depth+1, out)
		}
	case *ssa.Phi:
		for _, e := range x.Edges {
			r4bCondParams(fn, e, depth+1, out)
		}
	case *ssa.ChangeType:
		r4bCondParams(fn, x.X, depth+1, out)
	case *ssa.Convert:
		r4bCondParams(fn, x.X, depth+1, out)
	case *ssa.Extract:
		if ta, ok := x.Tuple.(*ssa.TypeAssert); ok && ta.CommaOk && x.Index == 1 {
			if p := r4bParamOf(fn, ta.X, 0); p >= 0 {
				out[p] = true
			}
		}
	case *ssa.Call:
		// p.Kind() and the like: a call on / with the parameter that yields a plain (non-reference) value
		if dmPointerLike(x.Type()) {
			return
		}
		common := x.Common()
		if common.IsInvoke() {
			if p := r4bParamOf(fn, common.Value, 0); p >= 0 {
				out[p] = true
			}
		}
		for _, a := range common.Args {
			if p := r4bParamOf(fn, a, 0); p >= 0 {
				out[p] = true
			}
		}
	}
}

// r4bGuardedParams: the parameters tested by a branch on exactly one side of
// which the block lies.
func r4bGuardedParams(fn *ssa.Function, b *ssa.BasicBlock) map[int]bool {
	out := map[int]bool{}
	for d := b.Idom(); d != nil; d = d.Idom() {
		if len(d.Instrs) == 0 {
			continue
		}
		ifi, ok := d.Instrs[len(d.Instrs)-1].(*ssa.If)
		if !ok {
			continue
		}
		oneSided := false
		for _, s := range d.Succs {
			if len(s.Preds) == 1 && s.Dominates(b) {
				oneSided = true
			}
		}
		if oneSided {
			r4bCondParams(fn, ifi.Cond, 0, out)
		}
	}
	return out
}

func r4bComputePanics(c *Ctx, a *dmAnalysis) *r4bPanics {
	if p := r4bPanicCache[c]; p != nil {
		return p
	}
	ps := &r4bPanics{c: c, a: a, sums: map[*ssa.Function]map[int]r4bPanicWit{}}
	r4bPanicCache[c] = ps
	add := func(fn *ssa.Function, pi int, w r4bPanicWit) bool {
		m := ps.sums[fn]
		if m == nil {
			m = map[int]r4bPanicWit{}
			ps.sums[fn] = m
		}
		if _, ok := m[pi]; ok {
			return false
		}
		m[pi] = w
		return true
	}
	type fwd struct {
		fn *ssa.Function
		ci ssa.CallInstruction
	}
	var forwards []fwd
	guardMemo := map[*ssa.BasicBlock]map[int]bool{}
	guarded := func(fn *ssa.Function, b *ssa.BasicBlock) map[int]bool {
		if g, ok := guardMemo[b]; ok {
			return g
		}
		g := r4bGuardedParams(fn, b)
		guardMemo[b] = g
		return g
	}
	for _, fn := range a.funcs {
		if len(fn.Params) == 0 {
			continue
		}
		for _, blk := range fn.Blocks {
			for _, in := range blk.Instrs {
				switch x := in.(type) {
				case *ssa.TypeAssert:
					if x.CommaOk {
						continue
					}
					pi := r4bParamOf(fn, x.X, 0)
					if pi < 0 || guarded(fn, blk)[pi] {
						continue
					}
					add(fn, pi, r4bPanicWit{pos: x.Pos(), fn: moCalleeName(fn),
						what: fmt.Sprintf("unchecked type assertion .(%s) of parameter %s", moTypeSig(x.AssertedType), fn.Params[pi].Name())})
				case *ssa.Panic:
					var pis []int
					for pi := range guarded(fn, blk) {
						pis = append(pis, pi)
					}
					sort.Ints(pis)
					for _, pi := range pis {
						if r4bExhaustedSwitch(c, fn, blk) {
							continue
						}
						add(fn, pi, r4bPanicWit{pos: x.Pos(), fn: moCalleeName(fn),
							what: fmt.Sprintf("explicit panic under a test of parameter %s", fn.Params[pi].Name())})
					}
				case ssa.CallInstruction:
					common := x.Common()
					some := false
					if common.IsInvoke() && r4bParamOf(fn, common.Value, 0) >= 0 {
						some = true
					}
					for _, arg := range common.Args {
						if r4bParamOf(fn, arg, 0) >= 0 {
							some = true
						}
					}
					if some {
						forwards = append(forwards, fwd{fn, x})
					}
				}
			}
		}
	}
	for pass := 0; pass < 12; pass++ {
		changed := false
		for _, f := range forwards {
			common := f.ci.Common()
			if _, isB := common.Value.(*ssa.Builtin); isB {
				continue
			}
			for _, callee := range a.callees(f.ci) {
				sum := ps.sums[callee]
				if len(sum) == 0 {
					continue
				}
				var js []int
				for j := range sum {
					js = append(js, j)
				}
				sort.Ints(js)
				for _, j := range js {
					arg := dmArgFor(common, callee, j)
					if arg == nil {
						continue
					}
					pi := r4bParamOf(f.fn, arg, 0)
					if pi < 0 || guarded(f.fn, f.ci.Block())[pi] {
						continue
					}
					w := sum[j]
					if add(f.fn, pi, r4bPanicWit{pos: w.pos, fn: w.fn, what: w.what + " (parameter " + f.fn.Params[pi].Name() + " of " + moCalleeName(f.fn) + " is forwarded unguarded)"}) {
						changed = true
					}
				}
			}
		}
		if !changed {
			break
		}
	}
	return ps
}

// r4bExhaustedSwitch: the panicking block is the `default` of a chain of
// equality tests of one value against constants that together list every
// member of the value's enumeration type: it cannot be reached.
func r4bExhaustedSwitch(c *Ctx, fn *ssa.Function, b *ssa.BasicBlock) bool {
	var subject ssa.Value
	seen := map[string]bool{}
	var named types.Type
	cur := b
	for i := 0; i < 256; i++ {
		if len(cur.Preds) != 1 {
			break
		}
		d := cur.Preds[0]
		if len(d.Instrs) == 0 {
			break
		}
		ifi, ok := d.Instrs[len(d.Instrs)-1].(*ssa.If)
		if !ok || len(d.Succs) != 2 || d.Succs[1] != cur {
			break // must come along the "not equal" edge
		}
		be, ok := ifi.Cond.(*ssa.BinOp)
		if !ok || be.Op != token.EQL {
			break
		}
		k, isK := be.Y.(*ssa.Const)
		sub := be.X
		if !isK {
			k, isK = be.X.(*ssa.Const)
			sub = be.Y
		}
		if !isK || k.Value == nil {
			break
		}
		if subject == nil {
			subject = sub
			named = sub.Type()
		} else if subject != sub {
			break
		}
		seen[k.Value.ExactString()] = true
		cur = d
	}
	if subject == nil || named == nil {
		return false
	}
	if b, ok := named.Underlying().(*types.Basic); ok && b.Info()&types.IsBoolean != 0 {
		return seen["true"] && seen["false"]
	}
	en := c.EnumOf(named)
	if en == nil {
		return false
	}
	if len(en.Consts) == 0 {
		return false
	}
	for _, k := range en.Consts {
		if !seen[k.Val().ExactString()] {
			return false
		}
	}
	return true
}

// ---- the loops ----

// r4bMentionsLoop: the expression mentions the loop key / element / a variable
// declared inside the loop body.
func r4bMentionsLoop(l *moLoop, e ast.Expr) bool {
	m := false
	ast.Inspect(e, func(n ast.Node) bool {
		if id, ok := n.(*ast.Ident); ok && !m {
			if o := moObj(l.info, id); o != nil && (o == l.key || o == l.val || l.declaredInLoop(o)) {
				m = true
			}
		}
		return !m
	})
	return m
}

type r4bGuardCtx struct {
	l    *moLoop
	c    *Ctx
	defs map[types.Object]ast.Expr // loop-local variables with exactly one definition
}

func r4bNewGuardCtx(c *Ctx, l *moLoop) *r4bGuardCtx {
	g := &r4bGuardCtx{l: l, c: c, defs: map[types.Object]ast.Expr{}}
	count := map[types.Object]int{}
	ast.Inspect(l.rs.Body, func(n ast.Node) bool {
		switch x := n.(type) {
		case *ast.AssignStmt:
			for i, lh := range x.Lhs {
				id, ok := lh.(*ast.Ident)
				if !ok {
					continue
				}
				o := moObj(l.info, id)
				if o == nil {
					continue
				}
				count[o]++
				if len(x.Rhs) == len(x.Lhs) {
					g.defs[o] = x.Rhs[i]
				} else {
					g.defs[o] = nil
				}
			}
		case *ast.ValueSpec:
			for i, id := range x.Names {
				o := l.info.Defs[id]
				if o == nil {
					continue
				}
				count[o]++
				if i < len(x.Values) && len(x.Values) == len(x.Names) {
					g.defs[o] = x.Values[i]
				} else {
					g.defs[o] = nil
				}
			}
		case *ast.IncDecStmt:
			if id, ok := x.X.(*ast.Ident); ok {
				if o := moObj(l.info, id); o != nil {
					count[o] += 2
				}
			}
		case *ast.UnaryExpr:
			if x.Op == token.AND {
				if id, ok := ast.Unparen(x.X).(*ast.Ident); ok {
					if o := moObj(l.info, id); o != nil {
						count[o] += 2
					}
				}
			}
		}
		return true
	})
	for o, n := range count {
		if n != 1 || g.defs[o] == nil || !l.declaredInLoop(o) {
			delete(g.defs, o)
		}
	}
	return g
}

// resolve replaces a loop-local single-definition variable by its definition.
func (g *r4bGuardCtx) resolve(e ast.Expr, depth int) ast.Expr {
	e = ast.Unparen(e)
	if depth > 5 {
		return e
	}
	if id, ok := e.(*ast.Ident); ok {
		if d, ok := g.defs[moObj(g.l.info, id)]; ok && d != nil {
			return g.resolve(d, depth+1)
		}
	}
	return e
}

// canon: the object an expression denotes, through parentheses, dereferences,
// address-of and loop-local copies.
func (g *r4bGuardCtx) canon(e ast.Expr, depth int) string {
	e = ast.Unparen(e)
	for i := 0; i < 8; i++ {
		switch x := e.(type) {
		case *ast.StarExpr:
			e = ast.Unparen(x.X)
			continue
		case *ast.UnaryExpr:
			if x.Op == token.AND {
				e = ast.Unparen(x.X)
				continue
			}
		case *ast.Ident:
			if depth < 5 {
				if d, ok := g.defs[moObj(g.l.info, x)]; ok && d != nil {
					return g.canon(d, depth+1)
				}
			}
		}
		break
	}
	return exprStr(e)
}

// kindProbe: e is `<X>.<m>()` with m a parameterless method yielding a plain
// comparable value (the dynamic kind); returns X and the method.
func (g *r4bGuardCtx) kindProbe(info *types.Info, e ast.Expr) (ast.Expr, *types.Func) {
	call, ok := ast.Unparen(e).(*ast.CallExpr)
	if !ok || len(call.Args) != 0 {
		return nil, nil
	}
	se, ok := ast.Unparen(call.Fun).(*ast.SelectorExpr)
	if !ok {
		return nil, nil
	}
	sel := info.Selections[se]
	if sel == nil || sel.Kind() != types.MethodVal {
		return nil, nil
	}
	fn, ok := sel.Obj().(*types.Func)
	if !ok {
		return nil, nil
	}
	sig := fn.Type().(*types.Signature)
	if sig.Results().Len() != 1 || dmPointerLike(sig.Results().At(0).Type()) {
		return nil, nil
	}
	return se.X, fn
}

type r4bAtom struct {
	eq   bool
	a, b string
}

// atoms: what is known when cond has the given truth value — comparisons of
// the dynamic kinds of two objects.
func (g *r4bGuardCtx) atoms(cond ast.Expr, truth bool, depth int) []r4bAtom {
	info := g.l.info
	if depth > 6 {
		return nil
	}
	cond = g.resolve(cond, 0)
	switch x := cond.(type) {
	case *ast.UnaryExpr:
		if x.Op == token.NOT {
			return g.atoms(x.X, !truth, depth+1)
		}
	case *ast.BinaryExpr:
		switch x.Op {
		case token.LAND:
			if truth {
				return append(g.atoms(x.X, true, depth+1), g.atoms(x.Y, true, depth+1)...)
			}
		case token.LOR:
			if !truth {
				return append(g.atoms(x.X, false, depth+1), g.atoms(x.Y, false, depth+1)...)
			}
		case token.EQL, token.NEQ:
			xa, fa := g.kindProbe(info, g.resolve(x.X, 0))
			xb, fb := g.kindProbe(info, g.resolve(x.Y, 0))
			if xa != nil && xb != nil && fa == fb {
				eq := (x.Op == token.EQL) == truth
				return []r4bAtom{{eq: eq, a: g.canon(xa, 0), b: g.canon(xb, 0)}}
			}
		}
	case *ast.CallExpr:
		// a predicate helper of the module: `return a.Kind() == b.Kind()` over its parameters
		fn := CalleeOf(info, x)
		if fn == nil || fn.Pkg() == nil || !strings.HasPrefix(fn.Pkg().Path(), ModPath) {
			return nil
		}
		ref := moDeclOf(g.c, fn)
		if ref == nil || ref.fd.Body == nil || len(ref.fd.Body.List) != 1 || ref.fd.Type.Params == nil {
			return nil
		}
		ret, ok := ref.fd.Body.List[0].(*ast.ReturnStmt)
		if !ok || len(ret.Results) != 1 {
			return nil
		}
		be, ok := ast.Unparen(ret.Results[0]).(*ast.BinaryExpr)
		if !ok || (be.Op != token.EQL && be.Op != token.NEQ) {
			return nil
		}
		hinfo := ref.pkg.TypesInfo
		hg := &r4bGuardCtx{l: g.l, c: g.c, defs: map[types.Object]ast.Expr{}}
		xa, fa := hg.kindProbe(hinfo, be.X)
		xb, fb := hg.kindProbe(hinfo, be.Y)
		if xa == nil || xb == nil || fa != fb {
			return nil
		}
		// map the helper's parameters (and its receiver) to the arguments
		argOf := map[types.Object]ast.Expr{}
		var params []*ast.Ident
		for _, f := range ref.fd.Type.Params.List {
			params = append(params, f.Names...)
		}
		if len(params) != len(x.Args) || fn.Type().(*types.Signature).Variadic() {
			return nil
		}
		for i, p := range params {
			argOf[hinfo.Defs[p]] = x.Args[i]
		}
		if ref.fd.Recv != nil && len(ref.fd.Recv.List) == 1 && len(ref.fd.Recv.List[0].Names) == 1 {
			if se, ok := ast.Unparen(x.Fun).(*ast.SelectorExpr); ok {
				argOf[hinfo.Defs[ref.fd.Recv.List[0].Names[0]]] = se.X
			}
		}
		toArg := func(e ast.Expr) ast.Expr {
			e = ast.Unparen(e)
			for {
				switch y := e.(type) {
				case *ast.StarExpr:
					e = ast.Unparen(y.X)
					continue
				}
				break
			}
			if id, ok := e.(*ast.Ident); ok {
				if a, ok := argOf[moObj(hinfo, id)]; ok {
					return a
				}
			}
			return nil
		}
		aa, ab := toArg(xa), toArg(xb)
		if aa == nil || ab == nil {
			return nil
		}
		eq := (be.Op == token.EQL) == truth
		return []r4bAtom{{eq: eq, a: g.canon(aa, 0), b: g.canon(ab, 0)}}
	}
	return nil
}

func r4bHasEq(atoms []r4bAtom, a, b string) bool {
	for _, at := range atoms {
		if at.eq && ((at.a == a && at.b == b) || (at.a == b && at.b == a)) && a != b {
			return true
		}
	}
	return false
}

func r4bTerminates(info *types.Info, list []ast.Stmt) bool {
	if len(list) == 0 {
		return false
	}
	switch x := list[len(list)-1].(type) {
	case *ast.ReturnStmt, *ast.BranchStmt:
		return true
	case *ast.ExprStmt:
		return IsPanicCall(info, x)
	case *ast.BlockStmt:
		return r4bTerminates(info, x.List)
	}
	return false
}

// guardFor: the position of a guard inside the loop body that dominates the
// call and establishes kind(a) == kind(b); "" when there is none.
func (g *r4bGuardCtx) guardFor(call *ast.CallExpr, a, b string) string {
	info := g.l.info
	// path from the loop body to the call
	var path []ast.Node
	var stack []ast.Node
	ast.Inspect(g.l.rs.Body, func(n ast.Node) bool {
		if n == nil {
			stack = stack[:len(stack)-1]
			return true
		}
		stack = append(stack, n)
		if n == ast.Node(call) {
			path = append([]ast.Node(nil), stack...)
		}
		return path == nil
	})
	if path == nil {
		return ""
	}
	at := func(n ast.Node) string { return g.c.Pos(n.Pos()) }
	for i := 0; i+1 < len(path); i++ {
		child := path[i+1]
		var list []ast.Stmt
		switch x := path[i].(type) {
		case *ast.BlockStmt:
			list = x.List
		case *ast.CaseClause:
			list = x.Body
		case *ast.CommClause:
			list = x.Body
		case *ast.IfStmt:
			switch {
			case child == ast.Node(x.Body):
				if r4bHasEq(g.atoms(x.Cond, true, 0), a, b) {
					return at(x.Cond)
				}
			case x.Else != nil && child == ast.Node(x.Else):
				if r4bHasEq(g.atoms(x.Cond, false, 0), a, b) {
					return at(x.Cond)
				}
			}
		case *ast.BinaryExpr:
			if child == ast.Node(x.Y) {
				switch x.Op {
				case token.LOR:
					if r4bHasEq(g.atoms(x.X, false, 0), a, b) {
						return at(x.X)
					}
				case token.LAND:
					if r4bHasEq(g.atoms(x.X, true, 0), a, b) {
						return at(x.X)
					}
				}
			}
		case *ast.SwitchStmt:
			// tagless switch: the clauses before the one containing the call were all false
			if x.Tag == nil {
				for _, cl := range x.Body.List {
					cc := cl.(*ast.CaseClause)
					if i+2 < len(path) && ast.Node(cc) == path[i+2] {
						break
					}
					for _, e := range cc.List {
						if r4bHasEq(g.atoms(e, false, 0), a, b) {
							return at(e)
						}
					}
				}
			}
		}
		for _, st := range list {
			if ast.Node(st) == child {
				break
			}
			switch x := st.(type) {
			case *ast.IfStmt:
				if x.Else == nil && r4bTerminates(info, x.Body.List) && r4bHasEq(g.atoms(x.Cond, false, 0), a, b) {
					return at(x.Cond)
				}
			case *ast.SwitchStmt:
				if x.Tag != nil {
					continue
				}
				allLeave := true
				for _, cl := range x.Body.List {
					cc := cl.(*ast.CaseClause)
					if cc.List == nil {
						continue // default
					}
					if !r4bTerminates(info, cc.Body) {
						allLeave = false
					}
					if allLeave {
						for _, e := range cc.List {
							if len(cc.List) == 1 && r4bHasEq(g.atoms(e, false, 0), a, b) {
								return at(e)
							}
						}
					}
				}
			}
		}
	}
	return ""
}

// nilElementExit: the statement's innermost enclosing `if` (inside the loop
// body, with the statement in its then-branch) tests nothing but whether the
// loop's pointer-typed value variable is nil.
func (g *r4bGuardCtx) nilElementExit(st ast.Stmt) bool {
	l := g.l
	if l.val == nil {
		return false
	}
	if _, ok := l.val.Type().Underlying().(*types.Pointer); !ok {
		return false
	}
	var stack []ast.Node
	var ifs *ast.IfStmt
	found := false
	ast.Inspect(l.rs.Body, func(n ast.Node) bool {
		if n == nil {
			stack = stack[:len(stack)-1]
			return true
		}
		if found {
			return false
		}
		stack = append(stack, n)
		if n == ast.Node(st) {
			found = true
			for i := len(stack) - 2; i >= 1; i-- {
				if is, ok := stack[i-1].(*ast.IfStmt); ok && stack[i] == ast.Node(is.Body) {
					ifs = is
					break
				}
			}
		}
		return !found
	})
	if ifs == nil {
		return false
	}
	be, ok := ast.Unparen(ifs.Cond).(*ast.BinaryExpr)
	if !ok || be.Op != token.EQL {
		return false
	}
	isVal := func(e ast.Expr) bool {
		id, ok := ast.Unparen(e).(*ast.Ident)
		return ok && moObj(l.info, id) == l.val
	}
	return (isVal(be.X) && moIsNil(l.info, be.Y)) || (isVal(be.Y) && moIsNil(l.info, be.X))
}

type r4bPanicCall struct {
	call    *ast.CallExpr
	name    string
	guard   string
	wits    []string
	argText string
}

func r4bCallName(info *types.Info, call *ast.CallExpr, callees []*ssa.Function) string {
	if fn := CalleeOf(info, call); fn != nil {
		if fn.Exported() {
			if sig, ok := fn.Type().(*types.Signature); ok && sig.Recv() != nil {
				t := sig.Recv().Type()
				if p, ok := t.(*types.Pointer); ok {
					t = p.Elem()
				}
				if n, ok := t.(*types.Named); ok {
					return n.Obj().Name() + "." + fn.Name()
				}
			}
			return fn.Name()
		}
		if len(callees) > 0 {
			return moStableCalleeName(callees[0])
		}
	}
	return "func " + moTypeSig(info.TypeOf(call.Fun))
}

func r4bPanicExitObligations(c *Ctx, a *dmAnalysis, loops []*moLoop, scans map[*moLoop]*moScan) []r4bSub {
	ps := r4bComputePanics(c, a)
	var obs []r4bSub
	for _, l := range loops {
		s := scans[l]
		if s == nil {
			continue
		}
		g := r4bNewGuardCtx(c, l)
		var calls []*r4bPanicCall
		ast.Inspect(l.rs.Body, func(n ast.Node) bool {
			if _, ok := n.(*ast.FuncLit); ok {
				return false
			}
			call, ok := n.(*ast.CallExpr)
			if !ok {
				return true
			}
			if tv, ok := l.info.Types[call.Fun]; ok && tv.IsType() {
				return true
			}
			callees := moCallees(a, l.info, call)
			var pc *r4bPanicCall
			witSeen := map[string]bool{}
			for _, callee := range callees {
				sum := ps.sums[callee]
				if len(sum) == 0 {
					continue
				}
				var js []int
				for j := range sum {
					js = append(js, j)
				}
				sort.Ints(js)
				for _, j := range js {
					for _, arg := range moArgFor(l.info, call, callee, j) {
						if !r4bMentionsLoop(l, arg) {
							continue
						}
						if pc == nil {
							pc = &r4bPanicCall{call: call, name: r4bCallName(l.info, call, callees), guard: "?", argText: exprStr(arg)}
						}
						// the guard: kind of the argument against the kind of the receiver / another argument
						ac := g.canon(arg, 0)
						var others []ast.Expr
						if se, ok := ast.Unparen(call.Fun).(*ast.SelectorExpr); ok {
							if sel := l.info.Selections[se]; sel != nil && sel.Kind() == types.MethodVal {
								others = append(others, se.X)
							}
						}
						for _, o := range call.Args {
							if o != arg {
								others = append(others, o)
							}
						}
						gd := ""
						for _, o := range others {
							if gd = g.guardFor(call, g.canon(o, 0), ac); gd != "" {
								break
							}
						}
						if pc.guard == "?" || gd == "" {
							pc.guard = gd
						}
						w := sum[j]
						wt := fmt.Sprintf("%s: %s @%s", w.fn, w.what, c.Pos(w.pos))
						if !witSeen[wt] {
							witSeen[wt] = true
							pc.wits = append(pc.wits, wt)
						}
					}
				}
			}
			if pc != nil {
				sort.Strings(pc.wits)
				calls = append(calls, pc)
			}
			return true
		})
		// exits taken only when the visited element is a nil pointer do not count as a second outcome
		var otherExits []moExit
		var nilExits []string
		for _, x := range s.exits {
			if g.nilElementExit(x.stmt) {
				nilExits = append(nilExits, fmt.Sprintf("`%s` @%s", x.text, c.Pos(x.stmt.Pos())))
			} else {
				otherExits = append(otherExits, x)
			}
		}
		seen := map[string]int{}
		for _, pc := range calls {
			seen[pc.name]++
			key := l.keyStr + "|panic-vs-exit " + pc.name
			if seen[pc.name] > 1 {
				key = fmt.Sprintf("%s #%d", key, seen[pc.name])
			}
			ob := Obligation{Key: key, Pos: c.Pos(pc.call.Pos()), Nontrivial: true}
			wits := pc.wits
			more := ""
			if len(wits) > 3 {
				more = fmt.Sprintf("; … (%d callees in all)", len(wits))
				wits = wits[:3]
			}
			callText := fmt.Sprintf("the call %s @%s may panic depending on its argument %s, which derives from the visited element (%s%s)", exprStr(pc.call.Fun), c.Pos(pc.call.Pos()), pc.argText, strings.Join(wits, "; "), more)
			switch {
			case pc.guard != "":
				ob.Status = Discharged
				ob.Detail = fmt.Sprintf("%s; dominated by the kind guard @%s, whose inequality edge does not reach the call", callText, pc.guard)
			case len(s.exits) == 0:
				ob.Status = Info
				ob.Detail = callText + "; no guard excludes the panicking inputs, but the loop has no other early exit: every order that meets a panicking element panics, the order only selects which of several offending elements is named in the panic message (not a result of an accepted program)"
			case len(otherExits) == 0:
				ob.Status = Info
				ob.Detail = callText + "; no guard excludes the panicking inputs; the only other early exits of the loop (" + strings.Join(nilExits, ", ") + ") are taken when the visited element itself is a nil pointer. ASSUMPTION: the ranged map never holds a nil pointer (its elements are dereferenced unconditionally by every other consumer), so the panic is the only feasible way of leaving early and the order only selects which offending element is named in the panic message"
			default:
				x := otherExits[0]
				ob.Status = Violated
				ob.Detail = fmt.Sprintf("order-dependent: the loop leaves with different outcomes depending on which element is visited first: `%s` @%s vs a panic — %s; no guard inside the loop body that compares the dynamic kind of the receiver (or another argument) with that of the argument, and leaves the iteration when they differ, dominates the call", x.text, c.Pos(x.stmt.Pos()), callText)
			}
			obs = append(obs, r4bSub{ob: ob, l: l, sig: "panic-vs-exit " + pc.name, ranged: moTypeSig(l.info.TypeOf(l.rs.X))})
		}
	}
	return obs
}
