package main

import (
	"fmt"
	"go/ast"
	"go/types"
	"sort"
	"strings"

	"golang.org/x/tools/go/packages"
)

// R-search-loop: a recursive search over the children of a structure looks at every child before it answers
// "nothing found".

func init() {
	register(&Rule{ID: "R-search-loop", Floor: 6, Run: ruleR7SearchLoop,
		Doc: "a *recursive search loop* is found by shape: a loop, in a function that calls itself, whose body hands the current element (or a part of it) to the recursion, in a function whose statement after the loop (or last statement) returns a constant answer — nil / false / true / a zero literal: the answer for 'no child decided'. Inside such a loop the answer of the recursion for ONE child may leave the function only when it was examined: `if r := f(child); r != nil { return r }`, `if f(child) { return true }`, `acc = acc || f(child)`. A `return f(child)` that hands the child's answer out untested returns the not-found answer as soon as the first child (of that shape) has nothing, and the remaining children are never looked at: the search answers 'nothing found' for structures whose later components have what is searched for (a singleton type whose second field has no default value is accepted and the engines panic when they build the default, C02; an `any` in a later field is missed, C12)."})
}

func ruleR7SearchLoop(c *Ctx) []Obligation {
	var out []Obligation
	pkgs := append([]*packages.Package(nil), c.All...)
	sort.Slice(pkgs, func(i, j int) bool { return pkgs[i].PkgPath < pkgs[j].PkgPath })
	for _, p := range pkgs {
		if !strings.HasPrefix(p.PkgPath, ModPath) {
			continue
		}
		info := p.TypesInfo
		for _, fd := range AllFuncDecls(p) {
			fn, _ := info.Defs[fd.Name].(*types.Func)
			if fn == nil || fd.Body == nil || len(fd.Body.List) == 0 {
				continue
			}
			sig := fn.Type().(*types.Signature)
			if sig.Results().Len() == 0 {
				continue
			}
			isSelf := func(x ast.Expr) *ast.CallExpr {
				call, ok := ast.Unparen(x).(*ast.CallExpr)
				if ok && CalleeOf(info, call) == fn {
					return call
				}
				return nil
			}
			constAnswer := func(x ast.Expr) bool {
				x = ast.Unparen(x)
				if id, ok := x.(*ast.Ident); ok && (id.Name == "nil" || id.Name == "true" || id.Name == "false") {
					return true
				}
				if tv, ok := info.Types[x]; ok && tv.Value != nil {
					return true
				}
				if cl, ok := x.(*ast.CompositeLit); ok && len(cl.Elts) == 0 {
					return true
				}
				return false
			}
			// the answer after a loop: the statement that follows it in its statement list, or the last statement of the
			// function, returns a constant
			after := map[ast.Node]*ast.ReturnStmt{}
			var fnLast *ast.ReturnStmt
			if l, ok := fd.Body.List[len(fd.Body.List)-1].(*ast.ReturnStmt); ok && len(l.Results) > 0 && constAnswer(l.Results[0]) {
				fnLast = l
			}
			ast.Inspect(fd.Body, func(m ast.Node) bool {
				var list []ast.Stmt
				switch x := m.(type) {
				case *ast.BlockStmt:
					list = x.List
				case *ast.CaseClause:
					list = x.Body
				}
				for i, st := range list {
					switch st.(type) {
					case *ast.RangeStmt, *ast.ForStmt:
						if i+1 < len(list) {
							if r, ok := list[i+1].(*ast.ReturnStmt); ok && len(r.Results) > 0 && constAnswer(r.Results[0]) {
								after[st] = r
							}
						}
					}
				}
				return true
			})
			f := r2sibFuncOf(c, p, fd)
			nLoop := 0
			var visit func(n ast.Node)
			visit = func(n ast.Node) {
				ast.Inspect(n, func(m ast.Node) bool {
					if m == n {
						return true
					}
					var body *ast.BlockStmt
					var listTerm string
					switch l := m.(type) {
					case *ast.FuncLit:
						return false
					case *ast.RangeStmt:
						body, listTerm = l.Body, f.pretty(f.norm(l.X))
					case *ast.ForStmt:
						body, listTerm = l.Body, "counter loop"
					default:
						return true
					}
					// recursion on the element inside this loop?
					var recCalls, untested []string
					ast.Inspect(body, func(x ast.Node) bool {
						if _, ok := x.(*ast.FuncLit); ok {
							return false
						}
						if call, ok := x.(*ast.CallExpr); ok && CalleeOf(info, call) == fn {
							recCalls = append(recCalls, c.Pos(call.Pos()))
						}
						if rs, ok := x.(*ast.ReturnStmt); ok && len(rs.Results) > 0 {
							if call := isSelf(rs.Results[0]); call != nil {
								untested = append(untested, fmt.Sprintf("`return %s` (%s)", exprStr(call), c.Pos(rs.Pos())))
							}
						}
						return true
					})
					last := after[m]
					if last == nil {
						last = fnLast
					}
					if len(recCalls) == 0 || last == nil {
						return true
					}
					nLoop++
					key := fmt.Sprintf("%s.%s|loop %d over %s|a child's answer leaves the loop only after it was examined", relPkg(p.PkgPath), FuncName(fd), nLoop, listTerm)
					ob := Obligation{Key: key, Pos: c.Pos(m.Pos()), Nontrivial: true}
					if len(untested) > 0 {
						ob.Status = Violated
						ob.Detail = fmt.Sprintf("%s hands the answer for one child out of the loop untested, while the function answers `%s` after the loop: when that child has nothing the not-found answer is returned at once and the remaining elements are never examined", strings.Join(untested, ", "), exprStr(last.Results[0]))
					} else {
						ob.Detail = fmt.Sprintf("%d recursive call(s) in the loop, none returned untested; `%s` is answered after the loop", len(recCalls), exprStr(last.Results[0]))
					}
					out = append(out, ob)
					return false
				})
			}
			visit(fd.Body)
		}
	}
	sort.SliceStable(out, func(i, j int) bool { return out[i].Key < out[j].Key })
	return out
}
