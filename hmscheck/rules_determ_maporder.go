package main

// R-map-order, part 1: enumeration of range-over-map loops and resolution of
// written places ("what does this l-value / argument refer to, relative to the
// loop?").

import (
	"fmt"
	"go/ast"
	"go/token"
	"go/types"
	"strings"

	"golang.org/x/tools/go/packages"
	"golang.org/x/tools/go/ssa"
)

var determPipelinePkgs = []string{
	"homescript/analyzer", "homescript/analyzer/ast", "homescript/compiler",
	"homescript/runtime", "homescript/runtime/value",
	"homescript/interpreter", "homescript/interpreter/value", "homescript/optimizer",
}

type moLoop struct {
	rel     string
	pkg     *packages.Package
	info    *types.Info
	fd      *ast.FuncDecl // enclosing declaration (nil: package-level initialiser)
	fname   string
	rs      *ast.RangeStmt
	label   string
	key     types.Object
	val     types.Object
	parents []ast.Node // outermost first, excluding rs
	keyStr  string     // obligation key
}

func moEnumerate(c *Ctx) []*moLoop {
	var out []*moLoop
	for _, rel := range determPipelinePkgs {
		p := c.Pkg(rel)
		seen := map[string]int{}
		for _, f := range p.Syntax {
			for _, d := range f.Decls {
				var fd *ast.FuncDecl
				fname := "<package initialiser>"
				if x, ok := d.(*ast.FuncDecl); ok {
					if x.Body == nil {
						continue
					}
					fd = x
					fname = FuncName(x)
				}
				var stack []ast.Node
				ast.Inspect(d, func(n ast.Node) bool {
					if n == nil {
						stack = stack[:len(stack)-1]
						return true
					}
					if rs, ok := n.(*ast.RangeStmt); ok {
						if t := p.TypesInfo.TypeOf(rs.X); t != nil {
							if _, ok := t.Underlying().(*types.Map); ok {
								l := &moLoop{rel: rel, pkg: p, info: p.TypesInfo, fd: fd, fname: fname, rs: rs,
									parents: append([]ast.Node(nil), stack...)}
								if len(stack) > 0 {
									if ls, ok := stack[len(stack)-1].(*ast.LabeledStmt); ok {
										l.label = ls.Label.Name
									}
								}
								if id, ok := rs.Key.(*ast.Ident); ok && id.Name != "_" {
									l.key = moObj(p.TypesInfo, id)
								}
								if id, ok := rs.Value.(*ast.Ident); ok && id.Name != "_" {
									l.val = moObj(p.TypesInfo, id)
								}
								base := fmt.Sprintf("%s.%s|range %s", strings.TrimPrefix(rel, "homescript/"), fname, exprStr(rs.X))
								seen[base]++
								l.keyStr = base
								if seen[base] > 1 {
									l.keyStr = fmt.Sprintf("%s #%d", base, seen[base])
								}
								out = append(out, l)
							}
						}
					}
					stack = append(stack, n)
					return true
				})
			}
		}
	}
	return out
}

func moObj(info *types.Info, id *ast.Ident) types.Object {
	if o := info.Defs[id]; o != nil {
		return o
	}
	return info.Uses[id]
}

func (l *moLoop) inBody(pos token.Pos) bool {
	return pos >= l.rs.Body.Pos() && pos <= l.rs.Body.End()
}

// declaredInLoop: the object is (re)created by every iteration.
func (l *moLoop) declaredInLoop(o types.Object) bool {
	if o == nil {
		return false
	}
	return l.inBody(o.Pos())
}

func (l *moLoop) isKeyIdent(e ast.Expr) bool {
	id, ok := ast.Unparen(e).(*ast.Ident)
	return ok && l.key != nil && moObj(l.info, id) == l.key
}

// ---- places ----

type moPlace struct {
	kind    string // "fresh" (iteration-local storage) | "elem" (the visited element / indexed by the key) | "outer" | "unknown"
	obj     types.Object
	keyedOn string // text of the container indexed by the loop key ("" when not key-indexed)
	why     string
}

// resolve classifies the storage an expression designates. through == true:
// the caller writes *through* the value (it is a pointer/map/slice), so a
// loop-local variable merely holding a reference does not make the write local.
func (l *moLoop) resolve(a *dmAnalysis, e ast.Expr, through bool, depth int) moPlace {
	if depth > 10 {
		return moPlace{kind: "unknown", why: "alias chain too deep"}
	}
	info := l.info
	switch x := ast.Unparen(e).(type) {
	case *ast.Ident:
		o := moObj(info, x)
		switch ov := o.(type) {
		case *types.Var:
			if o == l.val || o == l.key {
				if through {
					return moPlace{kind: "elem", obj: o}
				}
				return moPlace{kind: "fresh", obj: o}
			}
			if l.declaredInLoop(o) {
				if !through || !dmPointerLike(ov.Type()) {
					return moPlace{kind: "fresh", obj: o}
				}
				return l.resolveAlias(a, ov, depth+1)
			}
			return moPlace{kind: "outer", obj: o}
		case *types.Nil, *types.Const:
			return moPlace{kind: "fresh"}
		}
		return moPlace{kind: "unknown", why: "identifier " + x.Name}
	case *ast.SelectorExpr:
		if sel := info.Selections[x]; sel == nil {
			// package-qualified identifier
			if v, ok := info.Uses[x.Sel].(*types.Var); ok {
				return moPlace{kind: "outer", obj: v}
			}
			return moPlace{kind: "unknown", why: exprStr(x)}
		}
		t := info.TypeOf(x.X)
		if t != nil {
			if _, ok := t.Underlying().(*types.Pointer); ok {
				return l.resolve(a, x.X, true, depth+1)
			}
		}
		return l.resolve(a, x.X, through, depth+1)
	case *ast.IndexExpr:
		t := info.TypeOf(x.X)
		thr := through
		if t != nil {
			switch u := t.Underlying().(type) {
			case *types.Map, *types.Slice:
				thr = true
			case *types.Pointer:
				_ = u
				thr = true
			}
		}
		p := l.resolve(a, x.X, thr, depth+1)
		if t != nil && l.isKeyIdent(x.Index) && (p.kind == "outer" || p.kind == "unknown") {
			if _, isMap := t.Underlying().(*types.Map); isMap {
				return moPlace{kind: "elem", obj: p.obj, keyedOn: exprStr(x.X)}
			}
		}
		return p
	case *ast.StarExpr:
		return l.resolve(a, x.X, true, depth+1)
	case *ast.SliceExpr:
		return l.resolve(a, x.X, true, depth+1)
	case *ast.TypeAssertExpr:
		return l.resolve(a, x.X, through, depth+1)
	case *ast.UnaryExpr:
		if x.Op == token.AND {
			if _, ok := ast.Unparen(x.X).(*ast.CompositeLit); ok {
				return moPlace{kind: "fresh"}
			}
			return l.resolve(a, x.X, false, depth+1)
		}
		return moPlace{kind: "fresh"}
	case *ast.CompositeLit, *ast.BasicLit, *ast.FuncLit, *ast.BinaryExpr:
		return moPlace{kind: "fresh"}
	case *ast.CallExpr:
		if !through {
			return moPlace{kind: "fresh"}
		}
		if tv, ok := info.Types[x.Fun]; ok && tv.IsType() {
			if len(x.Args) == 1 {
				return l.resolve(a, x.Args[0], through, depth+1)
			}
			return moPlace{kind: "fresh"}
		}
		if id, ok := ast.Unparen(x.Fun).(*ast.Ident); ok {
			if _, ok := info.Uses[id].(*types.Builtin); ok {
				switch id.Name {
				case "make", "new":
					return moPlace{kind: "fresh"}
				case "append":
					if len(x.Args) > 0 {
						return l.resolve(a, x.Args[0], true, depth+1)
					}
				}
				return moPlace{kind: "fresh"}
			}
		}
		if t := info.TypeOf(x); t != nil && !dmPointerLike(t) {
			return moPlace{kind: "fresh"}
		}
		cs := moCallees(a, info, x)
		if len(cs) == 0 {
			return moPlace{kind: "unknown", why: "result of unresolved call " + exprStr(x.Fun)}
		}
		for _, callee := range cs {
			sum := a.sums[callee]
			if sum == nil {
				if !dmExternFresh(callee) {
					return moPlace{kind: "unknown", why: "result of external call " + exprStr(x.Fun)}
				}
				continue
			}
			if len(sum.Ret) > 0 {
				return moPlace{kind: "unknown", why: "result of " + exprStr(x.Fun) + " (may alias its arguments)"}
			}
		}
		return moPlace{kind: "fresh"}
	}
	return moPlace{kind: "unknown", why: fmt.Sprintf("%T", e)}
}

// resolveAlias: a loop-local variable of reference type that is written
// through — find what it refers to from its definitions inside the loop body.
func (l *moLoop) resolveAlias(a *dmAnalysis, v *types.Var, depth int) moPlace {
	var places []moPlace
	add := func(p moPlace) { places = append(places, p) }
	ast.Inspect(l.rs.Body, func(n ast.Node) bool {
		switch s := n.(type) {
		case *ast.AssignStmt:
			for i, lh := range s.Lhs {
				id, ok := lh.(*ast.Ident)
				if !ok || moObj(l.info, id) != v {
					continue
				}
				switch {
				case len(s.Rhs) == len(s.Lhs):
					if c, ok := ast.Unparen(s.Rhs[i]).(*ast.CallExpr); ok && len(c.Args) > 0 {
						if fid, ok := ast.Unparen(c.Fun).(*ast.Ident); ok && fid.Name == "append" {
							if aid, ok := ast.Unparen(c.Args[0]).(*ast.Ident); ok && moObj(l.info, aid) == v {
								continue // x = append(x, …): same storage (or a fresh copy of it)
							}
						}
					}
					add(l.resolve(a, s.Rhs[i], true, depth+1))
				case len(s.Rhs) == 1:
					// tuple: call / comma-ok
					switch r := ast.Unparen(s.Rhs[0]).(type) {
					case *ast.IndexExpr:
						if i == 0 {
							add(l.resolve(a, r, true, depth+1))
						} else {
							add(moPlace{kind: "fresh"})
						}
					case *ast.TypeAssertExpr:
						if i == 0 {
							add(l.resolve(a, r.X, true, depth+1))
						} else {
							add(moPlace{kind: "fresh"})
						}
					default:
						add(l.resolve(a, s.Rhs[0], true, depth+1))
					}
				}
			}
		case *ast.RangeStmt:
			for _, kv := range []ast.Expr{s.Key, s.Value} {
				if id, ok := kv.(*ast.Ident); ok && moObj(l.info, id) == v {
					add(l.resolve(a, s.X, true, depth+1))
				}
			}
		case *ast.ValueSpec:
			for i, id := range s.Names {
				if moObj(l.info, id) == v {
					if i < len(s.Values) {
						add(l.resolve(a, s.Values[i], true, depth+1))
					} else {
						add(moPlace{kind: "fresh"})
					}
				}
			}
		case *ast.TypeSwitchStmt:
			if as, ok := s.Assign.(*ast.AssignStmt); ok && len(as.Lhs) == 1 {
				// the per-clause implicit objects all share the position of the identifier
				if id, ok := as.Lhs[0].(*ast.Ident); ok && id.Pos() == v.Pos() {
					if ta, ok := ast.Unparen(as.Rhs[0]).(*ast.TypeAssertExpr); ok {
						add(l.resolve(a, ta.X, true, depth+1))
					}
				}
			}
		}
		return true
	})
	if len(places) == 0 {
		return moPlace{kind: "unknown", obj: v, why: "no definition of " + v.Name() + " found in the loop"}
	}
	res := places[0]
	for _, p := range places[1:] {
		if p.kind != res.kind || p.keyedOn != res.keyedOn {
			return moPlace{kind: "unknown", obj: v, why: v.Name() + " refers to different storage on different paths"}
		}
	}
	return res
}

// moCallees resolves the functions a call expression may invoke.
func moCallees(a *dmAnalysis, info *types.Info, call *ast.CallExpr) []*ssa.Function {
	if fn := CalleeOf(info, call); fn != nil {
		if f := a.prog.FuncValue(fn); f != nil {
			return []*ssa.Function{f}
		}
	}
	seen := map[*ssa.Function]bool{}
	var out []*ssa.Function
	for _, f := range a.sitePos[call.Lparen] {
		if !seen[f] {
			seen[f] = true
			out = append(out, f)
		}
	}
	return out
}

// moArgFor maps a callee parameter index (receiver = 0 for methods) to the
// argument expressions of the call.
func moArgFor(info *types.Info, call *ast.CallExpr, callee *ssa.Function, i int) []ast.Expr {
	hasRecv := callee.Signature.Recv() != nil
	args := call.Args
	if hasRecv {
		sel, ok := ast.Unparen(call.Fun).(*ast.SelectorExpr)
		if !ok {
			return nil
		}
		if s := info.Selections[sel]; s != nil && s.Kind() == types.MethodExpr {
			// T.m(recv, args...)
			if i < len(args) {
				return []ast.Expr{args[i]}
			}
			return nil
		}
		if i == 0 {
			return []ast.Expr{sel.X}
		}
		i--
	} else if len(callee.FreeVars) > 0 && len(callee.Params) > callee.Signature.Params().Len() {
		return nil
	}
	np := callee.Signature.Params().Len()
	if callee.Signature.Variadic() && i >= np-1 {
		if call.Ellipsis.IsValid() {
			if np-1 < len(args) {
				return []ast.Expr{args[np-1]}
			}
			return nil
		}
		if np-1 <= len(args) {
			return args[np-1:]
		}
		return nil
	}
	if i < len(args) {
		return []ast.Expr{args[i]}
	}
	return nil
}
