package main

import (
	"fmt"
	"go/token"
	"go/types"
	"sort"
	"strings"
)

// R-optable — agreement of the four operator tables (analyzer admission,
// compiler lowering, VM handlers, interpreter handlers), compared as
// extracted relations (rules_ops_eval.go, rules_ops_tables.go).

func init() {
	register(&Rule{ID: "R-optable-vm", Floor: 70, Run: ruleOpsVM,
		Doc: "(a) every (operand type kind, prefix/infix/assignment operator) the analyzer admits without an error diagnostic is handled without a Go panic by the VM through the compiler's lowering: for every value kind of that type kind, every opcode of the lowering has a case in runInstruction and that case neither reaches panic() nor a failing type assertion for that kind (chained opcodes such as Eq;Not are fed the kind the previous handler constructs). Necessary for C02 (an accepted program never panics the host) and C01"})
	register(&Rule{ID: "R-optable-interp", Floor: 70, Run: ruleOpsInterp,
		Doc: "(b) every (type kind, operator) the analyzer admits is handled without a Go panic by the tree-walking interpreter's prefix/infix/assignment evaluators. Necessary for C04 (the engines agree on accepted programs) and C02"})
	register(&Rule{ID: "R-optable-assign", Floor: 130, Run: ruleOpsAssign,
		Doc: "(c) internal consistency of compound assignment: `x op= y` is admitted by the analyzer for a kind iff `x op y` is; AssignOperator.IntoInfixOperator maps `op=` to the operator printed `op`; the compiler lowers `x op= y` to <load x> <y> followed by exactly the opcodes of `x op y` and a store. Necessary for C03 (same typing rule for both spellings) and C01"})
	register(&Rule{ID: "R-optable-symbol", Floor: 45, Run: ruleOpsSymbol,
		Doc: "(d) symbol agreement: for every operator whose Homescript symbol is also a Go operator token (+ - * / % << >> | & ^ < <= > >=; on Go bools | & ^ are || && !=), the Go operator applied to the operands' payload fields in the VM handler of the opcode the compiler lowers it to, and in the interpreter's case, is the token InfixOperator.String() prints; its operands are the payloads themselves, not converted to an unsigned type where signedness matters (left operand of >>, both of / % < <= > >=). Prefix operators: parser and analyzer enums print the same symbol and the engines apply the matching Go unary operator. Necessary for C01/C04 (a swapped or logical-instead-of-arithmetic operator computes another function)"})
	register(&Rule{ID: "R-optable-order", Floor: 85, Run: ruleOpsOrder,
		Doc: "(e) operand order: the compiler pushes the left child before the right child, so in every non-commutative VM handler the first popped value must be the right operand of the Go expression; the interpreter evaluates left before right and applies the Go operator to (left, right). Reversed operands of a commutative operator are reported as discharged with a note. Necessary for C01/C04"})
	register(&Rule{ID: "R-optable-guards", Floor: 18, Run: ruleOpsGuards,
		Doc: "(f) guards as sibling agreement: a test of an operand payload (zero divisor, negative shift count) after which one engine leaves without applying the operator must be present in the other engine's corresponding case too; a guard on one side only makes the engines disagree on that input (fatal error vs. result or Go panic). Necessary for C04"})
}

func opsAnchorObs(m *opsModel) []Obligation {
	var obs []Obligation
	for _, f := range m.fatal {
		obs = append(obs, Obligation{Key: "<anchor>|" + f, Status: Undecided, Detail: f})
	}
	return obs
}

func (m *opsModel) rvksOf(tk *types.Const) []*types.Const {
	var out []*types.Const
	for _, vk := range m.rvk.Consts {
		if t := m.vk2tk[vk.Name()]; t != nil && opsSameConst(t, tk) {
			out = append(out, vk)
		}
	}
	return out
}

func (m *opsModel) pathPos(p *opsPath) string { return m.c.Pos(p.pos) }

// chain checks that the opcode sequence handles a value of kind vk.
func (m *opsModel) chain(ops []*types.Const, vk *types.Const) (fail, undecided string) {
	cur := []*types.Const{vk}
	unknown := false
	for i, oc := range ops {
		if oc == nil {
			return "", "an instruction with an undetermined opcode is emitted"
		}
		if !m.vmCases[oc.Name()] {
			return fmt.Sprintf("opcode %s has no case in %s", oc.Name(), m.vmEntry.Name.Name), ""
		}
		if unknown {
			for _, k := range m.rvk.Consts {
				if m.vk2tk[k.Name()] == nil {
					continue
				}
				if c := m.vmCell(oc, k); !c.ok || c.panicPath() != nil {
					return "", fmt.Sprintf("the kind of the value consumed by %s (after %s) could not be determined and %s does not handle every kind", oc.Name(), ops[i-1].Name(), oc.Name())
				}
			}
			continue
		}
		var next []*types.Const
		add := func(k *types.Const) {
			for _, n := range next {
				if n == k {
					return
				}
			}
			next = append(next, k)
		}
		for _, k := range cur {
			c := m.vmCell(oc, k)
			if !c.ok {
				return "", fmt.Sprintf("paths of case %s could not be enumerated", oc.Name())
			}
			if pp := c.panicPath(); pp != nil {
				return fmt.Sprintf("%s on a %s value: %s at %s", oc.Name(), m.kindShort(k), pp.why, m.pathPos(pp)), ""
			}
			cons := c.constructed(m.rvk)
			switch {
			case c.maxPops() == 0:
				add(k)
			case len(cons) == 0:
				unknown = true
			default:
				for _, n := range cons {
					add(n)
				}
			}
		}
		cur = next
	}
	return "", ""
}

// lowerings: the distinct lowering shapes of an operator.
func opsLowerings(c *opsCell) []opsLowering {
	seen := map[string]bool{}
	var out []opsLowering
	for _, p := range c.normal() {
		l := opsLower(p)
		if !seen[l.String()] {
			seen[l.String()] = true
			out = append(out, l)
		}
	}
	return out
}

// appliedSeg: the opcodes applied to the operands: for a jump lowering the
// segment between the children, otherwise everything after the last child.
func (l opsLowering) appliedSeg(form string) (seg []*types.Const, jump bool) {
	if form == "infix" && len(l.acq) == 2 && len(l.segs[1]) > 0 {
		return l.segs[1], true
	}
	return l.segs[len(l.segs)-1], false
}

func ruleOpsVM(c *Ctx) []Obligation {
	m := opsModelOf(c)
	if obs := opsAnchorObs(m); len(obs) > 0 {
		return obs
	}
	var obs []Obligation
	noValue := 0
	for _, fm := range m.forms {
		for _, tk := range m.typeKind.Consts {
			rvks := m.rvksOf(tk)
			for _, op := range fm.pOp.Consts {
				cell := fm.admit[[2]string{tk.Name(), op.Name()}]
				key := fmt.Sprintf("%s|%s|%s", fm.name, tk.Name(), op.Name())
				if cell == nil || !cell.ok {
					obs = append(obs, Obligation{Key: key, Pos: c.Pos(fm.anaFn.Pos()), Status: Undecided, Detail: "analyzer paths could not be enumerated"})
					continue
				}
				if !cell.admitted() {
					continue
				}
				if len(rvks) == 0 {
					noValue++
					continue
				}
				aop := fm.opMap[op.Name()]
				if aop == nil || fm.opMapWhy[op.Name()] != "" {
					obs = append(obs, Obligation{Key: key, Pos: c.Pos(fm.anaFn.Pos()), Status: Undecided, Detail: "operator of the analyzed node not determined: " + fm.opMapWhy[op.Name()]})
					continue
				}
				lc := fm.lower[aop.Name()]
				if lc == nil || !lc.ok || len(lc.normal()) == 0 {
					st, d := Undecided, "compiler lowering could not be enumerated"
					if lc != nil && lc.ok {
						st, d = Violated, "the compiler has no non-panicking lowering for this operator"
						if pp := lc.panicPath(); pp != nil {
							d += ": " + pp.why + " at " + m.pathPos(pp)
						}
					}
					obs = append(obs, Obligation{Key: key, Pos: c.Pos(m.cmpEntry.Pos()), Status: st, Detail: d})
					continue
				}
				var fails, undec, shapes []string
				for _, l := range opsLowerings(lc) {
					seg, jump := l.appliedSeg(fm.name)
					sh := l.String()
					if jump {
						sh += " (short-circuit: opcodes between the children checked)"
					}
					shapes = append(shapes, sh)
					if l.unk {
						undec = append(undec, "an instruction with an undetermined opcode is emitted")
					}
					for _, vk := range rvks {
						f, u := m.chain(seg, vk)
						if f != "" {
							fails = append(fails, f)
						}
						if u != "" {
							undec = append(undec, u)
						}
					}
				}
				fails, undec = opsUniq(fails), opsUniq(undec)
				o := Obligation{Key: key, Pos: c.Pos(fm.anaFn.Pos()), Nontrivial: true,
					Detail: fmt.Sprintf("%s `%s` admitted; lowering %s; ", m.kindShort(tk), m.symOf(op), strings.Join(shapes, " | "))}
				switch {
				case len(fails) > 0:
					o.Status = Violated
					o.Detail += "NOT handled by the VM: " + strings.Join(fails, "; ")
				case len(undec) > 0:
					o.Status = Undecided
					o.Detail += strings.Join(undec, "; ")
				default:
					o.Status = Discharged
					o.Detail += "handled for value kinds " + m.kindNames(rvks)
				}
				obs = append(obs, o)
			}
		}
	}
	obs = append(obs, Obligation{Key: "<tables>", Pos: c.Pos(m.vmEntry.Pos()), Status: Info,
		Detail: fmt.Sprintf("extracted operator tables (%d admitted pairs concern kinds without a runtime value: unknown/never/any/ident)\n%s", noValue, m.renderTables())})
	return obs
}

func (m *opsModel) kindNames(ks []*types.Const) string {
	var s []string
	for _, k := range ks {
		s = append(s, m.kindShort(k))
	}
	return strings.Join(s, ",")
}

func opsUniq(in []string) []string {
	seen := map[string]bool{}
	var out []string
	for _, s := range in {
		if !seen[s] {
			seen[s] = true
			out = append(out, s)
		}
	}
	return out
}

func ruleOpsInterp(c *Ctx) []Obligation {
	m := opsModelOf(c)
	if obs := opsAnchorObs(m); len(obs) > 0 {
		return obs
	}
	var obs []Obligation
	for _, fm := range m.forms {
		for _, tk := range m.typeKind.Consts {
			rvks := m.rvksOf(tk)
			for _, op := range fm.pOp.Consts {
				cell := fm.admit[[2]string{tk.Name(), op.Name()}]
				if cell == nil || !cell.admitted() || len(rvks) == 0 {
					continue
				}
				key := fmt.Sprintf("%s|%s|%s", fm.name, tk.Name(), op.Name())
				aop := fm.opMap[op.Name()]
				if aop == nil {
					obs = append(obs, Obligation{Key: key, Pos: c.Pos(fm.anaFn.Pos()), Status: Undecided, Detail: "operator of the analyzed node not determined"})
					continue
				}
				var fails, undec []string
				for _, vk := range rvks {
					ik := m.ivkOf(vk.Name())
					if ik == nil {
						undec = append(undec, "interpreter value library has no kind named "+vk.Name())
						continue
					}
					ic := fm.interp[[2]string{ik.Name(), aop.Name()}]
					if ic == nil || !ic.ok {
						undec = append(undec, "interpreter paths could not be enumerated for "+m.kindShort(ik))
						continue
					}
					if pp := ic.panicPath(); pp != nil {
						fails = append(fails, fmt.Sprintf("%s value: %s at %s", m.kindShort(ik), pp.why, m.pathPos(pp)))
					}
				}
				o := Obligation{Key: key, Pos: c.Pos(fm.intFn.Pos()), Nontrivial: true, Detail: fmt.Sprintf("%s `%s` admitted; ", m.kindShort(tk), m.symOf(op))}
				switch {
				case len(fails) > 0:
					o.Status = Violated
					o.Detail += "NOT handled by interpreter." + fm.intFn.Name.Name + ": " + strings.Join(opsUniq(fails), "; ")
				case len(undec) > 0:
					o.Status = Undecided
					o.Detail += strings.Join(opsUniq(undec), "; ")
				default:
					o.Status = Discharged
					o.Detail += "handled by interpreter." + fm.intFn.Name.Name + " for " + m.kindNames(rvks)
				}
				obs = append(obs, o)
			}
		}
	}
	obs = append(obs, Obligation{Key: "<tables>", Status: Info, Detail: "see R-optable-vm <tables> (interpreter rows)"})
	return obs
}

// arithTail: the opcode sequence an infix operator is lowered to when it has
// a single non-jump lowering.
func (m *opsModel) arithTail(iop *types.Const) ([]*types.Const, bool) {
	inf := m.form("infix")
	if inf == nil || iop == nil {
		return nil, false
	}
	lc := inf.lower[iop.Name()]
	if lc == nil || !lc.ok {
		return nil, false
	}
	ls := opsLowerings(lc)
	if len(ls) != 1 {
		return nil, false
	}
	seg, jump := ls[0].appliedSeg("infix")
	if jump || ls[0].unk {
		return nil, false
	}
	return seg, true
}

func ruleOpsAssign(c *Ctx) []Obligation {
	m := opsModelOf(c)
	if obs := opsAnchorObs(m); len(obs) > 0 {
		return obs
	}
	asg, inf := m.form("assign"), m.form("infix")
	if asg == nil || inf == nil {
		return []Obligation{{Key: "<anchor>", Status: Undecided, Detail: "assign / infix forms not resolved"}}
	}
	var obs []Obligation
	var plain []string
	for _, aop := range asg.pOp.Consts {
		iop := m.aop2iop[aop.Name()]
		if iop == nil {
			plain = append(plain, m.symOf(aop))
			continue
		}
		// symbol
		{
			o := Obligation{Key: "into-infix-symbol|" + aop.Name(), Pos: c.Pos(aop.Pos()), Nontrivial: true}
			sa, oka := m.sym[aop]
			si, oki := m.sym[iop]
			switch {
			case !oka || !oki:
				o.Status, o.Detail = Undecided, "String() of the operator not extracted"
			case sa == si+"=":
				o.Status, o.Detail = Discharged, fmt.Sprintf("`%s` -> IntoInfixOperator -> `%s`", sa, si)
			default:
				o.Status, o.Detail = Violated, fmt.Sprintf("`%s` is mapped to the infix operator printed `%s`, expected `%s`", sa, si, strings.TrimSuffix(sa, "="))
			}
			obs = append(obs, o)
		}
		// admission
		for _, tk := range m.typeKind.Consts {
			ac := asg.admit[[2]string{tk.Name(), aop.Name()}]
			ic := inf.admit[[2]string{tk.Name(), iop.Name()}]
			o := Obligation{Key: fmt.Sprintf("assign-vs-infix|%s|%s", tk.Name(), aop.Name()), Pos: c.Pos(asg.anaFn.Pos()), Nontrivial: true}
			switch {
			case ac == nil || ic == nil || !ac.ok || !ic.ok:
				o.Status, o.Detail = Undecided, "analyzer paths could not be enumerated"
			case ac.admitted() == ic.admitted():
				o.Status = Discharged
				o.Detail = fmt.Sprintf("%s: `%s` and `%s` both %s", m.kindShort(tk), m.symOf(aop), m.symOf(iop), opsAdmitWord(ac))
			default:
				o.Status = Violated
				o.Detail = fmt.Sprintf("%s: `x %s y` is %s by %s but `x %s y` is %s by %s", m.kindShort(tk), m.symOf(aop), opsAdmitWord(ac), asg.anaFn.Name.Name, m.symOf(iop), opsAdmitWord(ic), inf.anaFn.Name.Name)
			}
			obs = append(obs, o)
		}
	}
	// lowering
	for _, aop := range asg.aOp.Consts {
		lc := asg.lower[aop.Name()]
		o := Obligation{Key: "lowering|" + aop.Name(), Pos: c.Pos(m.cmpEntry.Pos()), Nontrivial: true}
		if lc == nil || !lc.ok || len(lc.normal()) == 0 {
			o.Status, o.Detail = Undecided, "compiler lowering could not be enumerated"
			obs = append(obs, o)
			continue
		}
		iop := m.aop2iop[aop.Name()]
		var want []*types.Const
		okTail := true
		if iop != nil {
			want, okTail = m.arithTail(iop)
		}
		var bad, shapes []string
		for _, l := range opsLowerings(lc) {
			shapes = append(shapes, l.String())
			tail := l.segs[len(l.segs)-1]
			if len(tail) == 0 {
				bad = append(bad, l.String()+": nothing is emitted after the right-hand side (no store)")
				continue
			}
			mid := tail[:len(tail)-1]
			if iop == nil {
				if len(mid) != 0 {
					bad = append(bad, fmt.Sprintf("%s: plain assignment applies %s before the store", l.String(), opsSeq(mid)))
				}
				continue
			}
			if !okTail {
				continue
			}
			if opsSeq(mid) != opsSeq(want) {
				bad = append(bad, fmt.Sprintf("%s: applies [%s] where `%s` is lowered to [%s]", l.String(), opsSeq(mid), m.symOf(iop), opsSeq(want)))
			}
			// the current value of the target must be on the stack below the right-hand side
			last := len(l.acq) - 1
			if last < 0 || l.acq[last] != 2 {
				bad = append(bad, l.String()+": the right-hand side is not the last child compiled")
			} else {
				pushed := false
				for i := 0; i <= last; i++ {
					if len(l.segs[i]) > 0 {
						pushed = true
					}
				}
				if last >= 1 {
					pushed = true
				}
				if !pushed {
					bad = append(bad, l.String()+": the current value of the target is not loaded before the right-hand side")
				}
			}
		}
		switch {
		case len(bad) > 0:
			o.Status, o.Detail = Violated, strings.Join(bad, "; ")
		case iop != nil && !okTail:
			o.Status, o.Detail = Undecided, fmt.Sprintf("the lowering of `%s` is not a single opcode sequence", m.symOf(iop))
		default:
			o.Status, o.Detail = Discharged, fmt.Sprintf("`%s`: %s", m.symOf(aop), strings.Join(shapes, " | "))
		}
		obs = append(obs, o)
	}
	obs = append(obs, Obligation{Key: "<tables>", Status: Info, Detail: fmt.Sprintf("IntoInfixOperator: %s; without infix counterpart: %s", m.renderAop(), strings.Join(plain, " "))})
	return obs
}

func (m *opsModel) renderAop() string {
	asg := m.form("assign")
	var s []string
	for _, a := range asg.aOp.Consts {
		if i := m.aop2iop[a.Name()]; i != nil {
			s = append(s, m.symOf(a)+"->"+m.symOf(i))
		}
	}
	return strings.Join(s, " ")
}

func opsAdmitWord(c *opsCell) string {
	switch {
	case c.admitted():
		return "admitted"
	case c.panicPath() != nil && !c.hasError():
		return "not admitted (panics)"
	}
	return "rejected"
}

// ---- (d) symbols

var opsGoTokens = map[string]token.Token{
	"+": token.ADD, "-": token.SUB, "*": token.MUL, "/": token.QUO, "%": token.REM,
	"<<": token.SHL, ">>": token.SHR, "|": token.OR, "&": token.AND, "^": token.XOR,
	"<": token.LSS, "<=": token.LEQ, ">": token.GTR, ">=": token.GEQ,
}

// Go semantics: on bool operands the bitwise symbols are spelled with the
// logical / inequality operators.
var opsGoBoolTokens = map[string]token.Token{"|": token.LOR, "&": token.LAND, "^": token.NEQ}

func opsIsBool(t types.Type) bool {
	b, ok := t.Underlying().(*types.Basic)
	return ok && b.Info()&types.IsBoolean != 0
}

func opsIsString(t types.Type) bool {
	b, ok := t.Underlying().(*types.Basic)
	return ok && b.Info()&types.IsString != 0
}

func opsIsUnsigned(t types.Type) bool {
	b, ok := t.Underlying().(*types.Basic)
	return ok && b.Info()&types.IsUnsigned != 0
}

func opsExpectedTok(sym string, goT types.Type) (token.Token, bool) {
	if goT != nil && opsIsBool(goT) {
		t, ok := opsGoBoolTokens[sym]
		return t, ok
	}
	t, ok := opsGoTokens[sym]
	return t, ok
}

// opsConvVerdict judges the conversions applied to one operand of tok.
func (m *opsModel) opsConvVerdict(tok token.Token, v opsVal, left bool) (st Status, note string) {
	if len(v.convs) == 0 {
		return Discharged, ""
	}
	signSensitive := map[token.Token]bool{token.SHR: true, token.QUO: true, token.REM: true, token.LSS: true, token.LEQ: true, token.GTR: true, token.GEQ: true}
	shift := tok == token.SHL || tok == token.SHR
	sizes := types.SizesFor("gc", "amd64")
	allSameSizeInt := true
	anyUnsigned := false
	for _, t := range v.convs {
		b, ok := t.Underlying().(*types.Basic)
		if !ok || b.Info()&types.IsInteger == 0 || v.innerT == nil || sizes.Sizeof(t) != sizes.Sizeof(v.innerT) || b.Kind() == types.Int || b.Kind() == types.Uint || b.Kind() == types.Uintptr {
			allSameSizeInt = false
		}
		if opsIsUnsigned(t) {
			anyUnsigned = true
		}
	}
	side := "right"
	if left {
		side = "left"
	}
	if anyUnsigned && signSensitive[tok] && (left || !shift) {
		return Violated, fmt.Sprintf("the %s operand of `%s` is converted to an unsigned type (%s): the signed operator becomes its unsigned variant (logical shift / unsigned division or comparison)", side, tok, v)
	}
	if shift && !left {
		return Discharged, fmt.Sprintf("shift count converted (%s): changes only the behaviour for negative counts", v)
	}
	if allSameSizeInt {
		return Discharged, fmt.Sprintf("%s operand converted (%s): same width, `%s` is sign-agnostic in two's complement", side, v, tok)
	}
	return Undecided, fmt.Sprintf("the %s operand of `%s` is converted (%s): whether this preserves the operator's meaning is not decided", side, tok, v)
}

func (m *opsModel) symbolObs(key, pos, sym string, cell *opsCell, admitted bool) *Obligation {
	if cell == nil || !cell.ok || cell.panicPath() != nil {
		return nil
	}
	var aps []opsEvent
	for _, e := range cell.applies(oeApply) {
		if e.fn == "" {
			aps = append(aps, e)
		}
	}
	o := &Obligation{Key: key, Pos: pos, Nontrivial: true}
	if len(aps) == 0 {
		if !admitted {
			return nil
		}
		o.Status = Undecided
		o.Detail = fmt.Sprintf("`%s` is admitted and handled here, but no Go operator applied to both operands' payload fields was found", sym)
		return o
	}
	o.Status = Discharged
	var notes []string
	for _, e := range aps {
		want, ok := opsExpectedTok(sym, e.goT)
		if !ok {
			o.Status = Undecided
			notes = append(notes, fmt.Sprintf("no Go spelling of `%s` known for operands of type %s (found `%s`)", sym, e.goT, e.tok))
			continue
		}
		if e.tok != want {
			o.Status = Violated
			notes = append(notes, fmt.Sprintf("applies Go `%s` (%s) at %s where the operator prints `%s` (Go `%s`)", e.tok, e, m.c.Pos(e.pos), sym, want))
			continue
		}
		for i, v := range []opsVal{e.x, e.y} {
			st, n := m.opsConvVerdict(e.tok, v, i == 0)
			if n != "" {
				notes = append(notes, n+" at "+m.c.Pos(e.pos))
			}
			if st == Violated || (st == Undecided && o.Status != Violated) {
				o.Status = st
			}
		}
		if len(notes) == 0 {
			notes = append(notes, fmt.Sprintf("`%s`: %s", sym, e))
		}
	}
	o.Detail = strings.Join(opsUniq(notes), "; ")
	return o
}

func (m *opsModel) unaryObs(key, pos, sym string, cell *opsCell, admitted bool) *Obligation {
	if cell == nil || !cell.ok || cell.panicPath() != nil {
		return nil
	}
	var want func(t types.Type) (token.Token, bool)
	switch sym {
	case "-":
		want = func(types.Type) (token.Token, bool) { return token.SUB, true }
	case "!":
		want = func(t types.Type) (token.Token, bool) {
			if opsIsBool(t) {
				return token.NOT, true
			}
			if b, ok := t.Underlying().(*types.Basic); ok && b.Info()&types.IsInteger != 0 {
				return token.XOR, true // bitwise complement
			}
			return token.ILLEGAL, false
		}
	default:
		return nil
	}
	us := cell.applies(oeUnary)
	o := &Obligation{Key: key, Pos: pos, Nontrivial: true}
	if len(us) == 0 {
		if !admitted {
			return nil
		}
		o.Status, o.Detail = Undecided, fmt.Sprintf("prefix `%s` is admitted and handled here, but no Go unary operator applied to the operand's payload was found", sym)
		return o
	}
	o.Status = Discharged
	var notes []string
	for _, e := range us {
		w, ok := want(e.goT)
		switch {
		case !ok:
			o.Status = Undecided
			notes = append(notes, fmt.Sprintf("no Go spelling of prefix `%s` known for %s", sym, e.goT))
		case e.tok != w:
			o.Status = Violated
			notes = append(notes, fmt.Sprintf("applies Go unary `%s` at %s where prefix `%s` means `%s` on %s", e.tok, m.c.Pos(e.pos), sym, w, e.goT))
		case len(e.x.convs) > 0:
			if o.Status == Discharged {
				o.Status = Undecided
			}
			notes = append(notes, fmt.Sprintf("operand converted before unary `%s` (%s)", e.tok, e.x))
		default:
			notes = append(notes, fmt.Sprintf("prefix `%s`: %s", sym, e))
		}
	}
	o.Detail = strings.Join(opsUniq(notes), "; ")
	return o
}

func (m *opsModel) admittedFor(fm *opsForm, vk, aop *types.Const) bool {
	tk := m.vk2tk[vk.Name()]
	if tk == nil {
		return false
	}
	for pn, a := range fm.opMap {
		if a == aop {
			if c := fm.admit[[2]string{tk.Name(), pn}]; c != nil && c.admitted() {
				return true
			}
		}
	}
	return false
}

func (m *opsModel) evPos(cell *opsCell, fallback token.Pos) string {
	for _, p := range cell.normal() {
		for _, e := range p.ev {
			if (e.k == oeApply || e.k == oeUnary) && e.pos.IsValid() {
				return m.c.Pos(e.pos)
			}
		}
	}
	return m.c.Pos(fallback)
}

func ruleOpsSymbol(c *Ctx) []Obligation {
	m := opsModelOf(c)
	if obs := opsAnchorObs(m); len(obs) > 0 {
		return obs
	}
	var obs []Obligation
	skipped := []string{}
	if inf := m.form("infix"); inf != nil {
		for _, op := range inf.aOp.Consts {
			sym, ok := m.sym[op]
			if !ok {
				obs = append(obs, Obligation{Key: "string|" + op.Name(), Pos: c.Pos(op.Pos()), Status: Undecided, Detail: "String() of the operator not extracted"})
				continue
			}
			if _, isGo := opsGoTokens[sym]; !isGo {
				skipped = append(skipped, sym)
				continue
			}
			tail, okTail := m.arithTail(op)
			if !okTail || len(tail) == 0 {
				obs = append(obs, Obligation{Key: "vm|" + op.Name(), Pos: c.Pos(m.cmpEntry.Pos()), Status: Undecided, Detail: fmt.Sprintf("`%s` is not lowered to a single opcode sequence", sym)})
			}
			for _, vk := range m.rvk.Consts {
				if m.vk2tk[vk.Name()] == nil {
					continue
				}
				adm := m.admittedFor(inf, vk, op)
				if okTail && len(tail) > 0 && tail[0] != nil && m.vmCases[tail[0].Name()] {
					cell := m.vmCell(tail[0], vk)
					if o := m.symbolObs(fmt.Sprintf("vm|%s|%s", op.Name(), vk.Name()), m.evPos(cell, m.vmEntry.Pos()), sym, cell, adm); o != nil {
						o.Detail = fmt.Sprintf("%s case %s: %s", m.vmEntry.Name.Name, tail[0].Name(), o.Detail)
						obs = append(obs, *o)
					}
				}
				if ik := m.ivkOf(vk.Name()); ik != nil {
					cell := inf.interp[[2]string{ik.Name(), op.Name()}]
					if cell != nil {
						if o := m.symbolObs(fmt.Sprintf("interp|%s|%s", op.Name(), ik.Name()), m.evPos(cell, inf.intFn.Pos()), sym, cell, adm); o != nil {
							o.Detail = "interpreter: " + o.Detail
							obs = append(obs, *o)
						}
					}
				}
			}
		}
	}
	if pf := m.form("prefix"); pf != nil {
		for _, pop := range pf.pOp.Consts {
			aop := pf.opMap[pop.Name()]
			o := Obligation{Key: "prefix-string|" + pop.Name(), Pos: c.Pos(pf.anaFn.Pos()), Nontrivial: true}
			sp, okp := m.sym[pop]
			switch {
			case aop == nil || pf.opMapWhy[pop.Name()] != "":
				o.Status, o.Detail = Undecided, "the analyzer's translation of this parser operator was not determined "+pf.opMapWhy[pop.Name()]
			case !okp || m.sym[aop] == "":
				o.Status, o.Detail = Undecided, "String() not extracted"
			case sp != m.sym[aop]:
				o.Status, o.Detail = Violated, fmt.Sprintf("parser operator printed `%s` is translated by %s to the analyzed operator printed `%s`", sp, pf.anaFn.Name.Name, m.sym[aop])
			default:
				o.Status, o.Detail = Discharged, fmt.Sprintf("`%s` -> %s (`%s`)", sp, aop.Name(), m.sym[aop])
			}
			obs = append(obs, o)
			if aop == nil {
				continue
			}
			sym := m.sym[aop]
			lc := pf.lower[aop.Name()]
			var first *types.Const
			if lc != nil && lc.ok {
				if ls := opsLowerings(lc); len(ls) == 1 {
					if seg, _ := ls[0].appliedSeg("prefix"); len(seg) > 0 {
						first = seg[0]
					}
				}
			}
			for _, vk := range m.rvk.Consts {
				if m.vk2tk[vk.Name()] == nil {
					continue
				}
				adm := m.admittedFor(pf, vk, aop)
				if first != nil && m.vmCases[first.Name()] {
					cell := m.vmCell(first, vk)
					if o := m.unaryObs(fmt.Sprintf("vm|%s|%s", aop.Name(), vk.Name()), m.evPos(cell, m.vmEntry.Pos()), sym, cell, adm); o != nil {
						o.Detail = fmt.Sprintf("%s case %s: %s", m.vmEntry.Name.Name, first.Name(), o.Detail)
						obs = append(obs, *o)
					}
				}
				if ik := m.ivkOf(vk.Name()); ik != nil {
					if cell := pf.interp[[2]string{ik.Name(), aop.Name()}]; cell != nil {
						if o := m.unaryObs(fmt.Sprintf("interp|%s|%s", aop.Name(), ik.Name()), m.evPos(cell, pf.intFn.Pos()), sym, cell, adm); o != nil {
							o.Detail = "interpreter: " + o.Detail
							obs = append(obs, *o)
						}
					}
				}
			}
		}
	}
	var syms []string
	for _, fm := range m.forms {
		for _, op := range fm.aOp.Consts {
			syms = append(syms, op.Name()+"="+m.symOf(op))
		}
	}
	obs = append(obs, Obligation{Key: "<tables>", Status: Info, Detail: "printed symbols: " + strings.Join(syms, " ") + "; symbols without a Go operator token (not compared): " + strings.Join(skipped, " ")})
	return obs
}

// ---- (e) operand order

func opsCommutative(e opsEvent) bool {
	if e.fn != "" {
		return false
	}
	switch e.tok {
	case token.ADD:
		return e.goT != nil && !opsIsString(e.goT)
	case token.MUL, token.AND, token.OR, token.XOR, token.LAND, token.LOR, token.EQL, token.NEQ:
		return true
	}
	return false
}

func (m *opsModel) orderObs(key, pos, what string, cell *opsCell, role func(int) int, checkAcquire bool) *Obligation {
	if cell == nil || !cell.ok || cell.panicPath() != nil {
		return nil
	}
	aps := cell.applies(oeApply)
	if len(aps) == 0 && !checkAcquire {
		return nil
	}
	o := &Obligation{Key: key, Pos: pos, Status: Discharged, Nontrivial: true}
	var notes []string
	for _, e := range aps {
		rx, ry := e.x.role, e.y.role
		if role != nil {
			rx, ry = role(rx), role(ry)
		}
		switch {
		case rx == 1 && ry == 2:
			notes = append(notes, fmt.Sprintf("%s: (left, right)", e))
		case rx == 2 && ry == 1 && opsCommutative(e):
			notes = append(notes, fmt.Sprintf("%s at %s: operands reversed (right, left) — harmless, Go `%s` is commutative on %s", e, m.c.Pos(e.pos), e.tok, e.goT))
		case rx == 2 && ry == 1:
			o.Status = Violated
			notes = append(notes, fmt.Sprintf("%s at %s applies the non-commutative operator to (right, left)", e, m.c.Pos(e.pos)))
		default:
			o.Status = Violated
			notes = append(notes, fmt.Sprintf("%s at %s: operands are (%s, %s), expected (left, right)", e, m.c.Pos(e.pos), opsRoleName(rx), opsRoleName(ry)))
		}
	}
	if checkAcquire {
		for _, p := range cell.normal() {
			var seq []int
			for _, e := range p.ev {
				if e.k == oeAcquire {
					seq = append(seq, e.role)
				}
			}
			okSeq := true
			seen := map[int]int{}
			for i, r := range seq {
				seen[r]++
				if i > 0 && r < seq[i-1] {
					okSeq = false
				}
				if seen[r] > 1 {
					okSeq = false
				}
			}
			if !okSeq {
				o.Status = Violated
				notes = append(notes, fmt.Sprintf("children evaluated in the order %v on a path ending at %s (expected left before right, each once)", seq, m.pathPos(&p)))
				break
			}
		}
		if o.Status == Discharged {
			notes = append(notes, "children evaluated left before right on every path")
		}
	}
	o.Detail = what + strings.Join(opsUniq(notes), "; ")
	return o
}

func ruleOpsOrder(c *Ctx) []Obligation {
	m := opsModelOf(c)
	if obs := opsAnchorObs(m); len(obs) > 0 {
		return obs
	}
	var obs []Obligation
	if len(m.popRole) == 0 {
		obs = append(obs, Obligation{Key: "compiler|push-order", Pos: c.Pos(m.cmpEntry.Pos()), Status: Undecided, Detail: "the compiler does not push the children of infix nodes in one order: " + m.popRoleWhy})
	}
	// compiler
	for _, fm := range m.forms {
		for _, op := range fm.aOp.Consts {
			lc := fm.lower[op.Name()]
			o := Obligation{Key: fmt.Sprintf("compiler|%s|%s", fm.name, op.Name()), Pos: c.Pos(m.cmpEntry.Pos()), Nontrivial: true}
			if lc == nil || !lc.ok || len(lc.normal()) == 0 {
				o.Status, o.Detail = Undecided, "compiler lowering could not be enumerated"
				obs = append(obs, o)
				continue
			}
			o.Status = Discharged
			var notes []string
			for _, l := range opsLowerings(lc) {
				okSeq := true
				for i := range l.acq {
					if i > 0 && l.acq[i] <= l.acq[i-1] {
						okSeq = false
					}
				}
				switch fm.name {
				case "infix":
					if len(l.acq) != 2 {
						okSeq = false
					}
				case "prefix":
					if len(l.acq) != 1 {
						okSeq = false
					}
				case "assign":
					if len(l.acq) == 0 || l.acq[len(l.acq)-1] != 2 {
						okSeq = false
					}
				}
				if !okSeq {
					o.Status = Violated
					notes = append(notes, fmt.Sprintf("%s: children compiled in the order %v", l.String(), l.acq))
				} else {
					notes = append(notes, l.String())
				}
			}
			o.Detail = fmt.Sprintf("`%s`: %s", m.symOf(op), strings.Join(notes, " | "))
			obs = append(obs, o)
		}
	}
	// engines
	if inf := m.form("infix"); inf != nil {
		for _, op := range inf.aOp.Consts {
			tail, okTail := m.arithTail(op)
			for _, vk := range m.rvk.Consts {
				if m.vk2tk[vk.Name()] == nil {
					continue
				}
				if okTail && len(tail) > 0 && tail[0] != nil && m.vmCases[tail[0].Name()] {
					cell := m.vmCell(tail[0], vk)
					if o := m.orderObs(fmt.Sprintf("vm|%s|%s", op.Name(), vk.Name()), m.evPos(cell, m.vmEntry.Pos()), fmt.Sprintf("%s case %s (pop#1=%s, pop#2=%s): ", m.vmEntry.Name.Name, tail[0].Name(), opsRoleName(m.vmRole(1)), opsRoleName(m.vmRole(2))), cell, m.vmRole, false); o != nil {
						obs = append(obs, *o)
					}
				}
				if ik := m.ivkOf(vk.Name()); ik != nil {
					if cell := inf.interp[[2]string{ik.Name(), op.Name()}]; cell != nil {
						if o := m.orderObs(fmt.Sprintf("interp|%s|%s", op.Name(), ik.Name()), m.evPos(cell, inf.intFn.Pos()), "interpreter: ", cell, nil, true); o != nil {
							obs = append(obs, *o)
						}
					}
				}
			}
		}
	}
	obs = append(obs, Obligation{Key: "<tables>", Status: Info, Detail: m.popRoleWhy})
	return obs
}

// ---- (f) guards

func ruleOpsGuards(c *Ctx) []Obligation {
	m := opsModelOf(c)
	if obs := opsAnchorObs(m); len(obs) > 0 {
		return obs
	}
	var obs []Obligation
	inf := m.form("infix")
	if inf == nil {
		return []Obligation{{Key: "<anchor>", Status: Undecided, Detail: "infix form not resolved"}}
	}
	for _, op := range inf.aOp.Consts {
		tail, okTail := m.arithTail(op)
		if !okTail || len(tail) == 0 || tail[0] == nil || !m.vmCases[tail[0].Name()] {
			continue
		}
		for _, vk := range m.rvk.Consts {
			if m.vk2tk[vk.Name()] == nil {
				continue
			}
			ik := m.ivkOf(vk.Name())
			if ik == nil {
				continue
			}
			vc := m.vmCell(tail[0], vk)
			ic := inf.interp[[2]string{ik.Name(), op.Name()}]
			if vc == nil || ic == nil || !vc.ok || !ic.ok || vc.panicPath() != nil || ic.panicPath() != nil {
				continue // not handled by both: fragment boundary, reported by (a)/(b)
			}
			vg, ig := vc.guards(m.vmRole), ic.guards(nil)
			if len(vc.applies(oeApply)) == 0 && len(ic.applies(oeApply)) == 0 && len(vg) == 0 && len(ig) == 0 {
				continue
			}
			o := Obligation{Key: fmt.Sprintf("infix|%s|%s", op.Name(), vk.Name()), Pos: m.evPos(vc, m.vmEntry.Pos()), Nontrivial: len(vg)+len(ig) > 0}
			only := func(a, b []string) []string {
				var out []string
				for _, x := range a {
					found := false
					for _, y := range b {
						if x == y {
							found = true
						}
					}
					if !found {
						out = append(out, x)
					}
				}
				return out
			}
			vOnly, iOnly := only(vg, ig), only(ig, vg)
			if len(vOnly)+len(iOnly) == 0 {
				o.Status = Discharged
				o.Detail = fmt.Sprintf("%s `%s`: VM guards {%s} = interpreter guards {%s}", m.kindShort(vk), m.symOf(op), strings.Join(vg, ", "), strings.Join(ig, ", "))
			} else {
				o.Status = Violated
				var d []string
				if len(vOnly) > 0 {
					d = append(d, fmt.Sprintf("the VM case %s leaves without applying the operator when {%s}; interpreter.%s (%s) has no such test", tail[0].Name(), strings.Join(vOnly, ", "), inf.intFn.Name.Name, m.evPos(ic, inf.intFn.Pos())))
				}
				if len(iOnly) > 0 {
					d = append(d, fmt.Sprintf("the interpreter leaves without applying the operator when {%s}; the VM case %s has no such test", strings.Join(iOnly, ", "), tail[0].Name()))
				}
				o.Detail = fmt.Sprintf("%s `%s`: %s", m.kindShort(vk), m.symOf(op), strings.Join(d, "; "))
			}
			obs = append(obs, o)
		}
	}
	sort.SliceStable(obs, func(i, j int) bool { return obs[i].Key < obs[j].Key })
	obs = append(obs, Obligation{Key: "<tables>", Status: Info, Detail: "guards per case are shown in braces in R-optable-vm <tables>"})
	return obs
}
