package main

import (
	"fmt"
	"go/ast"
	"go/token"
	"go/types"
	"sort"
)

// R-pred-fold: a recursive boolean predicate combines every child's answer.

func init() {
	register(&Rule{ID: "R-pred-fold", Floor: 40, Run: ruleR3PredFold,
		Doc: "recursive boolean predicates over types / nodes / values are found by shape: a function or method with a single bool result that calls itself, or — for methods — calls the method of the same name on another value (CheckAny, Constant(), IsEqual, the fuzzer's loop-control guards …). Every such recursive call is one child's answer and must reach the result: it is returned, is an operand of && / || / ! or of a condition, or is assigned to a variable in a way that keeps the earlier answers — `acc = acc || f(c)`, `acc = f(c) && acc`, an assignment followed at once by a test of that variable that leaves the loop/function, or a variable declared inside the current loop iteration. A plain assignment `acc = f(child)` to a variable that lives across the iterations of the enclosing loop overwrites the answers of all earlier children: only the last child decides ('last iteration wins'). A recursive call whose result is dropped is reported too. Necessary wherever the predicate licenses something for the whole structure: CheckAny decides whether an annotated let gets its run-time cast (C12), Constant() whether an initializer may be static (C20), IsEqual the == of composite values (C13)."})
}

type r3pfSite struct {
	call  *ast.CallExpr
	class string
	bad   bool
	note  string
}

func ruleR3PredFold(c *Ctx) []Obligation {
	var out []Obligation
	boolFirst := func(fn *types.Func) bool {
		sig, ok := fn.Type().(*types.Signature)
		if !ok || sig.Results().Len() < 1 {
			return false
		}
		b, ok := sig.Results().At(0).Type().Underlying().(*types.Basic)
		return ok && b.Kind() == types.Bool
	}
	for _, p := range c.All {
		info := p.TypesInfo
		// mutual recursion among the boolean functions of the package: reachability over static calls
		calls := map[*types.Func]map[*types.Func]bool{}
		for _, fd := range AllFuncDecls(p) {
			fn, _ := info.Defs[fd.Name].(*types.Func)
			if fn == nil || !boolFirst(fn) {
				continue
			}
			calls[fn] = map[*types.Func]bool{}
			ast.Inspect(fd.Body, func(n ast.Node) bool {
				if call, ok := n.(*ast.CallExpr); ok {
					if cal := CalleeOf(info, call); cal != nil && cal.Pkg() == p.Types && boolFirst(cal) {
						calls[fn][cal] = true
					}
				}
				return true
			})
		}
		reach := func(from, to *types.Func) bool {
			seen := map[*types.Func]bool{}
			var dfs func(x *types.Func) bool
			dfs = func(x *types.Func) bool {
				for y := range calls[x] {
					if y == to {
						return true
					}
					if !seen[y] {
						seen[y] = true
						if dfs(y) {
							return true
						}
					}
				}
				return false
			}
			return dfs(from)
		}
		for _, fd := range AllFuncDecls(p) {
			fn, _ := info.Defs[fd.Name].(*types.Func)
			if fn == nil || !boolFirst(fn) {
				continue
			}
			sig := fn.Type().(*types.Signature)
			isFamilyCall := func(call *ast.CallExpr) bool {
				callee := CalleeOf(info, call)
				if callee == nil {
					return false
				}
				if callee == fn {
					return true
				}
				// mutual recursion: the callee can call back into this function
				if calls[fn][callee] && reach(callee, fn) {
					return true
				}
				// method family: same name, bool result, called on another value
				if sig.Recv() != nil && callee.Name() == fn.Name() {
					cs, ok := callee.Type().(*types.Signature)
					if ok && cs.Recv() != nil && cs.Results().Len() == sig.Results().Len() && cs.Params().Len() == sig.Params().Len() && boolFirst(callee) {
						// a method of the same name on a value of the tree (not on an enum / kind)
						if _, isBasic := cs.Recv().Type().Underlying().(*types.Basic); !isBasic {
							return true
						}
					}
				}
				return false
			}
			// parent map
			parent := map[ast.Node]ast.Node{}
			var stack []ast.Node
			ast.Inspect(fd.Body, func(n ast.Node) bool {
				if n == nil {
					stack = stack[:len(stack)-1]
					return true
				}
				if len(stack) > 0 {
					parent[n] = stack[len(stack)-1]
				}
				stack = append(stack, n)
				return true
			})
			var sites []r3pfSite
			ast.Inspect(fd.Body, func(n ast.Node) bool {
				if _, ok := n.(*ast.FuncLit); ok {
					return false
				}
				call, ok := n.(*ast.CallExpr)
				if !ok || !isFamilyCall(call) {
					return true
				}
				sites = append(sites, r3pfClassify(info, fd, parent, call))
				return true
			})
			if len(sites) == 0 {
				continue
			}
			sort.Slice(sites, func(i, j int) bool { return sites[i].call.Pos() < sites[j].call.Pos() })
			f := r2sibFuncOf(c, p, fd)
			seen := map[string]int{}
			for _, s := range sites {
				arg := ""
				if sel, ok := ast.Unparen(s.call.Fun).(*ast.SelectorExpr); ok && len(s.call.Args) == 0 {
					arg = f.pretty(f.norm(sel.X))
				} else if len(s.call.Args) > 0 {
					arg = f.pretty(f.norm(s.call.Args[0]))
				} else if sel, ok := ast.Unparen(s.call.Fun).(*ast.SelectorExpr); ok {
					arg = f.pretty(f.norm(sel.X))
				}
				key := fmt.Sprintf("%s.%s|answer for %s", relPkg(p.PkgPath), FuncName(fd), arg)
				seen[key]++
				if n := seen[key]; n > 1 {
					key = fmt.Sprintf("%s #%d", key, n)
				}
				ob := Obligation{Key: key, Pos: c.Pos(s.call.Pos()), Nontrivial: true, Detail: s.class}
				if s.bad {
					ob.Status = Violated
					ob.Detail = s.note
				}
				out = append(out, ob)
			}
		}
	}
	return out
}

func r3pfClassify(info *types.Info, fd *ast.FuncDecl, parent map[ast.Node]ast.Node, call *ast.CallExpr) r3pfSite {
	s := r3pfSite{call: call}
	// climb through the boolean expression the call is part of
	var cur ast.Node = call
	combinedInExpr := false
	for {
		pn := parent[cur]
		switch x := pn.(type) {
		case *ast.ParenExpr:
			cur = pn
			continue
		case *ast.UnaryExpr:
			if x.Op == token.NOT {
				cur = pn
				continue
			}
		case *ast.BinaryExpr:
			if x.Op == token.LAND || x.Op == token.LOR || x.Op == token.EQL || x.Op == token.NEQ {
				combinedInExpr = true
				cur = pn
				continue
			}
		}
		break
	}
	switch x := parent[cur].(type) {
	case *ast.ReturnStmt:
		s.class = "returned"
		return s
	case *ast.IfStmt:
		if x.Cond == cur {
			s.class = "decides a branch"
			return s
		}
	case *ast.ForStmt, *ast.SwitchStmt, *ast.CaseClause:
		s.class = "decides a branch"
		return s
	case *ast.ExprStmt:
		s.bad = true
		s.class = "dropped"
		s.note = "the result of this recursive call is dropped: the child's answer never reaches the predicate's result"
		return s
	case *ast.CallExpr, *ast.CompositeLit, *ast.KeyValueExpr, *ast.IndexExpr, *ast.SelectorExpr:
		s.class = "operand of another expression"
		return s
	case *ast.ValueSpec:
		s.class = "initialises a local"
		return s
	case *ast.AssignStmt:
		if len(x.Rhs) != 1 || len(x.Lhs) < 1 {
			s.class = "tuple assignment"
			return s
		}
		lhs, ok := ast.Unparen(x.Lhs[0]).(*ast.Ident)
		if !ok {
			s.class = "stored"
			return s
		}
		obj := info.Defs[lhs]
		if obj == nil {
			obj = info.Uses[lhs]
		}
		if x.Tok == token.DEFINE && info.Defs[lhs] != nil {
			s.class = "initialises a local of this iteration"
			return s
		}
		// acc = acc || f(c)   (the rhs mentions the target)
		mentions := false
		ast.Inspect(x.Rhs[0], func(n ast.Node) bool {
			if id, ok := n.(*ast.Ident); ok && info.Uses[id] == obj {
				mentions = true
			}
			return true
		})
		if mentions && combinedInExpr {
			s.class = "folded into " + lhs.Name
			return s
		}
		// enclosing loop, and whether the variable outlives one iteration
		var loop ast.Node
		for n := parent[ast.Node(x)]; n != nil; n = parent[n] {
			switch n.(type) {
			case *ast.ForStmt, *ast.RangeStmt:
				loop = n
			case *ast.FuncLit:
				n = nil
			}
			if loop != nil || n == nil {
				break
			}
		}
		if loop == nil {
			s.class = "assigned outside a loop"
			return s
		}
		if obj != nil && loop.Pos() <= obj.Pos() && obj.Pos() < loop.End() {
			s.class = "assigned to a local of this iteration"
			return s
		}
		// followed at once by a test of the variable that leaves the loop / function
		if r3pfEarlyExit(info, parent, x, obj) {
			s.class = "assigned and tested at once (early exit)"
			return s
		}
		s.bad = true
		s.class = "overwrites"
		s.note = fmt.Sprintf("`%s = …` inside the loop overwrites %s, which lives across the iterations: the answers of all earlier children are lost and only the last child decides (fold with ||/&& or return early)", lhs.Name, lhs.Name)
		return s
	}
	s.class = "used in an expression"
	return s
}

// r3pfEarlyExit: the statement after the assignment is `if v {…}` / `if !v {…}` whose body ends in
// return / break (or the else branch does).
func r3pfEarlyExit(info *types.Info, parent map[ast.Node]ast.Node, as *ast.AssignStmt, obj types.Object) bool {
	var list []ast.Stmt
	switch b := parent[as].(type) {
	case *ast.BlockStmt:
		list = b.List
	case *ast.CaseClause:
		list = b.Body
	default:
		return false
	}
	for i, st := range list {
		if st != ast.Stmt(as) || i+1 >= len(list) {
			continue
		}
		ifs, ok := list[i+1].(*ast.IfStmt)
		if !ok {
			return false
		}
		uses := false
		ast.Inspect(ifs.Cond, func(n ast.Node) bool {
			if id, ok := n.(*ast.Ident); ok && info.Uses[id] == obj {
				uses = true
			}
			return true
		})
		if !uses {
			return false
		}
		leaves := func(b *ast.BlockStmt) bool {
			if b == nil || len(b.List) == 0 {
				return false
			}
			switch l := b.List[len(b.List)-1].(type) {
			case *ast.ReturnStmt:
				return true
			case *ast.BranchStmt:
				return l.Tok == token.BREAK
			}
			return false
		}
		if leaves(ifs.Body) {
			return true
		}
		if eb, ok := ifs.Else.(*ast.BlockStmt); ok && leaves(eb) {
			return true
		}
	}
	return false
}
