package main

// R-copy-total (C13, C12, C18): a loop that copies the entries of one value's
// storage into a new container (Clone, IntoAnyObject, casts, keys(), Display,
// JSON builders …) is total over the source: on every path through its body
// that reaches the next iteration, an entry is stored. A skip that depends on
// the entry itself silently shortens the copy: keys vanish from the converted
// object, `==` and keys() change after a round trip.

import (
	"fmt"
	"go/ast"
	"go/token"
	"go/types"
	"sort"
	"strings"
)

func init() {
	register(&Rule{ID: "R-copy-total", Floor: 20, Run: ruleCopyTotal,
		Doc: "C13/C12/C18: every loop that ranges over the storage of a value (the slice/map field of a list, object or any-object of either value library) and stores into a container created outside the loop is a conversion of that value; it must store one entry for every source entry: each path through the loop body either stores into the destination or aborts the whole conversion (return / panic). A path that reaches the next iteration (falls off the body, `continue`) without a store drops the entry — allowed only when the skip is decided by the producer of the entry (the bool result of the call that computed the stored value: the marshaller's `skip` protocol), never by inspecting the entry locally (`if opt.IsSome()`, `if v == nil { continue }`). Leaving the loop by `break` stops the copy. Otherwise the converted value has fewer keys/elements than the original: equality, keys() and JSON round trips change."})
}

type r4cState struct {
	stored bool
	flags  map[types.Object]bool
	conds  []r4cCond
}

type r4cCond struct {
	txt      string
	producer bool // decided by the producer of the entry (bool result of the call that computed it)
}

func r4cCondStr(cs []r4cCond) string {
	var p []string
	for _, c := range cs {
		p = append(p, c.txt)
	}
	if len(p) == 0 {
		return "unconditionally"
	}
	return strings.Join(p, " && ")
}

func (s r4cState) clone() r4cState {
	o := s
	o.flags = map[types.Object]bool{}
	for k, v := range s.flags {
		o.flags[k] = v
	}
	o.conds = append([]r4cCond(nil), s.conds...)
	return o
}

type r4cLoop struct {
	info    *types.Info
	rs      *ast.RangeStmt
	dest    types.Object
	skipVar map[types.Object]bool // bool results of calls made in the body
	ends    []r4cEnd
	undec   string
	c       *Ctx
}

type r4cEnd struct {
	kind string // next | break | abort
	st   r4cState
	pos  token.Pos
}

func (l *r4cLoop) isStore(s *ast.AssignStmt) bool {
	for i, lh := range s.Lhs {
		t := ast.Unparen(lh)
		if ix, ok := t.(*ast.IndexExpr); ok && r2tObj(l.info, ix.X) == l.dest {
			return true
		}
		if r2tObj(l.info, t) == l.dest && len(s.Rhs) == len(s.Lhs) {
			if call, ok := ast.Unparen(s.Rhs[i]).(*ast.CallExpr); ok && r2tIsBuiltin(l.info, call, "append") && len(call.Args) > 1 && r2tObj(l.info, call.Args[0]) == l.dest {
				return true
			}
		}
	}
	return false
}

// walk returns the states that fall off the end of list; other exits are recorded in l.ends.
// depth: nesting inside inner loops / switches (break/continue then bind to those).
func (l *r4cLoop) walk(list []ast.Stmt, in []r4cState, loopDepth, brkDepth int) []r4cState {
	cur := in
	for _, st := range list {
		if len(cur) == 0 {
			return nil
		}
		var next []r4cState
		for _, q := range cur {
			next = append(next, l.stmt(st, q, loopDepth, brkDepth)...)
		}
		if len(next) > 256 {
			l.undec = "too many paths"
			return nil
		}
		cur = next
	}
	return cur
}

func (l *r4cLoop) condKind(e ast.Expr) (obj types.Object, neg bool, producer bool) {
	e = ast.Unparen(e)
	for {
		if u, ok := e.(*ast.UnaryExpr); ok && u.Op == token.NOT {
			e = ast.Unparen(u.X)
			neg = !neg
			continue
		}
		break
	}
	if id, ok := e.(*ast.Ident); ok {
		o := r2tObj(l.info, id)
		return o, neg, l.skipVar[o]
	}
	return nil, false, false
}

func (l *r4cLoop) stmt(st ast.Stmt, q r4cState, loopDepth, brkDepth int) []r4cState {
	info := l.info
	switch s := st.(type) {
	case *ast.BlockStmt:
		return l.walk(s.List, []r4cState{q}, loopDepth, brkDepth)
	case *ast.LabeledStmt:
		return l.stmt(s.Stmt, q, loopDepth, brkDepth)
	case *ast.AssignStmt:
		if l.isStore(s) {
			q.stored = true
		}
		for i, lh := range s.Lhs {
			if len(s.Rhs) != len(s.Lhs) {
				break
			}
			if tv := info.Types[s.Rhs[i]]; tv.Value != nil && tv.Type != nil {
				if b, ok := tv.Type.Underlying().(*types.Basic); ok && b.Info()&types.IsBoolean != 0 {
					if o := r2tObj(info, lh); o != nil {
						q = q.clone()
						q.flags[o] = tv.Value.ExactString() == "true"
					}
				}
			} else if o := r2tObj(info, lh); o != nil {
				if _, known := q.flags[o]; known {
					q = q.clone()
					delete(q.flags, o)
				}
			}
		}
		return []r4cState{q}
	case *ast.DeclStmt:
		if gd, ok := s.Decl.(*ast.GenDecl); ok {
			for _, sp := range gd.Specs {
				if vs, ok := sp.(*ast.ValueSpec); ok {
					for i, nm := range vs.Names {
						if o := info.Defs[nm]; o != nil {
							if b, ok := o.Type().Underlying().(*types.Basic); ok && b.Info()&types.IsBoolean != 0 {
								val := false
								if i < len(vs.Values) {
									tv := info.Types[vs.Values[i]]
									if tv.Value == nil {
										continue
									}
									val = tv.Value.ExactString() == "true"
								}
								q = q.clone()
								q.flags[o] = val
							}
						}
					}
				}
			}
		}
		return []r4cState{q}
	case *ast.IfStmt:
		states := []r4cState{q}
		if s.Init != nil {
			states = l.stmt(s.Init, q, loopDepth, brkDepth)
		}
		var out []r4cState
		for _, q2 := range states {
			o, neg, producer := l.condKind(s.Cond)
			takeThen, takeElse := true, true
			if o != nil {
				if v, known := q2.flags[o]; known {
					takeThen, takeElse = v != neg, v == neg
				}
			}
			mk := func(taken bool) r4cState {
				n := q2.clone()
				txt := exprStr(s.Cond)
				if !taken {
					txt = "!(" + txt + ")"
				}
				if o != nil {
					if _, known := q2.flags[o]; known {
						return n // a constant flag decides nothing about the entry
					}
				}
				n.conds = append(n.conds, r4cCond{txt, producer})
				return n
			}
			if takeThen {
				out = append(out, l.walk(s.Body.List, []r4cState{mk(true)}, loopDepth, brkDepth)...)
			}
			if takeElse {
				switch e := s.Else.(type) {
				case nil:
					out = append(out, mk(false))
				case *ast.BlockStmt:
					out = append(out, l.walk(e.List, []r4cState{mk(false)}, loopDepth, brkDepth)...)
				default:
					out = append(out, l.stmt(e, mk(false), loopDepth, brkDepth)...)
				}
			}
		}
		return out
	case *ast.ForStmt, *ast.RangeStmt:
		var body *ast.BlockStmt
		if f, ok := s.(*ast.ForStmt); ok {
			body = f.Body
		} else {
			body = s.(*ast.RangeStmt).Body
		}
		// zero iterations, or one pass over the body (flags keep what the pass established)
		out := []r4cState{q}
		inner := &r4cLoop{info: l.info, rs: l.rs, dest: l.dest, skipVar: l.skipVar, c: l.c}
		res := inner.walk(body.List, []r4cState{q.clone()}, loopDepth+1, brkDepth+1)
		if inner.undec != "" {
			l.undec = inner.undec
		}
		out = append(out, res...)
		for _, e := range inner.ends {
			switch e.kind {
			case "inner-next", "inner-break":
				out = append(out, e.st)
			default:
				l.ends = append(l.ends, e)
			}
		}
		return out
	case *ast.SwitchStmt, *ast.TypeSwitchStmt:
		var clauses []ast.Stmt
		if sw, ok := s.(*ast.SwitchStmt); ok {
			clauses = sw.Body.List
		} else {
			clauses = s.(*ast.TypeSwitchStmt).Body.List
		}
		var out []r4cState
		hasDefault := false
		inner := &r4cLoop{info: l.info, rs: l.rs, dest: l.dest, skipVar: l.skipVar, c: l.c}
		for _, cl := range clauses {
			cc := cl.(*ast.CaseClause)
			if cc.List == nil {
				hasDefault = true
			}
			n := q.clone()
			n.conds = append(n.conds, r4cCond{"case " + strings.TrimSpace(exprListStr(cc.List)), false})
			out = append(out, inner.walk(cc.Body, []r4cState{n}, loopDepth, brkDepth+1)...)
		}
		if inner.undec != "" {
			l.undec = inner.undec
		}
		for _, e := range inner.ends {
			if e.kind == "inner-break" {
				out = append(out, e.st)
			} else {
				l.ends = append(l.ends, e)
			}
		}
		if !hasDefault {
			n := q.clone()
			n.conds = append(n.conds, r4cCond{"no case", false})
			out = append(out, n)
		}
		return out
	case *ast.BranchStmt:
		switch {
		case s.Label != nil || s.Tok == token.GOTO || s.Tok == token.FALLTHROUGH:
			l.undec = "labelled jump / goto / fallthrough in a copy loop at " + l.c.Pos(s.Pos())
		case s.Tok == token.CONTINUE:
			if loopDepth > 0 {
				l.ends = append(l.ends, r4cEnd{"inner-next", q, s.Pos()})
			} else {
				l.ends = append(l.ends, r4cEnd{"next", q, s.Pos()})
			}
		case s.Tok == token.BREAK:
			if brkDepth > 0 {
				l.ends = append(l.ends, r4cEnd{"inner-break", q, s.Pos()})
			} else {
				l.ends = append(l.ends, r4cEnd{"break", q, s.Pos()})
			}
		}
		return nil
	case *ast.ReturnStmt:
		l.ends = append(l.ends, r4cEnd{"abort", q, s.Pos()})
		return nil
	case *ast.ExprStmt:
		if IsPanicCall(info, s) {
			l.ends = append(l.ends, r4cEnd{"abort", q, s.Pos()})
			return nil
		}
	case *ast.SelectStmt:
		l.undec = "select in a copy loop"
	}
	return []r4cState{q}
}

func exprListStr(list []ast.Expr) string {
	if list == nil {
		return "default"
	}
	var p []string
	for _, e := range list {
		p = append(p, exprStr(e))
	}
	return strings.Join(p, ", ")
}

func ruleCopyTotal(c *Ctx) []Obligation {
	var obs []Obligation
	storage := map[*types.Var]string{}
	for _, l := range r2tLibs(c) {
		for _, im := range l.impls {
			for f := range r2tStorageFields(im) {
				storage[f] = l.tag + " " + im.Name() + "." + f.Name()
			}
		}
	}
	for _, rel := range determPipelinePkgs {
		p := c.Pkg(rel)
		info := p.TypesInfo
		seen := map[string]int{}
		for _, fd := range AllFuncDecls(p) {
			var loops []*ast.RangeStmt
			ast.Inspect(fd.Body, func(n ast.Node) bool {
				if rs, ok := n.(*ast.RangeStmt); ok {
					if f := r2tFieldOfExpr(info, rs.X); f != nil && storage[f] != "" {
						loops = append(loops, rs)
					}
				}
				return true
			})
			for _, rs := range loops {
				// destinations: containers declared outside the loop (and inside the function) that the body stores into
				dests := map[types.Object]bool{}
				skipVar := map[types.Object]bool{}
				ast.Inspect(rs.Body, func(n ast.Node) bool {
					if _, ok := n.(*ast.FuncLit); ok {
						return false
					}
					as, ok := n.(*ast.AssignStmt)
					if !ok {
						return true
					}
					// bool results of a call: `x, skip := f(…)`
					if len(as.Rhs) == 1 && len(as.Lhs) > 1 {
						if _, isCall := ast.Unparen(as.Rhs[0]).(*ast.CallExpr); isCall {
							for _, lh := range as.Lhs[1:] {
								if o := r2tObj(info, lh); o != nil {
									if b, ok := o.Type().Underlying().(*types.Basic); ok && b.Info()&types.IsBoolean != 0 {
										skipVar[o] = true
									}
								}
							}
						}
					}
					for i, lh := range as.Lhs {
						t := ast.Unparen(lh)
						var o types.Object
						if ix, ok := t.(*ast.IndexExpr); ok {
							o = r2tObj(info, ix.X)
						} else if len(as.Rhs) == len(as.Lhs) {
							if call, ok := ast.Unparen(as.Rhs[i]).(*ast.CallExpr); ok && r2tIsBuiltin(info, call, "append") && len(call.Args) > 1 && r2tObj(info, call.Args[0]) == r2tObj(info, t) {
								o = r2tObj(info, t)
							}
						}
						v, ok := o.(*types.Var)
						if !ok || v.IsField() {
							continue
						}
						if _, isC := mbIsContainer(v.Type()); !isC {
							continue
						}
						if rs.Pos() <= v.Pos() && v.Pos() <= rs.End() {
							continue // created per iteration
						}
						if !(fd.Body.Pos() <= v.Pos() && v.Pos() <= fd.Body.End()) {
							continue // parameter / outer variable: not a fresh copy
						}
						dests[o] = true
					}
					return true
				})
				var ds []types.Object
				for o := range dests {
					ds = append(ds, o)
				}
				sort.Slice(ds, func(i, j int) bool { return ds[i].Pos() < ds[j].Pos() })
				for _, d := range ds {
					base := fmt.Sprintf("copy|%s.%s|range %s -> %s", strings.TrimPrefix(rel, "homescript/"), FuncName(fd), exprStr(rs.X), d.Name())
					seen[base]++
					key := base
					if seen[base] > 1 {
						key = fmt.Sprintf("%s #%d", base, seen[base])
					}
					lp := &r4cLoop{info: info, rs: rs, dest: d, skipVar: skipVar, c: c}
					for _, q := range lp.walk(rs.Body.List, []r4cState{{flags: map[types.Object]bool{}}}, 0, 0) {
						lp.ends = append(lp.ends, r4cEnd{"next", q, rs.Body.Rbrace})
					}
					o := Obligation{Key: key, Pos: c.Pos(rs.Pos()), Nontrivial: true}
					var bad, exempt []string
					nNext := 0
					// a non-storing path is the producer's skip iff flipping only producer-decided
					// conditions leads to a storing path
					var storing []r4cEnd
					for _, e := range lp.ends {
						if e.kind == "next" && e.st.stored {
							storing = append(storing, e)
						}
					}
					producerSkip := func(e r4cEnd) bool {
						hasProducer := false
						for _, cd := range e.st.conds {
							hasProducer = hasProducer || cd.producer
						}
						if !hasProducer {
							return false
						}
						for _, s := range storing {
							all := true
							for _, cd := range e.st.conds {
								if cd.producer {
									continue
								}
								found := false
								for _, sc := range s.st.conds {
									found = found || sc.txt == cd.txt
								}
								all = all && found
							}
							if all {
								return true
							}
						}
						return false
					}
					for _, e := range lp.ends {
						cs := r4cCondStr(e.st.conds)
						switch e.kind {
						case "break":
							bad = append(bad, fmt.Sprintf("the copy stops at %s under [%s]: the remaining entries are not copied", c.Pos(e.pos), cs))
						case "next":
							nNext++
							if e.st.stored {
								continue
							}
							if producerSkip(e) {
								exempt = append(exempt, cs)
								continue
							}
							bad = append(bad, fmt.Sprintf("under [%s] the iteration ends (%s) without storing an entry: the source entry is dropped", cs, c.Pos(e.pos)))
						}
					}
					bad = mbUniq(bad)
					sort.Strings(bad)
					switch {
					case lp.undec != "":
						o.Status, o.Detail = Undecided, lp.undec
					case len(bad) > 0:
						o.Status = Violated
						o.Detail = fmt.Sprintf("conversion of %s into %s is not total: %s. The new value has fewer entries than the source (keys()/length, equality and JSON round trips change).", storage[r2tFieldOfExpr(info, rs.X)], d.Name(), strings.Join(bad, "; "))
					default:
						o.Status = Discharged
						o.Detail = fmt.Sprintf("every path through the body that reaches the next iteration stores into %s (%d such path(s); other paths abort the conversion)", d.Name(), nNext)
						if len(exempt) > 0 {
							o.Detail += "; skipped only when the producer of the entry says so: [" + strings.Join(mbUniq(exempt), "; ") + "]"
						}
					}
					obs = append(obs, o)
				}
			}
		}
	}
	return obs
}
