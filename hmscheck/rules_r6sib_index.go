package main

import (
	"fmt"
	"go/ast"
	"go/constant"
	"go/token"
	"go/types"
	"sort"
	"strings"
)

// r6sib — two more classes of R-sentinel-index, for the front end (lexer, parser, analyzer: they must not panic on
// any source text, C05):
//   (c) a constant index `X[C]` into a string / slice the function was given (rooted at a parameter): every length
//       0 … C must be excluded by a dominating test (`len(X) == 0 → return`, `X != ""`, an else-if chain over the
//       lengths); an identifier, a module name, a token list can be empty.
//   (d) `A[i]` where i runs over ANOTHER list B (range key, or a counter bounded by len(B)): a dominating test must
//       relate the two lengths (`len(A) != len(B)` leaves, `len(A) >= len(B)`, `i < len(A)`): two lists that are
//       parallel by convention (the parameters of a required method and of its implementation) are parallel only
//       after their lengths were compared.

var r6siFrontEnd = []string{"homescript/lexer", "homescript/parser", "homescript/analyzer", "homescript/diagnostic", "homescript/errors"}

type r6siGuard struct {
	cond  ast.Expr
	taken bool
}

func r6siDominators(info *types.Info, parent map[ast.Node]ast.Node, body *ast.BlockStmt, use ast.Node) []r6siGuard {
	var gs []r6siGuard
	r5siGuarded(info, parent, body, use, func(cond ast.Expr, taken bool) bool {
		gs = append(gs, r6siGuard{cond, taken})
		return false
	})
	// clauses of a tagged switch: `switch len(x) { case 0: … case 1: … default: … }` — the clause that contains the
	// use stands for `tag == v` (one of its values), the default clause for `tag != v` for every listed value
	for cur := use; cur != nil && cur != ast.Node(body); cur = parent[cur] {
		cc, ok := parent[cur].(*ast.CaseClause)
		if !ok {
			continue
		}
		blk, _ := parent[cc].(*ast.BlockStmt)
		sw, _ := parent[blk].(*ast.SwitchStmt)
		if blk == nil || sw == nil || sw.Tag == nil {
			continue
		}
		if cc.List != nil {
			var cond ast.Expr
			for _, v := range cc.List {
				eq := &ast.BinaryExpr{X: sw.Tag, Op: token.EQL, Y: v}
				if cond == nil {
					cond = eq
				} else {
					cond = &ast.BinaryExpr{X: cond, Op: token.LOR, Y: eq}
				}
			}
			gs = append(gs, r6siGuard{cond, true})
			continue
		}
		for _, st := range sw.Body.List {
			if oc, ok := st.(*ast.CaseClause); ok && oc != cc {
				for _, v := range oc.List {
					gs = append(gs, r6siGuard{&ast.BinaryExpr{X: sw.Tag, Op: token.EQL, Y: v}, false})
				}
			}
		}
	}
	return gs
}

// r6siLenTerm: x is len(<term>) (or a local naming it) → the term.
func r6siLenTerm(f *r2sibFunc, x ast.Expr, depth int) string {
	x = ast.Unparen(x)
	if id, ok := x.(*ast.Ident); ok && depth < 3 {
		if o := f.objOf(id); o != nil {
			if ds := f.defs[o]; len(ds) == 1 && ds[0].kind == r2dAssign && ds[0].n == 1 {
				return r6siLenTerm(f, ds[0].rhs, depth+1)
			}
		}
		return ""
	}
	call, ok := x.(*ast.CallExpr)
	if !ok || len(call.Args) != 1 {
		return ""
	}
	if id, ok := ast.Unparen(call.Fun).(*ast.Ident); ok && id.Name == "len" {
		return f.norm(call.Args[0])
	}
	return ""
}

// r6siPossible: can `cond == taken` hold when len(term) == n? (true when the condition says nothing about it)
func r6siPossible(info *types.Info, f *r2sibFunc, cond ast.Expr, taken bool, term string, n int64) bool {
	cond = ast.Unparen(cond)
	switch x := cond.(type) {
	case *ast.UnaryExpr:
		if x.Op == token.NOT {
			return r6siPossible(info, f, x.X, !taken, term, n)
		}
	case *ast.BinaryExpr:
		switch x.Op {
		case token.LAND:
			if taken {
				return r6siPossible(info, f, x.X, true, term, n) && r6siPossible(info, f, x.Y, true, term, n)
			}
			return r6siPossible(info, f, x.X, false, term, n) || r6siPossible(info, f, x.Y, false, term, n)
		case token.LOR:
			if taken {
				return r6siPossible(info, f, x.X, true, term, n) || r6siPossible(info, f, x.Y, true, term, n)
			}
			return r6siPossible(info, f, x.X, false, term, n) && r6siPossible(info, f, x.Y, false, term, n)
		case token.EQL, token.NEQ, token.LSS, token.LEQ, token.GTR, token.GEQ:
			op := x.Op
			var k constant.Value
			lt, rt := r6siLenTerm(f, x.X, 0), r6siLenTerm(f, x.Y, 0)
			switch {
			case lt == term:
				if tv, ok := info.Types[x.Y]; ok && tv.Value != nil {
					k = tv.Value
				}
			case rt == term:
				if tv, ok := info.Types[x.X]; ok && tv.Value != nil {
					k = tv.Value
				}
				switch op {
				case token.LSS:
					op = token.GTR
				case token.LEQ:
					op = token.GEQ
				case token.GTR:
					op = token.LSS
				case token.GEQ:
					op = token.LEQ
				}
			default:
				// X == "" / X != ""
				if op == token.EQL || op == token.NEQ {
					for _, pr := range [][2]ast.Expr{{x.X, x.Y}, {x.Y, x.X}} {
						if f.norm(pr[0]) == term {
							if tv, ok := info.Types[pr[1]]; ok && tv.Value != nil && tv.Value.Kind() == constant.String && constant.StringVal(tv.Value) == "" {
								return ((n == 0) == (op == token.EQL)) == taken
							}
						}
					}
				}
				return true
			}
			if k == nil || k.Kind() != constant.Int {
				return true
			}
			return constant.Compare(constant.MakeInt64(n), op, k) == taken
		}
	}
	return true
}

func r6siIndexObligations(c *Ctx) []Obligation {
	var out []Obligation
	for _, p := range c.All {
		rel := relPkg(p.PkgPath)
		front := false
		for _, fe := range r6siFrontEnd {
			front = front || rel == fe || strings.HasPrefix(rel, fe+"/")
		}
		if !front {
			continue
		}
		info := p.TypesInfo
		for _, fd := range AllFuncDecls(p) {
			if fd.Body == nil {
				continue
			}
			f := r2sibFuncOf(c, p, fd)
			var parent map[ast.Node]ast.Node
			getParent := func() map[ast.Node]ast.Node {
				if parent == nil {
					parent = map[ast.Node]ast.Node{}
					var stack []ast.Node
					ast.Inspect(fd.Body, func(m ast.Node) bool {
						if m == nil {
							stack = stack[:len(stack)-1]
							return true
						}
						if len(stack) > 0 {
							parent[m] = stack[len(stack)-1]
						}
						stack = append(stack, m)
						return true
					})
				}
				return parent
			}
			nKey := map[string]int{}
			ast.Inspect(fd.Body, func(n ast.Node) bool {
				ix, ok := n.(*ast.IndexExpr)
				if !ok {
					return true
				}
				tv, ok := info.Types[ix.X]
				if !ok || tv.Type == nil {
					return true
				}
				switch u := tv.Type.Underlying().(type) {
				case *types.Slice:
				case *types.Basic:
					if u.Info()&types.IsString == 0 {
						return true
					}
				default:
					return true
				}
				term := f.norm(ix.X)
				// (c) constant index into a list the function was given
				if itv, ok := info.Types[ix.Index]; ok && itv.Value != nil && itv.Value.Kind() == constant.Int {
					k, _ := constant.Int64Val(itv.Value)
					if k < 0 || !strings.HasPrefix(term, "$") || strings.Contains(term, "(") {
						return true
					}
					// the list itself is what the caller handed in (a name, a token list, the source text), or a field of a
					// node / type struct; a list inside the analyzer's own state (module.Scopes) is typestate, not input
					if strings.Contains(term, ".") {
						data := false
						if sel, ok := ast.Unparen(ix.X).(*ast.SelectorExpr); ok {
							if rn := recvNamed(info.TypeOf(sel.X)); rn != nil && rn.Obj().Pkg() != nil && strings.HasSuffix(rn.Obj().Pkg().Path(), "/ast") {
								data = true
							}
						}
						if !data {
							return true
						}
					}
					// a store `X[C] = v` into a list the function sized itself is not a read of the input
					gs := r6siDominators(info, getParent(), fd.Body, ix)
					var open []string
					for l := int64(0); l <= k; l++ {
						excluded := false
						for _, g := range gs {
							if !r6siPossible(info, f, g.cond, g.taken, term, l) {
								excluded = true
							}
						}
						if !excluded {
							open = append(open, fmt.Sprint(l))
						}
					}
					key := fmt.Sprintf("%s.%s|element %d of %s|reached only where the list is long enough", relPkg(p.PkgPath), FuncName(fd), k, f.pretty(term))
					nKey[key]++
					if q := nKey[key]; q > 1 {
						key = fmt.Sprintf("%s #%d", key, q)
					}
					ob := Obligation{Key: key, Pos: c.Pos(ix.Pos()), Nontrivial: true}
					if len(open) > 0 {
						ob.Status = Violated
						ob.Detail = fmt.Sprintf("`%s` reads a fixed position of a %s the function was given, but no dominating test excludes the length(s) %s: an empty (too short) input panics with index out of range", exprStr(ix), types.TypeString(tv.Type, func(p *types.Package) string { return p.Name() }), strings.Join(open, ", "))
					} else {
						ob.Detail = fmt.Sprintf("`%s`: every length 0 … %d is excluded by a dominating test", exprStr(ix), k)
					}
					out = append(out, ob)
					return true
				}
				// (d) index that runs over another list
				id, ok := ast.Unparen(ix.Index).(*ast.Ident)
				if !ok {
					return true
				}
				io := info.Uses[id]
				if io == nil {
					return true
				}
				other := ""
				for m := getParent()[n]; m != nil; m = getParent()[m] {
					switch l := m.(type) {
					case *ast.RangeStmt:
						if kid, ok := l.Key.(*ast.Ident); ok && info.Defs[kid] == io {
							if rtv, ok := info.Types[l.X]; ok && rtv.Type != nil {
								if _, isMap := rtv.Type.Underlying().(*types.Map); !isMap {
									other = f.norm(l.X)
								}
							}
						}
					case *ast.ForStmt:
						if be, ok := ast.Unparen(l.Cond).(*ast.BinaryExpr); ok && be.Op == token.LSS {
							if cid, ok := ast.Unparen(be.X).(*ast.Ident); ok && info.Uses[cid] == io {
								other = r6siLenTerm(f, be.Y, 0)
							}
						}
					}
					if other != "" {
						break
					}
				}
				if other == "" || other == term {
					return true
				}
				gs := r6siDominators(info, getParent(), fd.Body, ix)
				related := ""
				// sized after the other list: A := make([]T, len(B)) / A = make([]T, len(B)) before the use
				ast.Inspect(fd.Body, func(m ast.Node) bool {
					var lhs []ast.Expr
					var rhs []ast.Expr
					switch x := m.(type) {
					case *ast.AssignStmt:
						lhs, rhs = x.Lhs, x.Rhs
					case *ast.ValueSpec:
						for _, nm := range x.Names {
							lhs = append(lhs, nm)
						}
						rhs = x.Values
					default:
						return true
					}
					if m.Pos() >= ix.Pos() || len(lhs) != len(rhs) {
						return true
					}
					for i := range lhs {
						if exprStr(lhs[i]) != exprStr(ix.X) {
							continue
						}
						if call, ok := ast.Unparen(rhs[i]).(*ast.CallExpr); ok && len(call.Args) >= 2 {
							if mk, ok := ast.Unparen(call.Fun).(*ast.Ident); ok && mk.Name == "make" && r6siLenTerm(f, call.Args[1], 0) == other {
								related = exprStr(rhs[i]) + " (sized after the other list)"
							}
						}
					}
					return true
				})
				for _, g := range gs {
					ast.Inspect(g.cond, func(m ast.Node) bool {
						be, ok := m.(*ast.BinaryExpr)
						if !ok || related != "" {
							return true
						}
						switch be.Op {
						case token.EQL, token.NEQ, token.LSS, token.LEQ, token.GTR, token.GEQ:
						default:
							return true
						}
						lt, rt := r6siLenTerm(f, be.X, 0), r6siLenTerm(f, be.Y, 0)
						if lt == term && rt == other || lt == other && rt == term {
							// evaluate with len(other) = 1, len(term) = 0: the decision taken must be impossible
							a, b := int64(0), int64(1) // a = len(term), b = len(other)
							l, r := a, b
							if lt == other {
								l, r = b, a
							}
							holds := constant.Compare(constant.MakeInt64(l), be.Op, constant.MakeInt64(r))
							// only for a condition that is the whole guard (or a conjunct of a taken / disjunct of a refused one)
							if g.cond == ast.Expr(be) || ast.Unparen(g.cond) == ast.Expr(be) {
								if holds != g.taken {
									related = exprStr(be)
								}
							}
						}
						// i < len(A)
						if cid, ok := ast.Unparen(be.X).(*ast.Ident); ok && info.Uses[cid] == io && rt == term && (ast.Unparen(g.cond) == ast.Expr(be)) {
							if be.Op == token.LSS && g.taken || be.Op == token.GEQ && !g.taken {
								related = exprStr(be)
							}
						}
						return true
					})
				}
				key := fmt.Sprintf("%s.%s|%s indexed by the position in %s|the lengths were related first", relPkg(p.PkgPath), FuncName(fd), f.pretty(term), f.pretty(other))
				if strings.Contains(term, "local(") || strings.Contains(other, "local(") || strings.Contains(other, "make(") || strings.Contains(term, "make(") {
					key = fmt.Sprintf("%s.%s|%s indexed by the position in %s|the lengths were related first", relPkg(p.PkgPath), FuncName(fd), exprStr(ix.X), id.Name)
				}
				nKey[key]++
				if q := nKey[key]; q > 1 {
					key = fmt.Sprintf("%s #%d", key, q)
				}
				ob := Obligation{Key: key, Pos: c.Pos(ix.Pos()), Nontrivial: true}
				if related != "" {
					ob.Detail = fmt.Sprintf("`%s` is dominated by `%s`, which leaves no path on which the indexed list is the shorter one", exprStr(ix), related)
				} else {
					ob.Status = Violated
					ob.Detail = fmt.Sprintf("`%s` indexes one list with the position in another (%s), but no dominating test compares their lengths (or the index with the length): when the indexed list is shorter the access panics with index out of range", exprStr(ix), f.pretty(other))
				}
				out = append(out, ob)
				return true
			})
		}
	}
	sort.SliceStable(out, func(i, j int) bool { return out[i].Key < out[j].Key })
	return out
}
