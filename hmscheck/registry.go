package main

// props: the property registry. A property with no rules is not claimed and
// is listed under not_applicable in the MANIFEST with NAReason.
var props = []PropDef{
	{ID: "C01", NAReason: "check under construction"},
	{ID: "C02", NAReason: "check under construction"},
	{ID: "C03", NAReason: "check under construction"},
	{ID: "C04", NAReason: "check under construction"},
	{ID: "C05", NAReason: "check under construction"},
	{
		ID:          "C06",
		Rules:       []string{"R-lex-consume", "R-lex-whitespace", "R-lex-dispatch", "R-lex-scan", "R-lex-span-loop", "R-lex-escapes", "R-lex-classes"},
		Technique:   "path-sensitive abstract interpretation of the scanner (symbolic cursor offset + rune facts) and table agreement",
		DesignRef:   "DESIGN.md §4 R-lex-consume, R-lexeme-tables; §5 C06",
		Decides:     "for every fixed-lexeme token constructor reachable from NextToken and every entry→return path through it: the runes consumed are exactly the runes of the lexeme returned, the inclusive span starts at the first and ends at the last rune and names the lexer's file, the token kind's display string equals the lexeme, and longest match is enforced (no path returns a prefix of a longer lexeme without excluding the longer one's next rune); the whitespace set is exactly {SP,HT,LF,CR}; every punctuation kind of the token table is produced by some path; the rune classes (digit, octal, hex, letter) denote the sets the lexical grammar defines; in the loop-based scanners (comments, strings, names, numbers, escapes), under every entry context their call sites establish, no rune is dereferenced past the end of input, no scanning loop steps over a position where its own terminator could start, and every rune appended to a token value is consumed exactly once; the spans of name/number/string tokens cover exactly the consumed runes on every path, number kinds follow the consumed suffix, numeric escapes decode the digit counts and radices of grammar.ebnf, and the scanning-loop classes of names and numbers equal the repetition classes of grammar.ebnf (read with a small EBNF parser).",
		NotDecided:  "decoded values of number/string literals, digit-separator handling, unicode content, and the behaviour of the loop-based constructors beyond the per-iteration rules.",
		Assumptions: []string{"Lexer.advance moves the cursor by exactly one rune and is the only cursor mutation (checked: it is the only method that calls Location.Advance; R-lex-consume resolves it by role)."},
	},
	{ID: "C07", NAReason: "check under construction"},
	{ID: "C08", NAReason: "check under construction"},
	{ID: "C09", NAReason: "check under construction"},
	{ID: "C10", NAReason: "check under construction"},
	{ID: "C11", NAReason: "check under construction"},
	{ID: "C12", NAReason: "check under construction"},
	{ID: "C13", NAReason: "check under construction"},
	{ID: "C14", NAReason: "check under construction"},
	{ID: "C15", NAReason: "check under construction"},
	{ID: "C16", NAReason: "check under construction"},
	{ID: "C17", NAReason: "check under construction"},
	{ID: "C18", NAReason: "check under construction"},
	{ID: "C19", NAReason: "check under construction"},
	{ID: "C20", NAReason: "check under construction"},
}
