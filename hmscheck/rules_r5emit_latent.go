package main

// Latent paths (r5emit): a path that needs `_, found := m[K]` (constant key K)
// to be found is infeasible while no live function stores under a key that
// can equal K.

import (
	"fmt"
	"go/ast"
	"go/constant"
	"go/types"
	"regexp"
	"sort"
	"strings"
)

type r5emLive struct {
	live  map[*types.Func]bool
	decls *vmDecls
}

var r5emLiveCache = map[*Ctx]*r5emLive{}

// r5emLiveness: functions with a static caller chain from a root — an exported
// function / method, main, init, or a function whose value is taken (method
// value, function value, deferred / go call included through the call edge).
func r5emLiveness(c *Ctx) *r5emLive {
	if l := r5emLiveCache[c]; l != nil {
		return l
	}
	d := vmDeclIndex(c)
	l := &r5emLive{live: map[*types.Func]bool{}, decls: d}
	callees := map[*types.Func][]*types.Func{}
	var roots []*types.Func
	for obj, fn := range d.byObj {
		if obj.Exported() || obj.Name() == "main" || obj.Name() == "init" {
			roots = append(roots, obj)
		}
		info := fn.info
		callFun := map[ast.Node]bool{}
		ast.Inspect(fn.fd.Body, func(n ast.Node) bool {
			if call, ok := n.(*ast.CallExpr); ok {
				callFun[ast.Unparen(call.Fun)] = true
				if sel, ok := ast.Unparen(call.Fun).(*ast.SelectorExpr); ok {
					callFun[sel.Sel] = true
				}
				if g := CalleeOf(info, call); g != nil {
					callees[obj] = append(callees[obj], g.Origin())
				}
			}
			return true
		})
		// function values: a use of a function object outside the callee position
		ast.Inspect(fn.fd.Body, func(n ast.Node) bool {
			switch x := n.(type) {
			case *ast.SelectorExpr:
				if callFun[x] {
					return true
				}
				if g, ok := info.Uses[x.Sel].(*types.Func); ok && d.byObj[g.Origin()] != nil {
					roots = append(roots, g.Origin())
				}
			case *ast.Ident:
				if callFun[x] {
					return true
				}
				if g, ok := info.Uses[x].(*types.Func); ok && d.byObj[g.Origin()] != nil {
					roots = append(roots, g.Origin())
				}
			}
			return true
		})
	}
	// package-level initialisers may reference functions, too
	for _, p := range c.All {
		for _, f := range p.Syntax {
			for _, dcl := range f.Decls {
				gd, ok := dcl.(*ast.GenDecl)
				if !ok {
					continue
				}
				ast.Inspect(gd, func(n ast.Node) bool {
					if id, ok := n.(*ast.Ident); ok {
						if g, ok := p.TypesInfo.Uses[id].(*types.Func); ok && d.byObj[g.Origin()] != nil {
							roots = append(roots, g.Origin())
						}
					}
					return true
				})
			}
		}
	}
	var visit func(g *types.Func)
	visit = func(g *types.Func) {
		if l.live[g] {
			return
		}
		l.live[g] = true
		for _, h := range callees[g] {
			visit(h)
		}
	}
	for _, r := range roots {
		visit(r)
	}
	r5emLiveCache[c] = l
	return l
}

var r5emPlainIdent = regexp.MustCompile(`^[A-Za-z_][A-Za-z0-9_]*$`)

// r5emKeyCanEqual classifies a key expression against the constant K:
// "yes" (constant equal / a Sprintf format that can produce K), "no",
// "param:<i>" (a parameter of the enclosing function), or "var" (anything else).
func r5emKeyCanEqual(fn *vmFn, key ast.Expr, k string) string {
	info := fn.info
	key = ast.Unparen(key)
	if tv, ok := info.Types[key]; ok && tv.Value != nil && tv.Value.Kind() == constant.String {
		if constant.StringVal(tv.Value) == k {
			return "yes"
		}
		return "no"
	}
	if call, ok := key.(*ast.CallExpr); ok {
		if g := CalleeOf(info, call); g != nil && g.Pkg() != nil && g.Pkg().Path() == "fmt" && strings.HasPrefix(g.Name(), "Sprintf") && len(call.Args) > 0 {
			if tv, ok := info.Types[call.Args[0]]; ok && tv.Value != nil && tv.Value.Kind() == constant.String {
				format := constant.StringVal(tv.Value)
				// %verbs become wildcards
				var re strings.Builder
				re.WriteString("^")
				for i := 0; i < len(format); i++ {
					if format[i] == '%' && i+1 < len(format) {
						i++
						for i < len(format) && strings.ContainsRune("+-# 0123456789.", rune(format[i])) {
							i++
						}
						if i < len(format) && format[i] == '%' {
							re.WriteString("%")
						} else {
							re.WriteString(".*")
						}
						continue
					}
					re.WriteString(regexp.QuoteMeta(string(format[i])))
				}
				re.WriteString("$")
				if m, err := regexp.MatchString(re.String(), k); err == nil && m {
					return "yes"
				}
				return "no"
			}
		}
	}
	if o := vmObjOf(info, key); o != nil {
		for i, po := range vmParamObjs(fn) {
			if po != nil && po == o {
				return fmt.Sprintf("param:%d", i)
			}
		}
	}
	return "var"
}

// r5emKeyProducers: the functions that store, into a map of the given type, an
// entry whose key can equal K; split into live and dead ones. Keys that are
// plain variables count only when K is an ordinary identifier (names chosen by
// the script arrive as variables; reserved keys such as "@event_kill" are
// built from literals).
func r5emKeyProducers(c *Ctx, mapT types.Type, k string) (live, dead []string) {
	d := vmDeclIndex(c)
	lv := r5emLiveness(c)
	varCounts := r5emPlainIdent.MatchString(k)
	type keyed struct {
		fn  *types.Func
		idx int
	}
	seenKeyed := map[keyed]bool{}
	var work []keyed
	note := func(g *types.Func, fn *vmFn) {
		if lv.live[g] {
			live = append(live, fn.name)
		} else {
			dead = append(dead, fn.name)
		}
	}
	classify := func(g *types.Func, fn *vmFn, key ast.Expr) {
		switch r := r5emKeyCanEqual(fn, key, k); {
		case r == "yes":
			note(g, fn)
		case r == "var" && varCounts:
			note(g, fn)
		case strings.HasPrefix(r, "param:"):
			var idx int
			fmt.Sscanf(r, "param:%d", &idx)
			kd := keyed{g, idx}
			if !seenKeyed[kd] {
				seenKeyed[kd] = true
				work = append(work, kd)
			}
		}
	}
	var objs []*types.Func
	for obj := range d.byObj {
		objs = append(objs, obj)
	}
	sort.Slice(objs, func(i, j int) bool { return d.byObj[objs[i]].name < d.byObj[objs[j]].name })
	for _, obj := range objs {
		fn := d.byObj[obj]
		ast.Inspect(fn.fd.Body, func(n ast.Node) bool {
			as, ok := n.(*ast.AssignStmt)
			if !ok {
				return true
			}
			for _, l := range as.Lhs {
				ix, ok := ast.Unparen(l).(*ast.IndexExpr)
				if !ok {
					continue
				}
				if t := fn.info.TypeOf(ix.X); t != nil && types.Identical(t.Underlying(), mapT.Underlying()) {
					classify(obj, fn, ix.Index)
				}
			}
			return true
		})
	}
	for depth := 0; len(work) > 0 && depth < 4; depth++ {
		cur := work
		work = nil
		for _, kd := range cur {
			for _, obj := range objs {
				fn := d.byObj[obj]
				ast.Inspect(fn.fd.Body, func(n ast.Node) bool {
					if call, ok := n.(*ast.CallExpr); ok && kd.idx < len(call.Args) {
						if g := CalleeOf(fn.info, call); g != nil && g.Origin() == kd.fn {
							classify(obj, fn, call.Args[kd.idx])
						}
					}
					return true
				})
			}
		}
	}
	return vmUniq(live), vmUniq(dead)
}

// r5emLatentLookup: the path decided TRUE the found-flag of a comma-ok lookup
// with a constant key for which no live producer exists; returns a description.
func r5emLatentLookup(c *Ctx, fn *vmFn, p *vmPath) (string, bool) {
	info := fn.info
	// found-flags of constant-key lookups on this path
	type lk struct {
		key  string
		mapT types.Type
		expr ast.Expr
	}
	flags := map[types.Object]lk{}
	for _, e := range p.ev {
		switch e.K {
		case evAssign:
			as, ok := e.Stmt.(*ast.AssignStmt)
			if !ok || len(as.Lhs) != 2 || len(as.Rhs) != 1 {
				continue
			}
			ix, ok := ast.Unparen(as.Rhs[0]).(*ast.IndexExpr)
			if !ok {
				continue
			}
			mt := info.TypeOf(ix.X)
			if mt == nil {
				continue
			}
			if _, isMap := mt.Underlying().(*types.Map); !isMap {
				continue
			}
			tv, ok := info.Types[ix.Index]
			if !ok || tv.Value == nil || tv.Value.Kind() != constant.String {
				continue
			}
			if o := vmObjOf(info, as.Lhs[1]); o != nil {
				flags[o] = lk{constant.StringVal(tv.Value), mt, ix}
			}
		case evCond:
			if !e.Taken {
				continue
			}
			o := vmObjOf(info, ast.Unparen(e.X))
			f, ok := flags[o]
			if !ok || o == nil {
				continue
			}
			live, dead := r5emKeyProducers(c, f.mapT, f.key)
			if len(live) > 0 {
				continue
			}
			who := "no function stores such a key"
			if len(dead) > 0 {
				who = fmt.Sprintf("the only producer(s) of such a key, %s, have no caller", strings.Join(dead, ", "))
			}
			return fmt.Sprintf("the path needs the lookup `%s` to find the key %q, but %s", vmTrunc(exprStr(f.expr), 70), f.key, who), true
		}
	}
	return "", false
}
