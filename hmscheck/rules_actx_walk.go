package main

// actx group — path engine for the context-discipline rules. One abstract
// value per context field (entry value / constant / unknown, plus a counter
// or stack delta), locals that hold a saved entry value, leaf setters
// interpreted at their call sites, deferred calls run at every exit, owner
// switching (Analyzer.currentModule → the Module fields of another instance).

import (
	"fmt"
	"go/ast"
	"go/token"
	"go/types"
	"sort"
	"strings"
)

type actxVK int

const (
	avEntry actxVK = iota
	avConst
	avUnknown
	avAmbig
)

type actxVal struct {
	kind    actxVK
	k       string // constant
	delta   int
	gen     int       // 0: the instance the function was entered with
	dirty   bool      // a call that depends on the field happened while it was not at its entry value
	lastW   token.Pos // last write
	pending string    // clobbered by a call of this function and not yet compensated (phase 2)
	why     string
}

func (v actxVal) atEntry() bool { return v.kind == avEntry && v.delta == 0 }

func (v actxVal) String() string {
	s := ""
	switch v.kind {
	case avEntry:
		s = "entry"
	case avConst:
		s = "const " + v.k
	case avUnknown:
		s = "modified"
	case avAmbig:
		s = "path-dependent"
	}
	if v.delta != 0 {
		s += fmt.Sprintf("%+d", v.delta)
	}
	if v.why != "" {
		s += " (" + v.why + ")"
	}
	return s
}

type actxLK int

const (
	alSave actxLK = iota // holds the value of field f at the time of the save
	alPtr                // pointer to a save local
	alNil                // nil pointer (declared, not yet assigned)
)

type actxLocal struct {
	kind   actxLK
	f      *types.Var
	snap   map[*types.Var]actxVal // values of all context fields at save time
	target types.Object
}

type actxEvent struct {
	callee *types.Func
	call   *ast.CallExpr
	vals   map[*types.Var]actxVal
}

type actxState struct {
	vals      map[*types.Var]actxVal
	stash     map[*types.Var][]map[*types.Var]actxVal // owner field → saved member values of outer instances
	locals    map[types.Object]actxLocal
	conds     map[string]bool
	decisions []string
	outermost string
	defers    []*ast.DeferStmt
	events    []actxEvent
	savedDep  map[*types.Var]bool // a dependent call happened after the field was saved into a local
	compFail  []string
	closures  map[types.Object]*ast.FuncLit // locals bound (once, so far) to a parameterless function literal
}

func actxClone(s *actxState) *actxState {
	n := &actxState{vals: map[*types.Var]actxVal{}, stash: map[*types.Var][]map[*types.Var]actxVal{}, locals: map[types.Object]actxLocal{},
		conds: map[string]bool{}, outermost: s.outermost, savedDep: map[*types.Var]bool{}}
	for k, v := range s.vals {
		n.vals[k] = v
	}
	for k, v := range s.stash {
		n.stash[k] = append([]map[*types.Var]actxVal(nil), v...)
	}
	for k, v := range s.locals {
		n.locals[k] = v
	}
	for k, v := range s.conds {
		n.conds[k] = v
	}
	for k, v := range s.savedDep {
		n.savedDep[k] = v
	}
	n.decisions = append([]string(nil), s.decisions...)
	n.defers = append([]*ast.DeferStmt(nil), s.defers...)
	n.events = append([]actxEvent(nil), s.events...)
	n.compFail = append([]string(nil), s.compFail...)
	if len(s.closures) > 0 {
		n.closures = map[types.Object]*ast.FuncLit{}
		for k, v := range s.closures {
			n.closures[k] = v
		}
	}
	return n
}

type actxExit struct {
	st      *actxState
	o       outcome
	errExit bool
}

type actxRun struct {
	m        *actxPkg
	clobbers map[*types.Func]map[*types.Var]bool // phase 2: callees that leave a field modified
	depth    int
	overflow bool
	unsup    []token.Pos
	cur      *types.Func
	// global facts: state of every context field at each call site of a package function
	sites map[*types.Func][]actxSite
	inl   []actxInl // calls being interpreted (outermost first)
	// results of interpreted leaf setters that hand back a saved entry value
	// (`old := self.enterLoop()`): call → per result index, the save it returns
	rets map[*ast.CallExpr]map[int]actxLocal
}

type actxInl struct {
	g    *types.Func
	call *ast.CallExpr
}

type actxSite struct {
	caller *types.Func
	call   *ast.CallExpr
	vals   map[*types.Var]actxVal
}

func (r *actxRun) newState() *actxState {
	st := &actxState{vals: map[*types.Var]actxVal{}, stash: map[*types.Var][]map[*types.Var]actxVal{}, locals: map[types.Object]actxLocal{},
		conds: map[string]bool{}, savedDep: map[*types.Var]bool{}}
	for f := range r.m.ctx {
		st.vals[f] = actxVal{kind: avEntry}
	}
	return st
}

// members: context fields living in the struct that owner field o points to.
func (r *actxRun) members(o *types.Var) []*types.Var {
	t := o.Type()
	if p, ok := t.Underlying().(*types.Pointer); ok {
		t = p.Elem()
	}
	n, _ := t.(*types.Named)
	if n == nil {
		return nil
	}
	var out []*types.Var
	for f, cf := range r.m.ctx {
		if cf.owner == n {
			out = append(out, f)
		}
	}
	return out
}

// irrelevant: the subtree can neither change nor observe the abstract state
// and contains no jump; exploring it adds paths without information.
func (r *actxRun) irrelevant(n ast.Node) bool { return r.irrelevantX(n, false) }

func (r *actxRun) irrelevantX(n ast.Node, loopBody bool) bool {
	if n == nil {
		return true
	}
	ok := true
	ast.Inspect(n, func(x ast.Node) bool {
		if !ok {
			return false
		}
		switch y := x.(type) {
		case *ast.BranchStmt:
			if !loopBody || y.Label != nil || y.Tok == token.GOTO || y.Tok == token.FALLTHROUGH {
				ok = false
			}
		case *ast.ReturnStmt, *ast.DeferStmt, *ast.GoStmt, *ast.FuncLit:
			ok = false
		case *ast.CallExpr:
			if id, isId := y.Fun.(*ast.Ident); isId && id.Name == "panic" {
				ok = false
			}
			if g := CalleeOf(r.m.info, y); g != nil && r.m.decls[g] != nil && (r.m.touchesAny(g) || r.m.inlinable[g]) {
				ok = false
			}
			if actxIsDynCall(r.m.info, y) {
				ok = false
			}
		case *ast.AssignStmt:
			for _, l := range y.Lhs {
				if f, _ := r.m.fieldOf(l); f != nil && r.m.ctx[f] != nil {
					ok = false
				}
			}
			for _, rh := range y.Rhs {
				if f, _ := r.m.fieldOf(rh); f != nil && r.m.ctx[f] != nil {
					ok = false
				}
				if u, isU := ast.Unparen(rh).(*ast.UnaryExpr); isU && u.Op == token.AND {
					ok = false
				}
			}
		case *ast.IncDecStmt:
			if f, _ := r.m.fieldOf(y.X); f != nil && r.m.ctx[f] != nil {
				ok = false
			}
		}
		return ok
	})
	return ok
}

func actxCondKey(info *types.Info, e ast.Expr) (string, bool) {
	pure := true
	var parts []string
	ast.Inspect(e, func(n ast.Node) bool {
		switch x := n.(type) {
		case *ast.CallExpr, *ast.IndexExpr, *ast.StarExpr, *ast.FuncLit:
			pure = false
		case *ast.Ident:
			if obj := info.Uses[x]; obj != nil {
				if v, ok := obj.(*types.Var); ok {
					parts = append(parts, fmt.Sprintf("%s@%d", x.Name, v.Pos()))
				}
			}
		case *ast.SelectorExpr:
			// field reads are not stable across calls
			if s := info.Selections[x]; s != nil {
				pure = false
			}
		}
		return pure
	})
	if !pure {
		return "", false
	}
	return exprStr(e) + "|" + strings.Join(parts, ","), true
}

// walk enumerates the paths of body from st; bind pre-sets locals (inlined
// callee parameters). Panicking paths are dropped.
func (r *actxRun) walk(fn *types.Func, body *ast.BlockStmt, st *actxState, top bool) []actxExit {
	m := r.m
	info := m.info
	var exits []actxExit
	// map atomic conditions of irrelevant if statements → prune one side
	prune := map[ast.Expr]bool{}
	ast.Inspect(body, func(n ast.Node) bool {
		if ifs, ok := n.(*ast.IfStmt); ok && ifs.Init == nil && r.irrelevant(ifs.Body) && r.irrelevant(ifs.Else) && r.irrelevant(ifs.Cond) {
			var leaves func(e ast.Expr)
			leaves = func(e ast.Expr) {
				e = ast.Unparen(e)
				switch x := e.(type) {
				case *ast.UnaryExpr:
					if x.Op == token.NOT {
						leaves(x.X)
						return
					}
				case *ast.BinaryExpr:
					if x.Op == token.LAND || x.Op == token.LOR {
						leaves(x.X)
						leaves(x.Y)
						return
					}
				}
				prune[e] = true
			}
			leaves(ifs.Cond)
		}
		return true
	})
	sig := fn.Type().(*types.Signature)
	w := &Walker[*actxState]{Clone: actxClone, MaxPaths: 60000}
	w.IsPanic = func(s ast.Stmt) bool { return IsPanicCall(info, s) }
	w.OnStmt = func(st *actxState, s ast.Stmt) (*actxState, bool) {
		r.stmt(fn, st, s)
		return st, true
	}
	w.OnDefer = func(st *actxState, d *ast.DeferStmt) (*actxState, bool) {
		for _, a := range d.Call.Args {
			r.calls(fn, st, a)
		}
		st.defers = append(st.defers, d)
		return st, true
	}
	w.OnRange = func(st *actxState, rs *ast.RangeStmt) (*actxState, bool) {
		r.calls(fn, st, rs.X)
		if r.irrelevantX(rs.Body, true) {
			return st, false
		}
		return st, true
	}
	w.OnCase = func(st *actxState, sw *ast.SwitchStmt, vals, others []ast.Expr) (*actxState, bool) {
		r.calls(fn, st, sw.Tag)
		if vals == nil {
			st.decisions = append(st.decisions, "switch "+exprStr(sw.Tag)+": default")
		} else {
			st.decisions = append(st.decisions, "case "+exprStr(vals[0]))
		}
		return st, true
	}
	w.OnCond = func(st *actxState, cond ast.Expr, taken bool) (*actxState, bool) {
		if prune[cond] && !taken {
			return st, false
		}
		r.calls(fn, st, cond)
		// nil test of a save local / pointer to one
		if be, ok := cond.(*ast.BinaryExpr); ok && (be.Op == token.NEQ || be.Op == token.EQL) {
			var id *ast.Ident
			if y, ok := ast.Unparen(be.Y).(*ast.Ident); ok && y.Name == "nil" {
				id, _ = ast.Unparen(be.X).(*ast.Ident)
			}
			if id != nil {
				if l, ok := st.locals[info.Uses[id]]; ok {
					nonNil := taken == (be.Op == token.NEQ)
					switch l.kind {
					case alPtr:
						if !nonNil {
							return st, false
						}
					case alNil:
						if nonNil {
							return st, false
						}
					case alSave:
						if !nonNil {
							if v, ok := l.snap[l.f]; ok && v.atEntry() {
								st.outermost = fmt.Sprintf("%s: the entry value of %s is the zero value (no enclosing activation)", exprStr(cond)+"=false", m.fieldName(l.f))
							}
						}
					}
				}
			}
		}
		// boolean parameter: only the values some caller passes
		neg := false
		c := cond
		if id, ok := c.(*ast.Ident); ok && top {
			for i := 0; i < sig.Params().Len(); i++ {
				if info.Uses[id] == sig.Params().At(i) {
					val := "true"
					if taken == neg {
						val = "false"
					}
					inner, root := m.boolArgs[fn][i], m.boolArgsRt[fn][i]
					if len(inner)+len(root) > 0 && !inner["?"] && !root["?"] {
						switch {
						case inner[val]:
						case root[val]:
							st.outermost = fmt.Sprintf("%s=%s is only passed by root drivers (outermost activation)", id.Name, val)
						default:
							return st, false
						}
					}
				}
			}
		}
		if key, ok := actxCondKey(info, cond); ok {
			if prev, seen := st.conds[key]; seen && prev != taken {
				return st, false
			}
			st.conds[key] = taken
		}
		if !prune[cond] {
			st.decisions = append(st.decisions, fmt.Sprintf("%s=%v", exprStr(cond), taken))
		}
		return st, true
	}
	w.OnLoopIter = func(loop ast.Stmt, before, after *actxState) {}
	w.Exit = func(st *actxState, o outcome) {
		if o.kind == cPanic {
			return
		}
		// run defers LIFO
		states := []*actxState{st}
		for i := len(st.defers) - 1; i >= 0; i-- {
			d := st.defers[i]
			var next []*actxState
			for _, s := range states {
				fl, ok := d.Call.Fun.(*ast.FuncLit)
				if !ok {
					if cl := r.closureOf(s, d.Call); cl != nil {
						fl, ok = cl, true
					}
				}
				if ok {
					s2 := actxClone(s)
					s2.defers = nil
					for _, e := range r.walk(fn, fl.Body, s2, false) {
						e.st.defers = s.defers
						next = append(next, e.st)
					}
				} else {
					r.call(fn, s, d.Call)
					next = append(next, s)
				}
			}
			states = next
		}
		for _, s := range states {
			e := actxExit{st: s, o: o}
			if o.ret != nil {
				for _, res := range o.ret.Results {
					if actxIsErrType(info.TypeOf(res)) {
						if id, ok := ast.Unparen(res).(*ast.Ident); !ok || id.Name != "nil" {
							e.errExit = true
						}
					}
				}
			}
			exits = append(exits, e)
		}
	}
	w.Run(body, st)
	if w.Overflow {
		r.overflow = true
	}
	r.unsup = append(r.unsup, w.Unsupported...)
	return exits
}

func (r *actxRun) invalidate(st *actxState, obj types.Object) {
	if obj == nil {
		return
	}
	tag := fmt.Sprintf("%s@%d", obj.Name(), obj.Pos())
	for k := range st.conds {
		if strings.Contains(k, tag) {
			delete(st.conds, k)
		}
	}
}

// calls processes the package calls inside an expression in evaluation
// (post-)order.
func (r *actxRun) calls(fn *types.Func, st *actxState, e ast.Node) {
	if e == nil {
		return
	}
	var list []*ast.CallExpr
	ast.Inspect(e, func(n ast.Node) bool {
		if _, ok := n.(*ast.FuncLit); ok {
			return false
		}
		if c, ok := n.(*ast.CallExpr); ok {
			list = append(list, c)
		}
		return true
	})
	sort.SliceStable(list, func(i, j int) bool { return list[i].End() < list[j].End() })
	for _, c := range list {
		r.call(fn, st, c)
	}
}

func (r *actxRun) snapshot(st *actxState) map[*types.Var]actxVal {
	out := map[*types.Var]actxVal{}
	for k, v := range st.vals {
		out[k] = v
	}
	return out
}

func (r *actxRun) call(fn *types.Func, st *actxState, c *ast.CallExpr) {
	m := r.m
	g := CalleeOf(m.info, c)
	if fl := r.closureOf(st, c); fl != nil {
		r.inlineLit(fn, st, fl)
		return
	}
	if (g == nil || m.decls[g] == nil) && actxIsDynCall(m.info, c) {
		// a call through a function value: code of the package that depends on any context field may run
		for _, f := range m.sortedCtx() {
			v := st.vals[f]
			if v.pending != "" {
				st.compFail = append(st.compFail, fmt.Sprintf("%s is left modified by %s and a function value (which may depend on it) is called at %s before it is restored", m.fieldName(f), v.pending, r.m.c.Pos(c.Pos())))
				v.pending = ""
			}
			if !v.atEntry() && !v.dirty {
				v.dirty = true
			}
			st.vals[f] = v
			for _, l := range st.locals {
				if l.kind == alSave && l.f == f {
					st.savedDep[f] = true
				}
			}
		}
		return
	}
	if g == nil || m.decls[g] == nil {
		return
	}
	if r.sites != nil {
		r.sites[g] = append(r.sites[g], actxSite{caller: r.cur, call: c, vals: r.snapshot(st)})
	}
	if m.inlinable[g] && r.depth < 6 {
		r.inline(fn, st, g, c)
		return
	}
	if !m.touchesAny(g) {
		return
	}
	st.events = append(st.events, actxEvent{callee: g, call: c, vals: r.snapshot(st)})
	for _, f := range m.sortedCtx() {
		v := st.vals[f]
		if !m.touch[f][g] {
			continue
		}
		if v.pending != "" {
			st.compFail = append(st.compFail, fmt.Sprintf("%s is left modified by %s and %s (which depends on it) is called at %s before it is restored", m.fieldName(f), v.pending, g.Name(), r.m.c.Pos(c.Pos())))
			v.pending = ""
		}
		if !v.atEntry() && !v.dirty {
			v.dirty = true
		}
		st.vals[f] = v
		for _, l := range st.locals {
			if l.kind == alSave && l.f == f {
				st.savedDep[f] = true
			}
		}
	}
	if r.clobbers != nil && !m.rootLike[r.cur] {
		for f := range r.clobbers[g] {
			v := st.vals[f]
			v.kind, v.k, v.why, v.pending, v.dirty = avUnknown, "", "left modified by "+g.Name(), g.Name(), false
			st.vals[f] = v
		}
	}
}

// closureOf: the call invokes a local variable that holds a parameterless function literal.
func (r *actxRun) closureOf(st *actxState, c *ast.CallExpr) *ast.FuncLit {
	id, ok := ast.Unparen(c.Fun).(*ast.Ident)
	if !ok || len(c.Args) != 0 || st.closures == nil {
		return nil
	}
	return st.closures[r.m.info.Uses[id]]
}

// inlineLit interprets the body of a local closure at its call site (the
// conditions of the path so far are kept, so a branch of the closure that
// contradicts them is not taken).
func (r *actxRun) inlineLit(fn *types.Func, st *actxState, fl *ast.FuncLit) {
	if r.depth >= 6 {
		return
	}
	sub := actxClone(st)
	sub.defers = nil
	r.depth++
	exits := r.walk(fn, fl.Body, sub, false)
	r.depth--
	if len(exits) == 0 {
		return
	}
	res := exits[0].st.vals
	for _, e := range exits[1:] {
		for f, v := range e.st.vals {
			a := res[f]
			if a.kind != v.kind || a.k != v.k || a.delta != v.delta || a.gen != v.gen {
				a.kind, a.why = avAmbig, "differs between the paths of the local closure"
				res[f] = a
			}
		}
	}
	st.vals = res
	st.stash = exits[0].st.stash
	st.compFail = exits[0].st.compFail
	st.events = exits[0].st.events
	st.savedDep = exits[0].st.savedDep
	st.locals = exits[0].st.locals
}

// inline interprets a leaf setter at its call site.
func (r *actxRun) inline(fn *types.Func, st *actxState, g *types.Func, c *ast.CallExpr) {
	m := r.m
	fd := m.decls[g]
	sub := actxClone(st)
	sub.defers = nil
	sub.decisions = nil
	// bind parameters
	i := 0
	for _, fl := range fd.Type.Params.List {
		for _, n := range fl.Names {
			if i < len(c.Args) {
				obj := m.info.Defs[n]
				a := c.Args[i]
				if tv := m.info.Types[a]; tv.Value != nil && (tv.Value.String() == "true" || tv.Value.String() == "false") {
					sub.conds[fmt.Sprintf("%s|%s@%d", n.Name, n.Name, obj.Pos())] = tv.Value.String() == "true"
				}
				if l, ok := r.localOf(st, a); ok {
					sub.locals[obj] = l
				} else if aid, isId := ast.Unparen(a).(*ast.Ident); isId {
					// a pointer to a save local (or a nil pointer) handed on: `leave(previous)` with
					// `if previous != nil { restore(*previous) }` in the callee
					if pl, tracked := st.locals[m.info.Uses[aid]]; tracked && (pl.kind == alPtr || pl.kind == alNil) {
						sub.locals[obj] = pl
					}
				}
			}
			i++
		}
	}
	r.depth++
	r.inl = append(r.inl, actxInl{g, c})
	exits := r.walk(g, fd.Body, sub, false)
	r.inl = r.inl[:len(r.inl)-1]
	r.depth--
	if len(exits) == 0 {
		return
	}
	// join
	res := exits[0].st.vals
	for _, e := range exits[1:] {
		for f, v := range e.st.vals {
			a := res[f]
			if a.kind != v.kind || a.k != v.k || a.delta != v.delta || a.gen != v.gen {
				a.kind, a.why = avAmbig, "differs between the paths of "+g.Name()
				res[f] = a
			}
		}
	}
	for f, v := range res {
		if o := st.vals[f]; o.lastW != v.lastW {
			v.lastW = c.Pos()
			res[f] = v
		}
	}
	st.vals = res
	st.stash = exits[0].st.stash
	st.compFail = exits[0].st.compFail
	// saves handed back as results (explicit `return a, b` or named results)
	e0 := exits[0]
	var results []ast.Expr
	if e0.o.ret != nil && len(e0.o.ret.Results) > 0 {
		results = e0.o.ret.Results
	} else if fd.Type.Results != nil {
		for _, fl := range fd.Type.Results.List {
			for _, nm := range fl.Names {
				results = append(results, nm)
			}
		}
	}
	for i, re := range results {
		var l actxLocal
		var ok bool
		if id, isId := ast.Unparen(re).(*ast.Ident); isId {
			obj := m.info.Uses[id]
			if obj == nil {
				obj = m.info.Defs[id]
			}
			l, ok = e0.st.locals[obj]
			ok = ok && l.kind == alSave
		} else if f, _ := m.fieldOf(re); f != nil && m.ctx[f] != nil {
			// `return x.F` before F is written: the entry value itself
			l, ok = actxLocal{kind: alSave, f: f, snap: r.snapshot(e0.st)}, true
		}
		if ok {
			if r.rets == nil {
				r.rets = map[*ast.CallExpr]map[int]actxLocal{}
			}
			if r.rets[c] == nil {
				r.rets[c] = map[int]actxLocal{}
			}
			r.rets[c][i] = l
		}
	}
}

// localOf resolves an argument / rhs to a tracked local (x, *p).
func (r *actxRun) localOf(st *actxState, e ast.Expr) (actxLocal, bool) {
	e = ast.Unparen(e)
	if s, ok := e.(*ast.StarExpr); ok {
		if id, ok := ast.Unparen(s.X).(*ast.Ident); ok {
			if l, ok := st.locals[r.m.info.Uses[id]]; ok && l.kind == alPtr {
				t, ok := st.locals[l.target]
				return t, ok
			}
		}
		return actxLocal{}, false
	}
	if id, ok := e.(*ast.Ident); ok {
		l, ok := st.locals[r.m.info.Uses[id]]
		if ok && l.kind == alSave {
			return l, true
		}
	}
	return actxLocal{}, false
}

func (r *actxRun) stmt(fn *types.Func, st *actxState, s ast.Stmt) {
	m := r.m
	info := m.info
	switch x := s.(type) {
	case *ast.AssignStmt:
		for _, rh := range x.Rhs {
			r.calls(fn, st, rh)
		}
		for _, l := range x.Lhs {
			if _, ok := l.(*ast.Ident); !ok {
				r.calls(fn, st, l)
			}
		}
		for i, l := range x.Lhs {
			if id, ok := l.(*ast.Ident); ok {
				obj := info.Defs[id]
				if obj == nil {
					obj = info.Uses[id]
				}
				if obj == nil {
					continue
				}
				r.invalidate(st, obj)
				delete(st.locals, obj)
				if st.closures != nil {
					delete(st.closures, obj)
				}
				if len(x.Rhs) == 1 {
					// a, b := g(…) / a := g(…) with g an interpreted setter that hands back what it saved
					if ce, isCall := ast.Unparen(x.Rhs[0]).(*ast.CallExpr); isCall && r.rets[ce] != nil {
						if l, ok := r.rets[ce][i]; ok {
							st.locals[obj] = l
							delete(st.savedDep, l.f)
							continue
						}
					}
				}
				if len(x.Rhs) != len(x.Lhs) {
					continue
				}
				rh := ast.Unparen(x.Rhs[i])
				if fl, isLit := rh.(*ast.FuncLit); isLit && (fl.Type.Params == nil || len(fl.Type.Params.List) == 0) {
					if st.closures == nil {
						st.closures = map[types.Object]*ast.FuncLit{}
					}
					st.closures[obj] = fl
					continue
				}
				if f, _ := m.fieldOf(rh); f != nil && m.ctx[f] != nil {
					st.locals[obj] = actxLocal{kind: alSave, f: f, snap: r.snapshot(st)}
					delete(st.savedDep, f)
				} else if u, ok := rh.(*ast.UnaryExpr); ok && u.Op == token.AND {
					if tid, ok := ast.Unparen(u.X).(*ast.Ident); ok {
						if t := info.Uses[tid]; t != nil {
							if _, tracked := st.locals[t]; tracked {
								st.locals[obj] = actxLocal{kind: alPtr, target: t}
							}
						}
					}
				} else if rid, ok := rh.(*ast.Ident); ok && rid.Name == "nil" {
					if _, isPtr := obj.Type().Underlying().(*types.Pointer); isPtr {
						st.locals[obj] = actxLocal{kind: alNil}
					}
				} else if l2, ok := r.localOf(st, rh); ok {
					st.locals[obj] = l2
				}
				continue
			}
			f, ptr := m.fieldOf(l)
			if f == nil || m.ctx[f] == nil || !ptr {
				continue
			}
			if k, ok := m.stepAssign(x, i); ok {
				r.write(st, f, k, nil, x.Pos())
				continue
			}
			if x.Tok != token.ASSIGN || len(x.Rhs) != len(x.Lhs) {
				r.write(st, f, actxWSet, nil, x.Pos())
				continue
			}
			r.write(st, f, m.classifyWrite(f, x.Rhs[i]), x.Rhs[i], x.Pos())
		}
	case *ast.IncDecStmt:
		if f, ptr := m.fieldOf(x.X); f != nil && m.ctx[f] != nil && ptr {
			k := actxWInc
			if x.Tok == token.DEC {
				k = actxWDec
			}
			r.write(st, f, k, nil, x.Pos())
		}
	case *ast.DeclStmt:
		if gd, ok := x.Decl.(*ast.GenDecl); ok {
			for _, sp := range gd.Specs {
				vs, ok := sp.(*ast.ValueSpec)
				if !ok {
					continue
				}
				for _, v := range vs.Values {
					r.calls(fn, st, v)
				}
				for i, n := range vs.Names {
					obj := info.Defs[n]
					if obj == nil {
						continue
					}
					delete(st.locals, obj)
					if _, isPtr := obj.Type().Underlying().(*types.Pointer); isPtr {
						if i >= len(vs.Values) {
							st.locals[obj] = actxLocal{kind: alNil}
						} else if id, ok := ast.Unparen(vs.Values[i]).(*ast.Ident); ok && id.Name == "nil" {
							st.locals[obj] = actxLocal{kind: alNil}
						}
					}
				}
			}
		}
	case *ast.ExprStmt:
		r.calls(fn, st, x.X)
	case *ast.ReturnStmt:
		for _, res := range x.Results {
			r.calls(fn, st, res)
		}
	case *ast.GoStmt:
	case *ast.SendStmt:
		r.calls(fn, st, x.Value)
	}
}

func (r *actxRun) write(st *actxState, f *types.Var, k actxWriteKind, rhs ast.Expr, pos token.Pos) {
	m := r.m
	v := st.vals[f]
	v.lastW = pos
	old := v
	switch k {
	case actxWPush, actxWInc:
		v.delta++
	case actxWPop, actxWDec:
		v.delta--
	case actxWSet:
		v.pending = ""
		set := false
		if rhs != nil {
			if l, ok := r.localOf(st, rhs); ok && l.f == f {
				nv := l.snap[f]
				if !nv.atEntry() && nv.lastW != token.NoPos {
					// the local was saved after the field had already been overwritten in this function:
					// what is written back is not the value the function was entered with
					nv.why = "written back from a local that was saved only after the field had been overwritten at " + m.c.Pos(nv.lastW)
				}
				nv.lastW = pos
				nv.dirty = v.dirty && !nv.atEntry()
				v = nv
				set = true
			} else if l, ok := r.keyedBy(st, rhs); ok && m.fieldOwner[l.f] == m.fieldOwner[f] {
				// set by the same setter from the saved key of a sibling field
				nv := l.snap[f]
				nv.lastW = pos
				nv.dirty = v.dirty && !nv.atEntry()
				v = nv
				set = true
			} else if tv := m.info.Types[rhs]; tv.Value != nil {
				v.kind, v.k, v.delta, v.why = avConst, tv.Value.String(), 0, ""
				set = true
			} else if id, ok := ast.Unparen(rhs).(*ast.Ident); ok && id.Name == "nil" {
				v.kind, v.k, v.delta, v.why = avConst, "nil", 0, ""
				set = true
			}
		}
		if !set {
			v.kind, v.k, v.delta, v.why = avUnknown, "", 0, ""
			if rhs != nil {
				v.why = "= " + exprStr(rhs)
			}
		}
	}
	if v.atEntry() {
		v.dirty = false
	} else if old.atEntry() {
		v.dirty = false
	}
	st.vals[f] = v
	// owner switching
	mem := r.members(f)
	if len(mem) == 0 || k != actxWSet {
		return
	}
	if v.atEntry() {
		// back to the instance of function entry
		if n := len(st.stash[f]); n > 0 {
			saved := st.stash[f][0]
			st.stash[f] = nil
			for _, mf := range mem {
				st.vals[mf] = saved[mf]
			}
		}
		return
	}
	saved := map[*types.Var]actxVal{}
	fresh := r.freshInstance(f, rhs)
	for _, mf := range mem {
		saved[mf] = st.vals[mf]
		if k, ok := fresh[mf]; ok {
			st.vals[mf] = actxVal{kind: avConst, k: k, gen: 1, why: "initial value of the new instance"}
		} else {
			st.vals[mf] = actxVal{kind: avUnknown, gen: 1, why: "other instance"}
		}
	}
	st.stash[f] = append(st.stash[f], saved)
}

// keyedBy: rhs is an index expression whose key is a tracked save local.
func (r *actxRun) keyedBy(st *actxState, rhs ast.Expr) (actxLocal, bool) {
	ix, ok := ast.Unparen(rhs).(*ast.IndexExpr)
	if !ok {
		return actxLocal{}, false
	}
	return r.localOf(st, ix.Index)
}

// freshInstance: the owner field is being pointed at container[key] from
// inside a setter; when the function under analysis stored a composite
// literal into the same container under the same key expression before the
// call, the literal gives the initial constants of the new instance.
func (r *actxRun) freshInstance(owner *types.Var, rhs ast.Expr) map[*types.Var]string {
	m := r.m
	if rhs == nil || len(r.inl) == 0 || r.cur == nil {
		return nil
	}
	ix, ok := ast.Unparen(rhs).(*ast.IndexExpr)
	if !ok {
		return nil
	}
	cont, _ := m.fieldOf(ix.X)
	if cont == nil {
		return nil
	}
	top := r.inl[0]
	idx, ok2 := m.paramSet[top.g][owner]
	if !ok2 || idx < 0 || idx >= len(top.call.Args) {
		return nil
	}
	keyStr := exprStr(top.call.Args[idx])
	var lit *ast.CompositeLit
	n := 0
	ast.Inspect(m.decls[r.cur].Body, func(x ast.Node) bool {
		as, ok := x.(*ast.AssignStmt)
		if !ok || len(as.Lhs) != 1 || len(as.Rhs) != 1 || as.Pos() > top.call.Pos() {
			return true
		}
		lix, ok := as.Lhs[0].(*ast.IndexExpr)
		if !ok {
			return true
		}
		if c2, _ := m.fieldOf(lix.X); c2 != cont || exprStr(lix.Index) != keyStr {
			return true
		}
		rh := ast.Unparen(as.Rhs[0])
		if u, ok := rh.(*ast.UnaryExpr); ok && u.Op == token.AND {
			rh = u.X
		}
		if cl, ok := rh.(*ast.CompositeLit); ok {
			lit = cl
			n++
		}
		return true
	})
	if n != 1 {
		return nil
	}
	out := map[*types.Var]string{}
	given := map[string]ast.Expr{}
	for _, el := range lit.Elts {
		if kv, ok := el.(*ast.KeyValueExpr); ok {
			if id, ok := kv.Key.(*ast.Ident); ok {
				given[id.Name] = kv.Value
			}
		}
	}
	for _, mf := range r.members(owner) {
		if e, ok := given[mf.Name()]; ok {
			if tv := m.info.Types[e]; tv.Value != nil {
				out[mf] = tv.Value.String()
			} else if id, ok := ast.Unparen(e).(*ast.Ident); ok && id.Name == "nil" {
				out[mf] = "nil"
			}
			continue
		}
		switch t := mf.Type().Underlying().(type) {
		case *types.Basic:
			switch {
			case t.Info()&types.IsBoolean != 0:
				out[mf] = "false"
			case t.Info()&types.IsNumeric != 0:
				out[mf] = "0"
			case t.Info()&types.IsString != 0:
				out[mf] = `""`
			}
		case *types.Pointer, *types.Slice, *types.Map, *types.Interface:
			out[mf] = "nil"
		}
	}
	return out
}
