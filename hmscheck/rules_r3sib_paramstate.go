package main

import (
	"fmt"
	"go/ast"
	"go/token"
	"go/types"
	"sort"
	"strings"
)

// R-param-container: an entry point that writes into a caller-owned map/slice parameter does not let
// its result depend on what an earlier call left there.

func init() {
	register(&Rule{ID: "R-param-container", Floor: 2, Run: ruleR3ParamContainer,
		Doc: "every exported function / method of the pipeline packages that WRITES an element of a map or slice it received as a parameter (p[k] = v, delete(p, k)) mutates state the caller owns: the next call with the same container sees the write. All such writes are enumerated. For each written key no enumerated path reads the container at a key that may be the written one (p[k], the comma-ok form, range p, len(p)) BEFORE the write: such a read answers 'absent' on the first call and 'present' on every later call with the same container, so the outcome of the entry point (a diagnostic, a branch) differs between otherwise identical runs — C14/C15 demand that analysing the same sources with the same host any number of times yields the same diagnostics. Reads after the write see the function's own value and are fine; a write that is itself guarded by such a read (insert-if-absent) is reported as information when nothing else on the path depends on the read."})
}

type r3pcState struct {
	written map[string]bool // param|keyterm
	reads   []r3pcRead
}

type r3pcRead struct {
	param types.Object
	key   string // "" = whole container
	pos   token.Pos
	what  string
}

func r3pcClone(s *r3pcState) *r3pcState {
	n := &r3pcState{written: map[string]bool{}}
	for k, v := range s.written {
		n.written[k] = v
	}
	n.reads = append([]r3pcRead(nil), s.reads...)
	return n
}

func ruleR3ParamContainer(c *Ctx) []Obligation {
	var out []Obligation
	// functions that write an element of one of their own container parameters: fn → param index → key terms
	writers := map[*types.Func]map[int][]string{}
	for _, p := range c.All {
		for _, fd := range AllFuncDecls(p) {
			fn, _ := p.TypesInfo.Defs[fd.Name].(*types.Func)
			if fn == nil {
				continue
			}
			f := r2sibFuncOf(c, p, fd)
			note := func(e ast.Expr, key ast.Expr) {
				if id, ok := ast.Unparen(e).(*ast.Ident); ok {
					if o := p.TypesInfo.Uses[id]; o != nil {
						if i, isParam := f.params[o]; isParam {
							switch o.Type().Underlying().(type) {
							case *types.Map, *types.Slice:
								if writers[fn] == nil {
									writers[fn] = map[int][]string{}
								}
								writers[fn][i] = append(writers[fn][i], f.norm(key))
							}
						}
					}
				}
			}
			ast.Inspect(fd.Body, func(n ast.Node) bool {
				switch x := n.(type) {
				case *ast.FuncLit:
					return false
				case *ast.AssignStmt:
					for _, l := range x.Lhs {
						if ix, ok := ast.Unparen(l).(*ast.IndexExpr); ok {
							note(ix.X, ix.Index)
						}
					}
				case *ast.CallExpr:
					if id, ok := x.Fun.(*ast.Ident); ok && id.Name == "delete" && len(x.Args) == 2 {
						note(x.Args[0], x.Args[1])
					}
				}
				return true
			})
		}
	}
	// … and, transitively, functions that hand such a parameter on to a writer
	for changed := true; changed; {
		changed = false
		for _, p := range c.All {
			for _, fd := range AllFuncDecls(p) {
				fn, _ := p.TypesInfo.Defs[fd.Name].(*types.Func)
				if fn == nil {
					continue
				}
				f := r2sibFuncOf(c, p, fd)
				ast.Inspect(fd.Body, func(n ast.Node) bool {
					call, ok := n.(*ast.CallExpr)
					if !ok {
						return true
					}
					cal := CalleeOf(p.TypesInfo, call)
					if cal == nil || writers[cal] == nil || cal == fn {
						return true
					}
					for i, a := range call.Args {
						id, ok := ast.Unparen(a).(*ast.Ident)
						if !ok {
							continue
						}
						o := p.TypesInfo.Uses[id]
						pi, isParam := f.params[o]
						if o == nil || !isParam {
							continue
						}
						for _, k := range writers[cal][i] {
							if !r2sibConstLike(k) {
								k = "?"
							}
							have := false
							for _, old := range writers[fn][pi] {
								if old == k {
									have = true
								}
							}
							if !have {
								if writers[fn] == nil {
									writers[fn] = map[int][]string{}
								}
								writers[fn][pi] = append(writers[fn][pi], k)
								changed = true
							}
						}
					}
					return true
				})
			}
		}
	}
	for _, p := range c.All {
		if strings.Contains(p.PkgPath, "/cmd") {
			continue
		}
		info := p.TypesInfo
		for _, fd := range AllFuncDecls(p) {
			if !fd.Name.IsExported() {
				continue
			}
			if fd.Recv != nil && !ast.IsExported(recvTypeName(fd.Recv.List[0].Type)) {
				continue
			}
			f := r2sibFuncOf(c, p, fd)
			// container parameters
			conts := map[types.Object]bool{}
			for o := range f.params {
				switch o.Type().Underlying().(type) {
				case *types.Map, *types.Slice:
					conts[o] = true
				}
			}
			if len(conts) == 0 {
				continue
			}
			paramOf := func(e ast.Expr) types.Object {
				if id, ok := ast.Unparen(e).(*ast.Ident); ok {
					if o := info.Uses[id]; o != nil && conts[o] {
						return o
					}
				}
				return nil
			}
			// does the function write any of them?
			type wsite struct {
				param types.Object
				key   string
				pos   token.Pos
			}
			var writes []wsite
			ast.Inspect(fd.Body, func(n ast.Node) bool {
				switch x := n.(type) {
				case *ast.FuncLit:
					return false
				case *ast.AssignStmt:
					for _, l := range x.Lhs {
						if ix, ok := ast.Unparen(l).(*ast.IndexExpr); ok {
							if o := paramOf(ix.X); o != nil {
								writes = append(writes, wsite{o, f.norm(ix.Index), x.Pos()})
							}
						}
					}
				case *ast.IncDecStmt:
					if ix, ok := ast.Unparen(x.X).(*ast.IndexExpr); ok {
						if o := paramOf(ix.X); o != nil {
							writes = append(writes, wsite{o, f.norm(ix.Index), x.Pos()})
						}
					}
				case *ast.CallExpr:
					if id, ok := x.Fun.(*ast.Ident); ok && id.Name == "delete" && len(x.Args) == 2 {
						if o := paramOf(x.Args[0]); o != nil {
							writes = append(writes, wsite{o, f.norm(x.Args[1]), x.Pos()})
						}
					}
					// the container handed on to a function that writes it
					if cal := CalleeOf(info, x); cal != nil && writers[cal] != nil {
						for i, a := range x.Args {
							if o := paramOf(a); o != nil {
								for _, k := range writers[cal][i] {
									if r2sibConstLike(k) {
										writes = append(writes, wsite{o, k, x.Pos()})
									} else {
										writes = append(writes, wsite{o, "", x.Pos()})
									}
								}
							}
						}
					}
				}
				return true
			})
			if len(writes) == 0 {
				continue
			}
			mayEqual := func(a, b string) bool {
				if a == b || a == "" || b == "" {
					return true
				}
				return !(r2sibConstLike(a) && r2sibConstLike(b))
			}
			type viol struct {
				read r3pcRead
				w    wsite
			}
			viols := map[string]viol{}
			scanReads := func(st *r3pcState, n ast.Node, skipLhs map[ast.Expr]bool) {
				if n == nil {
					return
				}
				ast.Inspect(n, func(m ast.Node) bool {
					switch x := m.(type) {
					case *ast.FuncLit:
						return false
					case *ast.IndexExpr:
						if skipLhs[x] {
							// the written element itself: only its index expression is read
							ast.Inspect(x.Index, func(ast.Node) bool { return true })
							return false
						}
						if o := paramOf(x.X); o != nil {
							st.reads = append(st.reads, r3pcRead{o, f.norm(x.Index), x.Pos(), exprStr(x)})
						}
					case *ast.CallExpr:
						if id, ok := x.Fun.(*ast.Ident); ok && (id.Name == "len" || id.Name == "cap") && len(x.Args) == 1 {
							if o := paramOf(x.Args[0]); o != nil {
								st.reads = append(st.reads, r3pcRead{o, "", x.Pos(), exprStr(x)})
							}
						}
					}
					return true
				})
			}
			doWrite := func(st *r3pcState, o types.Object, key string, pos token.Pos) {
				id := fmt.Sprintf("%p|%s", o, key)
				if st.written[id] {
					return
				}
				for _, r := range st.reads {
					if r.param == o && mayEqual(r.key, key) {
						k := fmt.Sprintf("%s|%s", o.Name(), key)
						if _, ok := viols[k]; !ok {
							viols[k] = viol{r, wsite{o, key, pos}}
						}
					}
				}
				st.written[id] = true
			}
			callWrites := func(st *r3pcState, s ast.Node) {
				ast.Inspect(s, func(m ast.Node) bool {
					if _, ok := m.(*ast.FuncLit); ok {
						return false
					}
					if call, ok := m.(*ast.CallExpr); ok {
						if cal := CalleeOf(info, call); cal != nil && writers[cal] != nil {
							for i, a := range call.Args {
								if o := paramOf(a); o != nil {
									for _, k := range writers[cal][i] {
										if !r2sibConstLike(k) {
											k = ""
										}
										doWrite(st, o, k, call.Pos())
									}
								}
							}
						}
					}
					return true
				})
			}
			w := &Walker[*r3pcState]{Clone: r3pcClone}
			w.MaxPaths = 50000
			w.IsPanic = func(s ast.Stmt) bool { return IsPanicCall(info, s) }
			w.OnStmt = func(st *r3pcState, s ast.Stmt) (*r3pcState, bool) {
				skip := map[ast.Expr]bool{}
				switch x := s.(type) {
				case *ast.AssignStmt:
					for _, l := range x.Lhs {
						if ix, ok := ast.Unparen(l).(*ast.IndexExpr); ok && paramOf(ix.X) != nil && x.Tok == token.ASSIGN {
							skip[ix] = true
						}
					}
					scanReads(st, s, skip)
					for _, l := range x.Lhs {
						if ix, ok := ast.Unparen(l).(*ast.IndexExpr); ok {
							if o := paramOf(ix.X); o != nil {
								doWrite(st, o, f.norm(ix.Index), x.Pos())
							}
						}
					}
					callWrites(st, s)
					return st, true
				case *ast.IncDecStmt:
					scanReads(st, s, nil)
					if ix, ok := ast.Unparen(x.X).(*ast.IndexExpr); ok {
						if o := paramOf(ix.X); o != nil {
							doWrite(st, o, f.norm(ix.Index), x.Pos())
						}
					}
					return st, true
				}
				scanReads(st, s, nil)
				ast.Inspect(s, func(m ast.Node) bool {
					if call, ok := m.(*ast.CallExpr); ok {
						if id, ok := call.Fun.(*ast.Ident); ok && id.Name == "delete" && len(call.Args) == 2 {
							if o := paramOf(call.Args[0]); o != nil {
								doWrite(st, o, f.norm(call.Args[1]), call.Pos())
							}
						}
						if cal := CalleeOf(info, call); cal != nil && writers[cal] != nil {
							for i, a := range call.Args {
								if o := paramOf(a); o != nil {
									for _, k := range writers[cal][i] {
										if !r2sibConstLike(k) {
											k = ""
										}
										doWrite(st, o, k, call.Pos())
									}
								}
							}
						}
					}
					return true
				})
				return st, true
			}
			w.OnCond = func(st *r3pcState, cond ast.Expr, taken bool) (*r3pcState, bool) {
				scanReads(st, cond, nil)
				return st, true
			}
			w.OnCase = func(st *r3pcState, sw *ast.SwitchStmt, vals, others []ast.Expr) (*r3pcState, bool) {
				scanReads(st, sw.Tag, nil)
				return st, true
			}
			w.OnRange = func(st *r3pcState, r *ast.RangeStmt) (*r3pcState, bool) {
				if o := paramOf(r.X); o != nil {
					st.reads = append(st.reads, r3pcRead{o, "", r.Pos(), "range " + exprStr(r.X)})
				} else {
					scanReads(st, r.X, nil)
				}
				return st, true
			}
			w.Run(fd.Body, &r3pcState{written: map[string]bool{}})
			// one obligation per written (param, key)
			seen := map[string]bool{}
			sort.Slice(writes, func(i, j int) bool { return writes[i].pos < writes[j].pos })
			for _, ws := range writes {
				k := fmt.Sprintf("%s|%s", ws.param.Name(), ws.key)
				if seen[k] {
					continue
				}
				seen[k] = true
				ob := Obligation{Key: fmt.Sprintf("%s.%s|%s[%s]", relPkg(p.PkgPath), FuncName(fd), ws.param.Name(), f.pretty(ws.key)), Pos: c.Pos(ws.pos), Nontrivial: true}
				switch {
				case w.Overflow || len(w.Unsupported) > 0:
					ob.Status = Undecided
					ob.Detail = "paths not enumerated"
				case viols[k].read.pos.IsValid():
					v := viols[k]
					ob.Status = Violated
					ob.Pos = c.Pos(v.read.pos)
					ob.Detail = fmt.Sprintf("%s reads %s (%s) before it writes %s[%s] (%s) into the caller's container: the first call finds the caller's content, every later call with the same container finds the value this function wrote — the result differs between identical runs", FuncName(fd), v.read.what, c.Pos(v.read.pos), ws.param.Name(), f.pretty(ws.key), c.Pos(v.w.pos))
				default:
					ob.Detail = fmt.Sprintf("written into the caller-owned %s; no path reads the container at this key before the write", ws.param.Name())
				}
				out = append(out, ob)
			}
		}
	}
	return out
}
