package main

import (
	"fmt"
	"go/ast"
	"go/constant"
	"go/token"
	"go/types"
	"sort"
	"strings"

	"golang.org/x/tools/go/packages"
)

// R-sentinel-index: an index found by a search is used only where the search found something.

func init() {
	register(&Rule{ID: "R-sentinel-index", Floor: 3, Run: ruleR5SentinelIndex,
		Doc: "a *sentinel index* is found by shape: an integer local that is initialised with a negative constant (`closestIdx := -1`: nothing found yet) and assigned a non-constant value somewhere else (the index of the matching element, inside the search loop). Every use of it as an index or slice bound (`list[idx]`, `list[:idx]`, `&list[idx]`) must be at a place where the sentinel is excluded: inside / after a test of the variable itself that the sentinel fails (`idx >= 0`, `idx != -1`, after `if idx < 0 { return }`, as a conjunct, in the else branch of the opposite test, as the loop condition), or of a *companion* — a variable that is assigned in the same statement list wherever the index is assigned (the best distance so far, a found flag) and that starts at its own sentinel (a negative constant, false) — under a test the companion's sentinel fails. A test that the sentinel passes (`bestDist <= MAX` with bestDist starting at -1) guards nothing: with an empty candidate list the search assigns nothing and `list[-1]` panics — the analyzer / the engines crash on source text instead of reporting (C05, C02). Comparisons are evaluated over the integers with the constant operands the code names; && / || / ! are decomposed. The same discipline holds for the other index that exists only if something is there: `X[len(X)-K]` on a list of the input (a field of a node / type struct of the ast packages: as long as the program text makes it, possibly empty; the own stacks of the engines are typestate, not input) is reached only where a dominating test implies len(X) >= K (`len(X) > 0`, after `if len(X) == 0 { return }`)."})
}

type r5siVar struct {
	obj      types.Object
	sentinel constant.Value // negative int, or the bool false
	isBool   bool
}

// r5siExcludes: does `cond == taken` imply that u is different from its sentinel?
func r5siExcludes(info *types.Info, cond ast.Expr, taken bool, u *r5siVar) bool {
	cond = ast.Unparen(cond)
	isU := func(x ast.Expr) bool {
		id, ok := ast.Unparen(x).(*ast.Ident)
		return ok && info.Uses[id] == u.obj
	}
	switch x := cond.(type) {
	case *ast.Ident:
		if u.isBool && isU(x) {
			return taken
		}
	case *ast.UnaryExpr:
		if x.Op == token.NOT {
			return r5siExcludes(info, x.X, !taken, u)
		}
	case *ast.BinaryExpr:
		switch x.Op {
		case token.LAND:
			if taken {
				return r5siExcludes(info, x.X, true, u) || r5siExcludes(info, x.Y, true, u)
			}
			return r5siExcludes(info, x.X, false, u) && r5siExcludes(info, x.Y, false, u)
		case token.LOR:
			if taken {
				return r5siExcludes(info, x.X, true, u) && r5siExcludes(info, x.Y, true, u)
			}
			return r5siExcludes(info, x.X, false, u) || r5siExcludes(info, x.Y, false, u)
		case token.EQL, token.NEQ, token.LSS, token.LEQ, token.GTR, token.GEQ:
			op := x.Op
			var k constant.Value
			switch {
			case isU(x.X):
				if tv, ok := info.Types[x.Y]; ok && tv.Value != nil {
					k = tv.Value
				}
			case isU(x.Y):
				if tv, ok := info.Types[x.X]; ok && tv.Value != nil {
					k = tv.Value
				}
				// K op u  ≡  u op' K
				switch op {
				case token.LSS:
					op = token.GTR
				case token.LEQ:
					op = token.GEQ
				case token.GTR:
					op = token.LSS
				case token.GEQ:
					op = token.LEQ
				}
			}
			if k == nil {
				return false
			}
			if u.isBool {
				if k.Kind() != constant.Bool || (op != token.EQL && op != token.NEQ) {
					return false
				}
				// u == true / u != false … : holds for the sentinel false?
				holds := constant.BoolVal(k) == false
				if op == token.NEQ {
					holds = !holds
				}
				return holds != taken
			}
			if k.Kind() != constant.Int {
				return false
			}
			// does the sentinel satisfy `S op K`? the test excludes it when the answer differs from the decision taken
			return constant.Compare(u.sentinel, op, k) != taken
		}
	}
	return false
}

func ruleR5SentinelIndex(c *Ctx) []Obligation {
	var out []Obligation
	pkgs := append([]*packages.Package(nil), c.All...)
	sort.Slice(pkgs, func(i, j int) bool { return pkgs[i].PkgPath < pkgs[j].PkgPath })
	for _, p := range pkgs {
		if !strings.HasPrefix(p.PkgPath, ModPath) {
			continue
		}
		info := p.TypesInfo
		for _, fd := range AllFuncDecls(p) {
			if fd.Body == nil {
				continue
			}
			f := r2sibFuncOf(c, p, fd)
			// sentinel variables of the function
			vars := map[types.Object]*r5siVar{}
			var order []types.Object
			for o, ds := range f.defs {
				v, ok := o.(*types.Var)
				if !ok || v.IsField() || len(ds) < 2 {
					continue
				}
				if _, isParam := f.params[o]; isParam {
					continue
				}
				b, ok := v.Type().Underlying().(*types.Basic)
				if !ok {
					continue
				}
				sv := &r5siVar{obj: o}
				nonConst := false
				for _, d := range ds {
					if d.kind != r2dAssign || d.n != 1 {
						nonConst = true
						continue
					}
					tv, ok := info.Types[d.rhs]
					if !ok || tv.Value == nil {
						nonConst = true
						continue
					}
					switch {
					case b.Info()&types.IsInteger != 0 && tv.Value.Kind() == constant.Int && constant.Sign(tv.Value) < 0:
						sv.sentinel = tv.Value
					case b.Kind() == types.Bool && tv.Value.Kind() == constant.Bool:
						if !constant.BoolVal(tv.Value) {
							sv.sentinel, sv.isBool = tv.Value, true
						} else {
							nonConst = true // set to true somewhere: the "found" assignment
						}
					}
				}
				if sv.sentinel != nil && nonConst {
					vars[o] = sv
					order = append(order, o)
				}
			}
			if len(vars) == 0 {
				continue
			}
			sort.Slice(order, func(i, j int) bool { return order[i].Pos() < order[j].Pos() })
			parent := map[ast.Node]ast.Node{}
			var stack []ast.Node
			ast.Inspect(fd.Body, func(n ast.Node) bool {
				if n == nil {
					stack = stack[:len(stack)-1]
					return true
				}
				if len(stack) > 0 {
					parent[n] = stack[len(stack)-1]
				}
				stack = append(stack, n)
				return true
			})
			// statement lists in which a variable is assigned a non-sentinel value
			assignedIn := func(o types.Object) map[ast.Node]bool {
				res := map[ast.Node]bool{}
				ast.Inspect(fd.Body, func(n ast.Node) bool {
					hit := false
					switch x := n.(type) {
					case *ast.AssignStmt:
						for i, l := range x.Lhs {
							if id, ok := l.(*ast.Ident); ok && f.objOf(id) == o {
								if i < len(x.Rhs) && len(x.Lhs) == len(x.Rhs) {
									if tv, ok := info.Types[x.Rhs[i]]; ok && tv.Value != nil && constant.Compare(tv.Value, token.EQL, vars[o].sentinel) {
										continue
									}
								}
								hit = true
							}
						}
					case *ast.IncDecStmt:
						if id, ok := x.X.(*ast.Ident); ok && f.objOf(id) == o {
							hit = true
						}
					}
					if hit {
						res[parent[n]] = true
					}
					return true
				})
				return res
			}
			lists := map[types.Object]map[ast.Node]bool{}
			for _, o := range order {
				lists[o] = assignedIn(o)
			}
			for _, o := range order {
				sv := vars[o]
				if sv.isBool {
					continue
				}
				// companions: assigned wherever the index is assigned
				var comps []*r5siVar
				for _, w := range order {
					if w == o || len(lists[o]) == 0 {
						continue
					}
					all := true
					for l := range lists[o] {
						if !lists[w][l] {
							all = false
						}
					}
					if all {
						comps = append(comps, vars[w])
					}
				}
				excluded := func(use ast.Node) bool {
					return r5siGuarded(info, parent, fd.Body, use, func(cond ast.Expr, taken bool) bool {
						if r5siExcludes(info, cond, taken, sv) {
							return true
						}
						for _, w := range comps {
							if r5siExcludes(info, cond, taken, w) {
								return true
							}
						}
						return false
					})
				}
				var bad []string
				nUses := 0
				ast.Inspect(fd.Body, func(n ast.Node) bool {
					id, ok := n.(*ast.Ident)
					if !ok || info.Uses[id] != o {
						return true
					}
					isIndex := false
					switch pn := parent[n].(type) {
					case *ast.IndexExpr:
						if pn.Index == ast.Expr(id) {
							if tv, ok := info.Types[pn.X]; ok && tv.Type != nil {
								if _, isMap := tv.Type.Underlying().(*types.Map); !isMap {
									isIndex = true
								}
							}
						}
					case *ast.SliceExpr:
						isIndex = pn.Low == ast.Expr(id) || pn.High == ast.Expr(id) || pn.Max == ast.Expr(id)
					}
					if !isIndex {
						return true
					}
					nUses++
					if !excluded(n) {
						bad = append(bad, fmt.Sprintf("`%s` (%s)", exprStr(parent[n].(ast.Expr)), c.Pos(id.Pos())))
					}
					return true
				})
				if nUses == 0 {
					continue
				}
				key := fmt.Sprintf("%s.%s|index %s (sentinel %s)|used only where something was found", relPkg(p.PkgPath), FuncName(fd), o.Name(), sv.sentinel.ExactString())
				ob := Obligation{Key: key, Pos: c.Pos(o.Pos()), Nontrivial: true}
				var cn []string
				for _, w := range comps {
					cn = append(cn, w.obj.Name())
				}
				if len(bad) > 0 {
					ob.Status = Violated
					comp := ""
					if len(cn) > 0 {
						comp = " (or of its companions " + strings.Join(cn, ", ") + ")"
					}
					ob.Detail = fmt.Sprintf("%s starts at %s and is only assigned when the search finds an element, but %s is not guarded by a test of %s%s that the sentinel fails: when nothing is found (an empty list) the index is %s and the access panics", o.Name(), sv.sentinel.ExactString(), strings.Join(bad, ", "), o.Name(), comp, sv.sentinel.ExactString())
				} else {
					ob.Detail = fmt.Sprintf("%d use(s) as an index, each where a test excludes the sentinel %s", nUses, sv.sentinel.ExactString())
					if len(cn) > 0 {
						ob.Detail += " (companions: " + strings.Join(cn, ", ") + ")"
					}
				}
				out = append(out, ob)
			}
		}
	}
	out = append(out, r5siLastElement(c)...)
	out = append(out, r6siIndexObligations(c)...)
	sort.SliceStable(out, func(i, j int) bool { return out[i].Key < out[j].Key })
	return out
}

// r5siLastElement: `X[len(X)-K]` on a list of the input (a list of a node / type the function was given: it is as
// long as the program text makes it, possibly empty) is reached only where len(X) >= K is known.
func r5siLastElement(c *Ctx) []Obligation {
	var out []Obligation
	pkgs := append([]*packages.Package(nil), c.All...)
	sort.Slice(pkgs, func(i, j int) bool { return pkgs[i].PkgPath < pkgs[j].PkgPath })
	for _, p := range pkgs {
		if !strings.HasPrefix(p.PkgPath, ModPath) {
			continue
		}
		info := p.TypesInfo
		for _, fd := range AllFuncDecls(p) {
			if fd.Body == nil {
				continue
			}
			f := r2sibFuncOf(c, p, fd)
			var parent map[ast.Node]ast.Node
			nKey := map[string]int{}
			ast.Inspect(fd.Body, func(n ast.Node) bool {
				ix, ok := n.(*ast.IndexExpr)
				if !ok {
					return true
				}
				be, ok := ast.Unparen(ix.Index).(*ast.BinaryExpr)
				if !ok || be.Op != token.SUB {
					return true
				}
				call, ok := ast.Unparen(be.X).(*ast.CallExpr)
				if !ok || len(call.Args) != 1 {
					return true
				}
				if id, ok := ast.Unparen(call.Fun).(*ast.Ident); !ok || id.Name != "len" {
					return true
				}
				tv, ok := info.Types[be.Y]
				if !ok || tv.Value == nil || tv.Value.Kind() != constant.Int {
					return true
				}
				k, _ := constant.Int64Val(tv.Value)
				term := f.norm(call.Args[0])
				if k < 1 || term != f.norm(ix.X) {
					return true
				}
				// a list of the input: a field of a node / type struct (declared in one of the ast packages) — it is as
				// long as the program text makes it; the stacks of the engines are typestate, not input
				data := false
				if sel, ok := ast.Unparen(ix.X).(*ast.SelectorExpr); ok {
					if rn := recvNamed(info.TypeOf(sel.X)); rn != nil && rn.Obj().Pkg() != nil && strings.HasSuffix(rn.Obj().Pkg().Path(), "/ast") {
						data = true
					}
				}
				if !data {
					return true
				}
				if parent == nil {
					parent = map[ast.Node]ast.Node{}
					var stack []ast.Node
					ast.Inspect(fd.Body, func(m ast.Node) bool {
						if m == nil {
							stack = stack[:len(stack)-1]
							return true
						}
						if len(stack) > 0 {
							parent[m] = stack[len(stack)-1]
						}
						stack = append(stack, m)
						return true
					})
				}
				key := fmt.Sprintf("%s.%s|element %d from the end of %s|reached only where the list is long enough", relPkg(p.PkgPath), FuncName(fd), k, f.pretty(term))
				nKey[key]++
				if q := nKey[key]; q > 1 {
					key = fmt.Sprintf("%s #%d", key, q)
				}
				ob := Obligation{Key: key, Pos: c.Pos(ix.Pos()), Nontrivial: true}
				if r5siGuarded(info, parent, fd.Body, ix, func(cond ast.Expr, taken bool) bool { return r5siLenAtLeast(info, f, cond, taken, term, k) }) {
					ob.Detail = fmt.Sprintf("`%s` is dominated by a test that implies len(%s) >= %d", exprStr(ix), f.pretty(term), k)
				} else {
					ob.Status = Violated
					ob.Detail = fmt.Sprintf("`%s` indexes a list of the input from its end, but no dominating test implies len(%s) >= %d: for an empty list the index is negative and the access panics", exprStr(ix), f.pretty(term), k)
				}
				out = append(out, ob)
				return true
			})
		}
	}
	return out
}

// r5siGuarded: some condition that dominates the use (enclosing if / for / && chain / clause of a tagless switch, or
// an earlier `if c { leave }` of an enclosing statement list) satisfies ex for the decision taken on the way to the use.
func r5siGuarded(info *types.Info, parent map[ast.Node]ast.Node, body *ast.BlockStmt, use ast.Node, ex func(cond ast.Expr, taken bool) bool) bool {
	cur := use
	for cur != nil && cur != ast.Node(body) {
		pn := parent[cur]
		var list []ast.Stmt
		switch x := pn.(type) {
		case *ast.BinaryExpr:
			if x.Y == cur && (x.Op == token.LAND && ex(x.X, true) || x.Op == token.LOR && ex(x.X, false)) {
				return true
			}
		case *ast.IfStmt:
			if ast.Node(x.Body) == cur && ex(x.Cond, true) || x.Else == cur && ex(x.Cond, false) {
				return true
			}
		case *ast.ForStmt:
			if ast.Node(x.Body) == cur && x.Cond != nil && ex(x.Cond, true) {
				return true
			}
		case *ast.CaseClause:
			list = x.Body
			if sw, ok := parent[parent[pn]].(*ast.SwitchStmt); ok && sw.Tag == nil {
				for _, v := range x.List {
					if len(x.List) == 1 && ex(v, true) {
						return true
					}
				}
				if x.List == nil {
					for _, st := range sw.Body.List {
						if cc, ok := st.(*ast.CaseClause); ok && cc != x {
							for _, v := range cc.List {
								if ex(v, false) {
									return true
								}
							}
						}
					}
				}
			}
		case *ast.BlockStmt:
			list = x.List
		}
		for _, st := range list {
			if st.Pos() >= cur.Pos() {
				break
			}
			ifs, ok := st.(*ast.IfStmt)
			if !ok {
				continue
			}
			if r4fuLeaves(info, ifs.Body) && ex(ifs.Cond, false) {
				return true
			}
			if eb, ok := ifs.Else.(*ast.BlockStmt); ok && r4fuLeaves(info, eb) && ex(ifs.Cond, true) {
				return true
			}
		}
		cur = pn
	}
	return false
}

// r5siLenAtLeast: does `cond == taken` imply len(<term>) >= k? Checked by trying the lengths 0 … k-1: none of
// them may satisfy the decision.
func r5siLenAtLeast(info *types.Info, f *r2sibFunc, cond ast.Expr, taken bool, term string, k int64) bool {
	cond = ast.Unparen(cond)
	var isLen func(x ast.Expr) bool
	isLen = func(x ast.Expr) bool {
		x = ast.Unparen(x)
		if id, ok := x.(*ast.Ident); ok {
			// a local that names the length: n := len(X)
			if o := f.objOf(id); o != nil {
				if ds := f.defs[o]; len(ds) == 1 && ds[0].kind == r2dAssign && ds[0].n == 1 {
					return isLen(ds[0].rhs)
				}
			}
			return false
		}
		call, ok := x.(*ast.CallExpr)
		if !ok || len(call.Args) != 1 {
			return false
		}
		id, ok := ast.Unparen(call.Fun).(*ast.Ident)
		return ok && id.Name == "len" && f.norm(call.Args[0]) == term
	}
	switch x := cond.(type) {
	case *ast.UnaryExpr:
		if x.Op == token.NOT {
			return r5siLenAtLeast(info, f, x.X, !taken, term, k)
		}
	case *ast.BinaryExpr:
		switch x.Op {
		case token.LAND:
			if taken {
				return r5siLenAtLeast(info, f, x.X, true, term, k) || r5siLenAtLeast(info, f, x.Y, true, term, k)
			}
			return r5siLenAtLeast(info, f, x.X, false, term, k) && r5siLenAtLeast(info, f, x.Y, false, term, k)
		case token.LOR:
			if taken {
				return r5siLenAtLeast(info, f, x.X, true, term, k) && r5siLenAtLeast(info, f, x.Y, true, term, k)
			}
			return r5siLenAtLeast(info, f, x.X, false, term, k) || r5siLenAtLeast(info, f, x.Y, false, term, k)
		case token.EQL, token.NEQ, token.LSS, token.LEQ, token.GTR, token.GEQ:
			op := x.Op
			var c constant.Value
			switch {
			case isLen(x.X):
				if tv, ok := info.Types[x.Y]; ok && tv.Value != nil {
					c = tv.Value
				}
			case isLen(x.Y):
				if tv, ok := info.Types[x.X]; ok && tv.Value != nil {
					c = tv.Value
				}
				switch op {
				case token.LSS:
					op = token.GTR
				case token.LEQ:
					op = token.GEQ
				case token.GTR:
					op = token.LSS
				case token.GEQ:
					op = token.LEQ
				}
			}
			if c == nil || c.Kind() != constant.Int {
				return false
			}
			for n := int64(0); n < k; n++ {
				if constant.Compare(constant.MakeInt64(n), op, c) == taken {
					return false
				}
			}
			return true
		}
	}
	return false
}
