package main

// trav: R-optimizer-local-state — state that gates dropping / rewriting of
// statements is fresh per block.

import (
	"fmt"
	"go/ast"
	"go/token"
	"go/types"
	"sort"
	"strings"

	"golang.org/x/tools/go/packages"
)

func init() {
	register(&Rule{ID: "R-optimizer-local-state", Floor: 9, Run: ruleOptimizerLocalState,
		Doc: "Optimizer and fuzzer rebuild programs block by block. (a) For every field of a traversal driver struct (a struct of package optimizer/fuzzer whose methods receive AST nodes): " +
			"if the field is written by a method and read in a branch condition of a node-processing method, that method must reset it at entry (an assignment at the top level of its body before the first use) — " +
			"otherwise a decision taken in one block/function leaks into the next one processed. (b) For every loop over a list of nodes that conditionally skips an element (continue/break before the append, or a conditional append): " +
			"every variable of the gating condition is a local of that function (fresh per invocation), a receiver field discharged by (a), and never a package-level variable; and the gate is only raised under a condition that derives " +
			"from a test for the never type on an earlier element (statements are dropped only after a diverging statement of the same block). " +
			"Necessary: with gating state that survives the block, the statements of a later block are dropped although nothing diverges before them."})
}

func ruleOptimizerLocalState(c *Ctx) []Obligation {
	m := travGetModel(c)
	var obs []Obligation
	for _, rel := range []string{"homescript/optimizer", "homescript/fuzzer"} {
		if !c.HasPkg(rel) {
			continue
		}
		obs = append(obs, travStatePkg(c, m, c.Pkg(rel))...)
	}
	return obs
}

func travHasNodeParam(m *travModel, sg *types.Signature) bool {
	for i := 0; i < sg.Params().Len(); i++ {
		t := sg.Params().At(i).Type()
		tt := types.Unalias(t)
		if sl, ok := tt.(*types.Slice); ok {
			tt = types.Unalias(sl.Elem())
		}
		if n, ok := tt.(*types.Named); ok && m.codeIfc[n] {
			return true
		}
		for _, s := range m.carrierStructs(t) {
			if !s.IsSem && s.T != m.identT {
				return true
			}
		}
	}
	return false
}

// travNeverKind resolves the type-kind constant of the never type by role: the
// niladic constructor that at least two analyzed statement kinds return from
// Type() (break / continue / return), and the Kind() of the struct it builds.
func travNeverKind(m *travModel) *types.Const {
	info := m.pA.TypesInfo
	count := map[*types.Func]int{}
	for _, s := range m.structs {
		if !m.inA(s.T) || s.Kind == nil {
			continue
		}
		for i := 0; i < s.T.NumMethods(); i++ {
			f := s.T.Method(i)
			if f.Name() != "Type" {
				continue
			}
			d := m.decls[f]
			if d == nil || len(d.Fd.Body.List) != 1 {
				continue
			}
			rs, ok := d.Fd.Body.List[0].(*ast.ReturnStmt)
			if !ok || len(rs.Results) != 1 {
				continue
			}
			if call, ok := rs.Results[0].(*ast.CallExpr); ok && len(call.Args) == 0 {
				if cal := CalleeOf(info, call); cal != nil {
					count[cal]++
				}
			}
		}
	}
	var best *types.Func
	for f, n := range count {
		if n >= 2 && (best == nil || n > count[best] || (n == count[best] && f.Name() < best.Name())) {
			best = f
		}
	}
	if best == nil || m.decls[best] == nil {
		return nil
	}
	var res *types.Const
	ast.Inspect(m.decls[best].Fd.Body, func(n ast.Node) bool {
		if lit, ok := n.(*ast.CompositeLit); ok {
			if s := m.structs[travNamed(info.TypeOf(lit))]; s != nil && s.Kind != nil {
				res = s.Kind
			} else if nn := travNamed(info.TypeOf(lit)); nn != nil {
				// semantic type structs are not in the node model when unreachable from the programs: read Kind() directly
				for i := 0; i < nn.NumMethods(); i++ {
					if nn.Method(i).Name() == "Kind" {
						if d := m.decls[nn.Method(i)]; d != nil && len(d.Fd.Body.List) == 1 {
							if rs, ok := d.Fd.Body.List[0].(*ast.ReturnStmt); ok && len(rs.Results) == 1 {
								res = ConstOf(d.Pkg.TypesInfo, rs.Results[0])
							}
						}
					}
				}
			}
		}
		return true
	})
	return res
}

func travStatePkg(c *Ctx, m *travModel, p *packages.Package) []Obligation {
	info := p.TypesInfo
	pk := relPkg(p.PkgPath)[len("homescript/"):]
	var obs []Obligation
	type method struct {
		fd   *ast.FuncDecl
		recv types.Object
		node bool
	}
	byRecv := map[*types.Named][]*method{}
	for _, fd := range AllFuncDecls(p) {
		fn, _ := info.Defs[fd.Name].(*types.Func)
		if fn == nil {
			continue
		}
		sg := fn.Type().(*types.Signature)
		if sg.Recv() == nil {
			continue
		}
		rn := travNamed(sg.Recv().Type())
		if rn == nil {
			continue
		}
		if _, ok := rn.Underlying().(*types.Struct); !ok {
			continue
		}
		var ro types.Object
		if len(fd.Recv.List[0].Names) > 0 {
			ro = info.Defs[fd.Recv.List[0].Names[0]]
		}
		byRecv[rn] = append(byRecv[rn], &method{fd, ro, travHasNodeParam(m, sg)})
	}
	var recvs []*types.Named
	for rn, ms := range byRecv {
		driver := false
		for _, mm := range ms {
			if mm.node {
				driver = true
			}
		}
		if driver {
			recvs = append(recvs, rn)
		}
	}
	sort.Slice(recvs, func(i, j int) bool { return recvs[i].Obj().Name() < recvs[j].Obj().Name() })

	// condition positions of a function body
	condExprs := func(body *ast.BlockStmt) []ast.Expr {
		var out []ast.Expr
		ast.Inspect(body, func(n ast.Node) bool {
			switch x := n.(type) {
			case *ast.IfStmt:
				out = append(out, x.Cond)
			case *ast.ForStmt:
				if x.Cond != nil {
					out = append(out, x.Cond)
				}
			case *ast.SwitchStmt:
				if x.Tag != nil {
					out = append(out, x.Tag)
				} else {
					for _, cl := range x.Body.List {
						out = append(out, cl.(*ast.CaseClause).List...)
					}
				}
			}
			return true
		})
		return out
	}
	fieldUse := func(e ast.Node, recv types.Object, fname string) (token.Pos, bool) {
		var pos token.Pos
		found := false
		ast.Inspect(e, func(n ast.Node) bool {
			if se, ok := n.(*ast.SelectorExpr); ok && se.Sel.Name == fname {
				if id, ok := ast.Unparen(se.X).(*ast.Ident); ok && recv != nil && info.Uses[id] == recv {
					if !found {
						pos = se.Pos()
					}
					found = true
				}
			}
			return true
		})
		return pos, found
	}
	writesField := func(st ast.Stmt, recv types.Object, fname string) bool {
		isF := func(e ast.Expr) bool {
			se, ok := ast.Unparen(e).(*ast.SelectorExpr)
			if !ok || se.Sel.Name != fname {
				return false
			}
			id, ok := ast.Unparen(se.X).(*ast.Ident)
			return ok && recv != nil && info.Uses[id] == recv
		}
		switch x := st.(type) {
		case *ast.AssignStmt:
			for _, l := range x.Lhs {
				if isF(l) {
					return true
				}
			}
		case *ast.IncDecStmt:
			return isF(x.X)
		}
		return false
	}
	for _, rn := range recvs {
		st := rn.Underlying().(*types.Struct)
		for i := 0; i < st.NumFields(); i++ {
			f := st.Field(i)
			var writers, gaters []*method
			for _, mm := range byRecv[rn] {
				w := false
				ast.Inspect(mm.fd.Body, func(n ast.Node) bool {
					if s, ok := n.(ast.Stmt); ok && writesField(s, mm.recv, f.Name()) {
						w = true
					}
					return true
				})
				if w {
					writers = append(writers, mm)
				}
				for _, ce := range condExprs(mm.fd.Body) {
					if _, ok := fieldUse(ce, mm.recv, f.Name()); ok {
						gaters = append(gaters, mm)
						break
					}
				}
			}
			key := fmt.Sprintf("%s.%s|field %s|no cross-block gating state", pk, rn.Obj().Name(), f.Name())
			ob := Obligation{Key: key, Pos: c.Pos(f.Pos()), Nontrivial: true}
			names := func(ms []*method) string {
				var s []string
				for _, mm := range ms {
					s = append(s, mm.fd.Name.Name)
				}
				return strings.Join(s, ",")
			}
			switch {
			case len(gaters) == 0:
				ob.Status, ob.Detail = Discharged, fmt.Sprintf("field %s never appears in a branch condition of a %s method (written by: %s)", f.Name(), rn.Obj().Name(), orDash(names(writers)))
			case len(writers) == 0:
				ob.Status, ob.Detail = Discharged, fmt.Sprintf("field %s is read in conditions of %s but no method writes it: fixed after construction", f.Name(), names(gaters))
			default:
				var bad []string
				for _, g := range gaters {
					if !g.node {
						continue
					}
					// reset = top-level assignment before the first use in a condition
					first := token.Pos(0)
					for _, ce := range condExprs(g.fd.Body) {
						if pos, ok := fieldUse(ce, g.recv, f.Name()); ok && (first == 0 || pos < first) {
							first = pos
						}
					}
					reset := false
					for _, s := range g.fd.Body.List {
						if s.Pos() < first && writesField(s, g.recv, f.Name()) {
							if as, ok := s.(*ast.AssignStmt); ok && as.Tok == token.ASSIGN {
								reset = true
							}
						}
					}
					if !reset {
						bad = append(bad, fmt.Sprintf("%s (first conditional use at %s)", g.fd.Name.Name, c.Pos(first)))
					}
				}
				if len(bad) == 0 {
					ob.Status, ob.Detail = Discharged, fmt.Sprintf("field %s gates control flow in %s and each of them resets it at entry", f.Name(), names(gaters))
				} else {
					ob.Status = Violated
					ob.Detail = fmt.Sprintf("field %s of %s is written by %s and read in a branch condition of node-processing method(s) %s without being reset at their entry: a decision taken while processing one block/function survives into the next one (traversal state must be a local of the block-processing function)",
						f.Name(), rn.Obj().Name(), names(writers), strings.Join(bad, "; "))
				}
			}
			obs = append(obs, ob)
		}
	}

	// (b) drop gates in loops over node lists
	neverKind := travNeverKind(m)
	for _, fd := range AllFuncDecls(p) {
		fn, _ := info.Defs[fd.Name].(*types.Func)
		if fn == nil {
			continue
		}
		var recv types.Object
		if fd.Recv != nil && len(fd.Recv.List[0].Names) > 0 {
			recv = info.Defs[fd.Recv.List[0].Names[0]]
		}
		nloop := 0
		ast.Inspect(fd.Body, func(n ast.Node) bool {
			rs, ok := n.(*ast.RangeStmt)
			if !ok {
				return true
			}
			et := types.Unalias(info.TypeOf(rs.X))
			sl, ok := et.(*types.Slice)
			if !ok {
				return true
			}
			en := travNamed(sl.Elem())
			if en == nil || !(m.codeIfc[en] || (m.structs[en] != nil && !m.structs[en].IsSem)) {
				return true
			}
			// does the loop body append (build an output list)?
			appends := false
			ast.Inspect(rs.Body, func(x ast.Node) bool {
				if call, ok := x.(*ast.CallExpr); ok {
					if id, ok := call.Fun.(*ast.Ident); ok {
						if b, ok := info.Uses[id].(*types.Builtin); ok && b.Name() == "append" {
							appends = true
						}
					}
				}
				return true
			})
			if !appends {
				return true
			}
			// gates: top-level ifs of the loop body that skip (continue/break) or guard the append
			var gates []*ast.IfStmt
			for _, s := range rs.Body.List {
				ifs, ok := s.(*ast.IfStmt)
				if !ok {
					continue
				}
				skips := false
				ast.Inspect(ifs.Body, func(x ast.Node) bool {
					switch y := x.(type) {
					case *ast.BranchStmt:
						if y.Tok == token.CONTINUE || y.Tok == token.BREAK {
							skips = true
						}
					case *ast.CallExpr:
						if id, ok := y.Fun.(*ast.Ident); ok {
							if b, ok := info.Uses[id].(*types.Builtin); ok && b.Name() == "append" {
								skips = true
							}
						}
					case *ast.FuncLit:
						return false
					}
					return true
				})
				if skips && len(ifs.Body.List) <= 2 {
					gates = append(gates, ifs)
				}
			}
			if len(gates) == 0 {
				return true
			}
			nloop++
			for gi, g := range gates {
				base := fmt.Sprintf("%s|loop over %s|skip gate `%s`", travFuncKey(p, fd), exprStr(rs.X), exprStr(g.Cond))
				if gi > 0 || nloop > 1 {
					// keys are made of the construct text; identical conditions in one function get an ordinal
				}
				// (b1) variables of the condition
				var vars []types.Object
				var fieldVars []types.Object
				var bad []string
				ast.Inspect(g.Cond, func(x ast.Node) bool {
					switch y := x.(type) {
					case *ast.SelectorExpr:
						if id, ok := ast.Unparen(y.X).(*ast.Ident); ok && recv != nil && info.Uses[id] == recv {
							if v, ok := info.Uses[y.Sel].(*types.Var); ok && v.IsField() {
								fieldVars = append(fieldVars, v)
								// receiver field: must be reset at entry of this function
								reset := false
								for _, s := range fd.Body.List {
									if s.Pos() < rs.Pos() && writesField(s, recv, y.Sel.Name) {
										reset = true
									}
								}
								if !reset {
									bad = append(bad, fmt.Sprintf("receiver field %s.%s is not reset before the loop", id.Name, y.Sel.Name))
								}
							}
							return false
						}
					case *ast.Ident:
						o := info.Uses[y]
						v, ok := o.(*types.Var)
						if !ok {
							return true
						}
						if v.Parent() == p.Types.Scope() {
							bad = append(bad, "package-level variable "+v.Name())
						} else if v.Pos() >= fd.Body.Pos() && v.Pos() < fd.Body.End() {
							vars = append(vars, v)
						}
					}
					return true
				})
				ob := Obligation{Key: base + "|state is fresh per invocation", Pos: c.Pos(g.Pos()), Nontrivial: true}
				if len(bad) > 0 {
					ob.Status = Violated
					ob.Detail = "the condition that skips elements of the rebuilt list depends on state that survives the call: " + strings.Join(bad, "; ")
				} else {
					var ns []string
					for _, v := range vars {
						ns = append(ns, v.Name())
					}
					ob.Status, ob.Detail = Discharged, "gating variables are locals of the function: "+orDash(strings.Join(ns, ","))
				}
				obs = append(obs, ob)
				// (b2) the gate derives from a never-type test
				if neverKind == nil {
					obs = append(obs, Obligation{Key: base + "|raised only after a never-typed element", Pos: c.Pos(g.Pos()), Status: Undecided, Detail: "anchor unresolved: kind constant of the never type"})
					continue
				}
				closure := map[types.Object]bool{}
				for _, v := range vars {
					closure[v] = true
				}
				for _, v := range fieldVars {
					closure[v] = true
				}
				// object denoted by an lvalue / operand: a local, or a field of the receiver
				objOf := func(e ast.Expr) types.Object {
					switch z := ast.Unparen(e).(type) {
					case *ast.Ident:
						if o := info.Uses[z]; o != nil {
							return o
						}
						return info.Defs[z]
					case *ast.SelectorExpr:
						if id, ok := ast.Unparen(z.X).(*ast.Ident); ok && recv != nil && info.Uses[id] == recv {
							return info.Uses[z.Sel]
						}
					}
					return nil
				}
				derives := false
				var chain []string
				for changed := true; changed; {
					changed = false
					ast.Inspect(fd.Body, func(x ast.Node) bool {
						ifs, ok := x.(*ast.IfStmt)
						if !ok {
							return true
						}
						// does the body raise a closure variable (assign a non-zero value)?
						raises := false
						for _, s := range ifs.Body.List {
							as, ok := s.(*ast.AssignStmt)
							if !ok {
								continue
							}
							for i, l := range as.Lhs {
								o := objOf(l)
								if o == nil || !closure[o] || i >= len(as.Rhs) {
									continue
								}
								if rid, ok := as.Rhs[i].(*ast.Ident); ok && (rid.Name == "false" || rid.Name == "nil") {
									continue
								}
								raises = true
							}
						}
						if !raises {
							return true
						}
						ast.Inspect(ifs.Cond, func(y ast.Node) bool {
							switch z := y.(type) {
							case *ast.Ident:
								if v, ok := info.Uses[z].(*types.Var); ok && !closure[v] && v.Pos() >= fd.Body.Pos() && v.Pos() < fd.Body.End() {
									closure[v] = true
									changed = true
								}
								if k := ConstOf(info, z); k == neverKind && !derives {
									derives = true
									chain = append(chain, fmt.Sprintf("`%s` at %s", exprStr(ifs.Cond), c.Pos(ifs.Pos())))
								}
							case *ast.SelectorExpr:
								if o := objOf(z); o != nil {
									if v, ok := o.(*types.Var); ok && v.IsField() && !closure[v] {
										closure[v] = true
										changed = true
									}
								}
								if k := ConstOf(info, z); k == neverKind && !derives {
									derives = true
									chain = append(chain, fmt.Sprintf("`%s` at %s", exprStr(ifs.Cond), c.Pos(ifs.Pos())))
								}
							}
							return true
						})
						return true
					})
				}
				ob2 := Obligation{Key: base + "|raised only after a never-typed element", Pos: c.Pos(g.Pos()), Nontrivial: true}
				if derives {
					ob2.Status, ob2.Detail = Discharged, fmt.Sprintf("the gate is raised through a chain of conditions that ends in a test for %s: %s", neverKind.Name(), strings.Join(chain, ", "))
				} else {
					ob2.Status = Violated
					ob2.Detail = fmt.Sprintf("no condition under which the gate `%s` is raised tests for %s: elements are skipped without a preceding diverging element", exprStr(g.Cond), neverKind.Name())
				}
				obs = append(obs, ob2)
			}
			return true
		})
	}
	return obs
}

func orDash(s string) string {
	if s == "" {
		return "-"
	}
	return s
}
