package main

// trav: R-optimizer-local-state — state that gates dropping / rewriting of
// statements is fresh per block.

import (
	"fmt"
	"go/ast"
	"go/token"
	"go/types"
	"sort"
	"strings"

	"golang.org/x/tools/go/packages"
)

func init() {
	register(&Rule{ID: "R-optimizer-local-state", Floor: 9, Run: ruleOptimizerLocalState,
		Doc: "Optimizer and fuzzer rebuild programs block by block. (a) For every field of a traversal driver struct (a struct of package optimizer/fuzzer whose methods receive AST nodes): " +
			"if the field is written by a method and read in a branch condition of a node-processing method, that method must reset it at entry (an assignment at the top level of its body before the first use), " +
			"or be an unexported method that is only ever called by methods of the driver that have reset it before the call (state set, and restored, by whoever starts the traversal step) — " +
			"otherwise a decision taken in one block/function leaks into the next one processed. (b) For every loop over a list of nodes that conditionally skips an element (continue/break before the append, or a conditional append): " +
			"(range or counting loop) every variable of the gating condition is a local of that function or a field of a local struct value (fresh per invocation), a receiver field discharged by (a), and never a package-level variable; and the gate is only raised under a condition that derives " +
			"from a test for the never type on an earlier element (statements are dropped only after a diverging statement of the same block). " +
			"Necessary: with gating state that survives the block, the statements of a later block are dropped although nothing diverges before them."})
}

func ruleOptimizerLocalState(c *Ctx) []Obligation {
	m := travGetModel(c)
	var obs []Obligation
	for _, rel := range []string{"homescript/optimizer", "homescript/fuzzer"} {
		if !c.HasPkg(rel) {
			continue
		}
		obs = append(obs, travStatePkg(c, m, c.Pkg(rel))...)
	}
	return obs
}

func travHasNodeParam(m *travModel, sg *types.Signature) bool {
	for i := 0; i < sg.Params().Len(); i++ {
		t := sg.Params().At(i).Type()
		tt := types.Unalias(t)
		if sl, ok := tt.(*types.Slice); ok {
			tt = types.Unalias(sl.Elem())
		}
		if n, ok := tt.(*types.Named); ok && m.codeIfc[n] {
			return true
		}
		for _, s := range m.carrierStructs(t) {
			if !s.IsSem && s.T != m.identT {
				return true
			}
		}
	}
	return false
}

// travNeverKind resolves the type-kind constant of the never type by role: the
// niladic constructor that at least two analyzed statement kinds return from
// Type() (break / continue / return), and the Kind() of the struct it builds.
func travNeverKind(m *travModel) *types.Const {
	info := m.pA.TypesInfo
	count := map[*types.Func]int{}
	for _, s := range m.structs {
		if !m.inA(s.T) || s.Kind == nil {
			continue
		}
		for i := 0; i < s.T.NumMethods(); i++ {
			f := s.T.Method(i)
			if f.Name() != "Type" {
				continue
			}
			d := m.decls[f]
			if d == nil || len(d.Fd.Body.List) != 1 {
				continue
			}
			rs, ok := d.Fd.Body.List[0].(*ast.ReturnStmt)
			if !ok || len(rs.Results) != 1 {
				continue
			}
			if call, ok := rs.Results[0].(*ast.CallExpr); ok && len(call.Args) == 0 {
				if cal := CalleeOf(info, call); cal != nil {
					count[cal]++
				}
			}
		}
	}
	var best *types.Func
	for f, n := range count {
		if n >= 2 && (best == nil || n > count[best] || (n == count[best] && f.Name() < best.Name())) {
			best = f
		}
	}
	if best == nil || m.decls[best] == nil {
		return nil
	}
	var res *types.Const
	ast.Inspect(m.decls[best].Fd.Body, func(n ast.Node) bool {
		if lit, ok := n.(*ast.CompositeLit); ok {
			if s := m.structs[travNamed(info.TypeOf(lit))]; s != nil && s.Kind != nil {
				res = s.Kind
			} else if nn := travNamed(info.TypeOf(lit)); nn != nil {
				// semantic type structs are not in the node model when unreachable from the programs: read Kind() directly
				for i := 0; i < nn.NumMethods(); i++ {
					if nn.Method(i).Name() == "Kind" {
						if d := m.decls[nn.Method(i)]; d != nil && len(d.Fd.Body.List) == 1 {
							if rs, ok := d.Fd.Body.List[0].(*ast.ReturnStmt); ok && len(rs.Results) == 1 {
								res = ConstOf(d.Pkg.TypesInfo, rs.Results[0])
							}
						}
					}
				}
			}
		}
		return true
	})
	return res
}

func travStatePkg(c *Ctx, m *travModel, p *packages.Package) []Obligation {
	info := p.TypesInfo
	pk := relPkg(p.PkgPath)[len("homescript/"):]
	var obs []Obligation
	type method struct {
		fd    *ast.FuncDecl
		fn    *types.Func
		recv  types.Object
		recvT *types.Named
		node  bool
	}
	type callSite struct {
		caller   *method
		pos      token.Pos
		repeated bool // inside a loop or a function literal of the caller: may run several times per entry of the caller
	}
	byRecv := map[*types.Named][]*method{}
	byFn := map[*types.Func]*method{}
	for _, fd := range AllFuncDecls(p) {
		fn, _ := info.Defs[fd.Name].(*types.Func)
		if fn == nil {
			continue
		}
		sg := fn.Type().(*types.Signature)
		if sg.Recv() == nil {
			continue
		}
		rn := travNamed(sg.Recv().Type())
		if rn == nil {
			continue
		}
		if _, ok := rn.Underlying().(*types.Struct); !ok {
			continue
		}
		var ro types.Object
		if len(fd.Recv.List[0].Names) > 0 {
			ro = info.Defs[fd.Recv.List[0].Names[0]]
		}
		mm := &method{fd, fn, ro, rn, travHasNodeParam(m, sg)}
		byRecv[rn] = append(byRecv[rn], mm)
		byFn[fn] = mm
	}
	// static call sites of the package's methods (and uses as method values)
	callSites := map[*types.Func][]callSite{}
	escapes := map[*types.Func]bool{}
	for _, fd := range AllFuncDecls(p) {
		var caller *method
		if fn, _ := info.Defs[fd.Name].(*types.Func); fn != nil {
			caller = byFn[fn]
		}
		called := map[*ast.SelectorExpr]bool{}
		var stack []ast.Node
		ast.Inspect(fd.Body, func(n ast.Node) bool {
			if n == nil {
				stack = stack[:len(stack)-1]
				return true
			}
			stack = append(stack, n)
			switch x := n.(type) {
			case *ast.CallExpr:
				if se, ok := ast.Unparen(x.Fun).(*ast.SelectorExpr); ok {
					if callee, ok := info.Uses[se.Sel].(*types.Func); ok && byFn[callee] != nil {
						called[se] = true
						rep := false
						for _, a := range stack {
							switch a.(type) {
							case *ast.ForStmt, *ast.RangeStmt, *ast.FuncLit:
								rep = true
							}
						}
						callSites[callee] = append(callSites[callee], callSite{caller, x.Pos(), rep})
					}
				}
			case *ast.SelectorExpr:
				if callee, ok := info.Uses[x.Sel].(*types.Func); ok && byFn[callee] != nil && !called[x] {
					escapes[callee] = true
				}
			}
			return true
		})
	}
	var recvs []*types.Named
	for rn, ms := range byRecv {
		driver := false
		for _, mm := range ms {
			if mm.node {
				driver = true
			}
		}
		if driver {
			recvs = append(recvs, rn)
		}
	}
	sort.Slice(recvs, func(i, j int) bool { return recvs[i].Obj().Name() < recvs[j].Obj().Name() })

	// condition positions of a function body
	condExprs := func(body *ast.BlockStmt) []ast.Expr {
		var out []ast.Expr
		ast.Inspect(body, func(n ast.Node) bool {
			switch x := n.(type) {
			case *ast.IfStmt:
				out = append(out, x.Cond)
			case *ast.ForStmt:
				if x.Cond != nil {
					out = append(out, x.Cond)
				}
			case *ast.SwitchStmt:
				if x.Tag != nil {
					out = append(out, x.Tag)
				} else {
					for _, cl := range x.Body.List {
						out = append(out, cl.(*ast.CaseClause).List...)
					}
				}
			}
			return true
		})
		return out
	}
	fieldUse := func(e ast.Node, recv types.Object, fname string) (token.Pos, bool) {
		var pos token.Pos
		found := false
		ast.Inspect(e, func(n ast.Node) bool {
			if se, ok := n.(*ast.SelectorExpr); ok && se.Sel.Name == fname {
				if id, ok := ast.Unparen(se.X).(*ast.Ident); ok && recv != nil && info.Uses[id] == recv {
					if !found {
						pos = se.Pos()
					}
					found = true
				}
			}
			return true
		})
		return pos, found
	}
	writesField := func(st ast.Stmt, recv types.Object, fname string) bool {
		isF := func(e ast.Expr) bool {
			// recv.F, or a part of it (recv.F.g, recv.F[i]): storing into a part changes the field
			for {
				switch x := ast.Unparen(e).(type) {
				case *ast.IndexExpr:
					e = x.X
					continue
				case *ast.SelectorExpr:
					if id, ok := ast.Unparen(x.X).(*ast.Ident); ok {
						return x.Sel.Name == fname && recv != nil && info.Uses[id] == recv
					}
					e = x.X
					continue
				}
				return false
			}
		}
		switch x := st.(type) {
		case *ast.AssignStmt:
			for _, l := range x.Lhs {
				if isF(l) {
					return true
				}
			}
		case *ast.IncDecStmt:
			return isF(x.X)
		}
		return false
	}
	for _, rn := range recvs {
		st := rn.Underlying().(*types.Struct)
		for i := 0; i < st.NumFields(); i++ {
			f := st.Field(i)
			var writers, gaters []*method
			for _, mm := range byRecv[rn] {
				w := false
				ast.Inspect(mm.fd.Body, func(n ast.Node) bool {
					if s, ok := n.(ast.Stmt); ok && writesField(s, mm.recv, f.Name()) {
						w = true
					}
					return true
				})
				if w {
					writers = append(writers, mm)
				}
				for _, ce := range condExprs(mm.fd.Body) {
					if _, ok := fieldUse(ce, mm.recv, f.Name()); ok {
						gaters = append(gaters, mm)
						break
					}
				}
			}
			key := fmt.Sprintf("%s.%s|field %s|no cross-block gating state", pk, rn.Obj().Name(), f.Name())
			ob := Obligation{Key: key, Pos: c.Pos(f.Pos()), Nontrivial: true}
			names := func(ms []*method) string {
				var s []string
				for _, mm := range ms {
					s = append(s, mm.fd.Name.Name)
				}
				return strings.Join(s, ",")
			}
			switch {
			case len(gaters) == 0:
				ob.Status, ob.Detail = Discharged, fmt.Sprintf("field %s never appears in a branch condition of a %s method (written by: %s)", f.Name(), rn.Obj().Name(), orDash(names(writers)))
			case len(writers) == 0:
				ob.Status, ob.Detail = Discharged, fmt.Sprintf("field %s is read in conditions of %s but no method writes it: fixed after construction", f.Name(), names(gaters))
			default:
				var bad []string
				// resetBefore: a top-level assignment to the field in mm's body before position `before`
				resetBefore := func(mm *method, before token.Pos) bool {
					for _, s := range mm.fd.Body.List {
						if s.Pos() < before && writesField(s, mm.recv, f.Name()) {
							if as, ok := s.(*ast.AssignStmt); ok && as.Tok == token.ASSIGN {
								return true
							}
						}
					}
					return false
				}
				// enteredFresh: mm is not an entry point (unexported, never used as a method value) and every
				// call of it in the package comes from a method of the same driver that has reset the field
				// before the call (or is itself only entered that way): the state is set for this traversal
				// step by whoever starts it (flag saved/set/restored around a sub-traversal).
				var enteredFresh func(mm *method, visiting map[*method]bool) bool
				enteredFresh = func(mm *method, visiting map[*method]bool) bool {
					if visiting[mm] {
						return true
					}
					if mm.fn == nil || mm.fn.Exported() {
						return false
					}
					visiting[mm] = true
					defer delete(visiting, mm)
					sites := callSites[mm.fn]
					if len(sites) == 0 || escapes[mm.fn] {
						return false
					}
					for _, cs := range sites {
						if cs.caller == nil || cs.caller.recvT != rn || cs.repeated {
							// (a call in a loop runs several traversal steps on one reset: the state of one leaks into the next)
							return false
						}
						if resetBefore(cs.caller, cs.pos) {
							continue
						}
						if !enteredFresh(cs.caller, visiting) {
							return false
						}
					}
					return true
				}
				for _, g := range gaters {
					if !g.node {
						continue
					}
					// reset = top-level assignment before the first use in a condition
					first := token.Pos(0)
					for _, ce := range condExprs(g.fd.Body) {
						if pos, ok := fieldUse(ce, g.recv, f.Name()); ok && (first == 0 || pos < first) {
							first = pos
						}
					}
					if !resetBefore(g, first) && !enteredFresh(g, map[*method]bool{}) {
						bad = append(bad, fmt.Sprintf("%s (first conditional use at %s)", g.fd.Name.Name, c.Pos(first)))
					}
				}
				if len(bad) == 0 {
					ob.Status, ob.Detail = Discharged, fmt.Sprintf("field %s gates control flow in %s and each of them resets it at entry", f.Name(), names(gaters))
				} else {
					ob.Status = Violated
					ob.Detail = fmt.Sprintf("field %s of %s is written by %s and read in a branch condition of node-processing method(s) %s without being reset at their entry: a decision taken while processing one block/function survives into the next one (traversal state must be a local of the block-processing function)",
						f.Name(), rn.Obj().Name(), names(writers), strings.Join(bad, "; "))
				}
			}
			obs = append(obs, ob)
		}
	}

	// (b) drop gates in loops over node lists
	neverKind := travNeverKind(m)
	for _, fd := range AllFuncDecls(p) {
		fn, _ := info.Defs[fd.Name].(*types.Func)
		if fn == nil {
			continue
		}
		var recv types.Object
		if fd.Recv != nil && len(fd.Recv.List[0].Names) > 0 {
			recv = info.Defs[fd.Recv.List[0].Names[0]]
		}
		nloop := 0
		ast.Inspect(fd.Body, func(n ast.Node) bool {
			// a loop over a list: `for … range X` or the counting form `for i := …; i < len(X); i++`
			var rs struct {
				X    ast.Expr
				Body *ast.BlockStmt
				pos  token.Pos
			}
			switch l := n.(type) {
			case *ast.RangeStmt:
				rs.X, rs.Body, rs.pos = l.X, l.Body, l.Pos()
			case *ast.ForStmt:
				if x := travCountingLoopOver(info, l); x != nil {
					rs.X, rs.Body, rs.pos = x, l.Body, l.Pos()
				}
			}
			if rs.X == nil {
				return true
			}
			et := types.Unalias(info.TypeOf(rs.X))
			sl, ok := et.(*types.Slice)
			if !ok {
				return true
			}
			en := travNamed(sl.Elem())
			if en == nil || !(m.codeIfc[en] || (m.structs[en] != nil && !m.structs[en].IsSem)) {
				return true
			}
			// does the loop body append (build an output list)?
			appends := false
			ast.Inspect(rs.Body, func(x ast.Node) bool {
				if call, ok := x.(*ast.CallExpr); ok {
					if id, ok := call.Fun.(*ast.Ident); ok {
						if b, ok := info.Uses[id].(*types.Builtin); ok && b.Name() == "append" {
							appends = true
						}
					}
				}
				return true
			})
			if !appends {
				return true
			}
			// gates: top-level ifs of the loop body that skip (continue/break) or guard the append
			var gates []*ast.IfStmt
			for _, s := range rs.Body.List {
				ifs, ok := s.(*ast.IfStmt)
				if !ok {
					continue
				}
				skips := false
				ast.Inspect(ifs.Body, func(x ast.Node) bool {
					switch y := x.(type) {
					case *ast.BranchStmt:
						if y.Tok == token.CONTINUE || y.Tok == token.BREAK {
							skips = true
						}
					case *ast.CallExpr:
						if id, ok := y.Fun.(*ast.Ident); ok {
							if b, ok := info.Uses[id].(*types.Builtin); ok && b.Name() == "append" {
								skips = true
							}
						}
					case *ast.FuncLit:
						return false
					}
					return true
				})
				if skips && len(ifs.Body.List) <= 2 {
					gates = append(gates, ifs)
				}
			}
			if len(gates) == 0 {
				return true
			}
			nloop++
			for gi, g := range gates {
				base := fmt.Sprintf("%s|loop over %s|skip gate `%s`", travFuncKey(p, fd), exprStr(rs.X), exprStr(g.Cond))
				if gi > 0 || nloop > 1 {
					// keys are made of the construct text; identical conditions in one function get an ordinal
				}
				// (b1) variables of the condition. A state variable is a local, a field of the receiver, or a
				// field of a local struct (per-block state bundled into a small struct).
				var vars []travStateVar
				var fieldVars []travStateVar
				var bad []string
				isLocal := func(v *types.Var) bool { return v.Pos() >= fd.Body.Pos() && v.Pos() < fd.Body.End() }
				// stateOf: the state variable an lvalue / operand denotes (ok=false: none)
				stateOf := func(e ast.Expr) (travStateVar, bool) {
					switch z := ast.Unparen(e).(type) {
					case *ast.Ident:
						o := info.Uses[z]
						if o == nil {
							o = info.Defs[z]
						}
						if v, ok := o.(*types.Var); ok && !v.IsField() {
							return travStateVar{base: v}, true
						}
					case *ast.SelectorExpr:
						fv, _ := info.Uses[z.Sel].(*types.Var)
						if fv == nil || !fv.IsField() {
							return travStateVar{}, false
						}
						// innermost base of a selector chain x.a.b: keyed by the first field selected on x
						inner := z
						for {
							nx, ok := ast.Unparen(inner.X).(*ast.SelectorExpr)
							if !ok {
								break
							}
							if nf, _ := info.Uses[nx.Sel].(*types.Var); nf == nil || !nf.IsField() {
								break
							}
							inner = nx
						}
						id, ok := ast.Unparen(inner.X).(*ast.Ident)
						if !ok {
							return travStateVar{}, false
						}
						ifv, _ := info.Uses[inner.Sel].(*types.Var)
						bv, _ := info.Uses[id].(*types.Var)
						if bv == nil || ifv == nil {
							return travStateVar{}, false
						}
						if recv != nil && bv == recv {
							return travStateVar{field: ifv}, true
						}
						return travStateVar{base: bv, field: ifv}, true
					}
					return travStateVar{}, false
				}
				ast.Inspect(g.Cond, func(x ast.Node) bool {
					switch y := x.(type) {
					case *ast.SelectorExpr:
						sv, ok := stateOf(y)
						if !ok {
							return true
						}
						if sv.base == nil {
							fieldVars = append(fieldVars, sv)
							// receiver field: must be reset at entry of this function
							reset := false
							for _, s := range fd.Body.List {
								if s.Pos() < rs.pos && writesField(s, recv, sv.field.Name()) {
									reset = true
								}
							}
							if !reset {
								bad = append(bad, fmt.Sprintf("receiver field %s.%s is not reset before the loop", recv.Name(), sv.field.Name()))
							}
							return false
						}
						if sv.base.Parent() == p.Types.Scope() {
							bad = append(bad, "package-level variable "+sv.base.Name())
						} else if isLocal(sv.base) {
							if _, isPtr := types.Unalias(sv.base.Type()).Underlying().(*types.Pointer); isPtr {
								return true // a field behind a pointer is not state of this invocation: look at the pointer itself
							}
							vars = append(vars, sv)
						}
						return false
					case *ast.Ident:
						o := info.Uses[y]
						v, ok := o.(*types.Var)
						if !ok {
							return true
						}
						if v.Parent() == p.Types.Scope() {
							bad = append(bad, "package-level variable "+v.Name())
						} else if isLocal(v) {
							vars = append(vars, travStateVar{base: v})
						}
					}
					return true
				})
				ob := Obligation{Key: base + "|state is fresh per invocation", Pos: c.Pos(g.Pos()), Nontrivial: true}
				if len(bad) > 0 {
					ob.Status = Violated
					ob.Detail = "the condition that skips elements of the rebuilt list depends on state that survives the call: " + strings.Join(bad, "; ")
				} else {
					var ns []string
					for _, v := range vars {
						ns = append(ns, v.String())
					}
					ob.Status, ob.Detail = Discharged, "gating variables are locals of the function: "+orDash(strings.Join(ns, ","))
				}
				obs = append(obs, ob)
				// (b2) the gate derives from a never-type test
				if neverKind == nil {
					obs = append(obs, Obligation{Key: base + "|raised only after a never-typed element", Pos: c.Pos(g.Pos()), Status: Undecided, Detail: "anchor unresolved: kind constant of the never type"})
					continue
				}
				closure := map[travStateVar]bool{}
				for _, v := range vars {
					closure[v] = true
				}
				for _, v := range fieldVars {
					closure[v] = true
				}
				derives := false
				var chain []string
				for changed := true; changed; {
					changed = false
					ast.Inspect(fd.Body, func(x ast.Node) bool {
						ifs, ok := x.(*ast.IfStmt)
						if !ok {
							return true
						}
						// does the body raise a closure variable (assign a non-zero value)?
						raises := false
						for _, s := range ifs.Body.List {
							as, ok := s.(*ast.AssignStmt)
							if !ok {
								continue
							}
							for i, l := range as.Lhs {
								o, ok := stateOf(l)
								if !ok || !closure[o] || i >= len(as.Rhs) {
									continue
								}
								if rid, ok := as.Rhs[i].(*ast.Ident); ok && (rid.Name == "false" || rid.Name == "nil") {
									continue
								}
								raises = true
							}
						}
						if !raises {
							return true
						}
						ast.Inspect(ifs.Cond, func(y ast.Node) bool {
							switch z := y.(type) {
							case *ast.Ident:
								if v, ok := info.Uses[z].(*types.Var); ok && !v.IsField() && isLocal(v) && !closure[travStateVar{base: v}] {
									closure[travStateVar{base: v}] = true
									changed = true
								}
								if k := ConstOf(info, z); k == neverKind && !derives {
									derives = true
									chain = append(chain, fmt.Sprintf("`%s` at %s", exprStr(ifs.Cond), c.Pos(ifs.Pos())))
								}
							case *ast.SelectorExpr:
								if k := ConstOf(info, z); k == neverKind && !derives {
									derives = true
									chain = append(chain, fmt.Sprintf("`%s` at %s", exprStr(ifs.Cond), c.Pos(ifs.Pos())))
								}
								if o, ok := stateOf(z); ok && o.field != nil && (o.base == nil || isLocal(o.base)) {
									if !closure[o] {
										closure[o] = true
										changed = true
									}
									if o.base != nil {
										if _, isPtr := types.Unalias(o.base.Type()).Underlying().(*types.Pointer); !isPtr {
											return false // the struct local itself is not a separate state variable
										}
									}
								}
							}
							return true
						})
						return true
					})
				}
				ob2 := Obligation{Key: base + "|raised only after a never-typed element", Pos: c.Pos(g.Pos()), Nontrivial: true}
				if derives {
					ob2.Status, ob2.Detail = Discharged, fmt.Sprintf("the gate is raised through a chain of conditions that ends in a test for %s: %s", neverKind.Name(), strings.Join(chain, ", "))
				} else {
					ob2.Status = Violated
					ob2.Detail = fmt.Sprintf("no condition under which the gate `%s` is raised tests for %s: elements are skipped without a preceding diverging element", exprStr(g.Cond), neverKind.Name())
				}
				obs = append(obs, ob2)
			}
			return true
		})
	}
	return obs
}

// travStateVar: a piece of traversal state — a local (base), a field of the receiver
// (field), or a field of a local struct value (base and field).
type travStateVar struct {
	base  *types.Var
	field *types.Var
}

func (v travStateVar) String() string {
	switch {
	case v.base != nil && v.field != nil:
		return v.base.Name() + "." + v.field.Name()
	case v.base != nil:
		return v.base.Name()
	case v.field != nil:
		return v.field.Name()
	}
	return "?"
}

// travCountingLoopOver: `for i := …; i < len(X); i++ {…}` (also `len(X) > i`, `i != len(X)`,
// `i <= len(X)-1`): returns X, the list the loop runs over.
func travCountingLoopOver(info *types.Info, f *ast.ForStmt) ast.Expr {
	be, ok := ast.Unparen(f.Cond).(*ast.BinaryExpr)
	if f.Cond == nil || !ok {
		return nil
	}
	lenArg := func(e ast.Expr) ast.Expr {
		e = ast.Unparen(e)
		if b, ok := e.(*ast.BinaryExpr); ok && b.Op == token.SUB {
			e = ast.Unparen(b.X)
		}
		call, ok := e.(*ast.CallExpr)
		if !ok || len(call.Args) != 1 {
			return nil
		}
		if id, ok := ast.Unparen(call.Fun).(*ast.Ident); ok {
			if b, ok := info.Uses[id].(*types.Builtin); ok && b.Name() == "len" {
				return call.Args[0]
			}
		}
		return nil
	}
	switch be.Op {
	case token.LSS, token.LEQ, token.NEQ, token.GTR, token.GEQ:
	default:
		return nil
	}
	var idx, list ast.Expr
	if x := lenArg(be.Y); x != nil {
		idx, list = be.X, x
	} else if x := lenArg(be.X); x != nil {
		idx, list = be.Y, x
	}
	if list == nil {
		return nil
	}
	if _, ok := ast.Unparen(idx).(*ast.Ident); !ok {
		return nil
	}
	return list
}

func orDash(s string) string {
	if s == "" {
		return "-"
	}
	return s
}
