package main

import (
	"fmt"
	"go/ast"
	"go/token"
	"go/types"
	"sort"
	"strings"
)

func init() {
	register(&Rule{ID: "R-arm-typecheck", Floor: 6, Run: ruleArmTypecheck,
		Doc: "in the analyzer functions that build a match / if / try / list-literal node, every analysed alternative (arm action, then/else block, try/catch block, list element — identified by the syntax node it was analysed from) that is kept in the result (address stored, appended, or placed in the returned node; scrutinee/condition/literal fields excluded) is, on every path and by the end of the loop iteration that analysed it, unified with the other alternatives: its type is an argument of a TypeCheck call — or of a helper of the package that unconditionally hands that parameter to TypeCheck — or seeds the result-type variable. Necessary for C02/C03: an alternative that skips the unification can have any type while the construct is given the type of the others, and the engines' unchecked value assertions then panic."})
}

var actxArmNodeTypes = []string{"AnalyzedMatchExpression", "AnalyzedIfExpression", "AnalyzedTryExpression", "AnalyzedListLiteralExpression"}
var actxNonArmFields = map[string]bool{"Condition": true, "ControlExpression": true, "Literals": true}

type actxArmState struct {
	src     map[types.Object]string // local → source key of the analysed node
	checked map[string]bool
	kept    map[string]token.Pos
	dec     []string
}

func actxArmClone(s *actxArmState) *actxArmState {
	n := &actxArmState{src: map[types.Object]string{}, checked: map[string]bool{}, kept: map[string]token.Pos{}}
	for k, v := range s.src {
		n.src[k] = v
	}
	for k, v := range s.checked {
		n.checked[k] = v
	}
	for k, v := range s.kept {
		n.kept[k] = v
	}
	n.dec = append([]string(nil), s.dec...)
	return n
}

func ruleArmTypecheck(c *Ctx) []Obligation {
	p := c.Pkg("homescript/analyzer")
	info := p.TypesInfo
	// TypeCheck by role: exported method of Analyzer
	var typeCheck *types.Func
	analyse := map[*types.Func]bool{} // methods taking a parser-AST node and returning an analysed node (expression, block, …)
	for _, fd := range AllFuncDecls(p) {
		fn, _ := info.Defs[fd.Name].(*types.Func)
		if fn == nil || fd.Recv == nil || recvTypeName(fd.Recv.List[0].Type) != "Analyzer" {
			continue
		}
		if fd.Name.Name == "TypeCheck" {
			typeCheck = fn
		}
		sig := fn.Type().(*types.Signature)
		if sig.Params().Len() >= 1 && sig.Results().Len() == 1 {
			if pt, ok := actxTreeType(sig.Params().At(0).Type()); ok && strings.HasSuffix(pt.Obj().Pkg().Path(), "/parser/ast") {
				if rt, ok := actxTreeType(sig.Results().At(0).Type()); ok && strings.HasSuffix(rt.Obj().Pkg().Path(), "/analyzer/ast") {
					analyse[fn] = true
				}
			}
		}
	}
	if typeCheck == nil {
		fatalf("anchor unresolved: analyzer.Analyzer.TypeCheck")
	}
	// helpers that unify on behalf of their caller: parameter i of f reaches, unconditionally (in a
	// straight-line top-level statement of f, or the initialiser / condition of a top-level if), an
	// argument of TypeCheck — or of another such helper
	checkers := map[*types.Func]map[int]bool{}
	for round := 0; round < 3; round++ {
		for _, fd := range AllFuncDecls(p) {
			fn, _ := info.Defs[fd.Name].(*types.Func)
			if fn == nil || fn == typeCheck {
				continue
			}
			sig := fn.Type().(*types.Signature)
			paramIdx := func(e ast.Expr) []int {
				var out []int
				ast.Inspect(e, func(n ast.Node) bool {
					if id, ok := n.(*ast.Ident); ok {
						for i := 0; i < sig.Params().Len(); i++ {
							if info.Uses[id] == sig.Params().At(i) {
								out = append(out, i)
							}
						}
					}
					return true
				})
				return out
			}
			heads := actxAlwaysExecuted(fd.Body, true)
			for _, h := range heads {
				ast.Inspect(h, func(n ast.Node) bool {
					if _, isLit := n.(*ast.FuncLit); isLit {
						return false
					}
					ce, ok := n.(*ast.CallExpr)
					if !ok {
						return true
					}
					g := CalleeOf(info, ce)
					if g == nil {
						return true
					}
					for ai, a := range ce.Args {
						if g == typeCheck || checkers[g][ai] {
							for _, pi := range paramIdx(a) {
								if checkers[fn] == nil {
									checkers[fn] = map[int]bool{}
								}
								checkers[fn][pi] = true
							}
						}
					}
					return true
				})
			}
		}
	}
	var out []Obligation
	found := map[string]bool{}
	for _, fd := range AllFuncDecls(p) {
		fn, _ := info.Defs[fd.Name].(*types.Func)
		if fn == nil {
			continue
		}
		sig := fn.Type().(*types.Signature)
		if sig.Results().Len() != 1 {
			continue
		}
		rn, ok := sig.Results().At(0).Type().(*types.Named)
		if !ok {
			continue
		}
		role := ""
		for _, t := range actxArmNodeTypes {
			if rn.Obj().Name() == t && strings.HasSuffix(rn.Obj().Pkg().Path(), "/analyzer/ast") {
				role = t
			}
		}
		if role == "" {
			continue
		}
		found[role] = true
		type viol struct {
			src  string
			pos  token.Pos
			path string
		}
		var viols []viol
		arms := map[string]bool{}
		npaths := 0
		rootOf := func(st *actxArmState, e ast.Expr) (string, bool) {
			// e mentions a local that holds an analysed alternative (x, x.Type(), x.ResultType, *x …)
			var key string
			ast.Inspect(e, func(n ast.Node) bool {
				if id, ok := n.(*ast.Ident); ok {
					if k, ok := st.src[info.Uses[id]]; ok && key == "" {
						key = k
					}
				}
				return key == ""
			})
			return key, key != ""
		}
		check := func(st *actxArmState, where string) {
			var keptKeys []string
			for k := range st.kept {
				keptKeys = append(keptKeys, k)
			}
			sort.Strings(keptKeys)
			for _, k := range keptKeys {
				pos := st.kept[k]
				if !st.checked[k] {
					viols = append(viols, viol{k, pos, where + " [" + strings.Join(st.dec, ", ") + "]"})
				}
			}
		}
		var handleExpr func(st *actxArmState, e ast.Node)
		handleExpr = func(st *actxArmState, e ast.Node) {
			if e == nil {
				return
			}
			ast.Inspect(e, func(n ast.Node) bool {
				switch x := n.(type) {
				case *ast.FuncLit:
					return false
				case *ast.CallExpr:
					if g := CalleeOf(info, x); g == typeCheck {
						for _, a := range x.Args {
							if k, ok := rootOf(st, a); ok {
								st.checked[k] = true
							}
						}
					} else if g != nil && checkers[g] != nil {
						for ai, a := range x.Args {
							if !checkers[g][ai] {
								continue
							}
							if k, ok := rootOf(st, a); ok {
								st.checked[k] = true
							}
						}
					}
					if id, ok := x.Fun.(*ast.Ident); ok && id.Name == "append" {
						for _, a := range x.Args[1:] {
							actxArmKeep(info, st, a, x.Pos(), arms)
						}
					}
				}
				return true
			})
		}
		w := &Walker[*actxArmState]{Clone: actxArmClone}
		w.IsPanic = func(s ast.Stmt) bool { return IsPanicCall(info, s) }
		w.OnCond = func(st *actxArmState, cond ast.Expr, taken bool) (*actxArmState, bool) {
			handleExpr(st, cond)
			st.dec = append(st.dec, fmt.Sprintf("%s=%v", exprStr(cond), taken))
			return st, true
		}
		w.OnCase = func(st *actxArmState, sw *ast.SwitchStmt, vals, others []ast.Expr) (*actxArmState, bool) {
			handleExpr(st, sw.Tag)
			return st, true
		}
		w.OnRange = func(st *actxArmState, r *ast.RangeStmt) (*actxArmState, bool) {
			handleExpr(st, r.X)
			return st, true
		}
		w.OnStmt = func(st *actxArmState, s ast.Stmt) (*actxArmState, bool) {
			switch x := s.(type) {
			case *ast.AssignStmt:
				for _, r := range x.Rhs {
					handleExpr(st, r)
				}
				for i, l := range x.Lhs {
					id, ok := l.(*ast.Ident)
					if !ok || len(x.Rhs) != len(x.Lhs) {
						continue
					}
					obj := info.Defs[id]
					if obj == nil {
						obj = info.Uses[id]
					}
					if obj == nil {
						continue
					}
					rhs := ast.Unparen(x.Rhs[i])
					// x := self.expression(node) / self.block(node, …)
					if call, ok := rhs.(*ast.CallExpr); ok && analyse[CalleeOf(info, call)] && len(call.Args) > 0 {
						k := exprStr(call.Args[0])
						st.src[obj] = k
						arms[k] = true
						continue
					}
					// y = &x : alias, and the address escapes into a longer-lived variable → kept
					if u, ok := rhs.(*ast.UnaryExpr); ok && u.Op == token.AND {
						if xid, ok := ast.Unparen(u.X).(*ast.Ident); ok {
							if k, ok := st.src[info.Uses[xid]]; ok {
								st.src[obj] = k
								st.kept[k] = x.Pos()
								continue
							}
						}
					}
					// resultType = x.Type(): the alternative seeds the result type
					if k, ok := rootOf(st, rhs); ok {
						if tn, isType := actxTreeType(info.TypeOf(l)); isType && tn.Obj().Name() == "Type" {
							st.checked[k] = true
						}
						continue
					}
					delete(st.src, obj)
				}
			case *ast.ExprStmt:
				handleExpr(st, x.X)
			case *ast.DeclStmt:
				handleExpr(st, x)
			case *ast.ReturnStmt:
				for _, r := range x.Results {
					handleExpr(st, r)
					if cl, ok := ast.Unparen(r).(*ast.CompositeLit); ok {
						for _, el := range cl.Elts {
							kv, ok := el.(*ast.KeyValueExpr)
							if !ok {
								continue
							}
							if kid, ok := kv.Key.(*ast.Ident); ok && actxNonArmFields[kid.Name] {
								continue
							}
							actxArmKeep(info, st, kv.Value, kv.Pos(), arms)
						}
					}
				}
			}
			return st, true
		}
		w.OnLoopIter = func(loop ast.Stmt, before, after *actxArmState) {
			check(after, "at the end of a loop iteration")
		}
		w.Exit = func(st *actxArmState, o outcome) {
			if o.kind == cPanic {
				return
			}
			npaths++
			check(st, "at return")
		}
		w.Run(fd.Body, &actxArmState{src: map[types.Object]string{}, checked: map[string]bool{}, kept: map[string]token.Pos{}})
		key := fmt.Sprintf("homescript/analyzer.%s|%s", FuncName(fd), role)
		if w.Overflow || len(w.Unsupported) > 0 {
			out = append(out, Obligation{Key: key, Pos: c.Pos(fd.Pos()), Status: Undecided, Detail: "path enumeration incomplete"})
			continue
		}
		var names []string
		for k := range arms {
			names = append(names, k)
		}
		sort.Strings(names)
		// one obligation per alternative source
		bySrc := map[string][]viol{}
		for _, v := range viols {
			bySrc[v.src] = append(bySrc[v.src], v)
		}
		for _, k := range names {
			ob := Obligation{Key: key + "|" + k, Pos: c.Pos(fd.Pos()), Nontrivial: true}
			if vs := bySrc[k]; len(vs) > 0 {
				ob.Status = Violated
				ob.Pos = c.Pos(vs[0].pos)
				ob.Detail = fmt.Sprintf("the alternative analysed from %s is kept in the result (%s) but its type is neither passed to TypeCheck nor used to seed the result type %s", k, c.Pos(vs[0].pos), vs[0].path)
			} else {
				ob.Status = Discharged
				ob.Detail = fmt.Sprintf("%d paths: whenever the alternative analysed from %s is kept, its type went through TypeCheck (or seeded the result type)", npaths, k)
			}
			out = append(out, ob)
		}
	}
	for _, t := range actxArmNodeTypes {
		if !found[t] {
			out = append(out, Obligation{Key: "anchor|" + t, Status: Undecided, Detail: "no analyzer function returns ast." + t})
		}
	}
	return out
}

// actxArmKeep marks the alternatives mentioned in e (outside non-arm fields
// of nested literals) as kept.
func actxArmKeep(info *types.Info, st *actxArmState, e ast.Expr, pos token.Pos, arms map[string]bool) {
	var visit func(n ast.Node) bool
	visit = func(n ast.Node) bool {
		switch x := n.(type) {
		case *ast.KeyValueExpr:
			if kid, ok := x.Key.(*ast.Ident); ok && actxNonArmFields[kid.Name] {
				return false
			}
		case *ast.Ident:
			if k, ok := st.src[info.Uses[x]]; ok {
				if _, already := st.kept[k]; !already {
					st.kept[k] = pos
				}
			}
		}
		return true
	}
	ast.Inspect(e, visit)
}

// actxAlwaysExecuted: the parts of a function body that every activation
// executes: the straight-line top-level statements (and, withConds, the
// initialiser and condition of top-level ifs) up to the first statement that
// may leave the function early (a compound statement containing return /
// panic / a jump) or loop.
func actxAlwaysExecuted(body *ast.BlockStmt, withConds bool) []ast.Node {
	var out []ast.Node
	mayLeave := func(n ast.Node) bool {
		leaves := false
		ast.Inspect(n, func(x ast.Node) bool {
			switch y := x.(type) {
			case *ast.FuncLit:
				return false
			case *ast.ReturnStmt, *ast.BranchStmt:
				leaves = true
			case *ast.CallExpr:
				if id, ok := y.Fun.(*ast.Ident); ok && id.Name == "panic" {
					leaves = true
				}
			}
			return !leaves
		})
		return leaves
	}
	for _, st := range body.List {
		switch x := st.(type) {
		case *ast.AssignStmt, *ast.ExprStmt, *ast.DeclStmt, *ast.IncDecStmt:
			out = append(out, st)
		case *ast.ReturnStmt:
			out = append(out, st)
			return out
		case *ast.IfStmt:
			if withConds {
				if x.Init != nil {
					out = append(out, x.Init)
				}
				out = append(out, x.Cond)
			}
			if mayLeave(x) {
				return out
			}
		case *ast.DeferStmt:
		default:
			if mayLeave(st) {
				return out
			}
		}
	}
	return out
}
