package main

// R-sort-total (C14, C19, C15): a slice whose element order comes from a map
// range (or another order-unspecified source) is deterministic only after it
// has been sorted by an order that is *total on distinct elements*. R-map-order
// accepts "appended in the loop, sorted before any other use" and assumes the
// comparator is total; this rule discharges that assumption for every sort
// call of the pipeline packages.

import (
	"fmt"
	"go/ast"
	"go/token"
	"go/types"
	"strings"
)

func init() {
	register(&Rule{ID: "R-sort-total", Floor: 7, Run: ruleSortTotal,
		Doc: "C14/C15/C19: every sort call in the pipeline packages whose input order is not fixed (the slice is filled inside a range over a map, from maps.Keys/Values, or from a helper that does so) orders its distinct elements totally: sort.Strings/Ints/Float64s, slices.Sort, or a comparator (sort.Slice*/sort.Sort/slices.Sort*Func) that compares the two elements themselves, or a field that is filled from the (distinct) map key, with </>/Compare — possibly after coarser keys in a lexicographic chain. A comparator that only compares a non-injective projection of the elements (the same function applied to both sides: ToLower, len, Kind()…) leaves elements that tie in the order the map delivered them: the result (keys(), printed tables, emitted code) changes from run to run."})
}

type r2tSortCall struct {
	rel    string
	fname  string
	call   *ast.CallExpr
	fn     *types.Func
	scope  ast.Node // innermost enclosing FuncLit / FuncDecl
	info   *types.Info
	decls  map[*types.Func]*ast.FuncDecl
	keyStr string
}

func r2tSortKind(fn *types.Func) string {
	if fn == nil || fn.Pkg() == nil {
		return ""
	}
	switch fn.Pkg().Path() {
	case "sort":
		switch fn.Name() {
		case "Strings", "Ints", "Float64s":
			return "builtin"
		case "Slice", "SliceStable":
			return "less-index"
		case "Sort", "Stable":
			return "interface"
		}
	case "slices":
		switch fn.Name() {
		case "Sort", "Sorted":
			return "builtin"
		case "SortFunc", "SortStableFunc", "SortedFunc", "SortedStableFunc":
			return "cmp-elem"
		}
	}
	return ""
}

func ruleSortTotal(c *Ctx) []Obligation {
	var obs []Obligation
	for _, rel := range determPipelinePkgs {
		p := c.Pkg(rel)
		info := p.TypesInfo
		decls := map[*types.Func]*ast.FuncDecl{}
		for _, fd := range AllFuncDecls(p) {
			if fn, ok := info.Defs[fd.Name].(*types.Func); ok {
				decls[fn] = fd
			}
		}
		seen := map[string]int{}
		for _, f := range p.Syntax {
			for _, d := range f.Decls {
				fname := "<package initialiser>"
				if fd, ok := d.(*ast.FuncDecl); ok {
					if fd.Body == nil {
						continue
					}
					fname = FuncName(fd)
				}
				var stack []ast.Node
				ast.Inspect(d, func(n ast.Node) bool {
					if n == nil {
						stack = stack[:len(stack)-1]
						return true
					}
					stack = append(stack, n)
					call, ok := n.(*ast.CallExpr)
					if !ok {
						return true
					}
					fn := CalleeOf(info, call)
					if r2tSortKind(fn) == "" || len(call.Args) == 0 {
						return true
					}
					sc := &r2tSortCall{rel: rel, fname: fname, call: call, fn: fn, info: info, decls: decls}
					for i := len(stack) - 1; i >= 0; i-- {
						switch stack[i].(type) {
						case *ast.FuncLit, *ast.FuncDecl:
							sc.scope = stack[i]
						}
						if sc.scope != nil {
							break
						}
					}
					if sc.scope == nil {
						sc.scope = d
					}
					base := fmt.Sprintf("%s.%s|%s.%s(%s)", strings.TrimPrefix(rel, "homescript/"), fname, fn.Pkg().Name(), fn.Name(), exprStr(call.Args[0]))
					seen[base]++
					sc.keyStr = base
					if seen[base] > 1 {
						sc.keyStr = fmt.Sprintf("%s #%d", base, seen[base])
					}
					obs = append(obs, sc.decide(c))
					return true
				})
			}
		}
	}
	return obs
}

func (s *r2tSortCall) decide(c *Ctx) Obligation {
	o := Obligation{Key: s.keyStr, Pos: c.Pos(s.call.Pos()), Nontrivial: true}
	origin, owhy := s.origin(s.call.Args[0], 0)
	kind := r2tSortKind(s.fn)
	name := s.fn.Pkg().Name() + "." + s.fn.Name()
	if kind == "builtin" {
		o.Status = Discharged
		o.Detail = fmt.Sprintf("%s orders the elements themselves (total on distinct elements); input order: %s (%s)", name, origin, owhy)
		return o
	}
	cls, why := s.comparator(kind)
	switch {
	case cls == "total":
		o.Status, o.Detail = Discharged, fmt.Sprintf("%s: %s; input order: %s (%s)", name, why, origin, owhy)
	case origin == "fixed":
		o.Status, o.Detail = Discharged, fmt.Sprintf("%s: comparator %s (%s), but the input order is fixed (%s): the (deterministic) sort yields one result", name, cls, why, owhy)
	case cls == "non-total" && origin == "map":
		o.Status = Violated
		o.Detail = fmt.Sprintf("%s sorts a slice whose order is map iteration order (%s) with a comparator that is not total on distinct elements: %s. Elements that tie keep the order the map delivered them in, so the result differs from run to run.", name, owhy, why)
	case cls == "non-total":
		o.Status = Undecided
		o.Detail = fmt.Sprintf("%s: comparator is not total on distinct elements (%s) and the input order could not be shown to be fixed (%s)", name, why, owhy)
	default:
		o.Status = Undecided
		o.Detail = fmt.Sprintf("%s: cannot decide whether the comparator orders distinct elements totally (%s); input order: %s (%s)", name, why, origin, owhy)
	}
	return o
}

// ---- origin of the sorted slice ----

func r2tRootObj(info *types.Info, e ast.Expr) types.Object {
	for {
		e = ast.Unparen(e)
		switch x := e.(type) {
		case *ast.StarExpr:
			e = x.X
		case *ast.UnaryExpr:
			e = x.X
		case *ast.SliceExpr:
			e = x.X
		case *ast.Ident:
			return r2tObj(info, x)
		default:
			return nil
		}
	}
}

func r2tIsMapType(t types.Type) bool {
	if t == nil {
		return false
	}
	_, ok := t.Underlying().(*types.Map)
	return ok
}

// unorderedCall: maps.Keys / maps.Values / reflect MapKeys (possibly wrapped in slices.Collect etc.).
func r2tUnorderedCall(info *types.Info, e ast.Expr) string {
	found := ""
	ast.Inspect(e, func(n ast.Node) bool {
		call, ok := n.(*ast.CallExpr)
		if !ok {
			return true
		}
		if fn := CalleeOf(info, call); fn != nil && fn.Pkg() != nil {
			switch {
			case strings.HasSuffix(fn.Pkg().Path(), "maps") && (fn.Name() == "Keys" || fn.Name() == "Values" || fn.Name() == "All"):
				found = fn.Pkg().Name() + "." + fn.Name()
			case fn.Pkg().Path() == "reflect" && (fn.Name() == "MapKeys" || fn.Name() == "MapRange"):
				found = "reflect." + fn.Name()
			}
		}
		return true
	})
	return found
}

// origin: "map" (order is map iteration order), "fixed" (built only from
// ordered sources inside this function), "unknown".
func (s *r2tSortCall) origin(arg ast.Expr, depth int) (string, string) {
	if u := r2tUnorderedCall(s.info, arg); u != "" {
		return "map", "argument built by " + u
	}
	obj := r2tRootObj(s.info, arg)
	if obj == nil {
		return "unknown", "the sorted expression " + exprStr(arg) + " is not a local variable"
	}
	return s.originOf(s.scope, obj, depth, map[types.Object]bool{})
}

func (s *r2tSortCall) originOf(scope ast.Node, obj types.Object, depth int, visiting map[types.Object]bool) (string, string) {
	if depth > 3 || visiting[obj] {
		return "unknown", "derivation too deep"
	}
	visiting[obj] = true
	defer delete(visiting, obj)
	v, isVar := obj.(*types.Var)
	if !isVar || v.IsField() {
		return "unknown", obj.Name() + " is not a local variable"
	}
	if !(scope.Pos() <= obj.Pos() && obj.Pos() <= scope.End()) {
		return "unknown", obj.Name() + " is declared outside the function that sorts it"
	}
	// parameter?
	var ft *ast.FuncType
	switch x := scope.(type) {
	case *ast.FuncLit:
		ft = x.Type
	case *ast.FuncDecl:
		ft = x.Type
	}
	if ft != nil && ft.Params != nil && ft.Params.Pos() <= obj.Pos() && obj.Pos() <= ft.Params.End() {
		return "unknown", obj.Name() + " is a parameter"
	}
	info := s.info
	res, why := "fixed", "every element is appended outside map ranges from ordered sources"
	worse := func(r, w string) {
		if r == "map" || (r == "unknown" && res == "fixed") {
			if res != "map" {
				res, why = r, w
			}
		}
	}
	// walk with a stack of enclosing range statements
	var stack []ast.Node
	nwrites := 0
	ast.Inspect(scope, func(n ast.Node) bool {
		if n == nil {
			stack = stack[:len(stack)-1]
			return true
		}
		stack = append(stack, n)
		as, ok := n.(*ast.AssignStmt)
		if !ok {
			// &obj / obj passed by address to a call: give up
			if u, ok := n.(*ast.UnaryExpr); ok && u.Op == token.AND && r2tObj(info, u.X) == obj {
				worse("unknown", obj.Name()+" escapes by address")
			}
			return true
		}
		for i, l := range as.Lhs {
			target := ast.Unparen(l)
			if ix, ok := target.(*ast.IndexExpr); ok {
				target = ast.Unparen(ix.X)
			}
			if r2tObj(info, target) != obj {
				continue
			}
			nwrites++
			// enclosing map ranges (inside scope)
			for j := len(stack) - 1; j >= 0; j-- {
				if stack[j] == scope {
					break
				}
				if _, isLit := stack[j].(*ast.FuncLit); isLit {
					break
				}
				if rs, ok := stack[j].(*ast.RangeStmt); ok {
					if r2tIsMapType(info.TypeOf(rs.X)) {
						worse("map", fmt.Sprintf("%s is filled inside `for … := range %s` (a map)", obj.Name(), exprStr(rs.X)))
					} else if src := r2tRootObj(info, rs.X); src != nil && src != obj {
						if r, w := s.originOf(scope, src, depth+1, visiting); r != "fixed" {
							worse(r, fmt.Sprintf("%s is filled from %s: %s", obj.Name(), src.Name(), w))
						}
					} else if src == nil {
						if u := r2tUnorderedCall(info, rs.X); u != "" {
							worse("map", obj.Name()+" is filled while ranging over "+u)
						} else if _, isCall := ast.Unparen(rs.X).(*ast.CallExpr); isCall {
							worse("unknown", obj.Name()+" is filled while ranging over the result of "+exprStr(rs.X))
						}
					}
				}
			}
			if len(as.Rhs) != len(as.Lhs) {
				worse("unknown", obj.Name()+" is assigned from a multi-value call")
				continue
			}
			rhs := ast.Unparen(as.Rhs[i])
			if u := r2tUnorderedCall(info, rhs); u != "" {
				worse("map", obj.Name()+" is built by "+u)
				continue
			}
			switch rx := rhs.(type) {
			case *ast.CompositeLit:
			case *ast.CallExpr:
				switch {
				case r2tIsBuiltin(info, rx, "make"):
				case r2tIsBuiltin(info, rx, "append"):
					// append(obj, elems...) / append(obj, other...)
					for ai, a := range rx.Args {
						if ai == 0 {
							if src := r2tRootObj(info, a); src != nil && src != obj {
								if r, w := s.originOf(scope, src, depth+1, visiting); r != "fixed" {
									worse(r, w)
								}
							}
							continue
						}
						if rx.Ellipsis.IsValid() && ai == len(rx.Args)-1 {
							if src := r2tRootObj(info, a); src != nil && src != obj {
								if r, w := s.originOf(scope, src, depth+1, visiting); r != "fixed" {
									worse(r, fmt.Sprintf("%s receives the elements of %s: %s", obj.Name(), src.Name(), w))
								}
							} else if src == nil {
								worse("unknown", obj.Name()+" receives the elements of "+exprStr(a))
							}
						}
					}
				default:
					// in-module helper returning a slice: look at what it returns
					if fd := s.decls[CalleeOf(info, rx)]; fd != nil && depth < 2 {
						r, w := s.helperOrigin(fd, depth+1)
						if r != "fixed" {
							worse(r, fmt.Sprintf("%s is returned by %s: %s", obj.Name(), fd.Name.Name, w))
						}
					} else {
						worse("unknown", obj.Name()+" is computed by "+exprStr(rx.Fun))
					}
				}
			case *ast.Ident:
				if src := r2tObj(info, rx); src != nil && src != obj {
					if _, isNil := src.(*types.Nil); !isNil {
						if r, w := s.originOf(scope, src, depth+1, visiting); r != "fixed" {
							worse(r, w)
						}
					}
				}
			default:
				worse("unknown", obj.Name()+" is assigned "+exprStr(rhs))
			}
		}
		return true
	})
	if nwrites == 0 && res == "fixed" {
		return "unknown", obj.Name() + " is never assigned in the sorting function"
	}
	return res, why
}

// helperOrigin: origin of the slice a helper returns (single returned local).
func (s *r2tSortCall) helperOrigin(fd *ast.FuncDecl, depth int) (string, string) {
	var objs []types.Object
	bad := false
	ast.Inspect(fd.Body, func(n ast.Node) bool {
		if _, ok := n.(*ast.FuncLit); ok {
			return false
		}
		if r, ok := n.(*ast.ReturnStmt); ok && len(r.Results) > 0 {
			if u := r2tUnorderedCall(s.info, r.Results[0]); u != "" {
				objs = nil
				bad = true
				return true
			}
			if o := r2tRootObj(s.info, r.Results[0]); o != nil {
				objs = append(objs, o)
			} else {
				bad = true
			}
		}
		return true
	})
	if bad || len(objs) == 0 {
		return "unknown", "cannot see what " + fd.Name.Name + " returns"
	}
	res, why := "fixed", ""
	for _, o := range objs {
		r, w := s.originOf(fd, o, depth, map[types.Object]bool{})
		if r == "map" {
			return r, w
		}
		if r != "fixed" {
			res, why = r, w
		}
	}
	return res, why
}

// ---- comparator ----

type r2tCmp struct {
	s     *r2tSortCall
	info  *types.Info
	a, b  types.Object // index or element parameters
	index bool         // a, b are indices into the slice
	slice types.Object // the sorted slice (index form); nil: any indexing by a/b counts
}

// comparator: "total" | "non-total" | "undecided".
func (s *r2tSortCall) comparator(kind string) (string, string) {
	info := s.info
	var ft *ast.FuncType
	var body *ast.BlockStmt
	cm := &r2tCmp{s: s, info: info}
	switch kind {
	case "less-index", "cmp-elem":
		if len(s.call.Args) < 2 {
			return "undecided", "no comparator argument"
		}
		switch f := ast.Unparen(s.call.Args[1]).(type) {
		case *ast.FuncLit:
			ft, body = f.Type, f.Body
		default:
			if fn := CalleeOfExpr(info, f); fn != nil {
				if fd := s.decls[fn]; fd != nil {
					ft, body = fd.Type, fd.Body
				} else if fn.Pkg() != nil && (fn.FullName() == "strings.Compare" || fn.FullName() == "cmp.Compare") {
					return "total", "comparator " + fn.FullName() + " compares the elements themselves"
				}
			}
		}
		if body == nil {
			return "undecided", "comparator " + exprStr(s.call.Args[1]) + " has no visible body"
		}
		cm.index = kind == "less-index"
		if cm.index {
			cm.slice = r2tRootObj(info, s.call.Args[0])
		}
	case "interface":
		t := info.TypeOf(s.call.Args[0])
		if call, ok := ast.Unparen(s.call.Args[0]).(*ast.CallExpr); ok && len(call.Args) == 1 {
			// sort.Sort(byX(slice)) / sort.Sort(sort.StringSlice(x))
			t = info.TypeOf(call)
		}
		if n, ok := types.Unalias(t).(*types.Named); ok && n.Obj().Pkg() != nil && n.Obj().Pkg().Path() == "sort" {
			switch n.Obj().Name() {
			case "StringSlice", "IntSlice", "Float64Slice":
				return "total", "sort." + n.Obj().Name() + " orders the elements themselves"
			}
		}
		var less *ast.FuncDecl
		for fn, fd := range s.decls {
			if fn.Name() != "Less" || fd.Recv == nil {
				continue
			}
			if rt := info.TypeOf(fd.Recv.List[0].Type); rt != nil && t != nil && (types.Identical(rt, t) || types.Identical(types.NewPointer(rt), t) || types.Identical(rt, types.NewPointer(t))) {
				less = fd
			}
		}
		if less == nil {
			return "undecided", "Less method of " + exprStr(s.call.Args[0]) + " not found in the package"
		}
		ft, body = less.Type, less.Body
		cm.index = true
		if len(less.Recv.List[0].Names) == 1 {
			cm.slice = info.Defs[less.Recv.List[0].Names[0]]
		}
	}
	var params []types.Object
	for _, f := range ft.Params.List {
		for _, nm := range f.Names {
			params = append(params, info.Defs[nm])
		}
	}
	if len(params) != 2 || params[0] == nil || params[1] == nil {
		return "undecided", "comparator does not have two named parameters"
	}
	cm.a, cm.b = params[0], params[1]
	levels, why := cm.body(body.List)
	if levels == nil {
		return "undecided", why
	}
	return r2tJudge(levels)
}

// CalleeOfExpr: function object a (non-call) expression denotes.
func CalleeOfExpr(info *types.Info, e ast.Expr) *types.Func {
	switch f := ast.Unparen(e).(type) {
	case *ast.Ident:
		fn, _ := info.Uses[f].(*types.Func)
		return fn
	case *ast.SelectorExpr:
		fn, _ := info.Uses[f.Sel].(*types.Func)
		return fn
	}
	return nil
}

// one level of a lexicographic comparison
type r2tLevel struct {
	class string // "element" | "keyfield" | "field" | "projection" | "unknown"
	desc  string
}

func r2tJudge(levels []r2tLevel) (string, string) {
	var descs []string
	anyField, anyUnknown := false, false
	for _, l := range levels {
		descs = append(descs, l.desc)
		switch l.class {
		case "element", "keyfield":
			return "total", "the comparator orders by " + strings.Join(descs, ", then ") + ": distinct elements never tie at the level `" + l.desc + "`"
		case "field":
			anyField = true
		case "unknown":
			anyUnknown = true
		}
	}
	d := "it orders by " + strings.Join(descs, ", then ")
	if anyUnknown || anyField {
		return "undecided", d + "; a compared field was not seen to be filled from the map key, so distinct elements may tie"
	}
	return "non-total", d + " — only a projection of the elements (the same function applied to both sides); two distinct elements with equal projection compare as equal"
}

// side: which element (1 = first, 2 = second) an expression is a view of and
// through which projection. proj == "" : the element itself.
func (cm *r2tCmp) side(e ast.Expr) (which int, proj string, class string) {
	e = ast.Unparen(e)
	info := cm.info
	switch x := e.(type) {
	case *ast.Ident:
		if !cm.index {
			switch r2tObj(info, x) {
			case cm.a:
				return 1, "", "element"
			case cm.b:
				return 2, "", "element"
			}
		}
		// a local defined once from an element view: `x := s[i]`
		if def := cm.localDef(x); def != nil {
			return cm.side(def)
		}
	case *ast.IndexExpr:
		if cm.index {
			switch r2tObj(info, x.Index) {
			case cm.a:
				return 1, "", "element"
			case cm.b:
				return 2, "", "element"
			}
		}
	case *ast.StarExpr:
		return cm.side(x.X)
	case *ast.SelectorExpr:
		if v, ok := info.Uses[x.Sel].(*types.Var); ok && v.IsField() {
			w, p, cl := cm.side(x.X)
			if w != 0 {
				if cl == "projection" {
					return w, p + "." + v.Name(), "projection"
				}
				return w, p + "." + v.Name(), "field"
			}
		}
	case *ast.TypeAssertExpr:
		return cm.side(x.X)
	case *ast.CallExpr:
		// conversion: transparent when it keeps the value (string <-> named string, int widths ignored)
		if tv, ok := info.Types[x.Fun]; ok && tv.IsType() && len(x.Args) == 1 {
			from, to := info.TypeOf(x.Args[0]), tv.Type
			if from != nil && types.Identical(from.Underlying(), to.Underlying()) {
				return cm.side(x.Args[0])
			}
			w, p, _ := cm.side(x.Args[0])
			if w != 0 {
				return w, exprStr(x.Fun) + "(" + p + ")", "projection"
			}
			return 0, "", ""
		}
		// method call on an element view, or a function applied to exactly one element view
		var views []ast.Expr
		if sel, ok := ast.Unparen(x.Fun).(*ast.SelectorExpr); ok {
			if _, isFn := info.Uses[sel.Sel].(*types.Func); isFn {
				if sl := info.Selections[sel]; sl != nil {
					views = append(views, sel.X)
				}
			}
		}
		views = append(views, x.Args...)
		found, fp := 0, ""
		for _, a := range views {
			if w, p, _ := cm.side(a); w != 0 {
				if found != 0 && found != w {
					return 0, "", ""
				}
				found, fp = w, p
			}
		}
		if found != 0 {
			fname := exprStr(x.Fun)
			if sel, ok := ast.Unparen(x.Fun).(*ast.SelectorExpr); ok {
				if sl := info.Selections[sel]; sl != nil {
					fname = "." + sel.Sel.Name
				}
			}
			return found, fname + "(" + fp + ")", "projection"
		}
	}
	return 0, "", ""
}

// localDef: the single defining expression of a comparator-local variable.
func (cm *r2tCmp) localDef(id *ast.Ident) ast.Expr {
	obj := r2tObj(cm.info, id)
	if obj == nil {
		return nil
	}
	var def ast.Expr
	n := 0
	var scope ast.Node = cm.s.scope
	ast.Inspect(scope, func(nd ast.Node) bool {
		as, ok := nd.(*ast.AssignStmt)
		if !ok {
			return true
		}
		for i, l := range as.Lhs {
			if r2tObj(cm.info, l) == obj && obj.Pos() == l.Pos() {
				n++
				if len(as.Rhs) == len(as.Lhs) {
					def = as.Rhs[i]
				} else if len(as.Rhs) == 1 {
					if ta, ok := ast.Unparen(as.Rhs[0]).(*ast.TypeAssertExpr); ok && i == 0 {
						def = ta
					}
				}
			}
		}
		return true
	})
	if n != 1 {
		return nil
	}
	// defined inside the comparator only (positions after the parameters)
	if obj.Pos() < cm.a.Pos() {
		return nil
	}
	return def
}

// pair: the level two compared operands form.
func (cm *r2tCmp) pair(l, r ast.Expr) (r2tLevel, bool) {
	wl, pl, cl := cm.side(l)
	wr, pr, cr := cm.side(r)
	if wl == 0 || wr == 0 || wl == wr {
		return r2tLevel{class: "unknown", desc: exprStr(l) + " vs " + exprStr(r)}, false
	}
	if pl != pr || cl != cr {
		return r2tLevel{class: "unknown", desc: "different views " + exprStr(l) + " vs " + exprStr(r)}, true
	}
	switch cl {
	case "element":
		return r2tLevel{class: "element", desc: "the elements themselves"}, true
	case "field":
		if cm.fieldIsKey(pl) {
			return r2tLevel{class: "keyfield", desc: "field " + strings.TrimPrefix(pl, ".") + " (filled from the map key)"}, true
		}
		return r2tLevel{class: "field", desc: "field " + strings.TrimPrefix(pl, ".")}, true
	default:
		return r2tLevel{class: "projection", desc: pl}, true
	}
}

// fieldIsKey: the sorted slice is filled, inside a map range, with composite
// literals whose field `path` (single component) is the loop key.
func (cm *r2tCmp) fieldIsKey(path string) bool {
	path = strings.TrimPrefix(path, ".")
	if strings.Contains(path, ".") {
		return false
	}
	info := cm.info
	s := cm.s
	target := r2tRootObj(info, s.call.Args[0])
	if target == nil {
		return false
	}
	okAll, n := true, 0
	var stack []ast.Node
	ast.Inspect(s.scope, func(nd ast.Node) bool {
		if nd == nil {
			stack = stack[:len(stack)-1]
			return true
		}
		stack = append(stack, nd)
		as, ok := nd.(*ast.AssignStmt)
		if !ok || len(as.Lhs) != 1 || len(as.Rhs) != 1 || r2tObj(info, as.Lhs[0]) != target {
			return true
		}
		call, ok := ast.Unparen(as.Rhs[0]).(*ast.CallExpr)
		if !ok || !r2tIsBuiltin(info, call, "append") {
			return true
		}
		var key types.Object
		for j := len(stack) - 1; j >= 0; j-- {
			if rs, ok := stack[j].(*ast.RangeStmt); ok && r2tIsMapType(info.TypeOf(rs.X)) && rs.Key != nil {
				key = r2tObj(info, rs.Key)
				break
			}
		}
		for _, a := range call.Args[1:] {
			n++
			e := ast.Unparen(a)
			if u, ok := e.(*ast.UnaryExpr); ok && u.Op == token.AND {
				e = ast.Unparen(u.X)
			}
			cl, ok := e.(*ast.CompositeLit)
			if !ok || key == nil {
				okAll = false
				continue
			}
			hit := false
			for _, el := range cl.Elts {
				if kv, ok := el.(*ast.KeyValueExpr); ok {
					if id, ok := kv.Key.(*ast.Ident); ok && id.Name == path && r2tObj(info, kv.Value) == key {
						hit = true
					}
				}
			}
			if !hit {
				okAll = false
			}
		}
		return true
	})
	return okAll && n > 0
}

// body: the levels of the lexicographic order the comparator implements, or nil.
func (cm *r2tCmp) body(list []ast.Stmt) ([]r2tLevel, string) {
	var levels []r2tLevel
	for idx, st := range list {
		switch x := st.(type) {
		case *ast.AssignStmt, *ast.DeclStmt:
			continue // local views, resolved through localDef
		case *ast.IfStmt:
			// if pA != pB { return pA < pB }   |   if c := cmp(pA, pB); c != 0 { return c }
			if x.Else != nil || len(x.Body.List) != 1 {
				return nil, "unsupported if/else in the comparator"
			}
			ret, ok := x.Body.List[0].(*ast.ReturnStmt)
			if !ok || len(ret.Results) != 1 {
				return nil, "unsupported branch in the comparator"
			}
			var condLevel *r2tLevel
			if x.Init != nil {
				if as, ok := x.Init.(*ast.AssignStmt); ok && len(as.Rhs) == 1 {
					if lv, ok := cm.cmpCall(as.Rhs[0]); ok {
						condLevel = &lv[0]
						if len(lv) > 1 {
							levels = append(levels, lv[:len(lv)-1]...)
							condLevel = &lv[len(lv)-1]
						}
					}
				}
			} else if be, ok := ast.Unparen(x.Cond).(*ast.BinaryExpr); ok && (be.Op == token.NEQ || be.Op == token.LSS || be.Op == token.GTR) {
				if lv, ok := cm.pair(be.X, be.Y); ok {
					condLevel = &lv
				}
			}
			if condLevel == nil {
				return nil, "unsupported condition `" + exprStr(x.Cond) + "` in the comparator"
			}
			levels = append(levels, *condLevel)
		case *ast.ReturnStmt:
			if len(x.Results) != 1 {
				return nil, "unsupported return"
			}
			lv, why := cm.expr(x.Results[0])
			if lv == nil {
				// `return false` / `return 0` after decisive ifs: ties stay ties
				if tv := cm.info.Types[x.Results[0]]; tv.Value != nil && idx == len(list)-1 && len(levels) > 0 {
					return levels, ""
				}
				return nil, why
			}
			return append(levels, lv...), ""
		default:
			return nil, "unsupported statement in the comparator"
		}
	}
	return nil, "comparator does not end in a return"
}

// cmpCall: strings.Compare(x, y) / cmp.Compare(x, y) / cmp.Or(...)
func (cm *r2tCmp) cmpCall(e ast.Expr) ([]r2tLevel, bool) {
	call, ok := ast.Unparen(e).(*ast.CallExpr)
	if !ok {
		return nil, false
	}
	fn := CalleeOf(cm.info, call)
	if fn == nil || fn.Pkg() == nil {
		return nil, false
	}
	switch fn.FullName() {
	case "strings.Compare", "cmp.Compare", "bytes.Compare":
		if len(call.Args) == 2 {
			lv, ok := cm.pair(call.Args[0], call.Args[1])
			return []r2tLevel{lv}, ok
		}
	case "cmp.Or":
		var out []r2tLevel
		for _, a := range call.Args {
			lv, ok := cm.cmpCall(a)
			if !ok {
				return nil, false
			}
			out = append(out, lv...)
		}
		return out, len(out) > 0
	}
	return nil, false
}

// expr: levels of a boolean / int comparator expression.
func (cm *r2tCmp) expr(e ast.Expr) ([]r2tLevel, string) {
	e = ast.Unparen(e)
	if lv, ok := cm.cmpCall(e); ok {
		return lv, ""
	}
	be, ok := e.(*ast.BinaryExpr)
	if !ok {
		return nil, "unsupported comparator result `" + exprStr(e) + "`"
	}
	switch be.Op {
	case token.LSS, token.GTR, token.LEQ, token.GEQ:
		// strings.Compare(x, y) < 0
		if lv, ok := cm.cmpCall(be.X); ok {
			return lv, ""
		}
		lv, ok := cm.pair(be.X, be.Y)
		if !ok {
			return nil, "the comparator compares `" + exprStr(be.X) + "` with `" + exprStr(be.Y) + "`, which are not views of the two elements"
		}
		return []r2tLevel{lv}, ""
	case token.LOR:
		// L1 || (EQ && L2)
		l1, why := cm.expr(be.X)
		if l1 == nil {
			return nil, why
		}
		if and, ok := ast.Unparen(be.Y).(*ast.BinaryExpr); ok && and.Op == token.LAND {
			if eq, ok := ast.Unparen(and.X).(*ast.BinaryExpr); ok && eq.Op == token.EQL {
				if _, ok := cm.pair(eq.X, eq.Y); ok {
					l2, why := cm.expr(and.Y)
					if l2 == nil {
						return nil, why
					}
					return append(l1, l2...), ""
				}
			}
		}
		return nil, "unsupported disjunction in the comparator"
	}
	return nil, "unsupported comparator result `" + exprStr(e) + "`"
}
