package main

// r5print: R-print-order — a printer emits the elements of a list in the order of the list.

import (
	"fmt"
	"go/types"
)

func init() {
	register(&Rule{ID: "R-print-order", Floor: 22, Run: ruleR5pPrintOrder,
		Doc: "For every String() method of a node struct of parser/ast and analyzer/ast and every slice-typed field of the receiver that the print role requires (statements, arguments, list values, object fields, match arms, parameters, " +
			"import items, annotation items …): the texts collected from the list reach the returned string in the order of the list — no sort.* / slices.Sort* / Reverse / rand.Shuffle is applied to (a local holding) those texts or to the list " +
			"itself on any path. Necessary: the order of a list in the AST is the order of evaluation and of declaration; the field initialisers of an object literal, the arguments of a call and the statements of a block are executed in list " +
			"order by both engines, so a printer that emits them in a canonical (sorted) order prints a program whose side effects happen in another order (C19; C20 through the fuzzer's serialisation). Go maps are not lists: sorting the keys of a map is not covered here."})
}

func ruleR5pPrintOrder(c *Ctx) []Obligation {
	res := r2pPrintRun(c)
	var obs []Obligation
	for _, mi := range res.methods {
		for _, f := range mi.s.Fields {
			if travNeed(rolePrint, f) != 2 {
				continue
			}
			if _, isSlice := types.Unalias(f.Var.Type()).Underlying().(*types.Slice); !isSlice {
				continue
			}
			if len(mi.fmts[f.Name]) == 0 && mi.reorder[f.Name] == "" {
				continue // never printed by this method: R-traversal's business
			}
			ob := Obligation{Key: travFuncKey(mi.pkg, mi.fd) + "|" + f.Name + "|list printed in source order", Pos: c.Pos(mi.fd.Pos()), Nontrivial: true}
			if w := mi.reorder[f.Name]; w != "" {
				ob.Status = Violated
				ob.Detail = fmt.Sprintf("%s.String() reorders the texts of the list %s before printing them (%s): the elements of the list are evaluated / declared in list order, the printed program evaluates them in the new order",
					mi.s.Short(), f.Name, w)
			} else {
				ob.Status, ob.Detail = Discharged, fmt.Sprintf("the elements of %s.%s are printed in list order on every path", mi.s.Short(), f.Name)
			}
			obs = append(obs, ob)
		}
	}
	return obs
}
