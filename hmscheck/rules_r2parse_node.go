package main

import (
	"fmt"
	"go/ast"
	"go/token"
	"go/types"
)

// R-node-fields (C07): the tree a parser method returns is assembled from
// exactly the pieces it parsed and received.
//
//   (drop)     the node result of a parser-method call is never discarded
//              (bound to `_` or called as a statement): a parsed construct that
//              is dropped disappears from the tree while its tokens are gone.
//              (The Go compiler already rejects an unused local, so `_` and the
//              bare call are the only ways to drop a sub-tree.)
//   (param)    every parameter that carries syntax — an AST node, the tree built
//              so far, a start location, an operator / modifier enum of package
//              ast, a boolean that does not steer a branch — reaches the node
//              returned on every successful path (as a field value, inside a
//              span, or as an argument of the builder the result comes from).
//              Go does not report unused parameters: deleting `Lhs: lhs` or
//              `IsPub: isPub` from a literal compiles.
//   (distinct) two node-valued fields of one literal never hold the same parse
//              result / the same parameter (Lhs: lhs, Rhs: lhs).

func init() {
	register(&Rule{ID: "R-node-fields", Floor: 60, Run: ruleR2parseNodeFields,
		Doc: "on every successful path of every parser method that returns a node: (drop) no node-typed result of a parser-method call is discarded (`_ =` / bare call statement) — the construct's tokens would be consumed but missing from the tree; (param) every syntax-carrying parameter (AST node, expression tree built so far, start location, operator/modifier enum of package ast, non-steering bool) reaches the returned node (field value, span start, or argument of the builder whose result is returned) — Go accepts unused parameters, so a deleted `Lhs: lhs` / `IsPub: isPub` / `Operator: operator` compiles and yields a tree that ignores part of the input; (distinct) no two node-valued fields of one node literal hold the same parse result or parameter. Necessary for C07: the tree is the one the grammar fixes only if every parsed operand is in it, once."})
}

func ruleR2parseNodeFields(c *Ctx) []Obligation {
	e := r2parseEngineOf(c)
	var obs []Obligation
	e.stable(func() { obs = r2parseNodeFields(e) })
	return obs
}

func (e *r2parseEngine) isNodeType(t types.Type) bool {
	if t == nil {
		return false
	}
	if types.Identical(t, e.exprT) {
		return true
	}
	if s, ok := t.Underlying().(*types.Slice); ok {
		return e.isNodeType(s.Elem())
	}
	if p, ok := t.(*types.Pointer); ok {
		return e.isNodeType(p.Elem())
	}
	if !e.sp.isAstType(t) {
		return false
	}
	// node = struct or interface of package ast (enums are not nodes)
	switch t.Underlying().(type) {
	case *types.Struct, *types.Interface:
		return true
	}
	return false
}

// r2parseReaches: does the value tree v mention parameter p?
func r2parseReaches(v *r2parseVal, p types.Object, seen map[*r2parseVal]bool) bool {
	if v == nil || seen[v] {
		return false
	}
	seen[v] = true
	if (v.k == r2parseParam || v.fromParam) && v.obj == p {
		return true
	}
	for _, f := range v.fields {
		if r2parseReaches(f, p, seen) {
			return true
		}
	}
	for _, a := range v.args {
		if r2parseReaches(a, p, seen) {
			return true
		}
	}
	for _, a := range v.elems {
		if r2parseReaches(a, p, seen) {
			return true
		}
	}
	return r2parseReaches(v.start, p, seen) || r2parseReaches(v.end, p, seen) || r2parseReaches(v.base, p, seen)
}

func r2parseNodeFields(e *r2parseEngine) []Obligation {
	aggs := &r2parseAggSet{}
	for _, fd := range e.fds {
		fd := fd
		fn := e.fnOf[fd]
		sig := fn.Type().(*types.Signature)
		fkey := e.funcKey(fd)
		returnsNode := sig.Results().Len() > 0 && e.isNodeType(sig.Results().At(0).Type())
		// syntax-carrying parameters
		type carried struct {
			obj  *types.Var
			what string
		}
		var params []carried
		if returnsNode {
			for i := 0; i < sig.Params().Len(); i++ {
				p := sig.Params().At(i)
				t := p.Type()
				switch {
				case p.Name() == "" || p.Name() == "_":
				case e.isNodeType(t):
					params = append(params, carried{p, "node"})
				case types.Identical(t, e.sp.locT):
					params = append(params, carried{p, "start location"})
				case e.sp.isAstType(t):
					params = append(params, carried{p, "operator/modifier"})
				default:
					if b, ok := t.Underlying().(*types.Basic); ok && b.Kind() == types.Bool && !e.steers(fd, p) {
						params = append(params, carried{p, "flag"})
					}
				}
			}
		}
		makesNodeCalls := false
		ast.Inspect(fd.Body, func(n ast.Node) bool {
			if call, ok := n.(*ast.CallExpr); ok {
				if g := CalleeOf(e.info, call); g != nil && e.sp.isConsumer(g) {
					if gs := g.Type().(*types.Signature); gs.Results().Len() > 0 && e.isNodeType(gs.Results().At(0).Type()) {
						makesNodeCalls = true
					}
				}
			}
			return true
		})
		if !returnsNode && !makesNodeCalls {
			continue
		}
		run := e.newRun(fd, nil)
		flagSeen := map[*types.Var]bool{}
		flagPaths := map[*types.Var]int{}
		dropKey := fkey + "|no parsed sub-tree is dropped"
		if makesNodeCalls {
			aggs.get(dropKey, fd.Pos())
		}
		for _, p := range params {
			aggs.get(fkey+"|parameter "+p.obj.Name()+" ("+p.what+") reaches the returned node", fd.Pos())
		}
		dropped := func(st *r2parseState, pos token.Pos, v *r2parseVal, how string) {
			if v == nil || v.k != r2parseCall || v.fn == nil {
				return
			}
			gs := v.fn.Type().(*types.Signature)
			if v.idx >= gs.Results().Len() || !e.isNodeType(gs.Results().At(v.idx).Type()) {
				return
			}
			st.pend = append(st.pend, r2parsePend{what: "drop", pos: pos, aux: fmt.Sprintf("the tree returned by %s() at %s is %s", v.fn.Name(), e.c.Pos(pos), how)})
		}
		run.obs.bind = func(st *r2parseState, as *ast.AssignStmt, lhs ast.Expr, v *r2parseVal) {
			if id, ok := ast.Unparen(lhs).(*ast.Ident); ok && id.Name == "_" {
				dropped(st, as.Pos(), v, "assigned to `_`")
			}
		}
		run.obs.exprStmt = func(st *r2parseState, s *ast.ExprStmt, v *r2parseVal) {
			dropped(st, s.Pos(), v, "discarded (call used as a statement)")
		}
		run.obs.exit = func(st *r2parseState, o outcome, success bool, results []*r2parseVal) {
			if !success {
				return
			}
			if makesNodeCalls {
				a := aggs.get(dropKey, fd.Pos())
				a.seen++
				for _, p := range st.pend {
					if p.what == "drop" {
						a.fail(Violated, p.aux+": its tokens are consumed but the construct is missing from the tree; path "+st.path())
					}
				}
				if a.status == Discharged {
					a.notes["every node result is bound to a variable (the compiler enforces its use)"] = true
				}
			}
			if !returnsNode || len(results) == 0 {
				return
			}
			res := results[0]
			if res.k == r2parseZero || res.k == r2parseUnknown {
				return
			}
			// a path on which the method builds nothing itself (it forwards a parameter) owes nothing
			// (it forwards a parameter, or the result of a call that received none of its inputs)
			builds := res.k == r2parseNode
			if res.k == r2parseCall {
				for _, p := range params {
					if p.what != "flag" && r2parseReaches(res, p.obj, map[*r2parseVal]bool{}) {
						builds = true
					}
				}
			}
			for _, p := range params {
				a := aggs.get(fkey+"|parameter "+p.obj.Name()+" ("+p.what+") reaches the returned node", fd.Pos())
				reach := false
				for _, r := range results {
					if r2parseReaches(r, p.obj, map[*r2parseVal]bool{}) {
						reach = true
					}
				}
				if p.what == "flag" {
					// a stored flag: decided over all paths (below)
					if reach {
						flagSeen[p.obj] = true
					}
					flagPaths[p.obj]++
					continue
				}
				if !builds {
					continue
				}
				a.seen++
				if reach {
					a.notes["reaches "+res.desc] = true
				} else {
					a.fail(Violated, fmt.Sprintf("the %s parameter %s does not reach the returned %s: that part of the input is ignored by the tree; path %s", p.what, p.obj.Name(), res.desc, st.path()))
				}
			}
			// distinct origins inside every literal of the result
			var visit func(v *r2parseVal, depth int)
			seen := map[*r2parseVal]bool{}
			visit = func(v *r2parseVal, depth int) {
				if v == nil || seen[v] || depth > 6 {
					return
				}
				seen[v] = true
				if v.k == r2parseNode && v.lit != nil {
					if _, isLit := v.lit.(*ast.CompositeLit); isLit {
						key := fkey + "|" + spTypeName(v.typ) + ": node-valued fields hold distinct parse results"
						byOrigin := map[string]string{}
						n := 0
						for name, f := range v.fields {
							var origin string
							switch {
							case f.k == r2parseCall && f.call != nil && e.isNodeType(f.typ):
								origin = fmt.Sprintf("call@%d#%d", f.call.Pos(), f.idx)
							case f.k == r2parseParam && e.isNodeType(f.typ):
								origin = "param " + f.obj.Name()
							default:
								continue
							}
							n++
							if other, dup := byOrigin[origin]; dup {
								a := aggs.get(key, v.lit.Pos())
								lo, hi := other, name
								if lo > hi {
									lo, hi = hi, lo
								}
								a.fail(Violated, fmt.Sprintf("fields %s and %s hold the same value (%s): one operand appears twice, another is lost; path %s", lo, hi, f.desc, st.path()))
							}
							byOrigin[origin] = name
						}
						if n >= 2 {
							a := aggs.get(key, v.lit.Pos())
							a.seen++
							if a.status == Discharged {
								a.notes[fmt.Sprintf("%d node-valued fields, pairwise distinct origins", n)] = true
							}
						}
					}
				}
				for _, f := range v.fields {
					visit(f, depth+1)
				}
				for _, f := range v.elems {
					visit(f, depth+1)
				}
			}
			visit(res, 0)
		}
		run.walk()
		for _, p := range params {
			if p.what != "flag" || flagPaths[p.obj] == 0 {
				continue
			}
			a := aggs.get(fkey+"|parameter "+p.obj.Name()+" ("+p.what+") reaches the returned node", fd.Pos())
			a.seen += flagPaths[p.obj]
			if flagSeen[p.obj] {
				a.notes["stored into / returned with the node"] = true
			} else {
				a.fail(Violated, fmt.Sprintf("the boolean parameter %s neither steers a branch nor reaches any returned value on any of the %d successful paths: the caller's choice is ignored by the tree", p.obj.Name(), flagPaths[p.obj]))
			}
		}
		for _, u := range run.undec {
			aggs.get(fkey+"|walk", fd.Pos()).fail(Undecided, u)
		}
	}
	return aggs.obligations(e.c)
}
