package main

import (
	"fmt"
	"go/ast"
	"go/types"
	"sort"
	"strings"
)

// R-diag-span: where the analyzer's diagnostics get their position from.

func init() {
	register(&Rule{ID: "R-diag-span", Floor: 120, Run: ruleDiagSpan,
		Doc: "every diagnostic built in package analyzer (diagnostic.Diagnostic literal, or a call of a helper whose span parameter flows into one) takes its span from a value that carries its own file name: the span of an AST node / type / variable (method Span(), a field of type errors.Span, a span parameter or a local derived from those), the explicit whole-file span errors.Span{Filename: f} with a non-constant f, or a span combined from two locations of the SAME node whose order is established (own start → descendant, or two children whose token order is derived from the parser's construction of that node type) and whose Filename comes from that node. A zero errors.Span{} as the position of a diagnostic has neither file nor place; two locations in the wrong order give End before Start (negative Repeat count in the renderer)."})
}

type dgRoles struct {
	c      *Ctx
	pkgs   []string
	spanT  *types.Named
	locT   *types.Named
	diagT  *types.Named
	until  *types.Func
	astPkg string
	// functions with span parameters that flow into a diagnostic: fn -> param index set
	flow  map[*types.Func]map[int]bool
	decls map[*types.Func]*ast.FuncDecl
}

type dgUse struct {
	fd   *ast.FuncDecl
	pkg  string
	info *types.Info
	expr ast.Expr
	what string // "Diagnostic literal" / "error()" …
	// env: parameters of a span helper being evaluated, bound to the operands
	// of the call (in the context of the caller)
	env map[types.Object]dgBound
}

type dgBound struct {
	e ast.Expr
	u dgUse
}

// dgSingleDef: the defining expression of a local that is defined exactly once
// and never assigned again.
func dgSingleDef(info *types.Info, fd *ast.FuncDecl, obj types.Object) ast.Expr {
	var def ast.Expr
	n := 0
	ast.Inspect(fd.Body, func(m ast.Node) bool {
		switch x := m.(type) {
		case *ast.AssignStmt:
			for i, l := range x.Lhs {
				if lid, ok := l.(*ast.Ident); ok && (info.Defs[lid] == obj || info.Uses[lid] == obj) {
					n++
					if len(x.Lhs) == len(x.Rhs) {
						def = x.Rhs[i]
					} else {
						n++
					}
				}
			}
		case *ast.ValueSpec:
			for i, nm := range x.Names {
				if info.Defs[nm] == obj {
					n++
					if i < len(x.Values) {
						def = x.Values[i]
					}
				}
			}
		case *ast.IncDecStmt:
			if lid, ok := x.X.(*ast.Ident); ok && info.Uses[lid] == obj {
				n += 2
			}
		case *ast.RangeStmt:
			for _, l := range []ast.Expr{x.Key, x.Value} {
				if lid, ok := l.(*ast.Ident); ok && info.Defs[lid] == obj {
					n += 2
				}
			}
		}
		return true
	})
	if n != 1 {
		return nil
	}
	return def
}

// deref follows an identifier to what it stands for: the operand a helper
// parameter is bound to, or the single definition of a local.
func (r *dgRoles) deref(u dgUse, e ast.Expr) (dgUse, ast.Expr) {
	for i := 0; i < 6; i++ {
		id, ok := ast.Unparen(e).(*ast.Ident)
		if !ok {
			break
		}
		obj := u.info.Uses[id]
		if obj == nil {
			break
		}
		if b, ok := u.env[obj]; ok {
			u, e = b.u, b.e
			continue
		}
		def := dgSingleDef(u.info, u.fd, obj)
		if def == nil {
			break
		}
		e = def
	}
	return u, ast.Unparen(e)
}

// dgShared: the resolved roles and the enumerated diagnostic span uses, for
// the rules that reason about where those spans come from.
type dgShared struct {
	r     *dgRoles
	uses  []dgUse
	order map[string]*spOrderFact
}

var dgSharedCache = map[*Ctx]*dgShared{}

func dgSharedOf(c *Ctx) *dgShared {
	if s := dgSharedCache[c]; s != nil {
		return s
	}
	ruleDiagSpan(c)
	return dgSharedCache[c]
}

func ruleDiagSpan(c *Ctx) []Obligation {
	ep := c.Pkg("homescript/errors")
	dp := c.Pkg("homescript/diagnostic")
	ap := c.Pkg("homescript/analyzer")
	r := &dgRoles{c: c, flow: map[*types.Func]map[int]bool{}, astPkg: ModPath + "/homescript/parser/ast"}
	r.spanT, _ = ep.Types.Scope().Lookup("Span").Type().(*types.Named)
	r.locT, _ = ep.Types.Scope().Lookup("Location").Type().(*types.Named)
	r.diagT, _ = dp.Types.Scope().Lookup("Diagnostic").Type().(*types.Named)
	if r.spanT == nil || r.locT == nil || r.diagT == nil {
		fatalf("anchor unresolved: errors.Span / errors.Location / diagnostic.Diagnostic")
	}
	for i := 0; i < r.locT.NumMethods(); i++ {
		m := r.locT.Method(i)
		sig := m.Type().(*types.Signature)
		if sig.Results().Len() == 1 && types.Identical(sig.Results().At(0).Type(), r.spanT) && sig.Params().Len() == 2 {
			r.until = m
		}
	}
	info := ap.TypesInfo
	decls := map[*types.Func]*ast.FuncDecl{}
	for _, fd := range AllFuncDecls(ap) {
		if fn, ok := info.Defs[fd.Name].(*types.Func); ok {
			decls[fn] = fd
		}
	}
	r.decls = decls
	paramIndex := func(fd *ast.FuncDecl, obj types.Object) int {
		i := 0
		for _, f := range fd.Type.Params.List {
			for _, n := range f.Names {
				if info.Defs[n] == obj {
					return i
				}
				i++
			}
			if len(f.Names) == 0 {
				i++
			}
		}
		return -1
	}
	// direct uses: Span field of Diagnostic literals
	var uses []dgUse
	collectLits := func(fd *ast.FuncDecl) []ast.Expr {
		var out []ast.Expr
		ast.Inspect(fd.Body, func(n ast.Node) bool {
			cl, ok := n.(*ast.CompositeLit)
			if !ok {
				return true
			}
			t := info.Types[cl].Type
			if t == nil || !types.Identical(t, r.diagT) {
				return true
			}
			found := false
			for _, el := range cl.Elts {
				if kv, ok := el.(*ast.KeyValueExpr); ok {
					if f, ok := info.Uses[kv.Key.(*ast.Ident)].(*types.Var); ok && types.Identical(f.Type(), r.spanT) {
						out = append(out, kv.Value)
						found = true
					}
				}
			}
			if !found {
				out = append(out, cl) // literal without a span = zero span
			}
			return true
		})
		return out
	}
	// fixpoint: span parameters flowing into a diagnostic
	for changed := true; changed; {
		changed = false
		for fn, fd := range decls {
			mark := func(e ast.Expr) {
				if id, ok := ast.Unparen(e).(*ast.Ident); ok {
					if obj := info.Uses[id]; obj != nil {
						if i := paramIndex(fd, obj); i >= 0 {
							if r.flow[fn] == nil {
								r.flow[fn] = map[int]bool{}
							}
							if !r.flow[fn][i] {
								r.flow[fn][i] = true
								changed = true
							}
						}
					}
				}
			}
			for _, e := range collectLits(fd) {
				mark(e)
			}
			ast.Inspect(fd.Body, func(n ast.Node) bool {
				if call, ok := n.(*ast.CallExpr); ok {
					if cf := CalleeOf(info, call); cf != nil {
						for i := range r.flow[cf] {
							if i < len(call.Args) {
								mark(call.Args[i])
							}
						}
					}
				}
				return true
			})
		}
	}
	if len(r.flow) == 0 {
		fatalf("anchor unresolved: no analyzer function forwards a span parameter into a diagnostic (error/warn/hint helpers)")
	}
	var fds []*ast.FuncDecl
	for _, fd := range decls {
		fds = append(fds, fd)
	}
	sort.Slice(fds, func(i, j int) bool { return fds[i].Pos() < fds[j].Pos() })
	for _, fd := range fds {
		for _, e := range collectLits(fd) {
			uses = append(uses, dgUse{fd: fd, info: info, expr: e, what: "Diagnostic literal"})
		}
		ast.Inspect(fd.Body, func(n ast.Node) bool {
			if call, ok := n.(*ast.CallExpr); ok {
				if cf := CalleeOf(info, call); cf != nil && r.flow[cf] != nil {
					var idx []int
					for i := range r.flow[cf] {
						idx = append(idx, i)
					}
					sort.Ints(idx)
					for _, i := range idx {
						if i < len(call.Args) {
							uses = append(uses, dgUse{fd: fd, info: info, expr: call.Args[i], what: cf.Name() + "()"})
						}
					}
				}
			}
			return true
		})
	}
	sort.SliceStable(uses, func(i, j int) bool { return uses[i].expr.Pos() < uses[j].expr.Pos() })
	order := spanShapeAnalyse(c).order
	dgSharedCache[c] = &dgShared{r: r, uses: uses, order: order}
	var obs []Obligation
	cnt := map[string]int{}
	classes := map[string]int{}
	for _, u := range uses {
		st, class, det := r.classify(u, u.expr, order, 0)
		classes[class]++
		base := fmt.Sprintf("analyzer.%s|%s|%s", FuncName(u.fd), u.what, class)
		cnt[base]++
		key := base
		if cnt[base] > 1 {
			key = fmt.Sprintf("%s#%d", base, cnt[base])
		}
		obs = append(obs, Obligation{Key: key, Pos: c.Pos(u.expr.Pos()), Status: st, Detail: det, Nontrivial: class == "combined"})
	}
	var cl []string
	for k, v := range classes {
		cl = append(cl, fmt.Sprintf("%s=%d", k, v))
	}
	sort.Strings(cl)
	// zero spans given to type / variable constructors: they reach diagnostics through fields
	zeroCtor := 0
	for _, fd := range fds {
		ast.Inspect(fd.Body, func(n ast.Node) bool {
			call, ok := n.(*ast.CallExpr)
			if !ok {
				return true
			}
			cf := CalleeOf(info, call)
			if cf != nil && r.flow[cf] != nil {
				return true
			}
			for _, a := range call.Args {
				if cl, ok := ast.Unparen(a).(*ast.CompositeLit); ok && len(cl.Elts) == 0 {
					if t := info.Types[cl].Type; t != nil && types.Identical(t, r.spanT) {
						zeroCtor++
					}
				}
			}
			return true
		})
	}
	obs = append(obs, Obligation{Key: "analyzer|span sources", Status: Info,
		Detail: fmt.Sprintf("%d diagnostic span uses: %s; %d function(s) forward a span parameter into a diagnostic; %d errors.Span{} literals are passed to type/variable constructors (builtin types and variables): a diagnostic that points at such a type renders as the whole-file position without a file name", len(uses), strings.Join(cl, ", "), len(r.flow), zeroCtor)})
	return obs
}

// classify decides one span expression used as a diagnostic position.
func (r *dgRoles) classify(u dgUse, e ast.Expr, order map[string]*spOrderFact, depth int) (Status, string, string) {
	info := u.info
	e = ast.Unparen(e)
	if depth > 6 {
		return Undecided, "other", "provenance chain too deep"
	}
	switch x := e.(type) {
	case *ast.StarExpr:
		return r.classify(u, x.X, order, depth+1)
	case *ast.UnaryExpr:
		if x.Op.String() == "&" {
			return r.classify(u, x.X, order, depth+1)
		}
		return Undecided, "other", exprStr(x)
	case *ast.CompositeLit:
		t := info.Types[x].Type
		if t != nil && types.Identical(t, r.diagT) {
			return Violated, "zero", "diagnostic literal without a Span"
		}
		if t == nil || !types.Identical(t, r.spanT) {
			return Undecided, "other", "literal " + exprStr(x)
		}
		if len(x.Elts) == 0 {
			return Violated, "zero", "errors.Span{}: the diagnostic has neither a file nor a position"
		}
		var a, b, f ast.Expr
		for _, el := range x.Elts {
			kv, ok := el.(*ast.KeyValueExpr)
			if !ok {
				return Undecided, "other", "positional span literal"
			}
			switch exprStr(kv.Key) {
			case "Start":
				a = kv.Value
			case "End":
				b = kv.Value
			case "Filename":
				f = kv.Value
			}
		}
		if a == nil && b == nil {
			if tv := info.Types[f]; tv.Value != nil {
				return Violated, "zero", "whole-file span with the constant file name " + tv.Value.String()
			}
			return Discharged, "whole-file", "explicit whole-file position of " + exprStr(f)
		}
		if a == nil || b == nil {
			return Violated, "combined", "span literal sets only one of Start/End"
		}
		return r.combined(u, a, b, f, order)
	case *ast.CallExpr:
		fn := CalleeOf(info, x)
		if fn != nil && fn == r.until {
			sel := ast.Unparen(x.Fun).(*ast.SelectorExpr)
			return r.combined(u, sel.X, x.Args[0], x.Args[1], order)
		}
		if fn != nil {
			sig := fn.Type().(*types.Signature)
			if sig.Recv() != nil && len(x.Args) == 0 && r.decls[fn] == nil {
				return Discharged, "node", "span of " + exprStr(ast.Unparen(x.Fun).(*ast.SelectorExpr).X) + " via " + fn.Name() + "()"
			}
			if st, class, det, ok := r.helper(u, x, fn, order, depth); ok {
				return st, class, det
			}
			if sig.Recv() != nil && len(x.Args) == 0 {
				return Discharged, "node", "span of " + exprStr(ast.Unparen(x.Fun).(*ast.SelectorExpr).X) + " via " + fn.Name() + "()"
			}
		}
		return Undecided, "other", "span computed by " + exprStr(x.Fun)
	case *ast.SelectorExpr:
		if f := spFieldOf(info, x); f != nil {
			return Discharged, "node", "span field " + exprStr(x)
		}
		return Undecided, "other", exprStr(x)
	case *ast.Ident:
		obj := info.Uses[x]
		if obj == nil {
			return Undecided, "other", x.Name
		}
		if b, ok := u.env[obj]; ok {
			return r.classify(b.u, b.e, order, depth+1)
		}
		for _, f := range u.fd.Type.Params.List {
			for _, n := range f.Names {
				if info.Defs[n] == obj {
					return Discharged, "param", "span parameter " + x.Name + " (its arguments are checked at the call sites)"
				}
			}
		}
		// range variables / locals: definitions
		var defs []ast.Expr
		isRange := false
		ast.Inspect(u.fd.Body, func(n ast.Node) bool {
			switch s := n.(type) {
			case *ast.AssignStmt:
				if len(s.Lhs) == len(s.Rhs) {
					for i, l := range s.Lhs {
						if id, ok := l.(*ast.Ident); ok && (info.Defs[id] == obj || info.Uses[id] == obj) {
							defs = append(defs, s.Rhs[i])
						}
					}
				} else {
					for _, l := range s.Lhs {
						if id, ok := l.(*ast.Ident); ok && info.Defs[id] == obj {
							isRange = true
						}
					}
				}
			case *ast.RangeStmt:
				for _, l := range []ast.Expr{s.Key, s.Value} {
					if id, ok := l.(*ast.Ident); ok && info.Defs[id] == obj {
						isRange = true
					}
				}
			case *ast.ValueSpec:
				for i, n := range s.Names {
					if info.Defs[n] == obj && i < len(s.Values) {
						defs = append(defs, s.Values[i])
					}
				}
			}
			return true
		})
		if len(defs) == 0 {
			if isRange {
				return Discharged, "node", "span element " + x.Name + " of a collection / multi-value result"
			}
			// closure parameter
			return Discharged, "param", "span variable " + x.Name + " bound outside (closure parameter)"
		}
		worst, class, det := Discharged, "local", ""
		for _, d := range defs {
			s, cl, dd := r.classify(u, d, order, depth+1)
			if s == Violated || (s == Undecided && worst == Discharged) {
				worst, det = s, dd
			}
			if det == "" {
				det = dd
			}
			if cl == "zero" || cl == "combined" {
				class = cl
			}
		}
		return worst, class, x.Name + " := " + det
	}
	return Undecided, "other", exprStr(e)
}

// helper: a function of the package that computes a span from its operands
// (`func spanBetween(a, b errors.Span) errors.Span`): every returned
// expression is decided with the parameters bound to the operands of this call.
func (r *dgRoles) helper(u dgUse, call *ast.CallExpr, fn *types.Func, order map[string]*spOrderFact, depth int) (Status, string, string, bool) {
	fd := r.decls[fn]
	if fd == nil || depth > 4 {
		return 0, "", "", false
	}
	sig := fn.Type().(*types.Signature)
	if sig.Results().Len() != 1 || !types.Identical(sig.Results().At(0).Type(), r.spanT) || sig.Variadic() {
		return 0, "", "", false
	}
	u2 := dgUse{fd: fd, pkg: u.pkg, info: u.info, what: u.what, env: map[types.Object]dgBound{}}
	i := 0
	for _, f := range fd.Type.Params.List {
		if len(f.Names) == 0 {
			i++
		}
		for _, n := range f.Names {
			if o := u.info.Defs[n]; o != nil && i < len(call.Args) {
				u2.env[o] = dgBound{call.Args[i], u}
			}
			i++
		}
	}
	if sig.Recv() != nil && fd.Recv != nil && len(fd.Recv.List) > 0 && len(fd.Recv.List[0].Names) > 0 {
		if sel, ok := ast.Unparen(call.Fun).(*ast.SelectorExpr); ok {
			if o := u.info.Defs[fd.Recv.List[0].Names[0]]; o != nil {
				u2.env[o] = dgBound{sel.X, u}
			}
		}
	}
	var rets []ast.Expr
	ast.Inspect(fd.Body, func(n ast.Node) bool {
		switch x := n.(type) {
		case *ast.FuncLit:
			return false
		case *ast.ReturnStmt:
			if len(x.Results) == 1 {
				rets = append(rets, x.Results[0])
			}
		}
		return true
	})
	if len(rets) == 0 {
		return 0, "", "", false
	}
	worst, class, det := Discharged, "", ""
	for _, e := range rets {
		s, cl, dd := r.classify(u2, e, order, depth+1)
		if s == Violated || (s == Undecided && worst == Discharged) {
			worst, det = s, dd
		}
		if det == "" {
			det = dd
		}
		if class == "" || cl == "zero" || cl == "combined" {
			class = cl
		}
	}
	return worst, class, fn.Name() + "(…) = " + det, true
}

// dgPath decomposes <root>.<f1>.<f2>.Span().Start into root, field path, edge.
type dgPath struct {
	root  types.Object
	rootT types.Type
	path  []string
	edge  string
	ok    bool
}

func (r *dgRoles) path(u dgUse, e ast.Expr) dgPath {
	info := u.info
	var p dgPath
	u, e = r.deref(u, e) // a location held in a local / passed to a helper
	s, ok := ast.Unparen(e).(*ast.SelectorExpr)
	if !ok {
		return p
	}
	if t := info.Types[s].Type; t == nil || !types.Identical(t, r.locT) {
		return p
	}
	p.edge = s.Sel.Name
	var cur ast.Expr
	u, cur = r.deref(u, s.X) // an errors.Span valued expression
	// strip the span accessor: X.Span() or X.<spanfield>
	switch x := cur.(type) {
	case *ast.CallExpr:
		sel, ok := ast.Unparen(x.Fun).(*ast.SelectorExpr)
		if !ok || len(x.Args) != 0 {
			return p
		}
		cur = ast.Unparen(sel.X)
	case *ast.SelectorExpr:
		cur = ast.Unparen(x.X)
	default:
		return p
	}
	// field chain down to the root identifier
	var rev []string
	for {
		switch x := cur.(type) {
		case *ast.SelectorExpr:
			rev = append(rev, x.Sel.Name)
			cur = ast.Unparen(x.X)
			continue
		case *ast.Ident:
			// a local that merely names a child (`base := node.Base`) is that child
			if u2, e2 := r.deref(u, x); e2 != ast.Expr(x) {
				if _, isSel := e2.(*ast.SelectorExpr); isSel {
					u, cur = u2, e2
					continue
				}
				if id2, isId := e2.(*ast.Ident); isId {
					u, x = u2, id2
				}
			}
			p.root = info.Uses[x]
			p.rootT = info.Types[x].Type
			for i := len(rev) - 1; i >= 0; i-- {
				p.path = append(p.path, rev[i])
			}
			p.ok = p.root != nil
			return p
		}
		return p
	}
}

func (r *dgRoles) combined(u dgUse, a, b, f ast.Expr, order map[string]*spOrderFact) (Status, string, string) {
	info := u.info
	pa, pb := r.path(u, a), r.path(u, b)
	if !pa.ok || !pb.ok {
		return Undecided, "combined", fmt.Sprintf("Start=%s / End=%s: not locations of named nodes", exprStr(a), exprStr(b))
	}
	if pa.root != pb.root {
		return Undecided, "combined", fmt.Sprintf("Start comes from %s, End from %s: two unrelated nodes, order and file not decidable", pa.root.Name(), pb.root.Name())
	}
	// filename must come from the same node
	fOK := false
	if f != nil {
		_, fe := r.deref(u, f)
		if fs, ok := fe.(*ast.SelectorExpr); ok && fs.Sel.Name == "Filename" {
			rootOK := false
			_, fx := r.deref(u, fs.X)
			ast.Inspect(fx, func(n ast.Node) bool {
				if id, ok := n.(*ast.Ident); ok && info.Uses[id] == pa.root {
					rootOK = true
				}
				return true
			})
			fOK = rootOK
		}
	}
	if !fOK {
		if f != nil {
			if tv := info.Types[f]; tv.Value != nil {
				return Violated, "combined", "Filename is the constant " + tv.Value.String()
			}
		}
		return Undecided, "combined", "Filename of the combined span is not taken from the node the locations come from"
	}
	desc := fmt.Sprintf("Start=%s, End=%s (same node %s)", exprStr(a), exprStr(b), pa.root.Name())
	switch {
	case len(pa.path) == 0 && pa.edge == "Start":
		return Discharged, "combined", desc + ": from the node's own start to a location inside it"
	case len(pb.path) == 0 && pb.edge == "End":
		return Discharged, "combined", desc + ": from a location inside the node to its own end"
	case len(pa.path) == 1 && len(pb.path) == 1 && pa.path[0] != pb.path[0]:
		tn := spTypeName(pa.rootT)
		fw := order[tn+"|"+pa.path[0]+"<"+pb.path[0]]
		bw := order[tn+"|"+pb.path[0]+"<"+pa.path[0]]
		switch {
		case fw != nil && fw.ok && fw.seen > 0:
			return Discharged, "combined", fmt.Sprintf("%s: every parser construction of %s places %s before %s", desc, tn, pa.path[0], pb.path[0])
		case bw != nil && bw.ok && bw.seen > 0:
			return Violated, "combined", fmt.Sprintf("%s: the parser builds %s with %s BEFORE %s — End precedes Start", desc, tn, pb.path[0], pa.path[0])
		}
		return Undecided, "combined", fmt.Sprintf("%s: token order of %s.%s and %s.%s not derivable from the parser", desc, tn, pa.path[0], tn, pb.path[0])
	case len(pa.path) == 1 && len(pb.path) == 1 && pa.path[0] == pb.path[0] && pa.edge == "Start":
		return Discharged, "combined", desc + ": start and end of the same child"
	}
	return Undecided, "combined", desc + ": relation of the two locations not understood"
}
