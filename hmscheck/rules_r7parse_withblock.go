package main

import (
	"fmt"
	"go/ast"
	"go/constant"
	"go/types"
	"sort"
)

// R-with-block-arms (C07; parser).
//
// The climbing method tells its callers whether the expression it parsed "ends in a
// block" (no `;` needed after it as a statement, no `,` after it as a match arm). That
// flag must be true exactly for the primary arms whose parse method is curly-ending:
// on every successful path the LAST token-consuming call of the method is an
// expect-family call for `}` or a call of another curly-ending method (greatest fixed
// point: block, blockExpression, ifExpression, matchExpression, tryExpression …).
// The flag is evaluated per arm on the paths that run no iteration of the climbing
// loop, whether it is set inside the arm or afterwards by a switch over the result's
// Kind() (the concrete node type of the arm's parse method fixes the kind).

func init() {
	register(&Rule{ID: "R-with-block-arms", Floor: 6, Run: ruleR7parseWithBlock,
		Doc: "for every primary arm of the precedence-climbing method (a call of a parser method with a node result made before the climbing loop): on every successful path through the arm that runs no iteration of the loop the boolean 'ends with a block' result is the constant true if the arm's method is curly-ending — on every successful path its last token-consuming call is an expect-family call for '}' or a call of another curly-ending method (greatest fixed point over the parser's methods) — and the constant false otherwise; a flag set after the dispatch by a switch over result.Kind() is evaluated with the concrete node type the arm's method returns. A with-block expression classified as without block needs a `;`/`,` the grammar does not require (`try {…} catch e {…}` as a statement or match arm is rejected or swallows the next statement): the tree no longer follows ExpressionWithBlock = Block | If | Match | Try (C07)."})
}

func ruleR7parseWithBlock(c *Ctx) []Obligation {
	e := r2parseEngineOf(c)
	var obs []Obligation
	e.stable(func() { obs = r7parseWithBlock(e) })
	return obs
}

func r7parseWithBlock(e *r2parseEngine) []Obligation {
	c := e.c
	closer := e.px.byDisp["}"]
	sig := e.exprFn.Type().(*types.Signature)
	flagIdx := -1
	for i := 0; i < sig.Results().Len(); i++ {
		if b, ok := sig.Results().At(i).Type().Underlying().(*types.Basic); ok && b.Kind() == types.Bool {
			flagIdx = i
		}
	}
	if flagIdx < 0 || closer == "" {
		return []Obligation{{Key: e.funcKey(e.exprFd) + "|with-block result", Pos: c.Pos(e.exprFd.Pos()), Status: Undecided, Detail: "the climbing method has no boolean result / no token kind displays as '}'"}}
	}
	// last consuming call of every successful path of every method
	type ending struct {
		fn     *types.Func // callee (nil: nothing consumed)
		closes bool        // expect-family call for '}'
	}
	ends := map[*types.Func][]ending{}
	for _, fd := range e.fds {
		fn := e.fnOf[fd]
		run := e.newRun(fd, nil)
		run.obs.exit = func(st *r2parseState, o outcome, success bool, results []*r2parseVal) {
			if !success {
				return
			}
			en := ending{}
			if call := st.lastConsCall; call != nil {
				en.fn = CalleeOf(e.info, call)
				if en.fn != nil && e.px.expectF[en.fn] {
					for _, a := range call.Args {
						if e.px.canonKind(e.info, a) == closer {
							en.closes = true
						}
					}
				}
			}
			ends[fn] = append(ends[fn], en)
		}
		run.walk()
	}
	curly := map[*types.Func]bool{}
	for fn, l := range ends {
		if len(l) > 0 {
			curly[fn] = true
		}
	}
	for changed := true; changed; {
		changed = false
		for fn := range curly {
			for _, en := range ends[fn] {
				if !en.closes && !(en.fn != nil && curly[en.fn]) {
					delete(curly, fn)
					changed = true
					break
				}
			}
		}
	}
	// the flag per arm
	type agg struct {
		pos   ast.Node
		seen  int
		vals  map[string]bool
		paths []string
	}
	arms := map[*types.Func]*agg{}
	holder := e.exprFd
	run := e.newRun(e.exprFd, nil)
	run.obs.exit = func(st *r2parseState, o outcome, success bool, results []*r2parseVal) {
		if !success || len(results) <= flagIdx || len(st.made) == 0 {
			return
		}
		for _, m := range st.made {
			if m.call != nil && m.call.Pos() > e.loop.Body.Lbrace && m.call.Pos() < e.loop.Body.Rbrace {
				return // an iteration ran
			}
		}
		first := st.made[0]
		if first.call == nil || first.call.Pos() > e.loop.Pos() || first.fn == nil {
			return
		}
		a := arms[first.fn]
		if a == nil {
			a = &agg{pos: first.call, vals: map[string]bool{}}
			arms[first.fn] = a
		}
		a.seen++
		v := "?"
		if f := results[flagIdx]; f.k == r2parseConst && f.cst.Kind() == constant.Bool {
			v = fmt.Sprint(constant.BoolVal(f.cst))
		}
		if !a.vals[v] && len(a.paths) < 3 {
			a.paths = append(a.paths, v+" on "+st.path())
		}
		a.vals[v] = true
	}
	run.walk()
	if len(arms) == 0 {
		// the climbing method has no primary arms of its own (expression(p) = climb(start, primary(), p)):
		// the arms are in the first-operand parser — the method whose result #0 is handed to the
		// climbing method as the tree built so far
		if h := r7parseFirstOperandParser(e); h != nil {
			hsig := e.fnOf[h].Type().(*types.Signature)
			hflag := -1
			for i := 0; i < hsig.Results().Len(); i++ {
				if b, ok := hsig.Results().At(i).Type().Underlying().(*types.Basic); ok && b.Kind() == types.Bool {
					hflag = i
				}
			}
			if hflag >= 0 {
				holder = h
				hr := e.newRun(h, nil)
				hr.obs.exit = func(st *r2parseState, o outcome, success bool, results []*r2parseVal) {
					if !success || len(results) <= hflag || len(st.made) == 0 || st.made[0].fn == nil || st.made[0].call == nil {
						return
					}
					first := st.made[0]
					a := arms[first.fn]
					if a == nil {
						a = &agg{pos: first.call, vals: map[string]bool{}}
						arms[first.fn] = a
					}
					a.seen++
					v := "?"
					if f := results[hflag]; f.k == r2parseConst && f.cst.Kind() == constant.Bool {
						v = fmt.Sprint(constant.BoolVal(f.cst))
					}
					if !a.vals[v] && len(a.paths) < 3 {
						a.paths = append(a.paths, v+" on "+st.path())
					}
					a.vals[v] = true
				}
				hr.walk()
			}
		}
	}
	var fns []*types.Func
	for fn := range arms {
		fns = append(fns, fn)
	}
	sort.Slice(fns, func(i, j int) bool { return fns[i].Name() < fns[j].Name() })
	var obs []Obligation
	for _, fn := range fns {
		a := arms[fn]
		want := fmt.Sprint(curly[fn])
		o := Obligation{Key: e.funcKey(holder) + "|arm → " + fn.Name() + "|with-block flag", Pos: c.Pos(a.pos.Pos()), Status: Discharged, Nontrivial: true,
			Detail: fmt.Sprintf("%s() curly-ending: %v; flag %s on %d path(s)", fn.Name(), curly[fn], want, a.seen)}
		switch {
		case a.vals["?"]:
			o.Status, o.Detail = Undecided, "the flag is not a constant on some path: "+fmt.Sprint(a.paths)
		case len(a.vals) != 1 || !a.vals[want]:
			o.Status = Violated
			why := "its last consuming call on some successful path is neither an expect of '}' nor a curly-ending method"
			if curly[fn] {
				why = "every successful path ends by consuming '}' (directly or through another curly-ending method)"
			}
			o.Detail = fmt.Sprintf("%s() is %scurly-ending (%s) but the with-block result is %v: %v", fn.Name(), map[bool]string{true: "", false: "not "}[curly[fn]], why, a.paths, "the statement / match-arm separators required after the expression then differ from the grammar's ExpressionWithBlock")
		}
		obs = append(obs, o)
	}
	var cs []string
	for fn := range curly {
		cs = append(cs, fn.Name())
	}
	sort.Strings(cs)
	obs = append(obs, Obligation{Key: "summary|curly-ending parser methods", Pos: "-", Status: Info, Detail: fmt.Sprint(cs)})
	return obs
}

// r7parseFirstOperandParser: the method h such that some method passes result #0 of a call of
// h (held in a local) as the expression-typed argument of the climbing method.
func r7parseFirstOperandParser(e *r2parseEngine) *ast.FuncDecl {
	var found *ast.FuncDecl
	for _, fd := range e.fds {
		from := map[types.Object]*types.Func{}
		ast.Inspect(fd.Body, func(n ast.Node) bool {
			if as, ok := n.(*ast.AssignStmt); ok && len(as.Rhs) == 1 && len(as.Lhs) >= 1 {
				if call, ok := ast.Unparen(as.Rhs[0]).(*ast.CallExpr); ok {
					if id, ok := as.Lhs[0].(*ast.Ident); ok {
						o := e.info.Defs[id]
						if o == nil {
							o = e.info.Uses[id]
						}
						if g := CalleeOf(e.info, call); o != nil && g != nil && e.sp.isConsumer(g) && g != e.exprFn {
							from[o] = g
						}
					}
				}
			}
			return true
		})
		ast.Inspect(fd.Body, func(n ast.Node) bool {
			call, ok := n.(*ast.CallExpr)
			if !ok || CalleeOf(e.info, call) != e.exprFn {
				return true
			}
			sig := e.exprFn.Type().(*types.Signature)
			for i, a := range call.Args {
				if i < sig.Params().Len() && types.Identical(sig.Params().At(i).Type(), e.exprT) {
					if id, ok := ast.Unparen(a).(*ast.Ident); ok {
						if g := from[e.info.Uses[id]]; g != nil && found == nil {
							found = e.sp.decls[g]
						}
					}
				}
			}
			return true
		})
	}
	return found
}
