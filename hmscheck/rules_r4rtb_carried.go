package main

// R-map-order, part 4 (round 4): LOOP-CARRIED PLACES.
//
// A variable or field that an iteration of a range-over-map loop assigns with
// a value depending on the visited key/element still holds the value of the
// LAST VISITED element when the iteration ends. Go randomises the visiting
// order, so whoever reads that place afterwards — a later iteration before it
// re-assigns the place, the code after the loop, a callee of that code that
// reads the field, the caller through the result or (for a field reachable
// from a parameter / a package-level variable) the callers' code after the
// call — computes with "whatever came last". One obligation per (loop, carried
// place): Violated with the assignment and the read; Discharged when every
// path from the assignment overwrites the place (or ends its lifetime) before
// any such read.
//
// Decided on the go/cfg control-flow graph of the enclosing function
// (assignment node → … → loop head / loop exit → …), with interprocedural
// "upward-exposed read" summaries over go/ssa for calls, and continued in the
// callers (VTA call graph) when the place outlives the function.

import (
	"fmt"
	"go/ast"
	"go/token"
	"go/types"
	"os"
	"sort"
	"strings"

	"golang.org/x/tools/go/cfg"
	"golang.org/x/tools/go/packages"
	"golang.org/x/tools/go/ssa"
)

// ---- places ----

// r4bPlace: a variable (local, parameter, receiver, package-level) and a chain
// of struct fields selected from it (pointer hops are implicit).
type r4bPlace struct {
	root   *types.Var
	fields []*types.Var
}

func (p r4bPlace) path() string {
	var b strings.Builder
	for _, f := range p.fields {
		b.WriteString("." + f.Name())
	}
	return b.String()
}

func (p r4bPlace) text() string { return p.root.Name() + p.path() }

func (p r4bPlace) valid() bool { return p.root != nil }

func (p r4bPlace) isGlobal() bool {
	return p.root.Pkg() != nil && p.root.Parent() == p.root.Pkg().Scope()
}

// r4bPlaceOf parses an expression that designates a place.
func r4bPlaceOf(info *types.Info, e ast.Expr) (r4bPlace, bool) {
	switch x := ast.Unparen(e).(type) {
	case *ast.Ident:
		if v, ok := moObj(info, x).(*types.Var); ok && !v.IsField() {
			return r4bPlace{root: v}, true
		}
	case *ast.SelectorExpr:
		sel := info.Selections[x]
		if sel == nil {
			if v, ok := info.Uses[x.Sel].(*types.Var); ok && !v.IsField() {
				return r4bPlace{root: v}, true
			}
			return r4bPlace{}, false
		}
		if sel.Kind() != types.FieldVal {
			return r4bPlace{}, false
		}
		inner := ast.Unparen(x.X)
		for {
			if st, ok := inner.(*ast.StarExpr); ok {
				inner = ast.Unparen(st.X)
				continue
			}
			break
		}
		base, ok := r4bPlaceOf(info, inner)
		if !ok {
			return r4bPlace{}, false
		}
		t := info.TypeOf(x.X)
		fields := append([]*types.Var(nil), base.fields...)
		for _, idx := range sel.Index() {
			if t == nil {
				return r4bPlace{}, false
			}
			if p, ok := t.Underlying().(*types.Pointer); ok {
				t = p.Elem()
			}
			st, ok := t.Underlying().(*types.Struct)
			if !ok || idx >= st.NumFields() {
				return r4bPlace{}, false
			}
			f := st.Field(idx)
			fields = append(fields, f)
			t = f.Type()
		}
		return r4bPlace{root: base.root, fields: fields}, true
	}
	return r4bPlace{}, false
}

// r4bRel: how place q relates to place p.
//
//	0 unrelated, 1 equal, 2 q is a strict prefix of p (q covers p), 3 p is a strict prefix of q (q is inside p)
func r4bRel(q, p r4bPlace) int {
	if q.root != p.root {
		return 0
	}
	n := len(q.fields)
	if len(p.fields) < n {
		n = len(p.fields)
	}
	for i := 0; i < n; i++ {
		if q.fields[i] != p.fields[i] {
			return 0
		}
	}
	switch {
	case len(q.fields) == len(p.fields):
		return 1
	case len(q.fields) < len(p.fields):
		return 2
	}
	return 3
}

// r4bPathRel: the same on (root text, path text) pairs coming from summaries.
func r4bPathRel(q, p string) int {
	switch {
	case q == p:
		return 1
	case strings.HasPrefix(p, q) && (len(q) == 0 || p[len(q)] == '.'):
		return 2
	case strings.HasPrefix(q, p) && (len(p) == 0 || q[len(p)] == '.' || q[len(p)] == '['):
		return 3
	}
	return 0
}

// ---- the analysis object ----

type r4bCarried struct {
	c      *Ctx
	a      *dmAnalysis
	flows  map[*ast.BlockStmt]*r4bFlow
	reads  *r4bReads
	stores *r4bStores
	pkgOf  map[*types.Package]*packages.Package
	dump   bool
}

type r4bAssign struct {
	node ast.Node // the statement as it appears in the control-flow graph
	pos  token.Pos
	text string
	via  string // assigned by a callee: where
}

// r4bExtend appends the fields named by a summary path (".f.g") to a place.
func r4bExtend(base r4bPlace, path string) (r4bPlace, bool) {
	out := r4bPlace{root: base.root, fields: append([]*types.Var(nil), base.fields...)}
	t := base.root.Type()
	if n := len(base.fields); n > 0 {
		t = base.fields[n-1].Type()
	}
	for _, name := range strings.Split(strings.TrimPrefix(path, "."), ".") {
		if name == "" {
			continue
		}
		if p, ok := t.Underlying().(*types.Pointer); ok {
			t = p.Elem()
		}
		st, ok := t.Underlying().(*types.Struct)
		if !ok {
			return r4bPlace{}, false
		}
		var f *types.Var
		for i := 0; i < st.NumFields(); i++ {
			if st.Field(i).Name() == name {
				f = st.Field(i)
			}
		}
		if f == nil {
			return r4bPlace{}, false
		}
		out.fields = append(out.fields, f)
		t = f.Type()
	}
	return out, true
}

// globalPlace: the package-level variable a summary root "global:<pkg>.<Name>" names.
func (k *r4bCarried) globalPlace(root string) r4bPlace {
	name := strings.TrimPrefix(root, "global:")
	i := strings.LastIndex(name, ".")
	if i < 0 {
		return r4bPlace{}
	}
	p := k.c.byPath[ModPath+"/"+name[:i]]
	if p == nil {
		return r4bPlace{}
	}
	if v, ok := p.Types.Scope().Lookup(name[i+1:]).(*types.Var); ok {
		return r4bPlace{root: v}
	}
	return r4bPlace{}
}

type r4bCand struct {
	place   r4bPlace
	assigns []r4bAssign
	skipped []string
	first   token.Pos
}

type r4bLoopCands struct {
	l     *moLoop
	cands []*r4bCand
}

func r4bNewCarried(c *Ctx, a *dmAnalysis) *r4bCarried {
	k := &r4bCarried{c: c, a: a, flows: map[*ast.BlockStmt]*r4bFlow{}, pkgOf: map[*types.Package]*packages.Package{},
		dump: os.Getenv("HMS_R4B_DUMP") != ""}
	for _, p := range c.All {
		k.pkgOf[p.Types] = p
	}
	return k
}

// ---- candidates: element-dependent assignments to outer places ----

func r4bIsIntOrBool(t types.Type) bool {
	if t == nil {
		return false
	}
	b, ok := t.Underlying().(*types.Basic)
	return ok && b.Info()&(types.IsInteger|types.IsBoolean) != 0
}

func (k *r4bCarried) collect(l *moLoop, s *moScan) []*r4bCand {
	info := l.info
	byKey := map[string]*r4bCand{}
	var order []*r4bCand
	get := func(p r4bPlace, pos token.Pos) *r4bCand {
		key := fmt.Sprintf("%p%s", p.root, p.path())
		cd := byKey[key]
		if cd == nil {
			cd = &r4bCand{place: p, first: pos}
			byKey[key] = cd
			order = append(order, cd)
		}
		return cd
	}
	type wctx struct {
		unique bool
		ifs    []*ast.IfStmt // innermost last: the if statements whose then-branch directly contains the statement
	}
	var stmts func(list []ast.Stmt, cx wctx)
	var stmt func(st ast.Stmt, cx wctx)
	assign := func(node ast.Stmt, lh, rhs ast.Expr, tok token.Token, tupleRhs ast.Expr, cx wctx) {
		if id, ok := lh.(*ast.Ident); ok && (id.Name == "_" || (tok == token.DEFINE && info.Defs[id] != nil)) {
			return
		}
		p, ok := r4bPlaceOf(info, lh)
		if !ok {
			return
		}
		if types.Object(p.root) == l.key || types.Object(p.root) == l.val || l.declaredInLoop(p.root) {
			return
		}
		cd := get(p, lh.Pos())
		lt := info.TypeOf(lh)
		target := exprStr(lh)
		skip := func(why string) {
			cd.skipped = append(cd.skipped, fmt.Sprintf("%s @%s: %s", exprStr(lh), k.c.Pos(lh.Pos()), why))
		}
		if cx.unique {
			skip("under a guard `key == <invariant>`: at most one iteration assigns")
			return
		}
		mentionsSelf := func(e ast.Expr) bool {
			m := false
			ast.Inspect(e, func(n ast.Node) bool {
				if x, ok := n.(ast.Expr); ok && !m {
					if q, ok := r4bPlaceOf(info, x); ok && r4bRel(q, p) == 1 {
						m = true
					}
				}
				return !m
			})
			return m
		}
		switch tok {
		case token.ASSIGN, token.DEFINE:
			e := rhs
			if e == nil {
				e = tupleRhs
			}
			if e == nil {
				return
			}
			if tv, ok := info.Types[e]; ok && rhs != nil && (tv.Value != nil || tv.IsNil()) {
				skip("constant")
				return
			}
			if rhs != nil {
				if be, ok := ast.Unparen(rhs).(*ast.BinaryExpr); ok && r4bIsIntOrBool(lt) {
					switch be.Op {
					case token.ADD, token.MUL, token.OR, token.AND, token.XOR, token.LOR, token.LAND:
						if exprStr(ast.Unparen(be.X)) == target || exprStr(ast.Unparen(be.Y)) == target {
							skip("commutative accumulation")
							return
						}
					}
				}
				if call, ok := moCallOf(rhs); ok {
					if id, ok := ast.Unparen(call.Fun).(*ast.Ident); ok {
						if _, isB := info.Uses[id].(*types.Builtin); isB {
							switch id.Name {
							case "append":
								if len(call.Args) > 0 && exprStr(ast.Unparen(call.Args[0])) == target {
									skip("append accumulation (element order is the business of the sorted-before-use condition)")
									return
								}
							case "min", "max":
								for _, a := range call.Args {
									if exprStr(ast.Unparen(a)) == target {
										skip("running extremum (min/max with itself)")
										return
									}
								}
							}
						}
					}
				}
				// if v < best { best = v }
				if n := len(cx.ifs); n > 0 {
					if be, ok := ast.Unparen(cx.ifs[n-1].Cond).(*ast.BinaryExpr); ok {
						switch be.Op {
						case token.LSS, token.GTR, token.LEQ, token.GEQ:
							x, y, r := exprStr(ast.Unparen(be.X)), exprStr(ast.Unparen(be.Y)), exprStr(ast.Unparen(rhs))
							if _, basic := lt.Underlying().(*types.Basic); basic && ((x == target && y == r) || (y == target && x == r)) {
								skip("running extremum (assigned only when it compares beyond the current value)")
								return
							}
						}
					}
				}
			}
			if s.invariant(e, true) && !mentionsSelf(e) {
				skip("the same value in every iteration")
				return
			}
		default: // op-assign, ++/--
			if b, ok := lt.Underlying().(*types.Basic); ok && b.Info()&types.IsInteger != 0 {
				skip("commutative integer accumulation")
				return
			}
			if rhs != nil && s.invariant(rhs, true) {
				skip("accumulates the same operand in every iteration")
				return
			}
		}
		cd.assigns = append(cd.assigns, r4bAssign{node: node, pos: lh.Pos(), text: exprStr(lh)})
	}
	stmts = func(list []ast.Stmt, cx wctx) {
		for _, st := range list {
			stmt(st, cx)
		}
	}
	viaCall := func(call *ast.CallExpr, cx wctx) {
		if k.stores == nil {
			return
		}
		if tv, ok := info.Types[call.Fun]; ok && tv.IsType() {
			return
		}
		for _, callee := range moCallees(k.a, info, call) {
			sum := k.stores.sums[callee]
			if len(sum) == 0 {
				continue
			}
			var keys []string
			for key := range sum {
				keys = append(keys, key)
			}
			sort.Strings(keys)
			for _, key := range keys {
				st := sum[key]
				var places []r4bPlace
				switch {
				case strings.HasPrefix(st.Root, "global:"):
					if g := k.globalPlace(st.Root); g.valid() {
						if p, ok := r4bExtend(g, st.Path); ok {
							places = append(places, p)
						}
					}
				case strings.HasPrefix(st.Root, "param:"):
					var pi int
					fmt.Sscanf(st.Root, "param:%d", &pi)
					for _, arg := range moArgFor(info, call, callee, pi) {
						if base, ok := r4bArgPlace(info, arg); ok {
							if p, ok := r4bExtend(base, st.Path); ok {
								places = append(places, p)
							}
						}
					}
				}
				if len(places) == 0 {
					continue
				}
				elem := false
				var ds []int
				for d := range st.Deps {
					ds = append(ds, d)
				}
				sort.Ints(ds)
				for _, d := range ds {
					for _, arg := range moArgFor(info, call, callee, d) {
						if r4bMentionsLoop(l, arg) {
							elem = true
						}
					}
				}
				if !elem {
					continue
				}
				for _, p := range places {
					if types.Object(p.root) == l.key || types.Object(p.root) == l.val || l.declaredInLoop(p.root) {
						continue
					}
					cd := get(p, call.Pos())
					if cx.unique {
						cd.skipped = append(cd.skipped, fmt.Sprintf("%s via %s @%s: under a guard `key == <invariant>`: at most one iteration assigns", p.text(), moCalleeName(callee), k.c.Pos(call.Pos())))
						continue
					}
					dup := false
					for _, as := range cd.assigns {
						if as.node == ast.Node(call) {
							dup = true
						}
					}
					if !dup {
						cd.assigns = append(cd.assigns, r4bAssign{node: call, pos: call.Pos(), text: p.text(),
							via: fmt.Sprintf("by %s @%s, called", st.Via, k.c.Pos(st.Pos))})
					}
				}
			}
		}
	}
	ownCalls := func(st ast.Stmt, cx wctx) {
		var es []ast.Expr
		switch x := st.(type) {
		case *ast.ExprStmt:
			es = append(es, x.X)
		case *ast.AssignStmt:
			es = append(append(es, x.Rhs...), x.Lhs...)
		case *ast.ReturnStmt:
			es = append(es, x.Results...)
		case *ast.IfStmt:
			es = append(es, x.Cond)
		case *ast.ForStmt:
			if x.Cond != nil {
				es = append(es, x.Cond)
			}
		case *ast.RangeStmt:
			es = append(es, x.X)
		case *ast.SwitchStmt:
			if x.Tag != nil {
				es = append(es, x.Tag)
			}
			for _, cl := range x.Body.List {
				es = append(es, cl.(*ast.CaseClause).List...)
			}
		case *ast.DeclStmt:
			if gd, ok := x.Decl.(*ast.GenDecl); ok {
				for _, sp := range gd.Specs {
					if vs, ok := sp.(*ast.ValueSpec); ok {
						es = append(es, vs.Values...)
					}
				}
			}
		case *ast.SendStmt:
			es = append(es, x.Chan, x.Value)
		case *ast.IncDecStmt:
			es = append(es, x.X)
		case *ast.GoStmt:
			es = append(es, x.Call)
		case *ast.DeferStmt:
			es = append(es, x.Call)
		}
		for _, e := range es {
			ast.Inspect(e, func(n ast.Node) bool {
				switch y := n.(type) {
				case *ast.FuncLit:
					return false
				case *ast.CallExpr:
					viaCall(y, cx)
				}
				return true
			})
		}
	}
	stmt = func(st ast.Stmt, cx wctx) {
		if st != nil {
			c1 := cx
			c1.ifs = nil
			ownCalls(st, c1)
		}
		switch x := st.(type) {
		case nil:
		case *ast.BlockStmt:
			c2 := cx
			c2.ifs = nil
			stmts(x.List, c2)
		case *ast.LabeledStmt:
			stmt(x.Stmt, cx)
		case *ast.AssignStmt:
			for i, lh := range x.Lhs {
				var rhs, tup ast.Expr
				if len(x.Rhs) == len(x.Lhs) {
					rhs = x.Rhs[i]
				} else if len(x.Rhs) == 1 {
					tup = x.Rhs[0]
				}
				assign(x, lh, rhs, x.Tok, tup, cx)
			}
		case *ast.IncDecStmt:
			assign(x, x.X, nil, token.ADD_ASSIGN, nil, cx)
		case *ast.IfStmt:
			c0 := cx
			c0.ifs = nil
			stmt(x.Init, c0)
			thenLive, elseLive, _ := s.condLiveness(x.Cond)
			if thenLive {
				c2 := cx
				if s.uniqueGuard(x.Cond) {
					c2.unique = true
				}
				c2.ifs = append(append([]*ast.IfStmt(nil), cx.ifs...), x)
				stmts(x.Body.List, c2)
			}
			if elseLive && x.Else != nil {
				stmt(x.Else, c0)
			}
		case *ast.ForStmt:
			c0 := cx
			c0.ifs = nil
			stmt(x.Init, c0)
			stmt(x.Post, c0)
			stmts(x.Body.List, c0)
		case *ast.RangeStmt:
			c0 := cx
			c0.ifs = nil
			if x.Tok == token.ASSIGN {
				for _, kv := range []ast.Expr{x.Key, x.Value} {
					if kv != nil {
						assign(x, kv, nil, token.ASSIGN, x.X, c0)
					}
				}
			}
			stmts(x.Body.List, c0)
		case *ast.SwitchStmt:
			c0 := cx
			c0.ifs = nil
			stmt(x.Init, c0)
			for _, cl := range x.Body.List {
				stmts(cl.(*ast.CaseClause).Body, c0)
			}
		case *ast.TypeSwitchStmt:
			c0 := cx
			c0.ifs = nil
			stmt(x.Init, c0)
			for _, cl := range x.Body.List {
				stmts(cl.(*ast.CaseClause).Body, c0)
			}
		case *ast.SelectStmt:
			c0 := cx
			c0.ifs = nil
			for _, cl := range x.Body.List {
				stmts(cl.(*ast.CommClause).Body, c0)
			}
		}
	}
	stmts(l.rs.Body.List, wctx{})
	return order
}

// ---- control-flow graph of one function body ----

type r4bFlow struct {
	k       *r4bCarried
	pkg     *packages.Package
	info    *types.Info
	fnNode  ast.Node // *ast.FuncDecl or *ast.FuncLit
	body    *ast.BlockStmt
	g       *cfg.CFG
	rangeKV map[ast.Node]*ast.RangeStmt
	params  map[*types.Var]int // parameter (receiver = 0 for methods) -> ssa parameter index
	results map[*types.Var]bool
}

func (k *r4bCarried) flowOf(pkg *packages.Package, fnNode ast.Node) *r4bFlow {
	var body *ast.BlockStmt
	var ftype *ast.FuncType
	var recv *ast.FieldList
	switch x := fnNode.(type) {
	case *ast.FuncDecl:
		body, ftype, recv = x.Body, x.Type, x.Recv
	case *ast.FuncLit:
		body, ftype = x.Body, x.Type
	}
	if body == nil {
		return nil
	}
	if f := k.flows[body]; f != nil {
		return f
	}
	info := pkg.TypesInfo
	f := &r4bFlow{k: k, pkg: pkg, info: info, fnNode: fnNode, body: body, rangeKV: map[ast.Node]*ast.RangeStmt{},
		params: map[*types.Var]int{}, results: map[*types.Var]bool{}}
	f.g = cfg.New(body, func(call *ast.CallExpr) bool {
		if id, ok := ast.Unparen(call.Fun).(*ast.Ident); ok {
			if b, ok := info.Uses[id].(*types.Builtin); ok && b.Name() == "panic" {
				return false
			}
		}
		return true
	})
	ast.Inspect(body, func(n ast.Node) bool {
		switch x := n.(type) {
		case *ast.FuncLit:
			return false
		case *ast.RangeStmt:
			if x.Key != nil {
				f.rangeKV[x.Key] = x
			}
			if x.Value != nil {
				f.rangeKV[x.Value] = x
			}
		}
		return true
	})
	idx := 0
	if recv != nil {
		for _, fl := range recv.List {
			for _, n := range fl.Names {
				if v, ok := info.Defs[n].(*types.Var); ok {
					f.params[v] = idx
				}
			}
		}
		idx = 1
	}
	if ftype.Params != nil {
		for _, fl := range ftype.Params.List {
			if len(fl.Names) == 0 {
				idx++
			}
			for _, n := range fl.Names {
				if v, ok := info.Defs[n].(*types.Var); ok {
					f.params[v] = idx
				}
				idx++
			}
		}
	}
	if ftype.Results != nil {
		for _, fl := range ftype.Results.List {
			for _, n := range fl.Names {
				if v, ok := info.Defs[n].(*types.Var); ok {
					f.results[v] = true
				}
			}
		}
	}
	k.flows[body] = f
	return f
}

// locate finds the graph node that contains n (the innermost one).
func (f *r4bFlow) locate(n ast.Node) (*cfg.Block, int) {
	var bb *cfg.Block
	bi := -1
	var best ast.Node
	for _, b := range f.g.Blocks {
		if !b.Live {
			continue
		}
		for i, nd := range b.Nodes {
			if nd == n {
				return b, i
			}
			if nd.Pos() <= n.Pos() && n.End() <= nd.End() {
				if best == nil || (nd.End()-nd.Pos()) < (best.End()-best.Pos()) {
					best, bb, bi = nd, b, i
				}
			}
		}
	}
	return bb, bi
}

type r4bHit struct {
	pos  token.Pos
	what string
}

type r4bOutcome struct {
	hits     []r4bHit
	exitLive bool
	exitPos  token.Pos
	lost     []string // alias shapes that cannot be followed
}

// nodeEffect: what one graph node does to place P.
type r4bNodeEffect struct {
	reads []r4bHit
	kill  bool
	lost  []string
}

func (f *r4bFlow) isPointerExpr(e ast.Expr) bool {
	t := f.info.TypeOf(e)
	if t == nil {
		return false
	}
	_, ok := t.Underlying().(*types.Pointer)
	return ok
}

func (f *r4bFlow) scan(n ast.Node, P r4bPlace) r4bNodeEffect {
	var ef r4bNodeEffect
	info := f.info
	writeOnly := map[ast.Expr]bool{}
	// a range statement's key/value expression stands for the assignment made by the range clause
	if rs, ok := f.rangeKV[n]; ok {
		if e, ok := n.(ast.Expr); ok {
			if q, ok := r4bPlaceOf(info, e); ok && rs.Tok == token.ASSIGN {
				if r := r4bRel(q, P); r == 1 || r == 2 {
					ef.kill = true
				}
			}
			if _, isId := ast.Unparen(e).(*ast.Ident); isId {
				return ef
			}
		}
	}
	killCand := false
	if as, ok := n.(*ast.AssignStmt); ok && (as.Tok == token.ASSIGN || as.Tok == token.DEFINE) {
		for _, lh := range as.Lhs {
			if q, ok := r4bPlaceOf(info, lh); ok {
				writeOnly[ast.Unparen(lh)] = true
				if r := r4bRel(q, P); r == 1 || (r == 2 && !f.isPointerExpr(lh)) {
					killCand = true
				} else if r == 2 {
					// the pointer through which P is reached is re-pointed: P is no longer reachable by this name
					killCand = true
				}
			}
		}
	}
	var walk func(n ast.Node, inLit bool, callArg bool)
	occurrence := func(e ast.Expr, q r4bPlace, callArg bool, inLit bool) {
		switch r4bRel(q, P) {
		case 1, 3:
			what := "read"
			if inLit {
				what = "read inside a function literal"
			}
			ef.reads = append(ef.reads, r4bHit{e.Pos(), what})
		case 2:
			if callArg {
				return // decided by the callee's read summary
			}
			if f.isPointerExpr(e) {
				// a pointer to the enclosing object is copied: an alias this analysis cannot follow
				if len(P.fields) > 0 {
					ef.lost = append(ef.lost, fmt.Sprintf("%s (a pointer through which %s is reachable) is copied @%s", exprStr(e), P.text(), f.k.c.Pos(e.Pos())))
				}
				return
			}
			ef.reads = append(ef.reads, r4bHit{e.Pos(), "read as part of the enclosing value " + exprStr(e)})
		}
	}
	walk = func(n ast.Node, inLit bool, callArg bool) {
		switch x := n.(type) {
		case nil:
			return
		case *ast.FuncLit:
			walk(x.Body, true, false)
			return
		case *ast.CallExpr:
			if tv, ok := info.Types[x.Fun]; ok && tv.IsType() {
				for _, a := range x.Args {
					walk(a, inLit, false)
				}
				return
			}
			builtin := false
			if id, ok := ast.Unparen(x.Fun).(*ast.Ident); ok {
				_, builtin = info.Uses[id].(*types.Builtin)
			}
			// receiver
			if se, ok := ast.Unparen(x.Fun).(*ast.SelectorExpr); ok {
				if sel := info.Selections[se]; sel != nil && sel.Kind() == types.MethodVal {
					walk(se.X, inLit, true)
				} else {
					walk(x.Fun, inLit, false)
				}
			} else {
				walk(x.Fun, inLit, false)
			}
			for _, a := range x.Args {
				walk(a, inLit, !builtin)
			}
			if !builtin {
				for _, h := range f.calleeReads(x, P) {
					ef.reads = append(ef.reads, h)
				}
				if !inLit && f.calleeKills(x, P) {
					killCand = true
				}
			}
			return
		case *ast.UnaryExpr:
			if x.Op == token.AND {
				if q, ok := r4bPlaceOf(info, x.X); ok {
					switch r4bRel(q, P) {
					case 1, 3:
						if !callArg {
							ef.reads = append(ef.reads, r4bHit{x.Pos(), "address taken"})
						}
						return
					case 2:
						if !callArg && len(P.fields) > 0 {
							ef.lost = append(ef.lost, fmt.Sprintf("&%s is taken @%s", exprStr(x.X), f.k.c.Pos(x.Pos())))
						}
						return
					}
				}
			}
			walk(x.X, inLit, false)
			return
		case ast.Expr:
			if writeOnly[ast.Unparen(x)] && !inLit {
				return
			}
			if q, ok := r4bPlaceOf(info, x); ok {
				occurrence(x, q, callArg, inLit)
				return
			}
			switch y := x.(type) {
			case *ast.ParenExpr:
				walk(y.X, inLit, callArg)
				return
			case *ast.StarExpr:
				walk(y.X, inLit, callArg)
				return
			case *ast.SelectorExpr:
				// method value / field of a non-place expression
				walk(y.X, inLit, false)
				return
			}
		}
		// generic traversal of the children
		first := true
		ast.Inspect(n, func(c ast.Node) bool {
			if first {
				first = false
				return true
			}
			if c != nil {
				walk(c, inLit, false)
			}
			return false
		})
	}
	if ret, ok := n.(*ast.ReturnStmt); ok && len(ret.Results) == 0 && len(P.fields) == 0 && f.results[P.root] {
		ef.reads = append(ef.reads, r4bHit{ret.Pos(), "returned as named result"})
	}
	walk(n, false, false)
	if killCand && len(ef.reads) == 0 {
		ef.kill = true
	}
	return ef
}

// calleeReads: upward-exposed reads of P by the callees of one call.
func (f *r4bFlow) calleeReads(call *ast.CallExpr, P r4bPlace) []r4bHit {
	k := f.k
	if k.reads == nil {
		return nil
	}
	var out []r4bHit
	seen := map[string]bool{}
	for _, callee := range moCallees(k.a, f.info, call) {
		sum := k.reads.sums[callee]
		if len(sum) == 0 {
			continue
		}
		var keys []string
		for key := range sum {
			keys = append(keys, key)
		}
		sort.Strings(keys)
		for _, key := range keys {
			rd := sum[key]
			hit := false
			switch {
			case strings.HasPrefix(rd.Root, "global:"):
				if P.isGlobal() && rd.Root == "global:"+relPkg(P.root.Pkg().Path())+"."+P.root.Name() {
					hit = r4bPathRel(rd.Path, P.path()) != 0
				}
			case strings.HasPrefix(rd.Root, "param:"):
				var pi int
				fmt.Sscanf(rd.Root, "param:%d", &pi)
				for _, arg := range moArgFor(f.info, call, callee, pi) {
					q, ok := r4bArgPlace(f.info, arg)
					if !ok || q.root != P.root {
						continue
					}
					if r4bPathRel(q.path()+rd.Path, P.path()) != 0 {
						hit = true
					}
				}
			}
			if hit {
				w := fmt.Sprintf("read by callee %s @%s", moCalleeName(callee), k.c.Pos(rd.Pos))
				if rd.Via != "" && rd.Via != moCalleeName(callee) {
					w = fmt.Sprintf("read by %s @%s, reached through callee %s", rd.Via, k.c.Pos(rd.Pos), moCalleeName(callee))
				}
				if !seen[w] {
					seen[w] = true
					out = append(out, r4bHit{call.Pos(), w})
				}
			}
		}
	}
	return out
}

// calleeKills: every callee of the call definitely overwrites P before it returns.
func (f *r4bFlow) calleeKills(call *ast.CallExpr, P r4bPlace) bool {
	k := f.k
	if k.stores == nil {
		return false
	}
	callees := moCallees(k.a, f.info, call)
	if len(callees) == 0 {
		return false
	}
	for _, callee := range callees {
		found := false
		for key := range k.stores.must[callee] {
			i := strings.Index(key, "|")
			root, path := key[:i], key[i+1:]
			switch {
			case strings.HasPrefix(root, "global:"):
				if P.isGlobal() && root == "global:"+relPkg(P.root.Pkg().Path())+"."+P.root.Name() && path == P.path() {
					found = true
				}
			case strings.HasPrefix(root, "param:"):
				var pi int
				fmt.Sscanf(root, "param:%d", &pi)
				args := moArgFor(f.info, call, callee, pi)
				if len(args) != 1 {
					continue
				}
				if q, ok := r4bArgPlace(f.info, args[0]); ok && q.root == P.root && q.path()+path == P.path() {
					found = true
				}
			}
		}
		if !found {
			return false
		}
	}
	return true
}

// r4bArgPlace: the place an argument expression gives the callee access to
// (`x`, `&x`, `x.f`, `&x.f`, `*x`).
func r4bArgPlace(info *types.Info, e ast.Expr) (r4bPlace, bool) {
	e = ast.Unparen(e)
	for {
		switch x := e.(type) {
		case *ast.UnaryExpr:
			if x.Op == token.AND {
				e = ast.Unparen(x.X)
				continue
			}
		case *ast.StarExpr:
			e = ast.Unparen(x.X)
			continue
		}
		break
	}
	return r4bPlaceOf(info, e)
}

// explore walks forward from (blk, idx). loop != nil: the value under
// observation was assigned inside that loop's body and counts as carried only
// once control has passed the loop head (next iteration) or the loop exit.
func (f *r4bFlow) explore(P r4bPlace, blk *cfg.Block, idx int, carried bool, loop *ast.RangeStmt, out *r4bOutcome) {
	type item struct {
		b       *cfg.Block
		i       int
		carried bool
	}
	visited := map[int32]bool{}
	stack := []item{{blk, idx, carried}}
	for len(stack) > 0 {
		it := stack[len(stack)-1]
		stack = stack[:len(stack)-1]
		stop := false
		for i := it.i; i < len(it.b.Nodes) && !stop; i++ {
			n := it.b.Nodes[i]
			ef := f.scan(n, P)
			if it.carried {
				out.lost = append(out.lost, ef.lost...)
				if len(ef.reads) > 0 {
					for _, h := range ef.reads {
						if loop != nil && loop.Body.Pos() <= h.pos && h.pos <= loop.Body.End() {
							h.what += " in a later iteration"
						}
						out.hits = append(out.hits, h)
					}
					stop = true
					break
				}
			}
			if ef.kill {
				stop = true
				break
			}
			if ret, ok := n.(*ast.ReturnStmt); ok {
				if it.carried {
					out.exitLive = true
					if !out.exitPos.IsValid() || ret.Pos() < out.exitPos {
						out.exitPos = ret.Pos()
					}
				}
				stop = true
			}
		}
		if stop {
			continue
		}
		for _, s := range it.b.Succs {
			c := it.carried
			if loop != nil && s.Stmt == ast.Stmt(loop) && (s.Kind == cfg.KindRangeLoop || s.Kind == cfg.KindRangeDone) {
				c = true
			}
			key := s.Index << 1
			if c {
				key |= 1
			}
			if visited[key] {
				continue
			}
			visited[key] = true
			stack = append(stack, item{s, 0, c})
		}
	}
}

// ---- deciding one carried place ----

type r4bDecision struct {
	hits   []string
	notes  []string
	undec  []string
	escape []string
}

func (k *r4bCarried) ssaFuncOf(pkg *packages.Package, fnNode ast.Node, encl *ast.FuncDecl) *ssa.Function {
	if fd, ok := fnNode.(*ast.FuncDecl); ok {
		if o, ok := pkg.TypesInfo.Defs[fd.Name].(*types.Func); ok {
			return k.a.prog.FuncValue(o)
		}
		return nil
	}
	if encl == nil {
		return nil
	}
	o, ok := pkg.TypesInfo.Defs[encl.Name].(*types.Func)
	if !ok {
		return nil
	}
	top := k.a.prog.FuncValue(o)
	var found *ssa.Function
	var rec func(fn *ssa.Function)
	rec = func(fn *ssa.Function) {
		if fn == nil || found != nil {
			return
		}
		for _, an := range fn.AnonFuncs {
			if an.Syntax() == fnNode {
				found = an
				return
			}
			rec(an)
		}
	}
	rec(top)
	return found
}

// outlives: the place survives the return of the function whose parameter its
// root is (reached through a pointer).
func r4bOutlives(P r4bPlace) bool {
	t := P.root.Type()
	if _, ok := t.Underlying().(*types.Pointer); ok {
		return true
	}
	for i, f := range P.fields {
		if i == len(P.fields)-1 {
			break
		}
		if _, ok := f.Type().Underlying().(*types.Pointer); ok {
			return true
		}
	}
	return false
}

func (k *r4bCarried) hitText(h r4bHit) string {
	return fmt.Sprintf("%s @%s", h.what, k.c.Pos(h.pos))
}

// afterExit continues the liveness question in the callers of fn for a place
// rooted at parameter pi of fn (pi < 0: a package-level variable).
func (k *r4bCarried) afterExit(fn *ssa.Function, P r4bPlace, pi int, depth int, seen map[string]bool, d *r4bDecision) {
	if fn == nil {
		d.undec = append(d.undec, fmt.Sprintf("%s outlives the function, whose callers cannot be determined", P.text()))
		return
	}
	sk := fmt.Sprintf("%s|%d|%s", fn.String(), pi, P.path())
	if seen[sk] {
		return
	}
	seen[sk] = true
	if depth > 6 {
		d.undec = append(d.undec, fmt.Sprintf("%s is still live after %d levels of callers (%s)", P.text(), depth, moCalleeName(fn)))
		return
	}
	callers := k.a.sortedCallers(fn)
	if len(callers) == 0 {
		d.escape = append(d.escape, fmt.Sprintf("still set when %s returns to code outside the module (no function of the module reads it on that way)", moCalleeName(fn)))
		return
	}
	for _, g := range callers {
		syn := g.Syntax()
		if syn == nil {
			// synthetic wrapper (bound method, thunk): look through it
			if pi >= 0 && len(g.Params) != len(fn.Params) {
				d.undec = append(d.undec, fmt.Sprintf("%s is called through the synthetic wrapper %s: the place cannot be followed", moCalleeName(fn), g.String()))
				continue
			}
			k.afterExit(g, P, pi, depth+1, seen, d)
			continue
		}
		pkg := k.pkgOfFunc(g)
		if pkg == nil {
			continue
		}
		fl := k.flowOf(pkg, syn)
		if fl == nil {
			continue
		}
		// call sites of fn inside g
		var sites []*ast.CallExpr
		ast.Inspect(fl.body, func(n ast.Node) bool {
			switch x := n.(type) {
			case *ast.FuncLit:
				return false
			case *ast.CallExpr:
				for _, cal := range moCallees(k.a, fl.info, x) {
					if cal == fn {
						sites = append(sites, x)
						break
					}
				}
			}
			return true
		})
		for _, call := range sites {
			Q := P
			if pi >= 0 {
				args := moArgFor(fl.info, call, fn, pi)
				if len(args) != 1 {
					d.undec = append(d.undec, fmt.Sprintf("argument %d of the call of %s @%s cannot be identified", pi, moCalleeName(fn), k.c.Pos(call.Pos())))
					continue
				}
				base, ok := r4bArgPlace(fl.info, args[0])
				if !ok {
					// a fresh object (composite literal, call result): nothing can read it by name
					if r4bFreshArg(fl.info, args[0]) {
						continue
					}
					d.undec = append(d.undec, fmt.Sprintf("the object passed as %s to %s @%s cannot be followed", exprStr(args[0]), moCalleeName(fn), k.c.Pos(call.Pos())))
					continue
				}
				Q = r4bPlace{root: base.root, fields: append(append([]*types.Var(nil), base.fields...), P.fields...)}
			}
			b, i := fl.locate(call)
			if b == nil {
				continue // unreachable call
			}
			var out r4bOutcome
			fl.explore(Q, b, i+1, true, nil, &out)
			for _, h := range out.hits {
				d.hits = append(d.hits, fmt.Sprintf("%s (after the call of %s @%s returns to %s)", k.hitText(h), moCalleeName(fn), k.c.Pos(call.Pos()), moCalleeName(g)))
			}
			d.undec = append(d.undec, out.lost...)
			if out.exitLive {
				k.exit(fl, g, Q, depth+1, seen, d)
			}
		}
	}
}

func r4bFreshArg(info *types.Info, e ast.Expr) bool {
	switch x := ast.Unparen(e).(type) {
	case *ast.CompositeLit, *ast.CallExpr, *ast.BasicLit:
		return true
	case *ast.UnaryExpr:
		if x.Op == token.AND {
			_, ok := ast.Unparen(x.X).(*ast.CompositeLit)
			return ok
		}
	}
	return false
}

func (k *r4bCarried) pkgOfFunc(fn *ssa.Function) *packages.Package {
	for f := fn; f != nil; f = f.Parent() {
		if f.Pkg != nil {
			return k.pkgOf[f.Pkg.Pkg]
		}
	}
	return nil
}

// exit: P is live when the function of flow fl returns.
func (k *r4bCarried) exit(fl *r4bFlow, fn *ssa.Function, P r4bPlace, depth int, seen map[string]bool, d *r4bDecision) {
	switch {
	case P.isGlobal():
		k.afterExit(fn, P, -1, depth, seen, d)
	default:
		pi, isParam := fl.params[P.root]
		if !isParam {
			// a local variable: its lifetime ends here — unless it belongs to an enclosing function
			if _, isLit := fl.fnNode.(*ast.FuncLit); isLit && !(fl.body.Pos() <= P.root.Pos() && P.root.Pos() <= fl.body.End()) {
				d.undec = append(d.undec, fmt.Sprintf("%s belongs to the function enclosing the function literal that contains the loop: reads after the literal returns are not followed", P.text()))
			}
			return
		}
		if !r4bOutlives(P) {
			return
		}
		k.afterExit(fn, P, pi, depth, seen, d)
	}
}

func (k *r4bCarried) decide(l *moLoop, cd *r4bCand) r4bDecision {
	var d r4bDecision
	var fnNode ast.Node
	for i := len(l.parents) - 1; i >= 0; i-- {
		if fl, ok := l.parents[i].(*ast.FuncLit); ok {
			fnNode = fl
			break
		}
	}
	if fnNode == nil {
		if l.fd == nil {
			d.undec = append(d.undec, "loop in a package-level initialiser")
			return d
		}
		fnNode = l.fd
	}
	fl := k.flowOf(l.pkg, fnNode)
	if fl == nil {
		d.undec = append(d.undec, "no body")
		return d
	}
	var out r4bOutcome
	for _, as := range cd.assigns {
		b, i := fl.locate(as.node)
		if b == nil {
			continue // unreachable
		}
		if _, isRange := as.node.(*ast.RangeStmt); isRange {
			continue
		}
		fl.explore(cd.place, b, i+1, false, l.rs, &out)
	}
	for _, h := range out.hits {
		d.hits = append(d.hits, k.hitText(h))
	}
	d.undec = append(d.undec, out.lost...)
	if out.exitLive {
		fn := k.ssaFuncOf(l.pkg, fnNode, l.fd)
		k.exit(fl, fn, cd.place, 0, map[string]bool{}, &d)
	}
	d.hits = r4bUniq(d.hits)
	d.undec = r4bUniq(d.undec)
	d.escape = r4bUniq(d.escape)
	return d
}

func r4bUniq(in []string) []string {
	seen := map[string]bool{}
	var out []string
	for _, s := range in {
		if !seen[s] {
			seen[s] = true
			out = append(out, s)
		}
	}
	sort.Strings(out)
	return out
}

// ---- naming ----

// r4bPlaceSig: rename-stable description of a carried place: exported names by
// name, unexported fields / locals by type (with the ordinal among the
// same-typed unexported fields of the struct when there are several).
func r4bPlaceSig(P r4bPlace) string {
	var b strings.Builder
	switch {
	case P.isGlobal():
		if P.root.Exported() {
			b.WriteString("var " + P.root.Pkg().Name() + "." + P.root.Name())
		} else {
			b.WriteString("var " + P.root.Pkg().Name() + ".<" + moTypeSig(P.root.Type()) + ">")
		}
	case len(P.fields) == 0:
		b.WriteString("local <" + moTypeSig(P.root.Type()) + ">")
	default:
		b.WriteString(moTypeSig(P.root.Type()))
	}
	t := P.root.Type()
	for _, f := range P.fields {
		if f.Exported() {
			b.WriteString("." + f.Name())
		} else {
			ord, n := 0, 0
			if p, ok := t.Underlying().(*types.Pointer); ok {
				t = p.Elem()
			}
			if st, ok := t.Underlying().(*types.Struct); ok {
				for i := 0; i < st.NumFields(); i++ {
					g := st.Field(i)
					if !g.Exported() && types.Identical(g.Type(), f.Type()) {
						n++
						if g == f {
							ord = n
						}
					}
				}
			}
			if n > 1 {
				b.WriteString(fmt.Sprintf(".<%s#%d>", moTypeSig(f.Type()), ord))
			} else {
				b.WriteString(".<" + moTypeSig(f.Type()) + ">")
			}
		}
		t = f.Type()
	}
	return b.String()
}

// ---- obligations ----

func r4bCarriedObligations(c *Ctx, a *dmAnalysis, loops []*moLoop, diagT types.Type) []r4bSub {
	k := r4bNewCarried(c, a)
	var all []r4bLoopCands
	interesting := map[*types.Var]bool{}
	k.stores = r4bComputeStores(c, a)
	if pat := os.Getenv("HMS_R4B_STORES"); pat != "" {
		for _, fn := range a.funcs {
			if !strings.Contains(fn.String(), pat) {
				continue
			}
			var keys []string
			for key := range k.stores.sums[fn] {
				keys = append(keys, key)
			}
			sort.Strings(keys)
			for _, key := range keys {
				st := k.stores.sums[fn][key]
				var ds []int
				for d := range st.Deps {
					ds = append(ds, d)
				}
				sort.Ints(ds)
				fmt.Fprintf(os.Stderr, "R4B_STORE\t%s\t%s\tdeps=%v\t%s @%s\n", fn.String(), key, ds, st.Via, c.Pos(st.Pos))
			}
			var mk []string
			for key := range k.stores.must[fn] {
				mk = append(mk, key)
			}
			sort.Strings(mk)
			for _, key := range mk {
				fmt.Fprintf(os.Stderr, "R4B_MUST\t%s\t%s\n", fn.String(), key)
			}
		}
	}
	for _, l := range loops {
		if l.unreachable() != "" {
			continue
		}
		s := &moScan{l: l, a: a, diagT: diagT, c: c}
		cands := k.collect(l, s)
		var keep []*r4bCand
		for _, cd := range cands {
			if k.dump {
				for _, sk := range cd.skipped {
					fmt.Fprintf(os.Stderr, "R4B_SKIP\t%s\t%s\n", l.keyStr, sk)
				}
			}
			if len(cd.assigns) == 0 {
				continue
			}
			keep = append(keep, cd)
			if n := len(cd.place.fields); n > 0 {
				interesting[cd.place.fields[n-1]] = true
			} else if cd.place.isGlobal() {
				interesting[cd.place.root] = true
			}
		}
		if len(keep) > 0 {
			all = append(all, r4bLoopCands{l, keep})
		}
	}
	k.reads = r4bComputeReads(c, a, interesting, k.stores)
	var obs []r4bSub
	for _, lc := range all {
		seen := map[string]int{}
		for _, cd := range lc.cands {
			sig := r4bPlaceSig(cd.place)
			seen[sig]++
			key := lc.l.keyStr + "|carried " + sig
			if seen[sig] > 1 {
				key = fmt.Sprintf("%s #%d", key, seen[sig])
			}
			d := k.decide(lc.l, cd)
			var sites []string
			for _, as := range cd.assigns {
				if as.via != "" {
					sites = append(sites, as.via+" @"+c.Pos(as.pos))
				} else {
					sites = append(sites, "@"+c.Pos(as.pos))
				}
			}
			sites = r4bUniq(sites)
			what := fmt.Sprintf("%s is assigned a value that depends on the visited element (%s)", cd.place.text(), strings.Join(sites, ", "))
			ob := Obligation{Key: key, Pos: c.Pos(cd.first), Nontrivial: true}
			switch {
			case len(d.hits) > 0:
				ob.Status = Violated
				hs := d.hits
				if len(hs) > 4 {
					hs = append(append([]string(nil), hs[:4]...), fmt.Sprintf("… (%d more)", len(d.hits)-4))
				}
				ob.Detail = fmt.Sprintf("order-dependent: %s and still holds the value of the LAST VISITED element when it is %s — Go randomises the visiting order, so the value read differs between runs", what, strings.Join(hs, "; "))
			case len(d.undec) > 0:
				ob.Status = Undecided
				ob.Detail = fmt.Sprintf("%s; whether the last-visited value is read afterwards cannot be decided: %s", what, strings.Join(d.undec, "; "))
			default:
				ob.Status = Discharged
				ob.Detail = what + "; every path from there overwrites it (or ends its lifetime) before it is read by a later iteration, by the code after the loop, by a callee, through the result or by a caller"
				if len(d.escape) > 0 {
					ob.Detail += " [" + strings.Join(d.escape, "; ") + "]"
				}
			}
			obs = append(obs, r4bSub{ob: ob, l: lc.l, sig: "carried " + sig, ranged: moTypeSig(lc.l.info.TypeOf(lc.l.rs.X))})
		}
	}
	return obs
}
