package main

import (
	"fmt"
	"go/ast"
	"go/constant"
	"go/token"
	"go/types"
	"sort"
	"strings"
)

// Shared path engine of the r2parse rules (R-prec-operand-source,
// R-span-fresh-start, R-span-own-start, R-node-fields).
//
// Along one structured path (Walker) through a method of the parser it keeps
//   D, U   lower / upper bound of the number of tokens consumed since entry
//          (per-callee success summaries of R-span-shape are reused),
//   seq    a capture counter (orders reads of the cursor along the path),
//   env    local variable -> abstract value (r2parseVal): where the value CAME FROM.
// A value is a provenance term: result #i of a call of a parser method (with
// its argument values and the cursor state at the call), a parameter, a node
// built here (composite literal / ast constructor) with its field values, a
// location / span (token bounds as in R-span-shape), an operator conversion of
// the cursor's kind, a binding power read from the cursor, a constant, zero.
// Rules observe: node literals, calls (with argument values), span
// constructions, field stores, and the result values at every path end.

type r2parseCap struct {
	off     int // 0 = the token current at the capture, -1 = the previous token
	D, U    int
	seq     int
	inLoops string // loop-iteration signature at the capture (for witnesses)
}

func (c *r2parseCap) String() string {
	if c == nil {
		return "unbounded"
	}
	name := "current"
	if c.off == -1 {
		name = "previous"
	}
	if c.D == c.U {
		return fmt.Sprintf("%s token after %d consumed", name, c.D)
	}
	u := fmt.Sprint(c.U)
	if c.U >= spBig {
		u = "∞"
	}
	return fmt.Sprintf("%s token after %d..%s consumed", name, c.D, u)
}

type r2parseKind int

const (
	r2parseUnknown r2parseKind = iota
	r2parseZero                // nil / zero value / omitted field
	r2parseParam               // parameter of the analysed function
	r2parseCall                // result #idx of a call of a parser method
	r2parseNode                // node built here (composite literal or ast constructor)
	r2parseLoc                 // errors.Location
	r2parseSpan                // errors.Span
	r2parseConv                // token→operator conversion applied to a token kind
	r2parsePrecV               // result #idx of <cursor>.Kind.Prec()
	r2parseConst               // compile-time constant
	r2parseField               // field of a value that is not built here
	r2parseTok                 // field of the current / previous token (Value, Kind, the token itself)
	r2parseSlice               // slice grown by append in this function
	r2parseFile                // the parser's file name
)

type r2parseVal struct {
	k    r2parseKind
	desc string
	typ  types.Type
	// r2parseCall
	fn   *types.Func
	call *ast.CallExpr
	idx  int
	args []*r2parseVal
	at   *r2parseCap // cursor state when the call started / at the read (conv, prec, tok)
	// r2parseNode (and post-construction stores into any value)
	lit    ast.Node
	fields map[string]*r2parseVal
	// span carried by node-like values and spans
	start, end *r2parseVal
	hasFn      bool
	built      ast.Node // r2parseSpan: the construction site; nil for derived spans
	// r2parseLoc
	edge      int
	lb, ub    *r2parseCap
	fromParam bool
	// r2parseCall: the start of the result node is a location argument of the call
	startFromArg bool
	// r2parseParam
	obj types.Object
	// r2parseConst
	cst constant.Value
	// r2parseField
	base *r2parseVal
	sel  string
	// r2parseSlice
	elems []*r2parseVal
	// hole: an element slot of a slice created by make([]T, n) with n > 0 (or unknown n)
	// that no store has filled on this path; holeN: the length was not a constant
	hole  bool
	holeN bool
	// carried: the value was read (directly or through a computation) from local
	// variables that are assigned inside an enclosing loop body but whose current
	// binding on this path predates the running iteration (loop-carried values)
	carried []string
	// r2parseConv: the converted operand was the cursor's kind; sinceDisp = upper bound of
	// the tokens consumed between the last decision on the cursor's kind and the read
	ofCursor  bool
	sinceDisp int
}

func (v *r2parseVal) String() string {
	if v == nil {
		return "?"
	}
	return v.desc
}

func (v *r2parseVal) hasSpan() bool { return v != nil && v.start != nil && v.end != nil }

type r2parseCallRec struct{ dBefore int }

type r2parseState struct {
	D, U, seq    int
	env          map[types.Object]*r2parseVal
	errNil       map[types.Object]int8 // 1 = nil, 2 = non-nil
	calls        map[types.Object]*r2parseCallRec
	last         *r2parseCallRec
	loops        map[token.Pos]*r2parseCap // loop (by position of the `for`) -> cursor state at the entry of the current iteration
	disp         *r2parseCap               // cursor state at the last decision on the cursor's kind (or function entry)
	trail        []string
	ret          []*r2parseVal
	made         []*r2parseVal // results #0 of the parser-method calls made on this path (in order)
	retSet       bool
	pend         []r2parsePend                    // observations of the running rule, decided at the path end
	bindSeq      map[types.Object]int             // local variable -> capture counter at its last assignment on this path
	ctrl         []r2parseCtrl                    // regions whose execution was decided by a loop-carried value
	errAlias     map[types.Object]r2parseErrAlias // boolean local -> the error test it holds
	lastCons     int                              // capture counter after the last call that can consume a token
	lastConsCall *ast.CallExpr                    // that call
}

type r2parseErrAlias struct {
	err types.Object
	neq bool
	seq int // capture counter when the alias was taken (stale once err is reassigned)
}

type r2parseCtrl struct {
	lo, hi token.Pos
	why    string
}

type r2parseIfRegion struct{ condLo, condHi, lo, hi token.Pos }

// r2parsePend is an observation a rule parks on the path until it knows whether
// the path ends successfully.
type r2parsePend struct {
	key, what string
	pos       token.Pos
	v         *r2parseVal
	sibs      []*r2parseVal
	aux, aux2 string
	n         int
}

func r2parseClone(s *r2parseState) *r2parseState {
	n := &r2parseState{D: s.D, U: s.U, seq: s.seq, last: s.last, disp: s.disp, retSet: s.retSet, lastCons: s.lastCons, lastConsCall: s.lastConsCall,
		env: make(map[types.Object]*r2parseVal, len(s.env)), errNil: make(map[types.Object]int8, len(s.errNil)),
		calls: make(map[types.Object]*r2parseCallRec, len(s.calls)), loops: make(map[token.Pos]*r2parseCap, len(s.loops))}
	for k, v := range s.env {
		n.env[k] = v
	}
	for k, v := range s.errNil {
		n.errNil[k] = v
	}
	for k, v := range s.calls {
		n.calls[k] = v
	}
	for k, v := range s.loops {
		n.loops[k] = v
	}
	n.trail = append([]string(nil), s.trail...)
	n.ret = append([]*r2parseVal(nil), s.ret...)
	n.made = append([]*r2parseVal(nil), s.made...)
	n.pend = append([]r2parsePend(nil), s.pend...)
	n.ctrl = append([]r2parseCtrl(nil), s.ctrl...)
	n.errAlias = make(map[types.Object]r2parseErrAlias, len(s.errAlias))
	for k, v := range s.errAlias {
		n.errAlias[k] = v
	}
	n.bindSeq = make(map[types.Object]int, len(s.bindSeq))
	for k, v := range s.bindSeq {
		n.bindSeq[k] = v
	}
	return n
}

func (s *r2parseState) note(format string, a ...any) {
	if len(s.trail) < 32 {
		s.trail = append(s.trail, fmt.Sprintf(format, a...))
	}
}

func (s *r2parseState) path() string { return "{" + strings.Join(s.trail, "; ") + "}" }

// ---- engine (roles shared by all runs) ----

type r2parseEngine struct {
	c        *Ctx
	px       *pxRoles
	sp       *spRoles
	info     *types.Info
	convs    map[*types.Func]*pxOpMap // token→operator conversions of parser/ast
	convOf   map[*types.Named]*pxOpMap
	exprFd   *ast.FuncDecl // the climbing function
	exprFn   *types.Func
	exprT    types.Type                       // its result #0: the expression interface
	precIdx  int                              // index of its minimum-power parameter
	kindSets map[string]map[*types.Const]bool // memo of kindsOfVal for interface-typed method results
	kindBusy map[string]bool
	loop     *ast.ForStmt
	fds      []*ast.FuncDecl // methods of the parser, source order
	fnOf     map[*ast.FuncDecl]*types.Func
}

var r2parseEngineCache = map[*Ctx]*r2parseEngine{}

func r2parseEngineOf(c *Ctx) *r2parseEngine {
	if e := r2parseEngineCache[c]; e != nil {
		return e
	}
	px := pxDiscover(c)
	pxIndexDecls(c)
	sp := spResolveRoles(c)
	sp.computeSummaries()
	e := &r2parseEngine{c: c, px: px, sp: sp, info: sp.info, convs: map[*types.Func]*pxOpMap{}, convOf: map[*types.Named]*pxOpMap{}, fnOf: map[*ast.FuncDecl]*types.Func{}}
	for _, m := range px.opMaps() {
		e.convs[m.fn] = m
		e.convOf[m.enum] = m
	}
	fd, loop, precParam := px.findClimbingLoop()
	if fd == nil || loop == nil {
		fatalf("anchor unresolved: the precedence-climbing method of the parser")
	}
	e.exprFd, e.loop = fd, loop
	e.exprFn = e.info.Defs[fd.Name].(*types.Func)
	sig := e.exprFn.Type().(*types.Signature)
	e.precIdx = -1
	for i := 0; i < sig.Params().Len(); i++ {
		if types.Object(sig.Params().At(i)) == precParam {
			e.precIdx = i
		}
	}
	if e.precIdx < 0 {
		fatalf("anchor unresolved: the minimum-power parameter of the climbing method")
	}
	if sig.Results().Len() == 0 {
		fatalf("anchor unresolved: the climbing method returns nothing")
	}
	e.exprT = sig.Results().At(0).Type()
	p := c.Pkg("homescript/parser")
	for _, d := range AllFuncDecls(p) {
		fn, _ := e.info.Defs[d.Name].(*types.Func)
		if fn == nil || d.Body == nil {
			continue
		}
		e.fnOf[d] = fn
		if sp.isConsumer(fn) {
			e.fds = append(e.fds, d)
		}
	}
	// file order of token.Pos depends on the load order: sort by file name, then offset
	sort.Slice(e.fds, func(i, j int) bool {
		pi, pj := c.Fset.Position(e.fds[i].Pos()), c.Fset.Position(e.fds[j].Pos())
		if pi.Filename != pj.Filename {
			return pi.Filename < pj.Filename
		}
		return pi.Offset < pj.Offset
	})
	r2parseEngineCache[c] = e
	return e
}

// stable runs f until the consumption summaries it triggered are complete
// (a specialised context met for the first time registers a new summary key).
func (e *r2parseEngine) stable(f func()) {
	for i := 0; i < 8; i++ {
		e.sp.changed = false
		f()
		if !e.sp.changed {
			return
		}
		e.sp.computeSummaries()
	}
	fatalf("r2parse: consumption summaries did not settle")
}

func (e *r2parseEngine) funcKey(fd *ast.FuncDecl) string { return "parser." + FuncName(fd) }

// ---- one walk ----

type r2parseLoop struct {
	pos, bodyLo, bodyHi token.Pos
	sep                 string // the loop condition tests the cursor for this separator kind (","), "" otherwise
	// locals declared outside the body that the body (re)assigns with a value that is
	// not a self-update (x++, x op= e, x = f(x) are accumulators / counters by shape)
	assigned map[types.Object]bool
	label    string
}

type r2parseObserver struct {
	// a composite literal of a struct type was evaluated (v.fields holds the values)
	lit func(st *r2parseState, lit *ast.CompositeLit, v *r2parseVal)
	// any call (after its arguments were evaluated, before its effect is applied)
	call func(st *r2parseState, call *ast.CallExpr, fn *types.Func, builtin string, args []*r2parseVal)
	// a span was constructed (Until or errors.Span literal); nested = it is the direct
	// value of a literal field / call argument (the parent observer sees it too)
	span func(st *r2parseState, site ast.Node, v *r2parseVal, nested bool)
	// x.f... = v
	store func(st *r2parseState, as *ast.AssignStmt, lhs ast.Expr, root types.Object, path []string, v *r2parseVal)
	// an assignment bound values to identifiers ( `_` included )
	bind func(st *r2parseState, as *ast.AssignStmt, lhs ast.Expr, v *r2parseVal)
	// expression statement
	exprStmt func(st *r2parseState, s *ast.ExprStmt, v *r2parseVal)
	// path end
	exit func(st *r2parseState, o outcome, success bool, results []*r2parseVal)
}

type r2parseRun struct {
	e      *r2parseEngine
	fd     *ast.FuncDecl
	fn     *types.Func
	recv   *types.Var
	consts map[types.Object]bool
	loops  []r2parseLoop
	obs    r2parseObserver
	undec  []string
	paths  int
	ifs    []r2parseIfRegion
	// while a pure helper is evaluated inline: the call in the analysed method
	inlineSite  ast.Node
	inlineDepth int
}

func (e *r2parseEngine) newRun(fd *ast.FuncDecl, consts map[types.Object]bool) *r2parseRun {
	run := &r2parseRun{e: e, fd: fd, fn: e.fnOf[fd], consts: consts}
	if run.consts == nil {
		run.consts = map[types.Object]bool{}
	}
	if fd.Recv != nil && len(fd.Recv.List) > 0 && len(fd.Recv.List[0].Names) > 0 {
		run.recv, _ = e.info.Defs[fd.Recv.List[0].Names[0]].(*types.Var)
	}
	ast.Inspect(fd.Body, func(n ast.Node) bool {
		switch x := n.(type) {
		case *ast.IfStmt:
			run.ifs = append(run.ifs, r2parseIfRegion{condLo: x.Cond.Pos(), condHi: x.Cond.End(), lo: x.Body.Lbrace, hi: x.End()})
		case *ast.ForStmt:
			l := r2parseLoop{pos: x.Pos(), bodyLo: x.Body.Lbrace, bodyHi: x.Body.Rbrace}
			if x.Cond != nil {
				pxAtoms(x.Cond, func(a ast.Expr) {
					if k, eq, ok := e.px.kindAtom(e.info, a); ok && eq && k == e.px.comma {
						l.sep = k
					}
				})
			}
			l.assigned = e.assignedIn(x.Body)
			l.label = "for {}"
			if x.Cond != nil {
				l.label = "for " + spShort(exprStr(x.Cond))
			}
			run.loops = append(run.loops, l)
		case *ast.RangeStmt:
			run.loops = append(run.loops, r2parseLoop{pos: x.Pos(), bodyLo: x.Body.Lbrace, bodyHi: x.Body.Rbrace,
				assigned: e.assignedIn(x.Body), label: "range " + spShort(exprStr(x.X))})
		}
		return true
	})
	return run
}

// assignedIn: the local variables declared outside body that body (re)assigns
// with something other than a self-update. x++, x op= e and x = <expr reading x>
// (x = append(x, …), x = f(x, …)) are accumulators / counters by shape: their
// loop-carried dependence is the point of the variable.
func (e *r2parseEngine) assignedIn(body *ast.BlockStmt) map[types.Object]bool {
	plain := map[types.Object]bool{}
	outside := func(o types.Object) bool {
		return o != nil && !(o.Pos() > body.Lbrace && o.Pos() < body.Rbrace)
	}
	mentions := func(n ast.Node, o types.Object) bool {
		found := false
		ast.Inspect(n, func(m ast.Node) bool {
			if id, ok := m.(*ast.Ident); ok && e.info.Uses[id] == o {
				found = true
			}
			return !found
		})
		return found
	}
	ast.Inspect(body, func(n ast.Node) bool {
		if _, ok := n.(*ast.FuncLit); ok {
			return false
		}
		as, ok := n.(*ast.AssignStmt)
		if !ok || as.Tok != token.ASSIGN {
			return true
		}
		for i, l := range as.Lhs {
			id, ok := ast.Unparen(l).(*ast.Ident)
			if !ok {
				continue
			}
			o, _ := e.info.Uses[id].(*types.Var)
			if o == nil || o.IsField() || !outside(o) || o.Pkg() == nil || o.Parent() == o.Pkg().Scope() {
				continue
			}
			var rhs ast.Node
			if len(as.Rhs) == len(as.Lhs) {
				rhs = as.Rhs[i]
			} else if len(as.Rhs) == 1 {
				rhs = as.Rhs[0]
			}
			if rhs != nil && mentions(rhs, o) {
				continue
			}
			plain[o] = true
		}
		return true
	})
	return plain
}

// innermostLoop returns the innermost loop whose body contains p (ok=false: none).
func (run *r2parseRun) innermostLoop(p token.Pos) (r2parseLoop, bool) {
	var best r2parseLoop
	found := false
	for _, l := range run.loops {
		if p > l.bodyLo && p < l.bodyHi {
			if !found || l.bodyLo > best.bodyLo {
				best, found = l, true
			}
		}
	}
	return best, found
}

func (run *r2parseRun) capNow(st *r2parseState, off int) *r2parseCap {
	st.seq++
	return &r2parseCap{off: off, D: st.D, U: st.U, seq: st.seq}
}

// touch maintains the loop-iteration entries: the first node of a loop body met
// on the path marks the entry of the (single explored) iteration.
func (run *r2parseRun) touch(st *r2parseState, p token.Pos) {
	for _, l := range run.loops {
		in := p > l.bodyLo && p < l.bodyHi
		_, have := st.loops[l.pos]
		switch {
		case in && !have:
			st.loops[l.pos] = run.capNow(st, 0)
		case !in && have:
			delete(st.loops, l.pos)
		}
	}
}

func (run *r2parseRun) walk() {
	e := run.e
	info := e.info
	st := &r2parseState{env: map[types.Object]*r2parseVal{}, errNil: map[types.Object]int8{}, calls: map[types.Object]*r2parseCallRec{}, loops: map[token.Pos]*r2parseCap{}, bindSeq: map[types.Object]int{}, errAlias: map[types.Object]r2parseErrAlias{}}
	entryCur := &r2parseCap{off: 0}
	entryPrev := &r2parseCap{off: -1}
	st.disp = entryCur
	if run.fd.Type.Results != nil {
		for _, f := range run.fd.Type.Results.List {
			for _, n := range f.Names {
				if obj := info.Defs[n]; obj != nil {
					if b, ok := obj.Type().Underlying().(*types.Basic); ok && b.Kind() == types.Bool {
						st.env[obj] = &r2parseVal{k: r2parseConst, cst: constant.MakeBool(false), typ: obj.Type(), desc: "false (zero value of result " + n.Name + ")"}
					}
				}
			}
		}
	}
	for _, f := range run.fd.Type.Params.List {
		for _, n := range f.Names {
			obj := info.Defs[n]
			if obj == nil {
				continue
			}
			v := &r2parseVal{k: r2parseParam, obj: obj, typ: obj.Type(), desc: "param " + n.Name}
			switch {
			case types.Identical(obj.Type(), e.sp.locT):
				v = &r2parseVal{k: r2parseLoc, edge: edgeStart, ub: entryCur, fromParam: true, obj: obj, typ: obj.Type(), desc: "param " + n.Name}
			case e.sp.isAstType(obj.Type()):
				v.start = &r2parseVal{k: r2parseLoc, edge: edgeStart, ub: entryPrev, fromParam: true, obj: obj, desc: "start of param " + n.Name}
				v.end = &r2parseVal{k: r2parseLoc, edge: edgeEnd, ub: entryPrev, fromParam: true, obj: obj, desc: "end of param " + n.Name}
				v.hasFn = true
			}
			st.env[obj] = v
		}
	}
	body := pxDesugar(run.fd.Body)
	w := &Walker[*r2parseState]{
		Clone:   r2parseClone,
		IsPanic: func(s ast.Stmt) bool { return IsPanicCall(info, s) },
		OnStmt: func(st *r2parseState, s ast.Stmt) (*r2parseState, bool) {
			run.touch(st, s.Pos())
			run.stmt(st, s)
			return st, true
		},
		OnCond: func(st *r2parseState, cond ast.Expr, taken bool) (*r2parseState, bool) {
			if _, inBody := run.innermostLoop(cond.Pos()); inBody || len(st.loops) > 0 {
				run.touch(st, cond.Pos())
			}
			return st, run.cond(st, cond, taken)
		},
		OnCase: func(st *r2parseState, sw *ast.SwitchStmt, vals, others []ast.Expr) (*r2parseState, bool) {
			run.touch(st, sw.Body.Lbrace)
			if ks := run.kindOfTag(st, sw.Tag); ks != nil {
				// switch x.Kind() where the node types x can hold on this path are known
				listed := func(list []ast.Expr) map[*types.Const]bool {
					out := map[*types.Const]bool{}
					for _, v := range list {
						if c := ConstOf(info, v); c != nil {
							out[c] = true
						}
					}
					return out
				}
				feasible := false
				if vals != nil {
					for c := range listed(vals) {
						if ks[c] {
							feasible = true
						}
					}
				} else {
					o := listed(others)
					for c := range ks {
						if !o[c] {
							feasible = true
						}
					}
				}
				if !feasible {
					return st, false
				}
			}
			if e.px.isCurKind(info, sw.Tag) {
				st.disp = run.capNow(st, 0)
				var ks []string
				for _, v := range vals {
					ks = append(ks, exprStr(v))
				}
				if vals == nil {
					st.note("switch kind: default")
				} else {
					st.note("switch kind: %s", spShort(strings.Join(ks, ",")))
				}
			} else if sw.Tag != nil {
				if vals == nil {
					st.note("switch %s: default", spShort(exprStr(sw.Tag)))
				} else {
					st.note("switch %s: %s", spShort(exprStr(sw.Tag)), spShort(exprStr(vals[0])))
				}
			}
			return st, true
		},
		Exit: func(st *r2parseState, o outcome) { run.exit(st, o) },
		// the next iteration starts afresh
		OnLoopIter: func(loop ast.Stmt, before, after *r2parseState) { delete(after.loops, loop.Pos()) },
	}
	// a loop without a condition is only left from inside its body: the exit taken after a
	// complete iteration is seen in the second one
	ast.Inspect(body, func(n ast.Node) bool {
		if f, ok := n.(*ast.ForStmt); ok && f.Cond == nil {
			w.LoopUnroll = 2
		}
		return true
	})
	w.Run(body, st)
	run.paths = w.Paths
	if w.Overflow {
		run.undec = append(run.undec, "path cap exceeded")
	}
	for _, p := range w.Unsupported {
		run.undec = append(run.undec, "unsupported control flow at "+e.c.Pos(p))
	}
}

func (run *r2parseRun) isRecv(e ast.Expr) bool {
	id, ok := ast.Unparen(e).(*ast.Ident)
	return ok && run.recv != nil && run.e.info.Uses[id] == run.recv
}

func (run *r2parseRun) tokenField(e ast.Expr) (int, bool) {
	s, ok := ast.Unparen(e).(*ast.SelectorExpr)
	if !ok || !run.isRecv(s.X) {
		return 0, false
	}
	switch spFieldOf(run.e.info, s) {
	case run.e.sp.curF:
		return 0, true
	case run.e.sp.prevF:
		return -1, true
	}
	return 0, false
}

func r2parseTokSpan(c *r2parseCap, desc string) *r2parseVal {
	s := &r2parseVal{k: r2parseLoc, edge: edgeStart, lb: c, ub: c, desc: desc + ".Start"}
	e := &r2parseVal{k: r2parseLoc, edge: edgeEnd, lb: c, ub: c, desc: desc + ".End"}
	return &r2parseVal{k: r2parseSpan, start: s, end: e, hasFn: true, desc: desc}
}

func r2parseUnk(desc string) *r2parseVal { return &r2parseVal{k: r2parseUnknown, desc: desc} }

// r2parseUnkFrom: an opaque value computed from the operands (keeps what they carry).
func r2parseUnkFrom(desc string, from ...*r2parseVal) *r2parseVal {
	v := &r2parseVal{k: r2parseUnknown, desc: desc}
	seen := map[*r2parseVal]bool{}
	for _, f := range from {
		v.carried = append(v.carried, r2parseCarried(f, seen)...)
		if f != nil {
			v.args = append(v.args, f) // what it was computed from (reachability of parameters)
		}
	}
	return v
}

// r2parseCarried collects the loop-carried reads a value was computed from
// (locations and spans excluded: R-span-fresh-start decides those).
func r2parseCarried(v *r2parseVal, seen map[*r2parseVal]bool) []string {
	if v == nil || seen[v] || v.k == r2parseLoc || v.k == r2parseSpan {
		return nil
	}
	seen[v] = true
	out := append([]string(nil), v.carried...)
	names := make([]string, 0, len(v.fields))
	for n := range v.fields {
		names = append(names, n)
	}
	sort.Strings(names)
	for _, n := range names {
		out = append(out, r2parseCarried(v.fields[n], seen)...)
	}
	for _, a := range v.args {
		out = append(out, r2parseCarried(a, seen)...)
	}
	for _, a := range v.elems {
		out = append(out, r2parseCarried(a, seen)...)
	}
	out = append(out, r2parseCarried(v.base, seen)...)
	return out
}

// carriedRead: obj is read now; is its binding older than the running iteration of
// an enclosing loop whose body assigns it?
func (run *r2parseRun) carriedRead(st *r2parseState, obj types.Object) string {
	for _, l := range run.loops {
		it := st.loops[l.pos]
		if it == nil || !l.assigned[obj] {
			continue
		}
		if st.bindSeq[obj] <= it.seq {
			return fmt.Sprintf("%s (assigned inside `%s`, but on this path its value was last set before the iteration began)", obj.Name(), l.label)
		}
	}
	return ""
}

func (run *r2parseRun) objOf(e ast.Expr) types.Object {
	id, ok := ast.Unparen(e).(*ast.Ident)
	if !ok || id.Name == "_" {
		return nil
	}
	if o := run.e.info.Defs[id]; o != nil {
		return o
	}
	return run.e.info.Uses[id]
}

// structFields returns the field list of the struct behind t (nil when t is not a struct).
func r2parseStructOf(t types.Type) *types.Struct {
	if t == nil {
		return nil
	}
	if p, ok := t.Underlying().(*types.Pointer); ok {
		t = p.Elem()
	}
	s, _ := t.Underlying().(*types.Struct)
	return s
}

func r2parseOwnSpanField(name string) bool { return name == "Range" || name == "Span" }

// eval computes the provenance of an expression, applying the effects of the
// calls inside it in evaluation order.
func (run *r2parseRun) eval(st *r2parseState, x ast.Expr, nested bool) *r2parseVal {
	e := run.e
	info := e.info
	x = ast.Unparen(x)
	if tv, ok := info.Types[x]; ok && tv.Value != nil {
		return &r2parseVal{k: r2parseConst, cst: tv.Value, typ: tv.Type, desc: exprStr(x)}
	}
	switch x := x.(type) {
	case *ast.Ident:
		if obj := info.Uses[x]; obj != nil {
			if _, isNil := obj.(*types.Nil); isNil {
				return &r2parseVal{k: r2parseZero, desc: "nil"}
			}
			v := st.env[obj]
			if v == nil {
				v = r2parseUnk(x.Name)
			}
			if why := run.carriedRead(st, obj); why != "" {
				c := *v
				c.carried = append(append([]string(nil), v.carried...), why)
				v = &c
			}
			return v
		}
		return r2parseUnk(x.Name)
	case *ast.SelectorExpr:
		f := spFieldOf(info, x)
		if f == nil {
			return r2parseUnk(exprStr(x))
		}
		if run.isRecv(x.X) {
			if f == e.sp.fileF {
				return &r2parseVal{k: r2parseFile, desc: exprStr(x)}
			}
			if off, ok := run.tokenField(x); ok {
				return &r2parseVal{k: r2parseTok, at: run.capNow(st, off), sel: "", desc: exprStr(x), typ: f.Type()}
			}
			return r2parseUnk(exprStr(x))
		}
		if off, ok := run.tokenField(x.X); ok {
			c := run.capNow(st, off)
			if f == e.sp.tokSpanF {
				return r2parseTokSpan(c, exprStr(x))
			}
			return &r2parseVal{k: r2parseTok, at: c, sel: f.Name(), desc: exprStr(x), typ: f.Type()}
		}
		base := run.eval(st, x.X, false)
		if v, ok := base.fields[f.Name()]; ok {
			return v
		}
		if base.k == r2parseNode {
			if s := r2parseStructOf(base.typ); s != nil {
				return &r2parseVal{k: r2parseZero, typ: f.Type(), desc: "omitted field " + f.Name() + " of " + base.desc}
			}
		}
		if base.k == r2parseSpan {
			switch {
			case types.Identical(f.Type(), e.sp.locT) && f.Name() == "Start":
				return base.start
			case types.Identical(f.Type(), e.sp.locT) && f.Name() == "End":
				return base.end
			case f.Name() == "Filename" && base.hasFn:
				return &r2parseVal{k: r2parseFile, desc: exprStr(x)}
			}
			return r2parseUnk(exprStr(x))
		}
		if base.k == r2parseTok && base.sel == "" {
			// field of a token value held in a local
			if f == e.sp.tokSpanF {
				return r2parseTokSpan(base.at, exprStr(x))
			}
			return &r2parseVal{k: r2parseTok, at: base.at, sel: f.Name(), desc: exprStr(x), typ: f.Type()}
		}
		if base.hasSpan() {
			switch {
			case types.Identical(f.Type(), e.sp.spanT) && r2parseOwnSpanField(f.Name()):
				return &r2parseVal{k: r2parseSpan, start: base.start, end: base.end, hasFn: base.hasFn, desc: exprStr(x)}
			case types.Identical(f.Type(), e.sp.spanT) || e.sp.isAstType(f.Type()):
				s := &r2parseVal{k: r2parseLoc, edge: edgeStart, lb: base.start.lb, ub: base.end.ub, desc: "start of " + exprStr(x) + " (inside " + base.desc + ")"}
				en := &r2parseVal{k: r2parseLoc, edge: edgeEnd, lb: base.start.lb, ub: base.end.ub, desc: "end of " + exprStr(x) + " (inside " + base.desc + ")"}
				k := r2parseField
				if types.Identical(f.Type(), e.sp.spanT) {
					k = r2parseSpan
				}
				return &r2parseVal{k: k, base: base, sel: f.Name(), start: s, end: en, hasFn: base.hasFn, typ: f.Type(), desc: exprStr(x)}
			}
		}
		return &r2parseVal{k: r2parseField, base: base, sel: f.Name(), typ: f.Type(), desc: exprStr(x)}
	case *ast.StarExpr:
		return run.eval(st, x.X, nested)
	case *ast.TypeAssertExpr:
		// p.(T): the same value seen at another static type — provenance is kept
		return run.eval(st, x.X, nested)
	case *ast.UnaryExpr:
		if x.Op == token.AND {
			return run.eval(st, x.X, nested)
		}
		return r2parseUnkFrom(exprStr(x), run.eval(st, x.X, false))
	case *ast.BinaryExpr:
		a := run.eval(st, x.X, false)
		b := run.eval(st, x.Y, false)
		return r2parseUnkFrom(exprStr(x), a, b)
	case *ast.IndexExpr:
		a := run.eval(st, x.X, false)
		b := run.eval(st, x.Index, false)
		return r2parseUnkFrom(exprStr(x), a, b)
	case *ast.CompositeLit:
		return run.evalLit(st, x, nested)
	case *ast.CallExpr:
		return run.evalCall(st, x, nested)
	case *ast.FuncLit:
		return r2parseUnk("func literal")
	}
	return r2parseUnk(exprStr(x))
}

func (run *r2parseRun) evalLit(st *r2parseState, x *ast.CompositeLit, nested bool) *r2parseVal {
	e := run.e
	info := e.info
	tv := info.Types[x]
	if tv.Type != nil && types.Identical(tv.Type, e.sp.spanT) {
		var a, b, f ast.Expr
		for _, el := range x.Elts {
			kv, ok := el.(*ast.KeyValueExpr)
			if !ok {
				run.eval(st, el, false)
				continue
			}
			switch exprStr(kv.Key) {
			case "Start":
				a = kv.Value
			case "End":
				b = kv.Value
			case "Filename":
				f = kv.Value
			}
		}
		if a == nil && b == nil && f == nil {
			return &r2parseVal{k: r2parseZero, typ: tv.Type, desc: "errors.Span{}"}
		}
		return run.buildSpan(st, x, a, b, f, nested)
	}
	s := r2parseStructOf(tv.Type)
	if s == nil {
		for _, el := range x.Elts {
			if kv, ok := el.(*ast.KeyValueExpr); ok {
				run.eval(st, kv.Value, false)
			} else {
				run.eval(st, el, false)
			}
		}
		return r2parseUnk(spTypeName(tv.Type) + " literal")
	}
	v := &r2parseVal{k: r2parseNode, typ: tv.Type, lit: x, fields: map[string]*r2parseVal{}, desc: spTypeName(tv.Type) + " literal"}
	var own *r2parseVal
	for i, el := range x.Elts {
		name := ""
		var val ast.Expr
		if kv, ok := el.(*ast.KeyValueExpr); ok {
			name, val = exprStr(kv.Key), kv.Value
		} else if i < s.NumFields() {
			name, val = s.Field(i).Name(), el
		} else {
			continue
		}
		fv := run.eval(st, val, true)
		v.fields[name] = fv
		if fv.k == r2parseSpan && (own == nil || r2parseOwnSpanField(name)) {
			if t := info.Types[val].Type; t != nil && types.Identical(t, e.sp.spanT) {
				own = fv
			}
		}
	}
	if own != nil {
		v.start, v.end, v.hasFn = own.start, own.end, own.hasFn
	}
	if run.obs.lit != nil {
		run.obs.lit(st, x, v)
	}
	return v
}

func (run *r2parseRun) buildSpan(st *r2parseState, site ast.Node, a, b, f ast.Expr, nested bool) *r2parseVal {
	var av, bv *r2parseVal
	if a != nil {
		av = run.eval(st, a, false)
	}
	if b != nil {
		bv = run.eval(st, b, false)
	}
	if f != nil {
		run.eval(st, f, false)
	}
	if av == nil || av.k != r2parseLoc {
		av = &r2parseVal{k: r2parseLoc, edge: edgeStart, desc: "? (" + av.String() + ")"}
	}
	if bv == nil || bv.k != r2parseLoc {
		bv = &r2parseVal{k: r2parseLoc, edge: edgeEnd, desc: "? (" + bv.String() + ")"}
	}
	if run.inlineSite != nil {
		site = run.inlineSite // built by a helper: the construction belongs to the call
	}
	v := &r2parseVal{k: r2parseSpan, start: av, end: bv, hasFn: true, built: site, desc: "span(" + av.desc + " .. " + bv.desc + ")"}
	if run.obs.span != nil {
		run.obs.span(st, site, v, nested)
	}
	return v
}

func (run *r2parseRun) evalCall(st *r2parseState, x *ast.CallExpr, nested bool) *r2parseVal {
	e := run.e
	info := e.info
	// conversion
	if tv, ok := info.Types[x.Fun]; ok && tv.IsType() && len(x.Args) == 1 {
		return run.eval(st, x.Args[0], nested)
	}
	// builtins
	if id, ok := ast.Unparen(x.Fun).(*ast.Ident); ok {
		if b, ok := info.Uses[id].(*types.Builtin); ok {
			var args []*r2parseVal
			for _, a := range x.Args {
				if tv, ok := info.Types[a]; ok && tv.IsType() {
					args = append(args, r2parseUnk("type"))
					continue
				}
				args = append(args, run.eval(st, a, true))
			}
			if run.obs.call != nil {
				run.obs.call(st, x, nil, b.Name(), args)
			}
			switch b.Name() {
			case "append":
				out := &r2parseVal{k: r2parseSlice, typ: info.Types[x].Type, desc: "append(…)"}
				if len(args) > 0 {
					out.elems = append(out.elems, args[0].elems...)
					if args[0].k != r2parseSlice && args[0].k != r2parseZero {
						out.elems = append(out.elems, &r2parseVal{k: r2parseUnknown, desc: "elements of " + args[0].desc})
					}
					if x.Ellipsis == token.NoPos {
						out.elems = append(out.elems, args[1:]...)
					} else {
						out.elems = append(out.elems, r2parseUnk("spread"))
					}
				}
				return out
			case "make", "new":
				out := &r2parseVal{k: r2parseSlice, typ: info.Types[x].Type, lit: x, desc: b.Name() + "(…)"}
				if _, isSlice := out.typ.Underlying().(*types.Slice); isSlice && b.Name() == "make" && len(args) >= 2 {
					if args[1].k == r2parseConst && args[1].cst.Kind() == constant.Int {
						n, _ := constant.Int64Val(args[1].cst)
						for i := int64(0); i < n && i < 64; i++ {
							out.elems = append(out.elems, &r2parseVal{k: r2parseZero, hole: true, lit: x, desc: fmt.Sprintf("slot %d of %s, never stored", i, exprStr(x))})
						}
					} else {
						out.elems = append(out.elems, &r2parseVal{k: r2parseZero, hole: true, holeN: true, lit: x, desc: "slots of " + exprStr(x) + " (length not constant)"})
					}
				}
				return out
			}
			return r2parseUnkFrom(b.Name()+"(…)", args...)
		}
	}
	fn := CalleeOf(info, x)
	if fn == e.sp.until {
		sel := ast.Unparen(x.Fun).(*ast.SelectorExpr)
		return run.buildSpan(st, x, sel.X, x.Args[0], x.Args[1], nested)
	}
	// <cursor>.Kind.Prec()
	if e.px.isPrecOfCursor(x) {
		return &r2parseVal{k: r2parsePrecV, at: run.capNow(st, 0), idx: 0, desc: exprStr(x)}
	}
	// receiver (for its effects and for X.Span())
	var recvVal *r2parseVal
	if sel, ok := ast.Unparen(x.Fun).(*ast.SelectorExpr); ok && fn != nil {
		if sig := fn.Type().(*types.Signature); sig.Recv() != nil && !run.isRecv(sel.X) {
			recvVal = run.eval(st, sel.X, false)
		}
	}
	// <token kind held in a local>.Prec(): the power of the token the kind was read from
	if fn != nil && recvVal != nil && recvVal.k == r2parseTok && recvVal.sel == e.px.kindF.Name() && recvVal.at != nil && len(x.Args) == 0 {
		if sig := fn.Type().(*types.Signature); sig.Results().Len() == 2 && types.Identical(sig.Recv().Type(), e.px.kindT) && fn.Name() == "Prec" {
			return &r2parseVal{k: r2parsePrecV, at: recvVal.at, idx: 0, desc: exprStr(x)}
		}
	}
	var args []*r2parseVal
	for _, a := range x.Args {
		args = append(args, run.eval(st, a, true))
	}
	if run.obs.call != nil {
		run.obs.call(st, x, fn, "", args)
	}
	if fn == nil {
		return r2parseUnkFrom(exprStr(x.Fun)+"(…)", args...)
	}
	sig := fn.Type().(*types.Signature)
	if m := e.convs[fn]; m != nil && len(x.Args) == 1 {
		v := &r2parseVal{k: r2parseConv, fn: fn, args: args, typ: m.enum, desc: exprStr(x)}
		switch {
		case e.px.isCurKind(info, x.Args[0]):
			v.at = run.capNow(st, 0)
		case args[0].k == r2parseTok && args[0].sel == e.px.kindF.Name():
			v.at = args[0].at
		}
		if v.at != nil && st.disp != nil {
			// tokens consumed between the last decision on the cursor's kind and the read
			lo, hi := v.at.D-st.disp.D, v.at.U-st.disp.U
			v.sinceDisp = hi
			if lo == hi && lo >= 0 && lo+v.at.off == 0 {
				v.ofCursor = true // the converted token is the token the dispatch looked at
			}
		}
		return v
	}
	// pure one-line helper of the parser (body `return <expr>`, moves nothing): inline it with
	// its parameters bound to the argument values (currentStart(), spanFrom(start), …)
	if fd := e.sp.decls[fn]; fd != nil && fd.Body != nil && sig.Recv() != nil && recvNamed(sig.Recv().Type()) == e.sp.parserT &&
		!sig.Variadic() && len(fd.Body.List) == 1 && fd.Recv != nil && len(fd.Recv.List) == 1 && len(fd.Recv.List[0].Names) == 1 && run.inlineDepth < 4 {
		if ret, ok := fd.Body.List[0].(*ast.ReturnStmt); ok && len(ret.Results) == 1 && !run.hasConsumerCall(ret.Results[0]) {
			if sel, ok := ast.Unparen(x.Fun).(*ast.SelectorExpr); ok && run.isRecv(sel.X) {
				saved, savedSite := run.recv, run.inlineSite
				run.recv, _ = info.Defs[fd.Recv.List[0].Names[0]].(*types.Var)
				if run.inlineSite == nil {
					run.inlineSite = x
				}
				run.inlineDepth++
				var bound []types.Object
				i := 0
				for _, f := range fd.Type.Params.List {
					for _, n := range f.Names {
						if o := info.Defs[n]; o != nil && i < len(args) {
							st.env[o] = args[i]
							bound = append(bound, o)
						}
						i++
					}
				}
				v := run.eval(st, ret.Results[0], nested)
				for _, o := range bound {
					delete(st.env, o)
				}
				run.inlineDepth--
				run.recv, run.inlineSite = saved, savedSite
				return v
			}
		}
	}
	if e.sp.isConsumer(fn) {
		return run.applyCall(st, x, fn, args)
	}
	// X.Span() of a node-like value
	if recvVal != nil && len(x.Args) == 0 && sig.Results().Len() == 1 && types.Identical(sig.Results().At(0).Type(), e.sp.spanT) {
		if recvVal.hasSpan() {
			return &r2parseVal{k: r2parseSpan, start: recvVal.start, end: recvVal.end, hasFn: recvVal.hasFn, desc: exprStr(x)}
		}
		return r2parseUnk(exprStr(x))
	}
	// constructor of package ast: a node built here
	if fn.Pkg() != nil && fn.Pkg().Path() == e.sp.astPkg && sig.Recv() == nil && sig.Results().Len() == 1 {
		v := &r2parseVal{k: r2parseNode, typ: sig.Results().At(0).Type(), lit: x, fields: map[string]*r2parseVal{}, desc: fn.Name() + "(…)"}
		nspan := 0
		for i, a := range args {
			name := fmt.Sprintf("arg%d", i)
			if i < sig.Params().Len() && sig.Params().At(i).Name() != "" {
				name = sig.Params().At(i).Name()
			}
			v.fields["("+name+")"] = a
			if t := info.Types[x.Args[i]].Type; t != nil && types.Identical(t, e.sp.spanT) && a.k == r2parseSpan {
				nspan++
				v.start, v.end, v.hasFn = a.start, a.end, a.hasFn
			}
		}
		if nspan != 1 {
			v.start, v.end = nil, nil
		}
		v.args = args
		v.fn = fn
		return v
	}
	return r2parseUnkFrom(exprStr(x.Fun)+"(…)", append(args, recvVal)...)
}

// applyCall applies the effect of a call of a parser method.
func (run *r2parseRun) applyCall(st *r2parseState, call *ast.CallExpr, fn *types.Func, args []*r2parseVal) *r2parseVal {
	e := run.e
	before := run.capNow(st, 0)
	lo, hi := e.sp.summary(fn, call, run.consts)
	rec := &r2parseCallRec{dBefore: st.D}
	st.D = spSat(st.D, lo)
	st.U = spSat(st.U, hi)
	st.note("%s()", fn.Name())
	after := run.capNow(st, -1)
	if hi > 0 {
		st.lastCons = after.seq
		st.lastConsCall = call
	}
	st.last = rec
	sig := fn.Type().(*types.Signature)
	v := &r2parseVal{k: r2parseCall, fn: fn, call: call, args: args, at: before, desc: "result of " + fn.Name() + "()"}
	if sig.Results().Len() > 0 {
		v.typ = sig.Results().At(0).Type()
	}
	if v.typ != nil && (e.sp.isAstType(v.typ) || types.Identical(v.typ, e.exprT)) {
		s := &r2parseVal{k: r2parseLoc, edge: edgeStart, lb: before, ub: before, desc: "start of " + v.desc}
		for i, a := range args {
			// a callee that receives a start location builds its node from there
			// (R-span-own-start decides that for the callee)
			if i < sig.Params().Len() && types.Identical(sig.Params().At(i).Type(), e.sp.locT) && a.k == r2parseLoc {
				s = a
				v.startFromArg = true
				break
			}
		}
		en := &r2parseVal{k: r2parseLoc, edge: edgeEnd, lb: after, ub: after, desc: "end of " + v.desc}
		v.start, v.end, v.hasFn = s, en, true
		st.made = append(st.made, v)
	}
	return v
}

func (run *r2parseRun) bindIdent(st *r2parseState, lhs ast.Expr, v *r2parseVal) {
	e := run.e
	obj := run.objOf(lhs)
	if obj == nil {
		return
	}
	st.seq++
	st.bindSeq[obj] = st.seq
	for _, r := range st.ctrl {
		if lhs.Pos() > r.lo && lhs.Pos() < r.hi {
			var c r2parseVal
			if v != nil {
				c = *v
			} else {
				c = r2parseVal{k: r2parseUnknown, desc: exprStr(lhs)}
			}
			c.carried = append(append([]string(nil), c.carried...), obj.Name()+" (assigned under "+r.why+")")
			v = &c
		}
	}
	if e.sp.isErrPtr(obj.Type()) {
		delete(st.errNil, obj)
		delete(st.calls, obj)
		switch {
		case v != nil && v.k == r2parseCall:
			st.calls[obj] = st.last
		case v != nil && v.k == r2parseZero:
			st.errNil[obj] = 1
		}
		return
	}
	if v == nil || (v.k == r2parseUnknown && len(v.carried) == 0) {
		delete(st.env, obj)
		return
	}
	st.env[obj] = v
}

// setField stores v at root.path (copy-on-write: values are shared between paths).
func (run *r2parseRun) setField(st *r2parseState, root types.Object, path []string, v *r2parseVal) {
	old := st.env[root]
	if old == nil {
		old = &r2parseVal{k: r2parseUnknown, desc: root.Name()}
	}
	st.env[root] = r2parseWithField(old, path, v)
}

func r2parseWithField(old *r2parseVal, path []string, v *r2parseVal) *r2parseVal {
	n := *old
	n.fields = make(map[string]*r2parseVal, len(old.fields)+1)
	for k, f := range old.fields {
		n.fields[k] = f
	}
	if len(path) == 1 {
		n.fields[path[0]] = v
		return &n
	}
	sub := old.fields[path[0]]
	if sub == nil {
		sub = &r2parseVal{k: r2parseUnknown, desc: old.desc + "." + path[0]}
	}
	n.fields[path[0]] = r2parseWithField(sub, path[1:], v)
	return &n
}

// storeIndex: xs[i] = v for a slice held in a local (copy-on-write).
func (run *r2parseRun) storeIndex(st *r2parseState, ix *ast.IndexExpr, v *r2parseVal) {
	obj := run.objOf(ix.X)
	if obj == nil {
		return
	}
	old := st.env[obj]
	if old == nil || old.k != r2parseSlice {
		return
	}
	n := *old
	n.elems = append([]*r2parseVal(nil), old.elems...)
	if tv, ok := run.e.info.Types[ix.Index]; ok && tv.Value != nil && tv.Value.Kind() == constant.Int {
		if i, exact := constant.Int64Val(tv.Value); exact && i >= 0 && int(i) < len(n.elems) && !(len(n.elems) == 1 && n.elems[0].holeN) {
			n.elems[i] = v
			st.env[obj] = &n
			return
		}
	}
	// a store at an index the engine cannot resolve: any slot may have been filled
	for i, el := range n.elems {
		if el.hole {
			n.elems[i] = r2parseUnkFrom("slot possibly stored by "+exprStr(ix), v)
		}
	}
	st.env[obj] = &n
}

// selectorPath decomposes x.a.b into (obj of x, [a b]).
func (run *r2parseRun) selectorPath(x ast.Expr) (types.Object, []string) {
	var path []string
	for {
		x = ast.Unparen(x)
		switch s := x.(type) {
		case *ast.SelectorExpr:
			path = append([]string{s.Sel.Name}, path...)
			x = s.X
			continue
		case *ast.StarExpr:
			x = s.X
			continue
		case *ast.Ident:
			if len(path) == 0 {
				return nil, nil
			}
			return run.objOf(s), path
		}
		return nil, nil
	}
}

func (run *r2parseRun) stmt(st *r2parseState, s ast.Stmt) {
	e := run.e
	info := e.info
	switch x := s.(type) {
	case *ast.ExprStmt:
		v := run.eval(st, x.X, false)
		if run.obs.exprStmt != nil {
			run.obs.exprStmt(st, x, v)
		}
	case *ast.AssignStmt:
		if len(x.Rhs) == 1 && len(x.Lhs) > 1 {
			v := run.eval(st, x.Rhs[0], false)
			for i, l := range x.Lhs {
				var vi *r2parseVal
				switch v.k {
				case r2parseCall:
					c := *v
					c.idx = i
					if i > 0 {
						c.start, c.end = nil, nil
						if v.fn != nil {
							if sig := v.fn.Type().(*types.Signature); i < sig.Results().Len() {
								c.typ = sig.Results().At(i).Type()
							}
						}
						c.desc = fmt.Sprintf("result #%d of %s()", i+1, v.fn.Name())
					}
					vi = &c
				case r2parsePrecV:
					c := *v
					c.idx = i
					vi = &c
				}
				if run.obs.bind != nil {
					run.obs.bind(st, x, l, vi)
				}
				run.bindIdent(st, l, vi)
			}
			return
		}
		if len(x.Lhs) == len(x.Rhs) {
			vals := make([]*r2parseVal, len(x.Rhs))
			for i, rhs := range x.Rhs {
				vals[i] = run.eval(st, rhs, false)
			}
			for i, rhs := range x.Rhs {
				if lobj := run.objOf(x.Lhs[i]); lobj != nil {
					delete(st.errAlias, lobj)
					if eobj, neq, ok := run.errTest(rhs); ok && x.Tok != token.ADD_ASSIGN {
						defer func(l, eo types.Object, n bool) {
							st.seq++
							st.errAlias[l] = r2parseErrAlias{err: eo, neq: n, seq: st.seq}
						}(lobj, eobj, neq)
					}
				}
			}
			for i, l := range x.Lhs {
				v := vals[i]
				if x.Tok != token.ASSIGN && x.Tok != token.DEFINE {
					v = r2parseUnk(exprStr(l))
				}
				if _, ok := ast.Unparen(l).(*ast.Ident); ok {
					if run.obs.bind != nil {
						run.obs.bind(st, x, l, v)
					}
					// failure = err: the copy knows what the source knows
					var srcNil int8
					var srcCall *r2parseCallRec
					lobj, robj := run.objOf(l), run.objOf(x.Rhs[i])
					copyErr := lobj != nil && robj != nil && lobj != robj && e.sp.isErrPtr(lobj.Type()) && e.sp.isErrPtr(robj.Type())
					if copyErr {
						srcNil, srcCall = st.errNil[robj], st.calls[robj]
					}
					run.bindIdent(st, l, v)
					if copyErr {
						if srcNil != 0 {
							st.errNil[lobj] = srcNil
						}
						if srcCall != nil {
							st.calls[lobj] = srcCall
						}
					}
					continue
				}
				if ix, ok := ast.Unparen(l).(*ast.IndexExpr); ok {
					run.storeIndex(st, ix, v)
					continue
				}
				if root, path := run.selectorPath(l); root != nil {
					if run.obs.store != nil {
						run.obs.store(st, x, l, root, path, v)
					}
					if run.recv == nil || root != types.Object(run.recv) {
						run.setField(st, root, path, v)
					}
				}
			}
			return
		}
		for _, rhs := range x.Rhs {
			run.eval(st, rhs, false)
		}
		for _, l := range x.Lhs {
			if obj := run.objOf(l); obj != nil {
				delete(st.env, obj)
				st.seq++
				st.bindSeq[obj] = st.seq
			}
		}
	case *ast.DeclStmt:
		gd, ok := x.Decl.(*ast.GenDecl)
		if !ok {
			return
		}
		for _, sp := range gd.Specs {
			vs, ok := sp.(*ast.ValueSpec)
			if !ok {
				continue
			}
			for i, n := range vs.Names {
				obj := info.Defs[n]
				if obj == nil {
					continue
				}
				if i < len(vs.Values) {
					v := run.eval(st, vs.Values[i], false)
					run.bindIdent(st, n, v)
					continue
				}
				st.seq++
				st.bindSeq[obj] = st.seq
				if e.sp.isErrPtr(obj.Type()) {
					st.errNil[obj] = 1
					continue
				}
				st.env[obj] = &r2parseVal{k: r2parseZero, typ: obj.Type(), lit: n, desc: "zero value of `var " + n.Name + "`"}
			}
		}
	case *ast.ReturnStmt:
		st.ret = nil
		st.retSet = true
		if len(x.Results) == 1 {
			v := run.eval(st, x.Results[0], false)
			n := run.fn.Type().(*types.Signature).Results().Len()
			if v.k == r2parseCall && n > 1 {
				for i := 0; i < n; i++ {
					c := *v
					c.idx = i
					if i > 0 {
						c.start, c.end = nil, nil
					}
					st.ret = append(st.ret, &c)
				}
				return
			}
			st.ret = []*r2parseVal{v}
			return
		}
		for _, r := range x.Results {
			st.ret = append(st.ret, run.eval(st, r, false))
		}
	}
}

func (run *r2parseRun) cond(st *r2parseState, cond ast.Expr, taken bool) bool {
	e := run.e
	info := e.info
	cond = ast.Unparen(cond)
	if tv, ok := info.Types[cond]; ok && tv.Value != nil && tv.Value.Kind() == constant.Bool {
		return constant.BoolVal(tv.Value) == taken
	}
	if id, ok := cond.(*ast.Ident); ok {
		if v, ok := run.consts[info.Uses[id]]; ok {
			if v == taken {
				st.note("%s=%v", id.Name, v)
			}
			return v == taken
		}
		// a boolean local that holds `err != nil` / `err == nil`
		if a, ok := st.errAlias[info.Uses[id]]; ok && st.bindSeq[a.err] < a.seq {
			return run.condErr(st, a.err, a.neq == taken)
		}
	}
	if be, ok := cond.(*ast.BinaryExpr); ok && (be.Op == token.NEQ || be.Op == token.EQL) {
		var idE ast.Expr
		if spIsNil(info, be.Y) {
			idE = be.X
		} else if spIsNil(info, be.X) {
			idE = be.Y
		}
		if idE != nil {
			if obj := run.objOf(idE); obj != nil && e.sp.isErrPtr(obj.Type()) {
				return run.condErr(st, obj, (be.Op == token.NEQ) == taken)
			}
		}
		if _, _, ok := e.px.kindAtom(info, cond); ok {
			st.disp = run.capNow(st, 0)
			st.note("%s:%v", spShort(exprStr(cond)), taken)
			return true
		}
	}
	cv := run.eval(st, cond, false)
	if why := r2parseCarried(cv, map[*r2parseVal]bool{}); len(why) > 0 {
		// a branch decided by a loop-carried value: what is assigned under it is carried too
		for _, r := range run.ifs {
			if cond.Pos() >= r.condLo && cond.Pos() < r.condHi {
				st.ctrl = append(st.ctrl, r2parseCtrl{lo: r.lo, hi: r.hi, why: "a branch on " + why[0]})
			}
		}
	}
	st.note("%s:%v", spShort(exprStr(cond)), taken)
	return true
}

// kindOfTag: tag is x.Kind() and the node types x can hold on this path are known: the set
// of constants their Kind() methods return (nil: unknown).
func (run *r2parseRun) kindOfTag(st *r2parseState, tag ast.Expr) map[*types.Const]bool {
	e := run.e
	call, ok := ast.Unparen(tag).(*ast.CallExpr)
	if !ok || len(call.Args) != 0 {
		return nil
	}
	sel, ok := ast.Unparen(call.Fun).(*ast.SelectorExpr)
	if !ok {
		return nil
	}
	id, ok := ast.Unparen(sel.X).(*ast.Ident)
	if !ok {
		return nil
	}
	return e.kindsOfVal(st.env[e.info.Uses[id]], sel.Sel.Name, 0)
}

// kindsOfVal: the constants method(name) can return for the node value v.
func (e *r2parseEngine) kindsOfVal(v *r2parseVal, name string, depth int) map[*types.Const]bool {
	if v == nil || v.typ == nil || (v.k != r2parseCall && v.k != r2parseNode) || v.idx != 0 {
		return nil
	}
	if n, ok := v.typ.(*types.Named); ok {
		if _, isIface := n.Underlying().(*types.Interface); !isIface {
			for i := 0; i < n.NumMethods(); i++ {
				m := n.Method(i)
				if m.Name() != name {
					continue
				}
				ap := e.c.Pkg("homescript/parser/ast")
				fd := pxFuncDeclOf(ap.TypesInfo, m)
				if fd == nil || fd.Body == nil || len(fd.Body.List) != 1 {
					return nil
				}
				ret, ok := fd.Body.List[0].(*ast.ReturnStmt)
				if !ok || len(ret.Results) != 1 {
					return nil
				}
				if k := ConstOf(ap.TypesInfo, ret.Results[0]); k != nil {
					return map[*types.Const]bool{k: true}
				}
				return nil
			}
			return nil
		}
	}
	// an interface-typed result of a parser method: the union over what the method can return
	if v.k != r2parseCall || v.fn == nil || depth > 4 {
		return nil
	}
	key := v.fn.Name() + "." + name
	if e.kindSets == nil {
		e.kindSets = map[string]map[*types.Const]bool{}
		e.kindBusy = map[string]bool{}
	}
	if s, ok := e.kindSets[key]; ok {
		return s
	}
	fd := e.sp.decls[v.fn]
	if fd == nil || fd.Body == nil || e.kindBusy[key] || v.fn == e.exprFn {
		return nil
	}
	e.kindBusy[key] = true
	out := map[*types.Const]bool{}
	unknown := false
	run := e.newRun(fd, nil)
	run.obs.exit = func(st *r2parseState, o outcome, success bool, results []*r2parseVal) {
		if !success || unknown {
			return
		}
		if len(results) == 0 {
			unknown = true
			return
		}
		s := e.kindsOfVal(results[0], name, depth+1)
		if s == nil {
			unknown = true
			return
		}
		for k := range s {
			out[k] = true
		}
	}
	run.walk()
	delete(e.kindBusy, key)
	if unknown || len(out) == 0 {
		e.kindSets[key] = nil
		return nil
	}
	e.kindSets[key] = out
	return out
}

// condErr decides `err != nil` (nonNil) / `err == nil` for the error variable obj.
func (run *r2parseRun) condErr(st *r2parseState, obj types.Object, nonNil bool) bool {
	if k, ok := st.errNil[obj]; ok {
		return (k == 2) == nonNil
	}
	if nonNil {
		st.errNil[obj] = 2
		if rec := st.calls[obj]; rec != nil {
			st.D = rec.dBefore
			st.note("%s failed", obj.Name())
		}
	} else {
		st.errNil[obj] = 1
	}
	return true
}

// errTest decodes `<error variable> !=/== nil`.
func (run *r2parseRun) errTest(x ast.Expr) (types.Object, bool, bool) {
	be, ok := ast.Unparen(x).(*ast.BinaryExpr)
	if !ok || (be.Op != token.NEQ && be.Op != token.EQL) {
		return nil, false, false
	}
	var idE ast.Expr
	if spIsNil(run.e.info, be.Y) {
		idE = be.X
	} else if spIsNil(run.e.info, be.X) {
		idE = be.Y
	}
	if idE == nil {
		return nil, false, false
	}
	obj := run.objOf(idE)
	if obj == nil || !run.e.sp.isErrPtr(obj.Type()) {
		return nil, false, false
	}
	return obj, be.Op == token.NEQ, true
}

func (run *r2parseRun) exit(st *r2parseState, o outcome) {
	e := run.e
	if o.kind == cPanic {
		return
	}
	success := true
	if o.ret != nil && e.sp.returnsErr(run.fn) && len(o.ret.Results) == 0 && run.fd.Type.Results != nil {
		// bare return: the named error result decides
		fl := run.fd.Type.Results.List
		if last := fl[len(fl)-1]; len(last.Names) > 0 {
			if obj := e.info.Defs[last.Names[len(last.Names)-1]]; obj != nil && st.errNil[obj] == 2 {
				success = false
			}
		}
	}
	if o.ret != nil && e.sp.returnsErr(run.fn) && len(o.ret.Results) > 0 {
		last := o.ret.Results[len(o.ret.Results)-1]
		if len(o.ret.Results) == 1 {
			if call, _ := run.consumerCall(last); call != nil {
				last = nil // forwarded: success iff the callee succeeds
			}
		}
		if last != nil {
			switch {
			case spIsNil(e.info, last):
			default:
				if call, _ := run.consumerCall(last); call != nil {
					// error produced by a parser method: unknown
				} else if _, isCall := ast.Unparen(last).(*ast.CallExpr); isCall {
					success = false
				} else if obj := run.objOf(last); obj != nil {
					if st.errNil[obj] == 2 {
						success = false
					} else if st.errNil[obj] == 0 && len(o.ret.Results) > 1 && r2parseEmptyResult(e.info, o.ret.Results[0]) {
						// `return T{}, err` / `return nil, err` with an error variable of unknown
						// nil-ness: the error-return idiom (a successful path returns what it built)
						success = false
					}
				} else if u, ok := ast.Unparen(last).(*ast.UnaryExpr); ok && u.Op == token.AND {
					success = false
				}
			}
		}
	}
	if run.obs.exit != nil {
		run.obs.exit(st, o, success, st.ret)
	}
}

// r2parseEmptyResult: x is nil or an empty composite literal T{}.
func r2parseEmptyResult(info *types.Info, x ast.Expr) bool {
	x = ast.Unparen(x)
	if spIsNil(info, x) {
		return true
	}
	lit, ok := x.(*ast.CompositeLit)
	return ok && len(lit.Elts) == 0
}

func (run *r2parseRun) consumerCall(x ast.Expr) (*ast.CallExpr, *types.Func) {
	call, ok := ast.Unparen(x).(*ast.CallExpr)
	if !ok {
		return nil, nil
	}
	fn := CalleeOf(run.e.info, call)
	if fn != nil && run.e.sp.isConsumer(fn) {
		return call, fn
	}
	return nil, nil
}

// r2parseTokDiffLB: lower bound of token(b) - token(a) (ok=false: not derivable).
func r2parseTokDiffLB(a, b *r2parseCap) (int, bool) {
	if a == nil || b == nil {
		return 0, false
	}
	if a.seq <= b.seq {
		return (b.D - a.D) + b.off - a.off, true
	}
	if a.U >= spBig || b.U >= spBig {
		return -spBig, true
	}
	return -(a.U - b.U) + b.off - a.off, true
}

// contexts: the constant bindings of the boolean parameters of fd observed at
// its call sites in package parser ("" binding = some caller passes a
// non-constant or the function has no boolean parameter).
type r2parseContext struct {
	consts map[types.Object]bool
	label  string          // "[flag=F]" or ""
	from   map[string]bool // callers (function keys)
	sites  []*ast.CallExpr // call sites selecting this context
	inFd   []*ast.FuncDecl // the function each site is in
}

func (e *r2parseEngine) contextsOf(fd *ast.FuncDecl) []*r2parseContext {
	fn := e.fnOf[fd]
	sig := fn.Type().(*types.Signature)
	var bools []int
	for i := 0; i < sig.Params().Len(); i++ {
		if b, ok := sig.Params().At(i).Type().Underlying().(*types.Basic); ok && b.Kind() == types.Bool && e.steers(fd, sig.Params().At(i)) {
			bools = append(bools, i)
		}
	}
	byLabel := map[string]*r2parseContext{}
	var order []string
	add := func(label string, consts map[types.Object]bool, caller *ast.FuncDecl, call *ast.CallExpr) {
		cx := byLabel[label]
		if cx == nil {
			cx = &r2parseContext{consts: consts, label: label, from: map[string]bool{}}
			byLabel[label] = cx
			order = append(order, label)
		}
		if caller != nil {
			cx.from[e.funcKey(caller)] = true
			cx.sites = append(cx.sites, call)
			cx.inFd = append(cx.inFd, caller)
		}
	}
	if len(bools) == 0 {
		add("", map[types.Object]bool{}, nil, nil)
	}
	for _, caller := range e.fds {
		ast.Inspect(caller.Body, func(n ast.Node) bool {
			call, ok := n.(*ast.CallExpr)
			if !ok || CalleeOf(e.info, call) != fn {
				return true
			}
			consts := map[types.Object]bool{}
			var parts []string
			for _, i := range bools {
				if i >= len(call.Args) {
					continue
				}
				if tv := e.info.Types[call.Args[i]]; tv.Value != nil && tv.Value.Kind() == constant.Bool {
					v := constant.BoolVal(tv.Value)
					consts[sig.Params().At(i)] = v
					c := "F"
					if v {
						c = "T"
					}
					parts = append(parts, sig.Params().At(i).Name()+"="+c)
				}
			}
			label := ""
			if len(parts) > 0 {
				label = "[" + strings.Join(parts, ",") + "]"
			}
			add(label, consts, caller, call)
			return true
		})
	}
	if len(order) == 0 {
		add("", map[types.Object]bool{}, nil, nil)
	}
	sort.Strings(order)
	var out []*r2parseContext
	for _, l := range order {
		out = append(out, byLabel[l])
	}
	return out
}

// steers: the boolean parameter p of fd is used in a branch condition or handed
// to another parser method (so its value can select a path); a flag that is only
// stored into the node does not create contexts.
func (e *r2parseEngine) steers(fd *ast.FuncDecl, p *types.Var) bool {
	uses := func(n ast.Node) bool {
		found := false
		if n == nil {
			return false
		}
		ast.Inspect(n, func(m ast.Node) bool {
			if id, ok := m.(*ast.Ident); ok && e.info.Uses[id] == types.Object(p) {
				found = true
			}
			return !found
		})
		return found
	}
	res := false
	ast.Inspect(fd.Body, func(n ast.Node) bool {
		switch x := n.(type) {
		case *ast.IfStmt:
			if uses(x.Cond) {
				res = true
			}
		case *ast.ForStmt:
			if x.Cond != nil && uses(x.Cond) {
				res = true
			}
		case *ast.SwitchStmt:
			if x.Tag != nil && uses(x.Tag) {
				res = true
			}
		case *ast.CaseClause:
			for _, c := range x.List {
				if uses(c) {
					res = true
				}
			}
		case *ast.CallExpr:
			if fn := CalleeOf(e.info, x); fn != nil && e.sp.isConsumer(fn) {
				for _, a := range x.Args {
					if uses(a) {
						res = true
					}
				}
			}
		}
		return !res
	})
	return res
}

// hasConsumerCall: does x call a method that can move the cursor?
func (run *r2parseRun) hasConsumerCall(x ast.Expr) bool {
	found := false
	ast.Inspect(x, func(n ast.Node) bool {
		if c, ok := n.(*ast.CallExpr); ok {
			if g := CalleeOf(run.e.info, c); g != nil && run.e.sp.isConsumer(g) {
				found = true
			}
		}
		return !found
	})
	return found
}

func r2parseHasCall(e ast.Expr) bool {
	found := false
	ast.Inspect(e, func(n ast.Node) bool {
		if _, ok := n.(*ast.CallExpr); ok {
			found = true
		}
		return !found
	})
	return found
}
