package main

// E4 — guard dominance over go/ssa (shared by R-trap-guard and R-nil-field).
//
// go/ssa has no CSE: `rInt.Inner` written twice is two Field instructions,
// `len(*self.Values)` written twice is two load chains. Values are therefore
// compared as *value paths* (root SSA value + chain of deref / field / assert /
// extract / index steps); two paths that read memory are equal only when no
// store that may alias one of the cells read lies between the two reads.
//
// Facts come from dominating `If` edges (go/ssa lowers `||`, `&&`, tagged and
// tagless switches to chains of Ifs, so if-form and switch-form guards look
// the same here). Integer facts are kept as linear forms over atoms and decided
// with a small difference-bound solver (enough for the repository's idiom
// "wrap negatives by adding len, then test `< 0 || >= len`", for `len(x)-k`,
// and for `len` of slices / appends of slices).

import (
	"fmt"
	"go/ast"
	"go/constant"
	"go/token"
	"go/types"
	"sort"
	"strings"

	"golang.org/x/tools/go/ssa"
	"golang.org/x/tools/go/ssa/ssautil"
)

// ---------------------------------------------------------------------------
// scope: functions of a set of packages

// gdFuncsOf returns every source-level function (declared or literal) whose
// package is one of rels, sorted by position.
func gdFuncsOf(c *Ctx, rels ...string) []*ssa.Function {
	prog := c.SSA()
	want := map[*types.Package]bool{}
	for _, r := range rels {
		want[c.Pkg(r).Types] = true
	}
	var out []*ssa.Function
	for fn := range ssautil.AllFunctions(prog) {
		if fn.Synthetic != "" || fn.Blocks == nil || fn.Pkg == nil || !want[fn.Pkg.Pkg] {
			continue
		}
		if fn.Origin() != nil { // generic instantiation: analysed through its origin
			continue
		}
		out = append(out, fn)
	}
	gdSortFuncs(c, out)
	return out
}

// gdSortFuncs orders functions by (file name, offset, name). token.Pos values
// are not comparable across files from one run to the next (the file set is
// filled by a concurrent loader), so they must not decide an order.
func gdSortFuncs(c *Ctx, fns []*ssa.Function) {
	type key struct {
		file string
		off  int
		name string
	}
	keys := make(map[*ssa.Function]key, len(fns))
	for _, fn := range fns {
		pp := c.Fset.Position(gdPosOfFunc(fn))
		keys[fn] = key{pp.Filename, pp.Offset, fn.String()}
	}
	sort.SliceStable(fns, func(i, j int) bool {
		a, b := keys[fns[i]], keys[fns[j]]
		if a.file != b.file {
			return a.file < b.file
		}
		if a.off != b.off {
			return a.off < b.off
		}
		return a.name < b.name
	})
}

// gdReachable returns the set of functions reachable in the VTA call graph
// from the given entry points.
func gdReachable(c *Ctx, entries ...*ssa.Function) map[*ssa.Function]bool {
	cg := c.CallGraph()
	seen := map[*ssa.Function]bool{}
	var work []*ssa.Function
	for _, e := range entries {
		if e != nil && !seen[e] {
			seen[e] = true
			work = append(work, e)
		}
	}
	for len(work) > 0 {
		f := work[len(work)-1]
		work = work[:len(work)-1]
		// a function literal is reachable when its parent creates it
		for _, an := range f.AnonFuncs {
			if !seen[an] {
				seen[an] = true
				work = append(work, an)
			}
		}
		n := cg.Nodes[f]
		if n == nil {
			continue
		}
		for _, e := range n.Out {
			if g := e.Callee.Func; g != nil && !seen[g] {
				seen[g] = true
				work = append(work, g)
			}
		}
	}
	return seen
}

// gdMethod resolves a method of a named type of package rel as an SSA function.
func gdMethod(c *Ctx, rel, typ, name string) *ssa.Function {
	p := c.Pkg(rel)
	obj, _ := p.Types.Scope().Lookup(typ).(*types.TypeName)
	if obj == nil {
		fatalf("anchor unresolved: type %s.%s", rel, typ)
	}
	for _, t := range []types.Type{obj.Type(), types.NewPointer(obj.Type())} {
		ms := c.SSA().MethodSets.MethodSet(t)
		if sel := ms.Lookup(p.Types, name); sel != nil {
			if fn := c.SSA().MethodValue(sel); fn != nil && fn.Synthetic == "" {
				return fn
			}
		}
	}
	fatalf("anchor unresolved: method %s.%s.%s", rel, typ, name)
	return nil
}

// ---------------------------------------------------------------------------
// naming: construct keys that do not depend on line numbers or closure ordinals

type gdNamer struct {
	c     *Ctx
	files map[*token.File]*ast.File
	info  map[*ast.File]*types.Info
}

func newGdNamer(c *Ctx) *gdNamer {
	n := &gdNamer{c: c, files: map[*token.File]*ast.File{}, info: map[*ast.File]*types.Info{}}
	for _, p := range c.All {
		for _, f := range p.Syntax {
			n.files[c.Fset.File(f.Pos())] = f
			n.info[f] = p.TypesInfo
		}
	}
	return n
}

func (n *gdNamer) fileOf(pos token.Pos) *ast.File {
	if !pos.IsValid() {
		return nil
	}
	return n.files[n.c.Fset.File(pos)]
}

// path returns the AST nodes enclosing pos, outermost first.
func (n *gdNamer) path(pos token.Pos) []ast.Node {
	f := n.fileOf(pos)
	if f == nil {
		return nil
	}
	var path []ast.Node
	ast.Inspect(f, func(nd ast.Node) bool {
		if nd == nil {
			return false
		}
		if nd.Pos() <= pos && pos < nd.End() {
			path = append(path, nd)
			return true
		}
		return false
	})
	return path
}

// funcName: "pkg.(Recv).name" for declared functions; for literals the name of
// the enclosing declared function followed by the role of the literal: the map
// key it is the value of (`Fields["insert"]`), the variable it is assigned to,
// or "func" + ordinal as a last resort.
func (n *gdNamer) funcName(fn *ssa.Function) string {
	pk := ""
	if fn.Pkg != nil {
		pk = relPkg(fn.Pkg.Pkg.Path())
		pk = strings.TrimPrefix(pk, "homescript/")
	}
	if fn.Parent() == nil {
		name := fn.Name()
		if recv := fn.Signature.Recv(); recv != nil {
			t := recv.Type()
			star := ""
			if p, ok := t.(*types.Pointer); ok {
				t = p.Elem()
				star = "*"
			}
			if nt, ok := types.Unalias(t).(*types.Named); ok {
				name = "(" + star + nt.Obj().Name() + ")." + name
			}
		}
		return pk + "." + name
	}
	parent := n.funcName(fn.Parent())
	role := ""
	if lit, ok := fn.Syntax().(*ast.FuncLit); ok {
		path := n.path(lit.Pos())
		for i := len(path) - 1; i >= 0; i-- {
			if path[i] == ast.Node(lit) && i > 0 {
				switch up := path[i-1].(type) {
				case *ast.KeyValueExpr:
					if up.Value == ast.Expr(lit) {
						role = "[" + exprStr(up.Key) + "]"
					}
				case *ast.CallExpr:
					// literal passed to a constructor which is itself a map value
					if i > 1 {
						if kv, ok := path[i-2].(*ast.KeyValueExpr); ok && kv.Value == ast.Expr(up) {
							role = "[" + exprStr(kv.Key) + "]"
						}
					}
					if role == "" {
						role = "$arg(" + exprStr(up.Fun) + ")"
					}
				case *ast.AssignStmt:
					for k, r := range up.Rhs {
						if r == ast.Expr(lit) && k < len(up.Lhs) {
							role = "$" + exprStr(up.Lhs[k])
						}
					}
				case *ast.DeferStmt:
					role = "$defer"
				}
				break
			}
		}
	}
	if role == "" {
		role = "$" + strings.TrimPrefix(fn.Name(), fn.Parent().Name()+"$")
	}
	return parent + role
}

// caseCtx renders the clauses of tagged (and type) switches (innermost function
// only) enclosing pos: "case Opcode_Rem/case IntValueKind".
func (n *gdNamer) caseCtx(pos token.Pos) string {
	path := n.path(pos)
	start := 0
	for i, nd := range path {
		switch nd.(type) {
		case *ast.FuncDecl, *ast.FuncLit:
			start = i
		}
	}
	var parts []string
	for j, nd := range path[start:] {
		if cc, ok := nd.(*ast.CaseClause); ok {
			// a clause of a tagless switch is one arm of an if / else-if chain written
			// differently: it names no construct, the key is that of the if form
			if j+start >= 2 {
				if sw, ok := path[j+start-2].(*ast.SwitchStmt); ok && sw.Tag == nil {
					continue
				}
			}
			if cc.List == nil {
				parts = append(parts, "default")
				continue
			}
			var ls []string
			for _, e := range cc.List {
				s := exprStr(e)
				if i := strings.LastIndex(s, "."); i >= 0 {
					s = s[i+1:]
				}
				ls = append(ls, s)
			}
			parts = append(parts, "case "+strings.Join(ls, ","))
		}
	}
	return strings.Join(parts, "/")
}

// exprAt returns the source text of the innermost expression whose
// characteristic position (operator, bracket, paren, star) is pos.
func (n *gdNamer) exprAt(pos token.Pos) string { return n.render(pos, false) }

// render: the text of exprAt, or (shape) its rename-stable form (see shapeAt).
func (n *gdNamer) render(pos token.Pos, shape bool) string {
	str := func(e ast.Expr) string {
		if shape {
			return n.shapeStr(e)
		}
		return exprStr(e)
	}
	path := n.path(pos)
	for i := len(path) - 1; i >= 0; i-- {
		switch e := path[i].(type) {
		case *ast.BinaryExpr:
			if e.OpPos == pos {
				return str(e)
			}
		case *ast.IndexExpr:
			if e.Lbrack == pos {
				return str(e)
			}
		case *ast.SliceExpr:
			if e.Lbrack == pos {
				return str(e)
			}
		case *ast.StarExpr:
			if e.Star == pos {
				return str(e)
			}
		case *ast.CallExpr:
			if e.Lparen == pos {
				return str(e)
			}
		case *ast.SelectorExpr:
			if e.Sel.Pos() == pos {
				return str(e)
			}
		case *ast.AssignStmt:
			if e.TokPos == pos && len(e.Lhs) == 1 && len(e.Rhs) == 1 {
				return str(e.Lhs[0]) + " " + e.Tok.String() + " " + str(e.Rhs[0])
			}
		case *ast.IncDecStmt:
			if e.TokPos == pos {
				return str(e.X) + e.Tok.String()
			}
		}
	}
	for i := len(path) - 1; i >= 0; i-- {
		if e, ok := path[i].(ast.Expr); ok {
			return str(e)
		}
	}
	return ""
}

// ---------------------------------------------------------------------------
// rename-stable fingerprints (identify a hand-reviewed construct by role)
//
// The obligation keys show source text (they are for the reader and for the
// recorded findings). A table of hand-reviewed constructs must not be looked up
// by that text: renaming a local, a parameter, an unexported function or an
// unexported field changes the text but not the construct. The fingerprint of a
// site is its key with every such name replaced by what the name stands for:
// a variable by its type, an unexported function by its signature, an
// unexported field by its type; exported names, types, constants and packages
// are kept.

// gdTypeSig: a type without parameter / result names.
func gdTypeSig(t types.Type) string {
	qual := func(p *types.Package) string { return p.Name() }
	if sig, ok := t.(*types.Signature); ok {
		tuple := func(tp *types.Tuple) string {
			var ps []string
			for i := 0; i < tp.Len(); i++ {
				ps = append(ps, gdTypeSig(tp.At(i).Type()))
			}
			return "(" + strings.Join(ps, ", ") + ")"
		}
		out := "func" + tuple(sig.Params())
		if sig.Results().Len() > 0 {
			out += " " + tuple(sig.Results())
		}
		return out
	}
	return types.TypeString(t, qual)
}

// identShape: the rename-stable replacement of an identifier ("" = keep).
func (n *gdNamer) identShape(f *ast.File, id *ast.Ident) string {
	info := n.info[f]
	if info == nil {
		return ""
	}
	obj := info.Uses[id]
	if obj == nil {
		obj = info.Defs[id]
	}
	switch o := obj.(type) {
	case *types.Var:
		if o.IsField() {
			if o.Exported() {
				return ""
			}
			return "·" + gdTypeSig(o.Type())
		}
		if o.Pkg() != nil && o.Parent() == o.Pkg().Scope() && o.Exported() {
			return ""
		}
		return "$" + gdTypeSig(o.Type())
	case *types.Func:
		if o.Exported() {
			return ""
		}
		return "ƒ" + gdTypeSig(o.Type())
	}
	return ""
}

// shapeStr prints e with the renameable identifiers replaced by their shapes.
func (n *gdNamer) shapeStr(e ast.Expr) string {
	f := n.fileOf(e.Pos())
	if f == nil {
		return exprStr(e)
	}
	type saved struct {
		id   *ast.Ident
		name string
	}
	var undo []saved
	ast.Inspect(e, func(nd ast.Node) bool {
		if id, ok := nd.(*ast.Ident); ok {
			if r := n.identShape(f, id); r != "" {
				undo = append(undo, saved{id, id.Name})
				id.Name = r
			}
		}
		return true
	})
	out := exprStr(e)
	for _, u := range undo {
		u.id.Name = u.name
	}
	return out
}

// shapeAt: exprAt in rename-stable form.
func (n *gdNamer) shapeAt(pos token.Pos) string { return n.render(pos, true) }

// funcShape: funcName in rename-stable form (an unexported function or method
// is named by its signature).
func (n *gdNamer) funcShape(fn *ssa.Function) string {
	if fn.Parent() != nil {
		name := n.funcName(fn)
		return n.funcShape(fn.Parent()) + strings.TrimPrefix(name, n.funcName(fn.Parent()))
	}
	name := n.funcName(fn)
	if obj, ok := fn.Object().(*types.Func); ok && !obj.Exported() {
		name = strings.TrimSuffix(name, fn.Name()) + "ƒ" + gdTypeSig(fn.Signature)
	}
	return name
}

// gdShort shortens source text for use in a key. The cut must not depend on
// how long identifiers are (a rename must shorten to the renamed form of the
// same prefix), so the budget n is spent per token: an identifier costs a
// fixed amount whatever its spelling, any other character costs one, and the
// text is cut at a token boundary.
func gdShort(s string, n int) string {
	s = strings.Join(strings.Fields(s), " ")
	if len(s) <= n/2 {
		return s
	}
	const identCost = 6
	isIdent := func(c byte) bool {
		return c == '_' || c >= 'a' && c <= 'z' || c >= 'A' && c <= 'Z' || c >= '0' && c <= '9' || c >= 0x80
	}
	cost := 0
	for i := 0; i < len(s); {
		j := i + 1
		step := 1
		if isIdent(s[i]) {
			for j < len(s) && isIdent(s[j]) {
				j++
			}
			step = identCost
		}
		if cost+step > n {
			return s[:i] + "…"
		}
		cost += step
		i = j
	}
	return s
}

// gdKeyer makes keys unique inside one rule run by appending #n to repeats.
type gdKeyer struct{ seen map[string]int }

func (k *gdKeyer) key(parts ...string) string {
	var ps []string
	for _, p := range parts {
		if p != "" {
			ps = append(ps, p)
		}
	}
	s := strings.Join(ps, "|")
	if k.seen == nil {
		k.seen = map[string]int{}
	}
	k.seen[s]++
	if n := k.seen[s]; n > 1 {
		return fmt.Sprintf("%s#%d", s, n)
	}
	return s
}

// ---------------------------------------------------------------------------
// value paths

type gdStepKind int

const (
	gdDeref gdStepKind = iota
	gdField
	gdAssert
	gdExtract
	gdIndex
)

// gdCallCtx: a value of a (pure) callee seen from one call site: parameters
// stand for the call's arguments, memory reads happen at the call.
type gdCallCtx struct {
	call   *ssa.Call
	callee *ssa.Function
	outer  *gdCallCtx // frame the call itself is made in (nil = the analysed function)
}

// rootCall: the call in the analysed function through which this frame was
// entered (reads made in the frame are ordered there).
func (c *gdCallCtx) rootCall() *ssa.Call {
	for c.outer != nil {
		c = c.outer
	}
	return c.call
}

// gdCtxEq: the two frames are the same activation.
func gdCtxEq(a, b *gdCallCtx) bool {
	for {
		if a == b {
			return true
		}
		if a == nil || b == nil || a.call != b.call {
			return false
		}
		a, b = a.outer, b.outer
	}
}

type gdStep struct {
	kind   gdStepKind
	field  *types.Var      // gdField
	typ    types.Type      // gdAssert: asserted type
	n      int             // gdExtract
	idx    ssa.Value       // gdIndex
	idxCtx *gdCallCtx      // frame of idx
	addr   ssa.Value       // gdDeref / gdIndex on memory: the SSA address read (for alias tests)
	isFA   bool            // gdDeref: the address is a FieldAddr
	isMap  bool            // gdIndex: map lookup (addr = the map value)
	at     ssa.Instruction // the instruction performing the read — for ordering
}

type gdPath struct {
	root    ssa.Value
	rootCtx *gdCallCtx
	steps   []gdStep
}

func gdStructField(t types.Type, i int) *types.Var {
	if p, ok := t.Underlying().(*types.Pointer); ok {
		t = p.Elem()
	}
	st, ok := t.Underlying().(*types.Struct)
	if !ok || i >= st.NumFields() {
		return nil
	}
	return st.Field(i)
}

// gdStrip removes value-preserving conversions.
func gdStrip(v ssa.Value) ssa.Value {
	for {
		switch x := v.(type) {
		case *ssa.ChangeType:
			v = x.X
		case *ssa.Convert:
			if gdIsInt64(x.Type()) && gdIsInt64(x.X.Type()) {
				v = x.X
			} else {
				return v
			}
		default:
			return v
		}
	}
}

func gdIsInt64(t types.Type) bool {
	b, ok := t.Underlying().(*types.Basic)
	if !ok {
		return false
	}
	switch b.Kind() {
	case types.Int, types.Int64, types.Uint, types.Uint64, types.Uintptr:
		return true
	}
	return false
}

func gdIsUnsigned(t types.Type) bool {
	b, ok := t.Underlying().(*types.Basic)
	return ok && b.Info()&types.IsUnsigned != 0
}

func gdIsInteger(t types.Type) bool {
	b, ok := t.Underlying().(*types.Basic)
	return ok && b.Info()&types.IsInteger != 0
}

// gdPathOf decomposes v (in its own frame) into root + steps.
// Load(FieldAddr(p,F)) and Field(Load(p),F) produce the same steps [deref, field F].
func gdPathOf(v ssa.Value) gdPath {
	v = gdStrip(v)
	switch x := v.(type) {
	case *ssa.UnOp:
		if x.Op == token.MUL {
			return gdDerefPath(x.X, x)
		}
	case *ssa.Field:
		p := gdClone(gdPathOf(x.X))
		p.steps = append(p.steps, gdStep{kind: gdField, field: gdStructField(x.X.Type(), x.Field)})
		return p
	case *ssa.TypeAssert:
		if !x.CommaOk {
			p := gdClone(gdPathOf(x.X))
			p.steps = append(p.steps, gdStep{kind: gdAssert, typ: x.AssertedType})
			return p
		}
	case *ssa.Extract:
		p := gdClone(gdPathOf(x.Tuple))
		p.steps = append(p.steps, gdStep{kind: gdExtract, n: x.Index})
		return p
	case *ssa.Index: // array value
		p := gdClone(gdPathOf(x.X))
		p.steps = append(p.steps, gdStep{kind: gdIndex, idx: x.Index})
		return p
	case *ssa.Lookup:
		if _, isMap := x.X.Type().Underlying().(*types.Map); isMap && !x.CommaOk {
			p := gdClone(gdPathOf(x.X))
			p.steps = append(p.steps, gdStep{kind: gdIndex, idx: x.Index, addr: x.X, isMap: true, at: x})
			return p
		}
	}
	return gdPath{root: v}
}

// gdDerefPath: the path of *addr, read by instruction at. Nested address
// arithmetic (&p.a.b, &p.a[i]) is folded into one read.
func gdDerefPath(addr ssa.Value, at ssa.Instruction) gdPath {
	switch a := addr.(type) {
	case *ssa.Alloc:
		if par := gdSpillOf(a); par != nil {
			return gdPath{root: par}
		}
	case *ssa.FieldAddr:
		f := gdStructField(a.X.Type(), a.Field)
		if al, ok := a.X.(*ssa.Alloc); ok {
			if par := gdSpillOf(al); par != nil {
				return gdPath{root: par, steps: []gdStep{{kind: gdField, field: f}}}
			}
		}
		if _, nested := a.X.(*ssa.FieldAddr); nested {
			p := gdDerefPath(a.X, at)
			// the innermost read step carries the most specific address
			for i := len(p.steps) - 1; i >= 0; i-- {
				if p.steps[i].kind == gdDeref && p.steps[i].isFA {
					p.steps[i].addr = a
					break
				}
			}
			p.steps = append(p.steps, gdStep{kind: gdField, field: f})
			return p
		}
		p := gdClone(gdPathOf(a.X))
		p.steps = append(p.steps,
			gdStep{kind: gdDeref, addr: a, isFA: true, at: at},
			gdStep{kind: gdField, field: f})
		return p
	case *ssa.IndexAddr:
		p := gdClone(gdPathOf(a.X))
		p.steps = append(p.steps, gdStep{kind: gdIndex, idx: a.Index, addr: a, at: at})
		return p
	}
	p := gdClone(gdPathOf(addr))
	p.steps = append(p.steps, gdStep{kind: gdDeref, addr: addr, at: at})
	return p
}

// gdSpillOf: the parameter whose value the local cell a holds for the whole
// function (go/ssa spills a parameter whose field address is taken:
// `t0 = local T (p); *t0 = p`), or nil.
func gdSpillOf(a *ssa.Alloc) *ssa.Parameter {
	refs := a.Referrers()
	if refs == nil || a.Heap {
		return nil
	}
	var par *ssa.Parameter
	for _, r := range *refs {
		switch x := r.(type) {
		case *ssa.Store:
			if x.Addr != ssa.Value(a) || par != nil {
				return nil
			}
			p, ok := x.Val.(*ssa.Parameter)
			if !ok {
				return nil
			}
			par = p
		case *ssa.UnOp:
			if x.Op != token.MUL {
				return nil
			}
		case *ssa.FieldAddr:
			// the field address must itself only be loaded from
			if fr := x.Referrers(); fr != nil {
				for _, u := range *fr {
					switch y := u.(type) {
					case *ssa.UnOp:
						if y.Op != token.MUL {
							return nil
						}
					case *ssa.FieldAddr, *ssa.DebugRef:
					default:
						return nil
					}
				}
			}
		case *ssa.DebugRef:
		default:
			return nil
		}
	}
	return par
}

// gdFAChain: the fields selected by a (nested) FieldAddr, outermost first.
func gdFAChain(v ssa.Value) []*types.Var {
	fa, ok := v.(*ssa.FieldAddr)
	if !ok {
		return nil
	}
	return append(gdFAChain(fa.X), gdStructField(fa.X.Type(), fa.Field))
}

// gdPathIn: the path of v evaluated in frame ctx (nil = the analysed
// function). Parameters of a callee frame are replaced by the call's
// arguments; reads made in the callee frame are ordered at the call.
func gdPathIn(v ssa.Value, ctx *gdCallCtx) gdPath {
	p := gdPathOf(v)
	if ctx == nil {
		return p
	}
	p = gdClone(p)
	for i := range p.steps {
		if p.steps[i].at != nil {
			p.steps[i].at = ctx.rootCall()
		}
		if p.steps[i].kind == gdIndex {
			p.steps[i].idxCtx = ctx
		}
	}
	if par, ok := p.root.(*ssa.Parameter); ok && par.Parent() == ctx.callee {
		for i, q := range ctx.callee.Params {
			if q == par && i < len(ctx.call.Call.Args) {
				ap := gdPathIn(ctx.call.Call.Args[i], ctx.outer)
				out := gdPath{root: ap.root, rootCtx: ap.rootCtx}
				out.steps = append(append([]gdStep{}, ap.steps...), p.steps...)
				return out
			}
		}
	}
	p.rootCtx = ctx
	return p
}

func gdClone(p gdPath) gdPath {
	q := gdPath{root: p.root, rootCtx: p.rootCtx, steps: make([]gdStep, len(p.steps), len(p.steps)+2)}
	copy(q.steps, p.steps)
	return q
}

func (p gdPath) String() string {
	var sb strings.Builder
	if p.root != nil {
		if c, ok := p.root.(*ssa.Const); ok {
			sb.WriteString(c.String())
		} else {
			sb.WriteString(p.root.Name())
		}
	}
	for _, s := range p.steps {
		switch s.kind {
		case gdDeref:
			sb.WriteString(".*")
		case gdField:
			if s.field != nil {
				sb.WriteString("." + s.field.Name())
			} else {
				sb.WriteString(".?")
			}
		case gdAssert:
			sb.WriteString(".(" + types.TypeString(s.typ, func(*types.Package) string { return "" }) + ")")
		case gdExtract:
			fmt.Fprintf(&sb, "#%d", s.n)
		case gdIndex:
			sb.WriteString("[" + s.idx.Name() + "]")
		}
	}
	return sb.String()
}

// memSteps: the steps that read a mutable cell.
func (p gdPath) memSteps() []gdStep {
	var out []gdStep
	for _, s := range p.steps {
		if (s.kind == gdDeref || s.kind == gdIndex) && s.addr != nil {
			out = append(out, s)
		}
	}
	return out
}

// ---------------------------------------------------------------------------
// sameness of values

type gdEq struct {
	mod     *gdAllMod // may be nil: calls are then assumed not to write
	nilOnly bool      // only possibly-nil writes count as clobbers (non-nil facts)
	depth   int
}

func gdConstEq(a, b *ssa.Const) bool {
	if a.Value == nil || b.Value == nil {
		return a.Value == nil && b.Value == nil && types.Identical(a.Type(), b.Type())
	}
	return constant.Compare(a.Value, token.EQL, b.Value)
}

// same: a and b (both in the analysed function's frame) denote the same value.
func (e *gdEq) same(a, b ssa.Value) bool { return e.sameIn(a, nil, b, nil) }

func (e *gdEq) sameIn(a ssa.Value, ca *gdCallCtx, b ssa.Value, cb *gdCallCtx) bool {
	a, b = gdStrip(a), gdStrip(b)
	if a == b && gdCtxEq(ca, cb) {
		return true
	}
	if e.depth > 12 {
		return false
	}
	e.depth++
	defer func() { e.depth-- }()
	if xa, ok := a.(*ssa.Const); ok {
		if xb, ok := b.(*ssa.Const); ok {
			return gdConstEq(xa, xb)
		}
		return false
	}
	return e.samePaths(gdPathIn(a, ca), gdPathIn(b, cb))
}

// samePaths: the two value paths denote the same value (same root, same
// steps, and every memory cell read by both is unchanged between the reads).
func (e *gdEq) samePaths(pa, pb gdPath) bool {
	if len(pa.steps) != len(pb.steps) {
		return false
	}
	if !e.sameRoot(pa.root, pa.rootCtx, pb.root, pb.rootCtx) {
		return false
	}
	for i := range pa.steps {
		sa, sb := pa.steps[i], pb.steps[i]
		if sa.kind != sb.kind {
			return false
		}
		switch sa.kind {
		case gdField:
			if sa.field == nil || sa.field != sb.field {
				return false
			}
		case gdAssert:
			if !types.Identical(sa.typ, sb.typ) {
				return false
			}
		case gdExtract:
			if sa.n != sb.n {
				return false
			}
		case gdIndex:
			if !e.sameIn(sa.idx, sa.idxCtx, sb.idx, sb.idxCtx) {
				return false
			}
		}
	}
	ma, mb := pa.memSteps(), pb.memSteps()
	if len(ma) != len(mb) {
		return false
	}
	for i := range ma {
		if !e.noClobberBetween(ma[i], mb[i]) {
			return false
		}
	}
	return true
}

// samePathsUpTo: same root and same steps (field identity), without the
// "unchanged memory" test — used to match the cell a store writes with the
// cell a later read reads; the caller checks the region in between itself.
func (e *gdEq) samePathsUpTo(pa, pb gdPath) bool {
	if len(pa.steps) != len(pb.steps) {
		return false
	}
	if !e.sameRoot(pa.root, pa.rootCtx, pb.root, pb.rootCtx) {
		return false
	}
	for i := range pa.steps {
		sa, sb := pa.steps[i], pb.steps[i]
		if sa.kind != sb.kind {
			return false
		}
		switch sa.kind {
		case gdField:
			if sa.field == nil || sa.field != sb.field {
				return false
			}
		case gdAssert:
			if !types.Identical(sa.typ, sb.typ) {
				return false
			}
		case gdExtract:
			if sa.n != sb.n {
				return false
			}
		case gdIndex:
			if !e.sameIn(sa.idx, sa.idxCtx, sb.idx, sb.idxCtx) {
				return false
			}
		}
	}
	// intermediate cells (all but the last read) must be unchanged
	ma, mb := pa.memSteps(), pb.memSteps()
	if len(ma) != len(mb) {
		return false
	}
	for i := 0; i+1 < len(ma); i++ {
		if !e.noClobberBetween(ma[i], mb[i]) {
			return false
		}
	}
	return true
}

func (e *gdEq) sameRoot(a ssa.Value, ca *gdCallCtx, b ssa.Value, cb *gdCallCtx) bool {
	a, b = gdStrip(a), gdStrip(b)
	if a == b {
		if gdCtxEq(ca, cb) {
			return true
		}
		switch a.(type) {
		case *ssa.Const, *ssa.Global, *ssa.Function, *ssa.Builtin:
			return true
		}
		return false
	}
	switch x := a.(type) {
	case *ssa.Const:
		if y, ok := b.(*ssa.Const); ok {
			return gdConstEq(x, y)
		}
	case *ssa.BinOp:
		if y, ok := b.(*ssa.BinOp); ok && x.Op == y.Op {
			return e.sameIn(x.X, ca, y.X, cb) && e.sameIn(x.Y, ca, y.Y, cb)
		}
	case *ssa.UnOp:
		if y, ok := b.(*ssa.UnOp); ok && x.Op == y.Op && x.Op != token.MUL && x.Op != token.ARROW {
			return e.sameIn(x.X, ca, y.X, cb)
		}
	case *ssa.Call:
		if y, ok := b.(*ssa.Call); ok {
			bx, ok1 := x.Call.Value.(*ssa.Builtin)
			by, ok2 := y.Call.Value.(*ssa.Builtin)
			if ok1 && ok2 && bx.Name() == by.Name() && (bx.Name() == "len" || bx.Name() == "cap") {
				return e.sameIn(x.Call.Args[0], ca, y.Call.Args[0], cb)
			}
		}
	case *ssa.FieldAddr:
		if y, ok := b.(*ssa.FieldAddr); ok && x.Field == y.Field && types.Identical(x.X.Type(), y.X.Type()) {
			return e.sameIn(x.X, ca, y.X, cb)
		}
	case *ssa.IndexAddr:
		if y, ok := b.(*ssa.IndexAddr); ok {
			return e.sameIn(x.X, ca, y.X, cb) && e.sameIn(x.Index, ca, y.Index, cb)
		}
	case *ssa.Convert:
		if y, ok := b.(*ssa.Convert); ok && types.Identical(x.Type(), y.Type()) {
			return e.sameIn(x.X, ca, y.X, cb)
		}
	case *ssa.MakeInterface:
		if y, ok := b.(*ssa.MakeInterface); ok {
			return e.sameIn(x.X, ca, y.X, cb)
		}
	}
	return false
}

// gdInstrOf returns the instruction that defines / performs v, if any.
func gdInstrOf(v ssa.Value) ssa.Instruction {
	if i, ok := v.(ssa.Instruction); ok {
		return i
	}
	return nil
}

func gdIndexIn(b *ssa.BasicBlock, in ssa.Instruction) int {
	for i, x := range b.Instrs {
		if x == in {
			return i
		}
	}
	return -1
}

// noClobberBetween: the two reads sa.at and sb.at (same cell, same function)
// see the same content: one dominates the other and no may-aliasing write lies
// on any path from the earlier to the later one.
func (e *gdEq) noClobberBetween(sa, sb gdStep) bool {
	if sa.at == nil || sb.at == nil {
		return false
	}
	if sa.at == sb.at {
		return true
	}
	ba, bb := sa.at.Block(), sb.at.Block()
	if ba == nil || bb == nil || ba.Parent() != bb.Parent() {
		return false
	}
	first, second := sa, sb
	if ba == bb {
		if gdIndexIn(ba, sa.at) > gdIndexIn(ba, sb.at) {
			first, second = sb, sa
		}
	} else if ba.Dominates(bb) {
		// ok
	} else if bb.Dominates(ba) {
		first, second = sb, sa
	} else {
		return false
	}
	for _, in := range gdRegion(first.at, second.at) {
		if e.clobbers(in, second) {
			return false
		}
	}
	return true
}

// gdRegion lists the instructions that may execute after `from` and before
// `to` on a path from `from` to `to` that does not pass `from` again.
// `from` must dominate `to`.
func gdRegion(from, to ssa.Instruction) []ssa.Instruction {
	fb, tb := from.Block(), to.Block()
	var out []ssa.Instruction
	if fb == tb {
		i, j := gdIndexIn(fb, from), gdIndexIn(tb, to)
		if i <= j {
			return append(out, fb.Instrs[i+1:j]...)
		}
	}
	// forward reachable from fb's successors without re-entering fb
	fwd := map[*ssa.BasicBlock]bool{}
	var stack []*ssa.BasicBlock
	for _, s := range fb.Succs {
		if s != fb && !fwd[s] {
			fwd[s] = true
			stack = append(stack, s)
		}
	}
	for len(stack) > 0 {
		b := stack[len(stack)-1]
		stack = stack[:len(stack)-1]
		for _, s := range b.Succs {
			if s != fb && !fwd[s] {
				fwd[s] = true
				stack = append(stack, s)
			}
		}
	}
	// backward from tb without passing fb
	bwd := map[*ssa.BasicBlock]bool{tb: true}
	stack = append(stack[:0], tb)
	for len(stack) > 0 {
		b := stack[len(stack)-1]
		stack = stack[:len(stack)-1]
		for _, p := range b.Preds {
			if p != fb && !bwd[p] {
				bwd[p] = true
				stack = append(stack, p)
			}
		}
	}
	out = append(out, fb.Instrs[gdIndexIn(fb, from)+1:]...)
	for _, b := range fb.Parent().Blocks {
		if b != tb && b != fb && fwd[b] && bwd[b] {
			out = append(out, b.Instrs...)
		}
	}
	out = append(out, tb.Instrs[:gdIndexIn(tb, to)]...)
	// tb on a cycle that avoids fb: a full turn through tb may precede `to`
	for _, s := range tb.Succs {
		if s != fb && bwd[s] {
			out = append(out, tb.Instrs[gdIndexIn(tb, to):]...)
			break
		}
	}
	return out
}

// clobbers: instruction in may change the cell read by step rd.
func (e *gdEq) clobbers(in ssa.Instruction, rd gdStep) bool {
	switch x := in.(type) {
	case *ssa.Store:
		if e.nilOnly && gdNonNil(x.Val, 0) {
			return false
		}
		return gdMayAlias(x.Addr, rd)
	case *ssa.MapUpdate:
		return rd.isMap && types.Identical(x.Map.Type(), rd.addr.Type())
	case *ssa.Call:
		if b, ok := x.Call.Value.(*ssa.Builtin); ok {
			return rd.isMap && (b.Name() == "delete" || b.Name() == "clear") && len(x.Call.Args) > 0 && types.Identical(x.Call.Args[0].Type(), rd.addr.Type())
		}
		return e.callClobbers(&x.Call, rd)
	case *ssa.Defer:
		return false // runs at function exit
	case *ssa.Go:
		return false
	}
	return false
}

func (e *gdEq) callClobbers(call *ssa.CallCommon, rd gdStep) bool {
	if e.mod == nil {
		return false
	}
	callee := call.StaticCallee()
	if callee == nil {
		return false // dynamic calls: assumed not to write the guarded cell (documented)
	}
	ms := e.mod.of[callee]
	if ms == nil {
		return false
	}
	if rd.isMap {
		for _, t := range ms.maps {
			if types.Identical(t, rd.addr.Type()) {
				return true
			}
		}
		return false
	}
	if rd.isFA {
		ch := gdFAChain(rd.addr)
		if e.nilOnly {
			return len(ch) > 0 && ms.nilFields[ch[len(ch)-1]]
		}
		for _, f := range ch {
			if ms.fields[f] {
				return true
			}
		}
		return false
	}
	// local cells cannot be written by a callee unless their address escapes; an
	// Alloc whose address is passed would not be in register form — accept.
	if _, ok := rd.addr.(*ssa.Alloc); ok {
		return false
	}
	for _, t := range ms.types {
		if types.Identical(t, rd.addr.Type()) {
			return true
		}
	}
	return false
}

// gdMayAlias: a store through address w may write the cell read by rd.
func gdMayAlias(w ssa.Value, rd gdStep) bool {
	if rd.isMap {
		return false // a store never changes a map's contents (replacing the map is the preceding step's cell)
	}
	r := rd.addr
	if r == nil {
		return false
	}
	if w == r {
		return true
	}
	_, wIsFA := w.(*ssa.FieldAddr)
	_, rIsFA := r.(*ssa.FieldAddr)
	if wIsFA && rIsFA {
		wc, rc := gdFAChain(w), gdFAChain(r)
		wl, rl := wc[len(wc)-1], rc[len(rc)-1]
		for _, f := range rc {
			if f == wl {
				return true
			}
		}
		for _, f := range wc {
			if f == rl {
				return true
			}
		}
		return false
	}
	wa, wIsAl := w.(*ssa.Alloc)
	ra, rIsAl := r.(*ssa.Alloc)
	if wIsAl && rIsAl {
		return wa == ra
	}
	// a fresh non-escaping local cell (new T only stored/loaded) is not aliased by other pointers
	if wIsAl && gdLocalOnly(wa) || rIsAl && gdLocalOnly(ra) {
		return false
	}
	_, wIsIA := w.(*ssa.IndexAddr)
	_, rIsIA := r.(*ssa.IndexAddr)
	if wIsIA != rIsIA && (wIsFA || rIsFA) {
		return false // element of a slice vs field of a struct
	}
	return types.Identical(w.Type(), r.Type())
}

// gdLocalOnly: the Alloc's address is used only as the operand of loads,
// stores-to, FieldAddr/IndexAddr (i.e. never escapes as a value).
func gdLocalOnly(a *ssa.Alloc) bool {
	refs := a.Referrers()
	if refs == nil {
		return false
	}
	for _, r := range *refs {
		switch x := r.(type) {
		case *ssa.UnOp:
			if x.Op != token.MUL {
				return false
			}
		case *ssa.Store:
			if x.Val == ssa.Value(a) {
				return false
			}
		case *ssa.FieldAddr, *ssa.IndexAddr, *ssa.DebugRef:
		case *ssa.Slice:
			// slicing a local array (varargs): the slice may be passed on; treat as escaping
			return false
		default:
			return false
		}
	}
	return true
}

// ---------------------------------------------------------------------------
// mod summaries: which struct fields / pointee types a function may write
// (transitively over static callees inside the module)

type gdMod struct {
	fields map[*types.Var]bool
	types  []types.Type // address types stored through (non-field)
	maps   []types.Type // map types updated
	// nilFields: fields that may be assigned a possibly-nil value
	nilFields map[*types.Var]bool
}

// gdNonNil: v is certainly not nil (address of something, fresh allocation,
// interface built from a concrete value, function/closure, non-nil constant).
func gdNonNil(v ssa.Value, depth int) bool {
	if depth > 6 {
		return false
	}
	switch x := v.(type) {
	case *ssa.Alloc, *ssa.FieldAddr, *ssa.IndexAddr, *ssa.MakeMap, *ssa.MakeSlice, *ssa.MakeChan, *ssa.MakeClosure, *ssa.Function, *ssa.Global:
		return true
	case *ssa.MakeInterface:
		// an interface holding a nil pointer is a non-nil interface (method call is dispatched)
		return true
	case *ssa.Const:
		return !x.IsNil()
	case *ssa.ChangeType:
		return gdNonNil(x.X, depth+1)
	case *ssa.ChangeInterface:
		return gdNonNil(x.X, depth+1)
	case *ssa.Phi:
		for _, e := range x.Edges {
			if e == ssa.Value(x) {
				continue
			}
			if !gdNonNil(e, depth+1) {
				return false
			}
		}
		return true
	case *ssa.Call:
		if cal := x.Call.StaticCallee(); cal != nil && cal.Blocks != nil && x.Call.Signature().Results().Len() == 1 {
			return gdReturnsNonNil(cal, 0, depth+1)
		}
	case *ssa.Extract:
		if call, ok := x.Tuple.(*ssa.Call); ok {
			if cal := call.Call.StaticCallee(); cal != nil && cal.Blocks != nil {
				return gdReturnsNonNil(cal, x.Index, depth+1)
			}
		}
	}
	return false
}

func gdReturnsNonNil(fn *ssa.Function, idx int, depth int) bool {
	found := false
	for _, b := range fn.Blocks {
		if len(b.Instrs) == 0 {
			continue
		}
		if r, ok := b.Instrs[len(b.Instrs)-1].(*ssa.Return); ok {
			if idx >= len(r.Results) {
				return false
			}
			if !gdNonNil(r.Results[idx], depth+1) {
				return false
			}
			found = true
		}
	}
	return found
}

// ---------------------------------------------------------------------------
// dominating edge facts

type gdFact struct {
	cond  ssa.Value
	truth bool
	at    *ssa.If
}

// gdDomFacts lists the branch decisions that hold whenever block b executes.
func gdDomFacts(b *ssa.BasicBlock) []gdFact {
	var out []gdFact
	for n := b; n != nil && n.Idom() != nil; n = n.Idom() {
		d := n.Idom()
		if len(d.Instrs) == 0 {
			continue
		}
		iff, ok := d.Instrs[len(d.Instrs)-1].(*ssa.If)
		if !ok || len(d.Succs) != 2 || d.Succs[0] == d.Succs[1] {
			continue
		}
		// n must be entered only from d (possibly plus back edges from blocks n dominates)
		fromD := 0
		okPreds := true
		for _, p := range n.Preds {
			if p == d {
				fromD++
			} else if !n.Dominates(p) {
				okPreds = false
			}
		}
		if !okPreds || fromD != 1 {
			continue
		}
		if n != d.Succs[0] && n != d.Succs[1] {
			continue
		}
		out = append(out, gdNormFact(iff.Cond, n == d.Succs[0], iff))
	}
	return out
}

func gdNormFact(cond ssa.Value, truth bool, at *ssa.If) gdFact {
	for {
		if u, ok := cond.(*ssa.UnOp); ok && u.Op == token.NOT {
			cond = u.X
			truth = !truth
			continue
		}
		// `switch f() { case true: … }` / `if ok == false`
		if b, ok := cond.(*ssa.BinOp); ok && (b.Op == token.EQL || b.Op == token.NEQ) {
			if c, ok := b.Y.(*ssa.Const); ok && c.Value != nil && c.Value.Kind() == constant.Bool {
				want := constant.BoolVal(c.Value)
				if b.Op == token.NEQ {
					want = !want
				}
				cond = b.X
				if !want {
					truth = !truth
				}
				continue
			}
		}
		break
	}
	return gdFact{cond: cond, truth: truth, at: at}
}

// gdPosOfFunc: best position for a function.
func gdPosOfFunc(fn *ssa.Function) token.Pos {
	if fn.Pos().IsValid() {
		return fn.Pos()
	}
	if fn.Syntax() != nil {
		return fn.Syntax().Pos()
	}
	return token.NoPos
}
