// renamer: a mechanical behaviour-preserving refactoring used as a negative control.
// It rewrites a scratch copy of the repository in place: every unexported package-level
// function, every unexported method (unless it is needed to satisfy an interface), and
// optionally every local variable / parameter of the selected packages gets the suffix
// given with -suffix. Identifiers are resolved with go/types, so only true references change.
package main

import (
	"flag"
	"fmt"
	"go/ast"
	"go/token"
	"go/types"
	"os"
	"sort"
	"strings"

	"golang.org/x/tools/go/packages"
)

func main() {
	dir := flag.String("dir", "", "scratch repository (module root containing go.mod)")
	suffix := flag.String("suffix", "Zq", "suffix appended to renamed identifiers")
	what := flag.String("what", "funcs", "comma list: funcs (unexported functions and methods), locals (local variables, parameters, receivers), fields (unexported struct fields)")
	only := flag.String("pkgs", "", "comma list of package path suffixes to rename in (default: all packages of the module)")
	flag.Parse()
	if *dir == "" {
		fmt.Fprintln(os.Stderr, "usage: renamer -dir <scratch>")
		os.Exit(2)
	}
	want := map[string]bool{}
	for _, w := range strings.Split(*what, ",") {
		want[strings.TrimSpace(w)] = true
	}
	cfg := &packages.Config{Mode: packages.LoadAllSyntax, Dir: *dir, Tests: true}
	pkgs, err := packages.Load(cfg, "./...")
	if err != nil || packages.PrintErrors(pkgs) > 0 {
		fmt.Fprintln(os.Stderr, "load failed", err)
		os.Exit(2)
	}
	sel := func(path string) bool {
		if *only == "" {
			return true
		}
		for _, s := range strings.Split(*only, ",") {
			if strings.HasSuffix(path, strings.TrimSpace(s)) {
				return true
			}
		}
		return false
	}
	// all interface method names of the module + its imports' interfaces used here: a method
	// with such a name is left alone (it may satisfy an interface)
	ifaceMethods := map[string]bool{}
	for _, p := range pkgs {
		for _, n := range p.Types.Scope().Names() {
			if tn, ok := p.Types.Scope().Lookup(n).(*types.TypeName); ok {
				if it, ok := tn.Type().Underlying().(*types.Interface); ok {
					for i := 0; i < it.NumMethods(); i++ {
						ifaceMethods[it.Method(i).Name()] = true
					}
				}
			}
		}
	}
	// also anonymous interfaces in signatures etc.
	for _, p := range pkgs {
		for _, f := range p.Syntax {
			ast.Inspect(f, func(n ast.Node) bool {
				if it, ok := n.(*ast.InterfaceType); ok && it.Methods != nil {
					for _, m := range it.Methods.List {
						for _, nm := range m.Names {
							ifaceMethods[nm.Name] = true
						}
					}
				}
				return true
			})
		}
	}
	rename := map[token.Pos]bool{} // keyed by definition position: test variants of a package re-create the objects
	for _, p := range pkgs {
		if !sel(p.PkgPath) {
			continue
		}
		for id, obj := range p.TypesInfo.Defs {
			if obj == nil || id.Name == "_" || id.Name == "main" || id.Name == "init" {
				continue
			}
			switch o := obj.(type) {
			case *types.Func:
				if !want["funcs"] || o.Exported() {
					continue
				}
				if sig := o.Type().(*types.Signature); sig.Recv() != nil && ifaceMethods[o.Name()] {
					continue
				}
				rename[obj.Pos()] = true
			case *types.Var:
				if o.IsField() {
					if want["fields"] && !o.Exported() && !o.Embedded() {
						rename[obj.Pos()] = true
					}
					continue
				}
				if !want["locals"] {
					continue
				}
				if o.Parent() == nil || o.Parent() == p.Types.Scope() || o.Parent() == types.Universe {
					continue // package-level variable or a struct/interface member
				}
				rename[obj.Pos()] = true
			}
		}
	}
	edits := map[string][]token.Pos{}
	var fset *token.FileSet
	count := 0
	for _, p := range pkgs {
		fset = p.Fset
		visit := func(id *ast.Ident, obj types.Object) {
			if obj == nil || !obj.Pos().IsValid() || !rename[obj.Pos()] {
				return
			}
			pos := p.Fset.Position(id.Pos())
			edits[pos.Filename] = append(edits[pos.Filename], id.Pos())
			count++
		}
		for id, obj := range p.TypesInfo.Defs {
			visit(id, obj)
		}
		for id, obj := range p.TypesInfo.Uses {
			visit(id, obj)
		}
		// struct literal keys with implicit field references and embedded selections are in Uses already
	}
	for file, poss := range edits {
		src, err := os.ReadFile(file)
		if err != nil {
			fmt.Fprintln(os.Stderr, err)
			os.Exit(2)
		}
		offs := map[int]bool{}
		for _, p := range poss {
			offs[fset.Position(p).Offset] = true
		}
		var list []int
		for o := range offs {
			list = append(list, o)
		}
		sort.Sort(sort.Reverse(sort.IntSlice(list)))
		for _, o := range list {
			// end of identifier
			e := o
			for e < len(src) && (src[e] == '_' || src[e] >= 'a' && src[e] <= 'z' || src[e] >= 'A' && src[e] <= 'Z' || src[e] >= '0' && src[e] <= '9' || src[e] >= 0x80) {
				e++
			}
			src = append(src[:e], append([]byte(*suffix), src[e:]...)...)
		}
		if err := os.WriteFile(file, src, 0o644); err != nil {
			fmt.Fprintln(os.Stderr, err)
			os.Exit(2)
		}
	}
	fmt.Printf("renamed %d identifier occurrences of %d objects in %d files\n", count, len(rename), len(edits))
}
