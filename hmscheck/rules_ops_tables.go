package main

import (
	"fmt"
	"go/ast"
	"go/token"
	"go/types"
	"sort"
	"strconv"
	"strings"
	"sync"
)

// The operator model: anchors resolved by role, enum domains, and the four
// extracted relations (analyzer admission, compiler lowering, VM handling,
// interpreter handling). Built once per loaded tree.

type opsForm struct {
	name  string          // "prefix" | "infix" | "assign"
	pNode *types.TypeName // parser/ast node struct
	aNode *types.TypeName // analyzer/ast node struct
	pOp   *Enum           // operator enum of the parser node
	aOp   *Enum           // operator enum of the analyzed node (may be the same type)
	anaFn *ast.FuncDecl
	intFn *ast.FuncDecl
	// the engine has no method of its own for this node (inlined into the dispatcher):
	// anaFn / intFn is the dispatcher over the expression interface, walked under node.Kind() == the node's kind
	anaDisp, intDisp bool
	pNodeK           *types.Const            // Kind() of the parser node
	nodeK            *types.Const            // Kind() of the analyzed node
	admit            map[[2]string]*opsCell  // (TypeKind name, pOp name)
	interp           map[[2]string]*opsCell  // (interpreter ValueKind name, aOp name)
	lower            map[string]*opsCell     // aOp name -> compiler paths
	opMap            map[string]*types.Const // pOp name -> aOp const (identity unless the analyzer translates)
	opMapWhy         map[string]string
}

type opsCell struct {
	paths []opsPath
	ok    bool
	pos   token.Pos
}

type opsModel struct {
	g     *opsEng
	c     *Ctx
	fatal []string

	typeKind, rvk, ivk, opcode *Enum
	vk2tk                      map[string]*types.Const // runtime ValueKind name -> TypeKind (absent: none)
	sym                        map[*types.Const]string // operator constant -> printed symbol
	aop2iop                    map[string]*types.Const // assign operator name -> infix operator
	forms                      []*opsForm

	anaRecv, cmpRecv, vmRecv, intRecv *types.TypeName
	cmpEntry, vmEntry                 *ast.FuncDecl
	vmParam                           types.Object
	exprKindA                         *Enum
	pops                              map[*types.Func]bool
	popping                           map[*types.Func]bool        // functions of the VM package that (transitively) pop
	errFns                            map[*types.Func]bool        // functions that unconditionally report an error diagnostic
	errSpecs                          map[*types.Func]*opsErrSpec // reporter summaries (rules_ops_reporters.go)
	diagCtors                         map[*types.Func]*opsRepVal  // functions returning a diagnostic of a constant / parameter level
	errLevel                          *types.Const                // the error level of the diagnostic struct
	levelT                            *types.TypeName             // its enum type
	diagTs                            map[*types.TypeName]bool    // the diagnostic struct(s)
	diagFields                        map[*types.Var]bool         // the Analyzer's diagnostic lists
	vmCases                           map[string]bool
	vmMemo                            map[[2]string]*opsCell
	popRole                           map[int]int // VM pop ordinal -> operand role (1 left, 2 right), from the compiler's push order
	popRoleWhy                        string
	trigger                           map[*types.TypeName]bool
}

var opsModels sync.Map // *Ctx -> *opsModel

func opsModelOf(c *Ctx) *opsModel {
	if m, ok := opsModels.Load(c); ok {
		return m.(*opsModel)
	}
	m := buildOpsModel(c)
	opsModels.Store(c, m)
	return m
}

func (m *opsModel) failf(format string, a ...any) {
	m.fatal = append(m.fatal, fmt.Sprintf(format, a...))
}

func opsLookupType(c *Ctx, rel, name string) *types.TypeName {
	if !c.HasPkg(rel) {
		return nil
	}
	tn, _ := c.Pkg(rel).Types.Scope().Lookup(name).(*types.TypeName)
	return tn
}

// opsIfaceMethodResult: result type of a nullary method of a named type.
func opsMethodResult(tn *types.TypeName, method string) types.Type {
	if tn == nil {
		return nil
	}
	obj, _, _ := types.LookupFieldOrMethod(tn.Type(), true, tn.Pkg(), method)
	fn, ok := obj.(*types.Func)
	if !ok {
		return nil
	}
	sig := fn.Type().(*types.Signature)
	if sig.Params().Len() != 0 || sig.Results().Len() != 1 {
		return nil
	}
	return sig.Results().At(0).Type()
}

func (m *opsModel) enumOfMethod(rel, typ, method string) *Enum {
	tn := opsLookupType(m.c, rel, typ)
	if tn == nil {
		m.failf("anchor unresolved: type %s.%s", rel, typ)
		return nil
	}
	rt := opsMethodResult(tn, method)
	if rt == nil {
		m.failf("anchor unresolved: method %s.%s.%s()", rel, typ, method)
		return nil
	}
	e := m.g.opsEnumOf(rt)
	if e == nil {
		m.failf("anchor unresolved: %s.%s.%s() does not return an enum", rel, typ, method)
	}
	return e
}

// methodWithParam: the method of recv (in package rel) that has exactly one
// parameter, of type pt. When several methods qualify (a helper with the same
// signature was split off), the entry is the one no other candidate calls.
func (m *opsModel) methodWithParam(rel string, recv *types.TypeName, pt types.Type) *ast.FuncDecl {
	p := m.c.Pkg(rel)
	var cands []*ast.FuncDecl
	for _, fd := range AllFuncDecls(p) {
		fn, _ := p.TypesInfo.Defs[fd.Name].(*types.Func)
		if fn == nil || fd.Body == nil {
			continue
		}
		sig := fn.Type().(*types.Signature)
		if sig.Recv() == nil || opsTypeName(sig.Recv().Type()) != recv || sig.Params().Len() != 1 {
			continue
		}
		if types.Identical(sig.Params().At(0).Type(), pt) {
			cands = append(cands, fd)
		}
	}
	return m.entryAmong(p.TypesInfo, cands)
}

// entryAmong: the candidate that is not called (directly or through other
// functions of the package) by another candidate; the first in source order
// when that does not single one out.
func (m *opsModel) entryAmong(info *types.Info, cands []*ast.FuncDecl) *ast.FuncDecl {
	if len(cands) <= 1 {
		if len(cands) == 1 {
			return cands[0]
		}
		return nil
	}
	isCand := map[*types.Func]*ast.FuncDecl{}
	for _, fd := range cands {
		if fn, ok := info.Defs[fd.Name].(*types.Func); ok {
			isCand[fn] = fd
		}
	}
	called := map[*ast.FuncDecl]bool{}
	for _, fd := range cands {
		seen := map[*types.Func]bool{}
		var visit func(body *ast.BlockStmt, depth int)
		visit = func(body *ast.BlockStmt, depth int) {
			ast.Inspect(body, func(n ast.Node) bool {
				call, ok := n.(*ast.CallExpr)
				if !ok {
					return true
				}
				cal := CalleeOf(m.g.info(body), call)
				if cal == nil || seen[cal] {
					return true
				}
				seen[cal] = true
				if other := isCand[cal]; other != nil && other != fd {
					called[other] = true
				}
				if cd := m.g.decls[cal]; cd != nil && depth < 3 && isCand[cal] == nil {
					if fnObj, ok := info.Defs[fd.Name].(*types.Func); ok && cal.Pkg() == fnObj.Pkg() {
						visit(cd.Body, depth+1)
					}
				}
				return true
			})
		}
		visit(fd.Body, 0)
	}
	var roots []*ast.FuncDecl
	for _, fd := range cands {
		if !called[fd] {
			roots = append(roots, fd)
		}
	}
	if len(roots) == 1 {
		return roots[0]
	}
	// no single root (the candidates call each other: a clause body extracted into a method with the
	// dispatcher's own signature recurses into the dispatcher): the entry is the candidate that the most
	// other functions of the package call
	pool := roots
	if len(pool) == 0 {
		pool = cands
	}
	var pkg *types.Package
	for fn := range isCand {
		pkg = fn.Pkg()
	}
	callers := map[*types.Func]map[*types.Func]bool{}
	for fn, fd := range m.g.decls {
		if fn.Pkg() != pkg || isCand[fn] != nil || fd.Body == nil {
			continue
		}
		finfo := m.g.info(fd)
		ast.Inspect(fd.Body, func(n ast.Node) bool {
			if call, ok := n.(*ast.CallExpr); ok {
				if cal := CalleeOf(finfo, call); cal != nil && isCand[cal] != nil {
					if callers[cal] == nil {
						callers[cal] = map[*types.Func]bool{}
					}
					callers[cal][fn] = true
				}
			}
			return true
		})
	}
	best, bestN := pool[0], -1
	for _, fd := range pool {
		fn, _ := info.Defs[fd.Name].(*types.Func)
		if n := len(callers[fn]); n > bestN {
			best, bestN = fd, n
		}
	}
	return best
}

func opsEnumField(c *Ctx, tn *types.TypeName) *Enum {
	st, _ := tn.Type().Underlying().(*types.Struct)
	if st == nil {
		return nil
	}
	var res *Enum
	n := 0
	for i := 0; i < st.NumFields(); i++ {
		if e := c.EnumOf(st.Field(i).Type()); e != nil {
			res = e
			n++
		}
	}
	if n != 1 {
		return nil
	}
	return res
}

func buildOpsModel(c *Ctx) *opsModel {
	m := &opsModel{c: c, g: newOpsEng(c), vk2tk: map[string]*types.Const{}, sym: map[*types.Const]string{}, aop2iop: map[string]*types.Const{},
		pops: map[*types.Func]bool{}, errFns: map[*types.Func]bool{}, errSpecs: map[*types.Func]*opsErrSpec{}, diagCtors: map[*types.Func]*opsRepVal{}, diagTs: map[*types.TypeName]bool{}, diagFields: map[*types.Var]bool{}, vmCases: map[string]bool{}, vmMemo: map[[2]string]*opsCell{}, popRole: map[int]int{}}
	g := m.g
	const (
		pAstRel = "homescript/parser/ast"
		aAstRel = "homescript/analyzer/ast"
		anaRel  = "homescript/analyzer"
		cmpRel  = "homescript/compiler"
		vmRel   = "homescript/runtime"
		rvRel   = "homescript/runtime/value"
		intRel  = "homescript/interpreter"
		ivRel   = "homescript/interpreter/value"
	)
	pExpr := opsLookupType(c, pAstRel, "Expression")
	aExpr := opsLookupType(c, aAstRel, "AnalyzedExpression")
	if pExpr == nil || aExpr == nil {
		m.failf("anchor unresolved: the Expression / AnalyzedExpression interfaces")
		return m
	}
	g.exprIfs = []*types.TypeName{pExpr, aExpr}
	g.instrIf = opsLookupType(c, cmpRel, "Instruction")
	m.typeKind = m.enumOfMethod(aAstRel, "Type", "Kind")
	m.rvk = m.enumOfMethod(rvRel, "Value", "Kind")
	m.ivk = m.enumOfMethod(ivRel, "Value", "Kind")
	m.opcode = m.enumOfMethod(cmpRel, "Instruction", "Opcode")
	if m.opcode != nil {
		g.opcodeT = m.opcode.Type.Obj()
	}
	m.exprKindA = m.enumOfMethod(aAstRel, "AnalyzedExpression", "Kind")
	m.anaRecv = opsLookupType(c, anaRel, "Analyzer")
	m.cmpRecv = opsLookupType(c, cmpRel, "Compiler")
	m.vmRecv = opsLookupType(c, vmRel, "Core")
	m.intRecv = opsLookupType(c, intRel, "Interpreter")
	if m.anaRecv == nil || m.cmpRecv == nil || m.vmRecv == nil || m.intRecv == nil {
		m.failf("anchor unresolved: one of Analyzer, Compiler, Core, Interpreter")
	}
	if len(m.fatal) > 0 {
		return m
	}
	for _, f := range []string{"Prefix", "Infix", "Assign"} {
		fm := &opsForm{name: strings.ToLower(f), admit: map[[2]string]*opsCell{}, interp: map[[2]string]*opsCell{}, lower: map[string]*opsCell{}, opMap: map[string]*types.Const{}, opMapWhy: map[string]string{}}
		fm.pNode = opsLookupType(c, pAstRel, f+"Expression")
		fm.aNode = opsLookupType(c, aAstRel, "Analyzed"+f+"Expression")
		if fm.pNode == nil || fm.aNode == nil {
			m.failf("anchor unresolved: %sExpression node types", f)
			continue
		}
		fm.pOp = opsEnumField(c, fm.pNode)
		fm.aOp = opsEnumField(c, fm.aNode)
		if fm.pOp == nil || fm.aOp == nil {
			m.failf("anchor unresolved: operator enum field of %sExpression", f)
			continue
		}
		fm.anaFn = m.methodWithParam(anaRel, m.anaRecv, fm.pNode.Type())
		fm.intFn = m.methodWithParam(intRel, m.intRecv, fm.aNode.Type())
		fm.nodeK = g.kindOf(fm.aNode)
		fm.pNodeK = g.kindOf(fm.pNode)
		if fm.anaFn == nil && fm.pNodeK != nil {
			if fm.anaFn = m.methodWithParam(anaRel, m.anaRecv, pExpr.Type()); fm.anaFn != nil {
				fm.anaDisp = true
			}
		}
		if fm.intFn == nil && fm.nodeK != nil {
			if fm.intFn = m.methodWithParam(intRel, m.intRecv, aExpr.Type()); fm.intFn != nil {
				fm.intDisp = true
			}
		}
		if fm.anaFn == nil {
			m.failf("anchor unresolved: the Analyzer method taking a %s", fm.pNode.Name())
		}
		if fm.intFn == nil {
			m.failf("anchor unresolved: the Interpreter method taking a %s", fm.aNode.Name())
		}
		if fm.nodeK == nil {
			m.failf("anchor unresolved: %s.Kind()", fm.aNode.Name())
		}
		m.forms = append(m.forms, fm)
	}
	m.trigger = map[*types.TypeName]bool{}
	for _, fm := range m.forms {
		m.trigger[fm.pOp.Type.Obj()] = true
		m.trigger[fm.aOp.Type.Obj()] = true
	}
	// a helper that receives an opcode (emit helper, handler family) is walked into as well
	m.trigger[m.opcode.Type.Obj()] = true
	m.cmpEntry = m.methodWithParam(cmpRel, m.cmpRecv, aExpr.Type())
	if m.cmpEntry == nil {
		m.failf("anchor unresolved: the Compiler method compiling an AnalyzedExpression")
	}
	// VM entry: the Core method with an Instruction parameter (the one the other such methods are helpers of).
	// pop: a nullary Core method that returns the top of the operand stack (the slice field of Core whose
	// elements are value pointers) and re-slices that field.
	{
		p := c.Pkg(vmRel)
		valueIf := opsLookupType(c, rvRel, "Value")
		isStackField := func(v *types.Var) bool {
			sl, ok := types.Unalias(v.Type()).(*types.Slice)
			if !ok {
				return false
			}
			return valueIf != nil && opsTypeName(sl.Elem()) == valueIf
		}
		var cands, popSigs []*ast.FuncDecl
		discards := map[*types.Func]bool{}
		// the methods whose single write to the operand stack removes its top element: found by the VM
		// group's stack discovery (shape of the write, whatever its spelling: bound in a local, full slice
		// expression, parallel assignment); the stack field itself is resolved by type
		shrinkers := map[*types.Func]bool{}
		if cst, ok := m.vmRecv.Type().Underlying().(*types.Struct); ok {
			vfns := vmFuncs(c, vmRel)
			for i := 0; i < cst.NumFields(); i++ {
				if isStackField(cst.Field(i)) {
					for fn, k := range vmDiscoverStack(vfns, cst.Field(i)).pop {
						if k == 1 {
							shrinkers[fn] = true
						}
					}
				}
			}
		}
		for _, fd := range AllFuncDecls(p) {
			fn, _ := p.TypesInfo.Defs[fd.Name].(*types.Func)
			if fn == nil || fd.Body == nil {
				continue
			}
			sig := fn.Type().(*types.Signature)
			if sig.Recv() == nil || opsTypeName(sig.Recv().Type()) != m.vmRecv {
				continue
			}
			for i := 0; i < sig.Params().Len(); i++ {
				if opsTypeName(sig.Params().At(i).Type()) == g.instrIf && g.instrIf != nil {
					cands = append(cands, fd)
					break
				}
			}
			// a nullary method that re-slices the operand stack: with a value result the pop itself, without one
			// a discard (the shrinking half of a pop rebuilt from peek + discard)
			isPopSig := sig.Params().Len() == 0 && sig.Results().Len() == 1 && valueIf != nil && opsTypeName(sig.Results().At(0).Type()) == valueIf
			isDiscardSig := sig.Params().Len() == 0 && sig.Results().Len() == 0
			if isPopSig || isDiscardSig {
				shrinks := shrinkers[fn]
				if shrinks {
					if isPopSig {
						m.pops[fn] = true
					} else {
						discards[fn] = true
					}
				} else if isPopSig {
					popSigs = append(popSigs, fd)
				}
			}
		}
		// pop rebuilt from a read of the top and a discard: a nullary method with a value result that calls a
		// discard. The discards count as pops of their own when called directly (a Drop handler).
		for _, fd := range popSigs {
			fn := p.TypesInfo.Defs[fd.Name].(*types.Func)
			n := 0
			ast.Inspect(fd.Body, func(x ast.Node) bool {
				if call, ok := x.(*ast.CallExpr); ok {
					if cal := CalleeOf(p.TypesInfo, call); cal != nil && discards[cal] {
						n++
					}
				}
				return true
			})
			if n == 1 {
				m.pops[fn] = true
			}
		}
		for fn := range discards {
			m.pops[fn] = true
		}
		m.vmEntry = m.entryAmong(p.TypesInfo, cands)
		if m.vmEntry == nil {
			m.failf("anchor unresolved: the Core method executing a compiler.Instruction")
		} else {
			fn := p.TypesInfo.Defs[m.vmEntry.Name].(*types.Func)
			sig := fn.Type().(*types.Signature)
			for i := 0; i < sig.Params().Len(); i++ {
				if opsTypeName(sig.Params().At(i).Type()) == g.instrIf {
					m.vmParam = sig.Params().At(i)
				}
			}
		}
		if len(m.pops) == 0 {
			m.failf("anchor unresolved: the Core method popping the operand stack")
		}
		// helpers that pop (directly or through other functions of the package): always walked into
		m.popping = map[*types.Func]bool{}
		for fn := range m.pops {
			m.popping[fn] = true
		}
		for changed := true; changed; {
			changed = false
			for _, fd := range AllFuncDecls(p) {
				fn, _ := p.TypesInfo.Defs[fd.Name].(*types.Func)
				if fn == nil || fd.Body == nil || m.popping[fn] {
					continue
				}
				ast.Inspect(fd.Body, func(n ast.Node) bool {
					if call, ok := n.(*ast.CallExpr); ok {
						if cal := CalleeOf(p.TypesInfo, call); cal != nil && m.popping[cal] {
							m.popping[fn] = true
							changed = true
							return false
						}
					}
					return !m.popping[fn]
				})
			}
		}
	}
	if len(m.fatal) > 0 {
		return m
	}
	// opcodes the VM dispatches on: constants of the opcode enum compared with (case clause, ==, table key)
	// in the entry or in the functions of the package it reaches
	{
		p := c.Pkg(vmRel)
		seen := map[*ast.FuncDecl]bool{}
		var visit func(fd *ast.FuncDecl, depth int)
		visit = func(fd *ast.FuncDecl, depth int) {
			if fd == nil || fd.Body == nil || seen[fd] {
				return
			}
			seen[fd] = true
			info := g.info(fd)
			note := func(e ast.Expr) {
				if k := ConstOf(info, e); k != nil && g.enumTypeOf(k) == m.opcode.Type.Obj() {
					m.vmCases[k.Name()] = true
				}
			}
			ast.Inspect(fd.Body, func(n ast.Node) bool {
				switch x := n.(type) {
				case *ast.CaseClause:
					for _, e := range x.List {
						note(e)
					}
				case *ast.BinaryExpr:
					if x.Op == token.EQL || x.Op == token.NEQ {
						note(x.X)
						note(x.Y)
					}
				case *ast.KeyValueExpr:
					note(x.Key)
				case *ast.CallExpr:
					if cal := CalleeOf(info, x); cal != nil && depth < 3 {
						if cd := g.decls[cal]; cd != nil && cal.Pkg() == p.Types {
							visit(cd, depth+1)
						}
					}
				}
				return true
			})
		}
		visit(m.vmEntry, 0)
	}
	m.findErrReporters(anaRel)
	m.extractEnumMethods()
	m.extractAnalyzer()
	m.extractCompiler()
	m.extractInterpreter()
	return m
}

// evalEnumMethod walks a nullary method of an enum type with the receiver
// bound to k and returns its unique return value.
func (m *opsModel) evalEnumMethod(fd *ast.FuncDecl, k *types.Const) (opsVal, string) {
	info := m.g.info(fd)
	if fd.Recv == nil || len(fd.Recv.List[0].Names) == 0 {
		return opsVal{}, "no receiver name"
	}
	cfg := &opsCfg{g: m.g, maxDepth: 3, nodeDims: map[*types.TypeName]*types.Const{}, opndDims: map[*types.TypeName]*types.Const{}}
	paths, ok := m.g.walk(cfg, fd, map[types.Object]opsVal{info.Defs[fd.Recv.List[0].Names[0]]: {k: ovConst, c: k}}, 0, 0)
	if !ok {
		return opsVal{}, "path overflow"
	}
	var res *opsVal
	for _, p := range paths {
		if p.out == cPanic {
			return opsVal{}, "panics"
		}
		if p.out != cReturn || len(p.ret) != 1 {
			return opsVal{}, "no single return value"
		}
		if res != nil && res.String() != p.ret[0].String() {
			return opsVal{}, "ambiguous"
		}
		v := p.ret[0]
		res = &v
	}
	if res == nil {
		return opsVal{}, "no path"
	}
	return *res, ""
}

func (m *opsModel) methodDeclByResult(e *Enum, result types.Type, name string) *ast.FuncDecl {
	// nullary method of enum type e returning `result` (name only used when result is string)
	ms := types.NewMethodSet(e.Type)
	for i := 0; i < ms.Len(); i++ {
		fn, _ := ms.At(i).Obj().(*types.Func)
		if fn == nil {
			continue
		}
		sig := fn.Type().(*types.Signature)
		if sig.Params().Len() != 0 || sig.Results().Len() != 1 || !types.Identical(sig.Results().At(0).Type(), result) {
			continue
		}
		if name != "" && fn.Name() != name {
			continue
		}
		return m.g.decls[fn]
	}
	return nil
}

func (m *opsModel) extractEnumMethods() {
	// ValueKind -> TypeKind
	if fd := m.methodDeclByResult(m.rvk, m.typeKind.Type, ""); fd != nil {
		for _, k := range m.rvk.Consts {
			if v, why := m.evalEnumMethod(fd, k); why == "" && v.k == ovConst {
				m.vk2tk[k.Name()] = v.c
			}
		}
	} else {
		m.failf("anchor unresolved: runtime ValueKind -> TypeKind method")
	}
	// printed symbols
	seen := map[*types.TypeName]bool{}
	for _, fm := range m.forms {
		for _, e := range []*Enum{fm.pOp, fm.aOp} {
			if seen[e.Type.Obj()] {
				continue
			}
			seen[e.Type.Obj()] = true
			fd := m.methodDeclByResult(e, types.Typ[types.String], "String")
			if fd == nil {
				m.failf("anchor unresolved: %s.String()", e.Type.Obj().Name())
				continue
			}
			for _, k := range e.Consts {
				if v, why := m.evalEnumMethod(fd, k); why == "" && v.k == ovLit {
					m.sym[k] = constantString(v)
				}
			}
		}
	}
	// assign operator -> infix operator
	var inf, asg *opsForm
	for _, fm := range m.forms {
		switch fm.name {
		case "infix":
			inf = fm
		case "assign":
			asg = fm
		}
	}
	if inf != nil && asg != nil {
		if fd := m.methodDeclByResult(asg.aOp, inf.aOp.Type, ""); fd != nil {
			for _, k := range asg.aOp.Consts {
				if v, why := m.evalEnumMethod(fd, k); why == "" && v.k == ovConst {
					m.aop2iop[k.Name()] = v.c
				}
			}
		} else {
			m.failf("anchor unresolved: AssignOperator -> InfixOperator method")
		}
	}
}

func constantString(v opsVal) string {
	s := v.lit.ExactString()
	if len(s) >= 2 && s[0] == '"' {
		if u, err := strconv.Unquote(s); err == nil {
			return u
		}
	}
	return s
}

func (m *opsModel) form(name string) *opsForm {
	for _, f := range m.forms {
		if f.name == name {
			return f
		}
	}
	return nil
}

func (m *opsModel) paramObj(fd *ast.FuncDecl, i int) types.Object {
	info := m.g.info(fd)
	n := 0
	for _, f := range fd.Type.Params.List {
		for _, nm := range f.Names {
			if n == i {
				return info.Defs[nm]
			}
			n++
		}
	}
	return nil
}

// ---- analyzer: (TypeKind x operator) -> admitted / rejected / panics

func (m *opsModel) extractAnalyzer() {
	for _, fm := range m.forms {
		if fm.anaFn == nil {
			continue
		}
		node := m.paramObj(fm.anaFn, 0)
		for _, tk := range m.typeKind.Consts {
			for _, op := range fm.pOp.Consts {
				cfg := &opsCfg{g: m.g, recv: m.anaRecv, maxDepth: 5, trigger: m.trigger, primaryOnly: true,
					nodeDims: map[*types.TypeName]*types.Const{fm.pOp.Type.Obj(): op},
					opndDims: map[*types.TypeName]*types.Const{m.typeKind.Type.Obj(): tk},
					isErr:    m.isErrCall, diag: m}
				nodeT := fm.pNode.Type()
				if fm.anaDisp {
					nodeT = m.g.exprIfs[0].Type()
					cfg.nodeDims[m.g.enumTypeOf(fm.pNodeK)] = fm.pNodeK
					cfg.maxDepth++
				}
				paths, ok := m.g.walk(cfg, fm.anaFn, map[types.Object]opsVal{node: {k: ovNode, nodeT: nodeT}}, 0, 0)
				fm.admit[[2]string{tk.Name(), op.Name()}] = &opsCell{paths: paths, ok: ok, pos: fm.anaFn.Pos()}
				// operator translation parser -> analyzed node (field of the returned literal)
				if ok && fm.pOp.Type != fm.aOp.Type {
					for _, p := range paths {
						for _, e := range p.ev {
							if e.k == oeField && m.g.enumTypeOf(e.c) == fm.aOp.Type.Obj() {
								if prev := fm.opMap[op.Name()]; prev != nil && prev != e.c {
									fm.opMapWhy[op.Name()] = fmt.Sprintf("maps to both %s and %s", prev.Name(), e.c.Name())
								}
								fm.opMap[op.Name()] = e.c
							}
						}
					}
				}
			}
		}
		if fm.pOp.Type == fm.aOp.Type {
			for _, op := range fm.pOp.Consts {
				fm.opMap[op.Name()] = op
			}
		}
	}
}

func (c *opsCell) hasError() bool {
	for _, p := range c.paths {
		if p.has(oeError) {
			return true
		}
	}
	return false
}

func (c *opsCell) panicPath() *opsPath {
	for i, p := range c.paths {
		if p.out == cPanic {
			return &c.paths[i]
		}
	}
	return nil
}

func (c *opsCell) admitted() bool { return c.ok && !c.hasError() && c.panicPath() == nil }

func (c *opsCell) normal() []opsPath {
	var out []opsPath
	for _, p := range c.paths {
		if p.out != cPanic {
			out = append(out, p)
		}
	}
	return out
}

// ---- compiler: operator -> emitted sequence

func (m *opsModel) extractCompiler() {
	node := m.paramObj(m.cmpEntry, 0)
	aExpr := m.g.exprIfs[1]
	for _, fm := range m.forms {
		for _, op := range fm.aOp.Consts {
			cfg := &opsCfg{g: m.g, recv: m.cmpRecv, maxDepth: 6, trigger: m.trigger,
				nodeDims: map[*types.TypeName]*types.Const{fm.aOp.Type.Obj(): op, m.exprKindA.Type.Obj(): fm.nodeK},
				opndDims: map[*types.TypeName]*types.Const{}}
			paths, ok := m.g.walk(cfg, m.cmpEntry, map[types.Object]opsVal{node: {k: ovNode, nodeT: aExpr.Type()}}, 0, 0)
			fm.lower[op.Name()] = &opsCell{paths: paths, ok: ok, pos: m.cmpEntry.Pos()}
		}
	}
	// pop ordinal -> role from the push order of the plain infix lowering
	if inf := m.form("infix"); inf != nil {
		var orders = map[string]bool{}
		for _, cell := range inf.lower {
			for _, p := range cell.normal() {
				l := opsLower(p)
				if len(l.acq) == 2 && len(l.segs[1]) > 0 {
					continue // jump lowering: the operands never meet on the stack
				}
				var o []string
				for _, r := range l.acq {
					o = append(o, fmt.Sprint(r))
				}
				orders[strings.Join(o, ",")] = true
			}
		}
		var ks []string
		for k := range orders {
			ks = append(ks, k)
		}
		sort.Strings(ks)
		m.popRoleWhy = "compiler pushes the children of a (non-short-circuit) infix node in the order [" + strings.Join(ks, "] / [") + "]"
		if len(ks) == 1 {
			parts := strings.Split(ks[0], ",")
			for i, p := range parts {
				var r int
				fmt.Sscan(p, &r)
				m.popRole[len(parts)-i] = r
			}
		}
	}
}

// lowering of one path: emits before the first child, between the children, after the last child
type opsLowering struct {
	acq  []int
	segs [][]*types.Const // len(acq)+1 segments
	unk  bool             // an emit with unknown opcode
}

func opsLower(p opsPath) opsLowering {
	l := opsLowering{segs: [][]*types.Const{nil}}
	for _, e := range p.ev {
		switch e.k {
		case oeAcquire:
			l.acq = append(l.acq, e.role)
			l.segs = append(l.segs, nil)
		case oeEmit:
			if e.c == nil {
				l.unk = true
			}
			l.segs[len(l.segs)-1] = append(l.segs[len(l.segs)-1], e.c)
		}
	}
	return l
}

func opsSeq(cs []*types.Const) string {
	var s []string
	for _, c := range cs {
		if c == nil {
			s = append(s, "?")
		} else {
			s = append(s, strings.TrimPrefix(c.Name(), "Opcode_"))
		}
	}
	return strings.Join(s, " ")
}

func (l opsLowering) String() string {
	var b []string
	for i, s := range l.segs {
		if len(s) > 0 {
			b = append(b, opsSeq(s))
		}
		if i < len(l.acq) {
			b = append(b, fmt.Sprintf("<child#%d>", l.acq[i]))
		}
	}
	return strings.Join(b, " ")
}

// ---- VM: (opcode x ValueKind) -> paths

func (m *opsModel) vmCell(opc, vk *types.Const) *opsCell {
	key := [2]string{opc.Name(), vk.Name()}
	if c, ok := m.vmMemo[key]; ok {
		return c
	}
	cfg := &opsCfg{g: m.g, recv: m.vmRecv, maxDepth: 6, trigger: m.trigger,
		inlineAlways: func(f *types.Func) bool { return m.popping[f] },
		nodeDims:     map[*types.TypeName]*types.Const{m.opcode.Type.Obj(): opc},
		opndDims:     map[*types.TypeName]*types.Const{m.rvk.Type.Obj(): vk},
		isPop:        func(f *types.Func) bool { return m.pops[f] }}
	var instrT types.Type
	if m.g.instrIf != nil {
		instrT = m.g.instrIf.Type()
	}
	paths, ok := m.g.walk(cfg, m.vmEntry, map[types.Object]opsVal{m.g.info(m.vmEntry).Defs[m.vmParamIdent()]: {k: ovNode, nodeT: instrT}}, 0, 0)
	c := &opsCell{paths: paths, ok: ok, pos: m.vmEntry.Pos()}
	m.vmMemo[key] = c
	return c
}

func (m *opsModel) vmParamIdent() *ast.Ident {
	info := m.g.info(m.vmEntry)
	for _, f := range m.vmEntry.Type.Params.List {
		for _, nm := range f.Names {
			if opsTypeName(info.TypeOf(f.Type)) == m.g.instrIf {
				return nm
			}
		}
	}
	return nil
}

// ---- interpreter: (ValueKind x operator) -> paths

func (m *opsModel) ivkOf(rvkName string) *types.Const {
	for _, k := range m.ivk.Consts {
		if k.Name() == rvkName {
			return k
		}
	}
	return nil
}

func (m *opsModel) extractInterpreter() {
	for _, fm := range m.forms {
		if fm.intFn == nil {
			continue
		}
		node := m.paramObj(fm.intFn, 0)
		for _, rk := range m.rvk.Consts {
			tk := m.vk2tk[rk.Name()]
			ik := m.ivkOf(rk.Name())
			if tk == nil || ik == nil {
				continue
			}
			for _, op := range fm.aOp.Consts {
				cfg := &opsCfg{g: m.g, recv: m.intRecv, maxDepth: 6, trigger: m.trigger, primaryOnly: true,
					nodeDims: map[*types.TypeName]*types.Const{fm.aOp.Type.Obj(): op},
					opndDims: map[*types.TypeName]*types.Const{m.ivk.Type.Obj(): ik, m.typeKind.Type.Obj(): tk}}
				nodeT := fm.aNode.Type()
				if fm.intDisp {
					nodeT = m.g.exprIfs[1].Type()
					cfg.nodeDims[m.exprKindA.Type.Obj()] = fm.nodeK
					cfg.maxDepth++
				}
				paths, ok := m.g.walk(cfg, fm.intFn, map[types.Object]opsVal{node: {k: ovNode, nodeT: nodeT}}, 0, 0)
				fm.interp[[2]string{ik.Name(), op.Name()}] = &opsCell{paths: paths, ok: ok, pos: fm.intFn.Pos()}
			}
		}
	}
}

// ---- queries on cells

func opsEvKey(e opsEvent) string { return e.String() }

// applies: distinct operator applications on the non-panicking paths.
func (c *opsCell) applies(kind opsEvKind) []opsEvent {
	seen := map[string]bool{}
	var out []opsEvent
	for _, p := range c.normal() {
		for _, e := range p.ev {
			if e.k == kind && !seen[opsEvKey(e)] {
				seen[opsEvKey(e)] = true
				out = append(out, e)
			}
		}
	}
	return out
}

// constructed: the kinds of the last value constructed on each normal path,
// restricted to constants of enum type en.
func (c *opsCell) constructed(en *Enum) []*types.Const {
	seen := map[string]bool{}
	var out []*types.Const
	for _, p := range c.normal() {
		var last *types.Const
		for _, e := range p.ev {
			if e.k == oeConstruct && opsTypeName(e.c.Type()) == en.Type.Obj() {
				last = e.c
			}
		}
		if last != nil && !seen[last.Name()] {
			seen[last.Name()] = true
			out = append(out, last)
		}
	}
	return out
}

func (c *opsCell) maxPops() int {
	n := 0
	for _, p := range c.normal() {
		if p.pop > n {
			n = p.pop
		}
	}
	return n
}

// guards: operand-payload decisions after which every normal path leaves
// without applying the operator (zero-divisor / negative-shift tests).
func (c *opsCell) guards(role func(int) int) []string {
	type stat struct{ total, free int }
	st := map[string]*stat{}
	for _, p := range c.normal() {
		applied := p.has(oeApply) || p.has(oeUnary)
		seen := map[string]bool{}
		for _, e := range p.ev {
			if e.k != oeCond {
				continue
			}
			r := e.x.role
			if role != nil {
				r = role(r)
			}
			k := fmt.Sprintf("%s %s %s", opsRoleName(r), e.tok, e.lit.String())
			if seen[k] {
				continue
			}
			seen[k] = true
			if st[k] == nil {
				st[k] = &stat{}
			}
			st[k].total++
			if !applied {
				st[k].free++
			}
		}
	}
	var out []string
	for k, s := range st {
		if s.total > 0 && s.free == s.total {
			out = append(out, k)
		}
	}
	sort.Strings(out)
	return out
}

func opsRoleName(r int) string {
	switch r {
	case 1:
		return "left"
	case 2:
		return "right"
	}
	return fmt.Sprintf("operand#%d", r)
}

// ---- rendering of the tables (evidence)

func (m *opsModel) kindShort(k *types.Const) string {
	s := k.Name()
	for _, suf := range []string{"TypeKind", "ValueKind"} {
		s = strings.TrimSuffix(s, suf)
	}
	return s
}

func (m *opsModel) symOf(k *types.Const) string {
	if s, ok := m.sym[k]; ok {
		return s
	}
	return k.Name()
}

func (m *opsModel) renderTables() string {
	var b strings.Builder
	for _, fm := range m.forms {
		fmt.Fprintf(&b, "analyzer.%s admitted (kind: operators):\n", fm.anaFn.Name.Name)
		for _, tk := range m.typeKind.Consts {
			var ad, pn []string
			for _, op := range fm.pOp.Consts {
				c := fm.admit[[2]string{tk.Name(), op.Name()}]
				if c == nil {
					continue
				}
				if c.admitted() {
					ad = append(ad, m.symOf(op))
				} else if c.panicPath() != nil {
					pn = append(pn, m.symOf(op))
				}
			}
			fmt.Fprintf(&b, "  %-10s %s", m.kindShort(tk), strings.Join(ad, " "))
			if len(pn) > 0 {
				fmt.Fprintf(&b, "   [panics: %s]", strings.Join(pn, " "))
			}
			b.WriteString("\n")
		}
	}
	for _, fm := range m.forms {
		fmt.Fprintf(&b, "compiler lowering of %s operators:\n", fm.name)
		for _, op := range fm.aOp.Consts {
			c := fm.lower[op.Name()]
			seen := map[string]bool{}
			var alts []string
			for _, p := range c.normal() {
				s := opsLower(p).String()
				if !seen[s] {
					seen[s] = true
					alts = append(alts, s)
				}
			}
			fmt.Fprintf(&b, "  %-4s %s\n", m.symOf(op), strings.Join(alts, "  |  "))
		}
	}
	b.WriteString("VM handling (opcode: kinds handled {guards} -> Go application):\n")
	opcs := m.usedOpcodes()
	for _, oc := range opcs {
		var hs []string
		for _, vk := range m.rvk.Consts {
			if m.vk2tk[vk.Name()] == nil {
				continue
			}
			c := m.vmCell(oc, vk)
			if !c.ok || c.panicPath() != nil {
				continue
			}
			s := m.kindShort(vk)
			var ap []string
			for _, e := range c.applies(oeApply) {
				ap = append(ap, e.String())
			}
			for _, e := range c.applies(oeUnary) {
				ap = append(ap, e.String())
			}
			if len(ap) > 0 {
				s += "(" + strings.Join(ap, ", ") + ")"
			}
			if g := c.guards(m.vmRole); len(g) > 0 {
				s += "{" + strings.Join(g, ", ") + "}"
			}
			hs = append(hs, s)
		}
		fmt.Fprintf(&b, "  %-12s %s\n", strings.TrimPrefix(oc.Name(), "Opcode_"), strings.Join(hs, " "))
	}
	for _, fm := range m.forms {
		fmt.Fprintf(&b, "interpreter.%s handling (kind: operators):\n", fm.intFn.Name.Name)
		for _, vk := range m.ivk.Consts {
			var hs []string
			any := false
			for _, op := range fm.aOp.Consts {
				c := fm.interp[[2]string{vk.Name(), op.Name()}]
				if c == nil {
					continue
				}
				any = true
				if !c.ok || c.panicPath() != nil {
					continue
				}
				s := m.symOf(op)
				if g := c.guards(nil); len(g) > 0 {
					s += "{" + strings.Join(g, ", ") + "}"
				}
				hs = append(hs, s)
			}
			if any {
				fmt.Fprintf(&b, "  %-16s %s\n", m.kindShort(vk), strings.Join(hs, " "))
			}
		}
	}
	var vks []string
	for _, vk := range m.rvk.Consts {
		if tk := m.vk2tk[vk.Name()]; tk != nil {
			vks = append(vks, m.kindShort(vk)+"->"+m.kindShort(tk))
		} else {
			vks = append(vks, m.kindShort(vk)+"->(none)")
		}
	}
	fmt.Fprintf(&b, "ValueKind.TypeKind(): %s\n", strings.Join(vks, " "))
	fmt.Fprintf(&b, "operand roles on the VM stack: %s; pop#1=%s pop#2=%s\n", m.popRoleWhy, opsRoleName(m.popRole[1]), opsRoleName(m.popRole[2]))
	return b.String()
}

func (m *opsModel) vmRole(ordinal int) int {
	if r, ok := m.popRole[ordinal]; ok {
		return r
	}
	return 100 + ordinal
}

// usedOpcodes: every opcode occurring in an operator lowering, in enum order.
func (m *opsModel) usedOpcodes() []*types.Const {
	used := map[string]bool{}
	for _, fm := range m.forms {
		for _, c := range fm.lower {
			for _, p := range c.normal() {
				for _, e := range p.ev {
					if e.k == oeEmit && e.c != nil {
						used[e.c.Name()] = true
					}
				}
			}
		}
	}
	var out []*types.Const
	for _, k := range m.opcode.Consts {
		if used[k.Name()] && m.vmCases[k.Name()] {
			out = append(out, k)
		}
	}
	return out
}
