package main

import (
	"fmt"
	"go/ast"
	"go/token"
	"go/types"
	"sort"
	"strings"

	"golang.org/x/tools/go/packages"
)

// R-zero-store: the zero value of a failed lookup is not stored where a later lookup vouches for it.

func init() {
	register(&Rule{ID: "R-zero-store", Floor: 1, Run: ruleR4ZeroStore,
		Doc: "R-found-use admits uses of a looked-up value inside its not-found handler, where the value is knowingly the zero value. One such use launders it: handing the zero value to a function that STORES it in a table (`if !found { error; table.add(name, v) }` — a placeholder entry meant to suppress follow-up errors). From then on every lookup of that table answers found = true for the name, and the readers' found-guard, which R-found-use relies on, vouches for a value that was never found. Enumerated: every guarded lookup (`v, ok := m[k]` / a lookup function of the module) whose value is handed, where the flag is known false, to a store — a call of a module function that writes that parameter into a map / slice field of its receiver, or a direct map store. For each, the readers of the same field are collected (lookup functions whose body reads the field, direct comma-ok reads) with the uses they make of their result where THEIR flag is known true (the use analysis of R-found-use: method call on the value or on one of its fields, handing it to a call, pointer dereference). The store is a violation when the stored type's zero value is hollow — the struct contains, at any depth, an interface, pointer or function field, which is nil in the zero value — and some reader makes such a use: the reader calls a method on a nil component or hands it to a constructor that rejects nil (the analyzer panics on source text: an import of a missing trigger followed by a trigger statement naming it; C05). A zero value without nil-able components (maps, slices, numbers, strings: an empty but complete value) is a harmless placeholder and is discharged with that reason."})
}

type r4zsLookup struct {
	p      *packages.Package
	fd     *ast.FuncDecl
	parent map[ast.Node]ast.Node
	as     *ast.AssignStmt
	v, ok  types.Object
	what   string
	// the table field the lookup reads (nil when unknown)
	fields []*types.Var
}

// r4zsHollow: the zero value of t has a nil component (interface / pointer / func field at any depth of structs).
func r4zsHollow(t types.Type, depth int) (bool, string) {
	if depth > 4 {
		return false, ""
	}
	switch u := t.Underlying().(type) {
	case *types.Interface, *types.Pointer, *types.Signature:
		return true, ""
	case *types.Struct:
		for i := 0; i < u.NumFields(); i++ {
			if h, path := r4zsHollow(u.Field(i).Type(), depth+1); h {
				if path == "" {
					return true, u.Field(i).Name()
				}
				return true, u.Field(i).Name() + "." + path
			}
		}
	}
	return false, ""
}

func ruleR4ZeroStore(c *Ctx) []Obligation {
	e := r2sibEngineOf(c)
	var out []Obligation
	pkgs := append([]*packages.Package(nil), c.All...)
	sort.Slice(pkgs, func(i, j int) bool { return pkgs[i].PkgPath < pkgs[j].PkgPath })
	// fields of receivers read by a lookup function: `self.F[key]`
	fieldsRead := func(fn *types.Func) []*types.Var {
		fd, p := e.decls[fn], e.declPkg[fn]
		if fd == nil || p == nil || fd.Body == nil {
			return nil
		}
		var fs []*types.Var
		ast.Inspect(fd.Body, func(n ast.Node) bool {
			if ix, ok := n.(*ast.IndexExpr); ok {
				if sel, ok := ast.Unparen(ix.X).(*ast.SelectorExpr); ok {
					if fv, ok := p.TypesInfo.Uses[sel.Sel].(*types.Var); ok && fv.IsField() {
						fs = append(fs, fv)
					}
				}
			}
			if rs, ok := n.(*ast.RangeStmt); ok {
				if sel, ok := ast.Unparen(rs.X).(*ast.SelectorExpr); ok {
					if fv, ok := p.TypesInfo.Uses[sel.Sel].(*types.Var); ok && fv.IsField() {
						fs = append(fs, fv)
					}
				}
			}
			return true
		})
		return fs
	}
	// 1. all guarded lookups of the module
	var lookups []*r4zsLookup
	for _, p := range pkgs {
		if !strings.HasPrefix(p.PkgPath, ModPath) {
			continue
		}
		info := p.TypesInfo
		for _, fd := range AllFuncDecls(p) {
			if fd.Body == nil {
				continue
			}
			var parent map[ast.Node]ast.Node
			ast.Inspect(fd.Body, func(n ast.Node) bool {
				as, ok := n.(*ast.AssignStmt)
				if !ok || len(as.Lhs) < 2 || len(as.Rhs) != 1 {
					return true
				}
				lk := &r4zsLookup{p: p, fd: fd, as: as}
				switch r := ast.Unparen(as.Rhs[0]).(type) {
				case *ast.IndexExpr:
					if tv, ok := info.Types[r.X]; ok && tv.Type != nil {
						if _, isMap := tv.Type.Underlying().(*types.Map); isMap {
							lk.what = exprStr(r.X) + "[…]"
							if sel, ok := ast.Unparen(r.X).(*ast.SelectorExpr); ok {
								if fv, ok := info.Uses[sel.Sel].(*types.Var); ok && fv.IsField() {
									lk.fields = []*types.Var{fv}
								}
							}
						}
					}
				case *ast.CallExpr:
					callee := CalleeOf(info, r)
					if callee == nil || callee.Pkg() == nil || !strings.HasPrefix(callee.Pkg().Path(), ModPath) || !r4fuIsLookup(c, callee, 0) {
						return true
					}
					lk.what = r2sibQualName(callee) + "(…)"
					lk.fields = fieldsRead(callee)
				}
				if lk.what == "" {
					return true
				}
				vid, ok1 := as.Lhs[0].(*ast.Ident)
				oid, ok2 := as.Lhs[len(as.Lhs)-1].(*ast.Ident)
				if !ok1 || !ok2 || vid.Name == "_" || oid.Name == "_" {
					return true
				}
				objOf := func(id *ast.Ident) types.Object {
					if o := info.Defs[id]; o != nil {
						return o
					}
					return info.Uses[id]
				}
				lk.v, lk.ok = objOf(vid), objOf(oid)
				if lk.v == nil || lk.ok == nil {
					return true
				}
				if parent == nil {
					parent = map[ast.Node]ast.Node{}
					var stack []ast.Node
					ast.Inspect(fd.Body, func(m ast.Node) bool {
						if m == nil {
							stack = stack[:len(stack)-1]
							return true
						}
						if len(stack) > 0 {
							parent[m] = stack[len(stack)-1]
						}
						stack = append(stack, m)
						return true
					})
				}
				lk.parent = parent
				lookups = append(lookups, lk)
				return true
			})
		}
	}
	// the uses of a lookup's value in the region of its definition
	usesOf := func(lk *r4zsLookup, visit func(id *ast.Ident)) {
		info := lk.p.TypesInfo
		nextDef := token.Pos(lk.fd.Body.End())
		ast.Inspect(lk.fd.Body, func(m ast.Node) bool {
			if a2, ok := m.(*ast.AssignStmt); ok && a2.Pos() > lk.as.Pos() {
				for _, l := range a2.Lhs {
					if id, ok := l.(*ast.Ident); ok {
						o := info.Defs[id]
						if o == nil {
							o = info.Uses[id]
						}
						if o == lk.ok && a2.Pos() < nextDef {
							nextDef = a2.Pos()
						}
						if o == lk.v && a2.Pos() < nextDef && len(a2.Lhs) > 1 {
							nextDef = a2.Pos()
						}
					}
				}
			}
			return true
		})
		ast.Inspect(lk.fd.Body, func(m ast.Node) bool {
			if id, ok := m.(*ast.Ident); ok && info.Uses[id] == lk.v && id.Pos() > lk.as.End() && id.Pos() < nextDef {
				visit(id)
			}
			return true
		})
	}
	// 2. stores of the zero value
	nKey := map[string]int{}
	for _, lk := range lookups {
		info := lk.p.TypesInfo
		usesOf(lk, func(id *ast.Ident) {
			if !r4fuGuarded(info, lk.parent, lk.fd.Body, lk.as, id, lk.ok, -1) {
				return
			}
			// handed to a call as an argument (v, &v, *v) or stored directly
			var arg ast.Node = id
			for {
				switch pn := lk.parent[arg].(type) {
				case *ast.ParenExpr:
					arg = pn
					continue
				case *ast.UnaryExpr:
					if pn.Op == token.AND {
						arg = pn
						continue
					}
				case *ast.StarExpr:
					arg = pn
					continue
				}
				break
			}
			var field *types.Var
			storeName := ""
			switch pn := lk.parent[arg].(type) {
			case *ast.CallExpr:
				idx := -1
				for i, a := range pn.Args {
					if ast.Node(a) == arg {
						idx = i
					}
				}
				callee := CalleeOf(info, pn)
				if idx < 0 || callee == nil || e.decls[callee] == nil {
					return
				}
				sfd, sp := e.decls[callee], e.declPkg[callee]
				// the parameter that receives the value
				var param types.Object
				i := 0
				for _, fl := range sfd.Type.Params.List {
					for _, n := range fl.Names {
						if i == idx {
							param = sp.TypesInfo.Defs[n]
						}
						i++
					}
				}
				if param == nil || sfd.Body == nil {
					return
				}
				mentions := func(x ast.Expr) bool {
					hit := false
					ast.Inspect(x, func(m ast.Node) bool {
						if mid, ok := m.(*ast.Ident); ok && sp.TypesInfo.Uses[mid] == param {
							hit = true
						}
						return !hit
					})
					return hit
				}
				ast.Inspect(sfd.Body, func(m ast.Node) bool {
					as, ok := m.(*ast.AssignStmt)
					if !ok || len(as.Lhs) != len(as.Rhs) {
						return true
					}
					for k, l := range as.Lhs {
						if !mentions(as.Rhs[k]) {
							continue
						}
						l = ast.Unparen(l)
						if ix, ok := l.(*ast.IndexExpr); ok {
							l = ast.Unparen(ix.X)
						}
						if sel, ok := l.(*ast.SelectorExpr); ok {
							if fv, ok := sp.TypesInfo.Uses[sel.Sel].(*types.Var); ok && fv.IsField() {
								switch fv.Type().Underlying().(type) {
								case *types.Map, *types.Slice:
									field = fv
								}
							}
						}
					}
					return true
				})
				storeName = r2sibQualName(callee)
			case *ast.AssignStmt:
				for k, r := range pn.Rhs {
					if ast.Node(r) == arg && k < len(pn.Lhs) {
						if ix, ok := ast.Unparen(pn.Lhs[k]).(*ast.IndexExpr); ok {
							if sel, ok := ast.Unparen(ix.X).(*ast.SelectorExpr); ok {
								if fv, ok := info.Uses[sel.Sel].(*types.Var); ok && fv.IsField() {
									field = fv
									storeName = "a store into " + exprStr(ix.X)
								}
							}
						}
					}
				}
			}
			if field == nil {
				return
			}
			key := fmt.Sprintf("%s.%s|%s of the failed %s is stored by %s into %s", relPkg(lk.p.PkgPath), FuncName(lk.fd), lk.v.Name(), lk.what, storeName, field.Name())
			nKey[key]++
			if k := nKey[key]; k > 1 {
				key = fmt.Sprintf("%s #%d", key, k)
			}
			ob := Obligation{Key: key, Pos: c.Pos(id.Pos()), Nontrivial: true}
			tname := types.TypeString(lk.v.Type(), func(p *types.Package) string { return p.Name() })
			hollow, path := r4zsHollow(lk.v.Type(), 0)
			if !hollow {
				ob.Detail = fmt.Sprintf("the zero value of %s has no interface, pointer or function component: an empty but complete value, a harmless placeholder for the readers of %s", tname, field.Name())
				out = append(out, ob)
				return
			}
			// 3. readers of the table and what they do with a found value
			var dangerous []string
			nReaders := 0
			for _, rd := range lookups {
				reads := false
				for _, fv := range rd.fields {
					reads = reads || fv == field
				}
				if !reads {
					continue
				}
				nReaders++
				rinfo := rd.p.TypesInfo
				usesOf(rd, func(uid *ast.Ident) {
					how := r4fuNeedsValue(rinfo, rd.parent, uid, rd.v.Type())
					if how == "" || !r4fuGuarded(rinfo, rd.parent, rd.fd.Body, rd.as, uid, rd.ok, 1) {
						return
					}
					if rd == lk {
						return
					}
					dangerous = append(dangerous, fmt.Sprintf("%s.%s: %s %s (%s)", relPkg(rd.p.PkgPath), FuncName(rd.fd), how, r4fuContext(rd.parent, uid), c.Pos(uid.Pos())))
				})
			}
			sort.Strings(dangerous)
			where := path
			if where != "" {
				where = " (" + where + " is nil)"
			}
			if len(dangerous) > 0 {
				n := len(dangerous)
				if n > 3 {
					dangerous = append(dangerous[:3], fmt.Sprintf("… (%d more)", n-3))
				}
				ob.Status = Violated
				ob.Detail = fmt.Sprintf("the lookup failed, and its zero %s%s is registered in %s: every later lookup of that name answers found = true, and the readers then use the value as a real one — %s. The found-guard of the readers vouches for a value that was never found (a nil component is dereferenced / handed to a constructor that rejects nil)", tname, where, field.Name(), strings.Join(dangerous, "; "))
			} else {
				ob.Detail = fmt.Sprintf("the zero %s%s is registered in %s, but none of the %d lookup sites of that table uses a found value in a way that needs a real one", tname, where, field.Name(), nReaders)
			}
			out = append(out, ob)
		})
	}
	sort.SliceStable(out, func(i, j int) bool { return out[i].Key < out[j].Key })
	return out
}
