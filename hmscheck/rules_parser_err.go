package main

import (
	"fmt"
	"go/ast"
	"go/token"
	"go/types"
	"sort"
	"strings"

	"golang.org/x/tools/go/packages"
)

func init() {
	register(&Rule{ID: "R-err-discipline", Floor: 250, Run: ruleErrDiscipline,
		Doc: "every call, in lexer, parser, analyzer and the top-level homescript package, of a function that yields a *errors.Error (alone or as one of several results) has that result (i) returned, (ii) consumed by the enclosing expression (dereferenced into an error list, passed on), or (iii) bound to a variable which on every path is nil-tested or used before it is overwritten or the function ends, and whose non-nil branch returns it, appends it to an error list or otherwise uses it. A dropped *errors.Error (call statement, `_`, never tested, tested but ignored) lets lexing/parsing continue on a cursor that did not move or on a half-built node — the input is accepted wrongly or the parser spins (C05). go vet / errcheck do not see this type: it is not the `error` interface."})
}

type pxErrSite struct {
	key     string
	pos     token.Pos
	call    *ast.CallExpr
	callee  *types.Func
	class   string
	viol    []string
	needVar bool
}

func ruleErrDiscipline(c *Ctx) []Obligation {
	r := pxDiscover(c)
	var obs []Obligation
	perPkg := map[string]int{}
	for _, rel := range []string{"homescript/lexer", "homescript/parser", "homescript/analyzer", "homescript"} {
		if !c.HasPkg(rel) {
			obs = append(obs, Obligation{Key: "package " + rel, Status: Undecided, Detail: "package not loaded"})
			continue
		}
		pk := c.Pkg(rel)
		fds := AllFuncDecls(pk)
		sort.Slice(fds, func(i, j int) bool { return pxDeclKey(pk, fds[i]) < pxDeclKey(pk, fds[j]) })
		for _, fd := range fds {
			sites, undecided := r.errSitesOf(pk, pxDeclKey(pk, fd), fd.Body)
			// function literals are walked as bodies of their own
			nlit := 0
			ast.Inspect(fd.Body, func(n ast.Node) bool {
				if fl, ok := n.(*ast.FuncLit); ok {
					nlit++
					s2, u2 := r.errSitesOf(pk, fmt.Sprintf("%s$lit%d", pxDeclKey(pk, fd), nlit), fl.Body)
					sites = append(sites, s2...)
					undecided = append(undecided, u2...)
				}
				return true
			})
			for _, u := range undecided {
				obs = append(obs, Obligation{Key: pxDeclKey(pk, fd) + "|" + u, Pos: c.Pos(fd.Pos()), Status: Undecided, Detail: u})
			}
			for _, s := range sites {
				perPkg[rel]++
				o := Obligation{Key: s.key, Pos: c.Pos(s.pos), Nontrivial: s.needVar}
				if len(s.viol) > 0 {
					o.Status, o.Detail = Violated, strings.Join(pxDedupe(s.viol), " || ")
				} else {
					o.Status, o.Detail = Discharged, s.class
				}
				obs = append(obs, o)
			}
		}
	}
	var parts []string
	for k, v := range perPkg {
		parts = append(parts, fmt.Sprintf("%s: %d", k, v))
	}
	sort.Strings(parts)
	obs = append(obs, Obligation{Key: "summary|call sites yielding *errors.Error", Pos: "-", Status: Info, Detail: strings.Join(parts, ", ")})
	return obs
}

func pxDedupe(in []string) []string {
	seen := map[string]bool{}
	var out []string
	for _, s := range in {
		if !seen[s] {
			seen[s] = true
			out = append(out, s)
		}
	}
	if len(out) > 3 {
		out = append(out[:3], fmt.Sprintf("… %d more path(s)", len(out)-3))
	}
	return out
}

// errSitesOf enumerates and decides the *errors.Error-yielding calls that are
// lexically in body (not inside nested function literals).
func (r *pxRoles) errSitesOf(pk *packages.Package, fkey string, body *ast.BlockStmt) (sites []*pxErrSite, undecided []string) {
	info := pk.TypesInfo
	body = pxDesugar(body)
	// parents
	parent := map[ast.Node]ast.Node{}
	var stack []ast.Node
	ast.Inspect(body, func(n ast.Node) bool {
		if n == nil {
			stack = stack[:len(stack)-1]
			return true
		}
		if _, ok := n.(*ast.FuncLit); ok {
			return false
		}
		if len(stack) > 0 {
			if _, seen := parent[n]; !seen {
				parent[n] = stack[len(stack)-1]
			}
		}
		stack = append(stack, n)
		return true
	})
	ordinal := map[string]int{}
	byCall := map[*ast.CallExpr]*pxErrSite{}
	seenCall := map[*ast.CallExpr]bool{}
	var order []*ast.CallExpr
	ast.Inspect(body, func(n ast.Node) bool {
		if _, ok := n.(*ast.FuncLit); ok {
			return false
		}
		call, ok := n.(*ast.CallExpr)
		if !ok || seenCall[call] {
			return true
		}
		seenCall[call] = true
		var sig *types.Signature
		name := ""
		if fn := CalleeOf(info, call); fn != nil {
			sig, _ = fn.Type().(*types.Signature)
			name = fn.Name()
		} else if tv, ok := info.Types[call.Fun]; ok && !tv.IsType() {
			sig, _ = tv.Type.Underlying().(*types.Signature)
			name = exprStr(call.Fun)
		}
		if sig == nil || r.errIndex(sig) < 0 {
			return true
		}
		ordinal[name]++
		s := &pxErrSite{call: call, pos: call.Pos(), callee: CalleeOf(info, call), key: fmt.Sprintf("%s|call %s#%d", fkey, name, ordinal[name])}
		byCall[call] = s
		order = append(order, call)
		return true
	})
	if len(order) == 0 {
		return nil, nil
	}
	// syntactic classification
	varSites := map[*ast.CallExpr]types.Object{}
	for _, call := range order {
		s := byCall[call]
		var fnSig *types.Signature
		if s.callee != nil {
			fnSig = s.callee.Type().(*types.Signature)
		} else {
			fnSig = info.Types[call.Fun].Type.Underlying().(*types.Signature)
		}
		idx := r.errIndex(fnSig)
		p := parent[call]
		for {
			if pe, ok := p.(*ast.ParenExpr); ok {
				p = parent[pe]
				continue
			}
			break
		}
		switch x := p.(type) {
		case *ast.ExprStmt:
			s.viol = append(s.viol, "the call is a statement: its *errors.Error result is discarded")
		case *ast.GoStmt, *ast.DeferStmt:
			s.viol = append(s.viol, "the call is started with go/defer: its *errors.Error result is discarded")
		case *ast.ReturnStmt:
			s.class = "returned to the caller"
		case *ast.AssignStmt:
			var lhs ast.Expr
			if len(x.Rhs) == 1 && len(x.Lhs) == fnSig.Results().Len() {
				lhs = x.Lhs[idx]
			} else if len(x.Lhs) == len(x.Rhs) {
				for i, rh := range x.Rhs {
					if ast.Unparen(rh) == ast.Expr(call) {
						lhs = x.Lhs[i]
					}
				}
			}
			r.classifyBinding(info, s, lhs, varSites)
		case *ast.ValueSpec:
			var lhs ast.Expr
			if len(x.Values) == 1 && len(x.Names) == fnSig.Results().Len() {
				lhs = x.Names[idx]
			} else if len(x.Names) == len(x.Values) {
				for i, v := range x.Values {
					if ast.Unparen(v) == ast.Expr(call) {
						lhs = x.Names[i]
					}
				}
			}
			r.classifyBinding(info, s, lhs, varSites)
		default:
			s.class = fmt.Sprintf("value consumed by the enclosing expression (%T)", p)
			s.class = strings.Replace(s.class, "*ast.", "", 1)
		}
	}
	if len(varSites) == 0 {
		for _, c := range order {
			sites = append(sites, byCall[c])
		}
		return sites, nil
	}
	// path analysis for variable-bound results
	lastSite := token.NoPos
	for c := range varSites {
		if c.End() > lastSite {
			lastSite = c.End()
		}
	}
	type vstate struct {
		site   *pxErrSite
		phase  int // 0 untested, 1 known non-nil & not yet used
		assign token.Pos
	}
	type st struct {
		m   map[types.Object]vstate
		dec []string
	}
	clone := func(s *st) *st {
		n := &st{m: make(map[types.Object]vstate, len(s.m)), dec: append([]string(nil), s.dec...)}
		for k, v := range s.m {
			n.m[k] = v
		}
		return n
	}
	objOf := func(e ast.Expr) types.Object {
		id, ok := ast.Unparen(e).(*ast.Ident)
		if !ok {
			return nil
		}
		if o := info.Defs[id]; o != nil {
			return o
		}
		return info.Uses[id]
	}
	isNilIdent := func(e ast.Expr) bool {
		id, ok := ast.Unparen(e).(*ast.Ident)
		if !ok {
			return false
		}
		_, isN := info.Uses[id].(*types.Nil)
		return isN
	}
	// uses of tracked variables inside n (excluding the identifiers listed in
	// skip); a nil comparison that is a branch condition is handled by OnCond
	// before this is consulted, elsewhere (stored in a bool) it counts as a use
	usesIn := func(s *st, n ast.Node, skip map[*ast.Ident]bool) []types.Object {
		var out []types.Object
		if n == nil {
			return nil
		}
		ast.Inspect(n, func(m ast.Node) bool {
			id, ok := m.(*ast.Ident)
			if !ok || skip[id] {
				return true
			}
			if o := info.Uses[id]; o != nil {
				if _, tracked := s.m[o]; tracked {
					out = append(out, o)
				}
			}
			return true
		})
		return out
	}
	pathStr := func(s *st) string {
		d := s.dec
		if len(d) > 6 {
			d = append([]string{"…"}, d[len(d)-6:]...)
		}
		return strings.Join(d, ", ")
	}
	flagEnd := func(s *st, at token.Pos, how string) {
		for o, v := range s.m {
			if v.phase == 0 {
				v.site.viol = append(v.site.viol, fmt.Sprintf("`%s` is never tested or used before %s at %s (path [%s])", o.Name(), how, r.c.Pos(at), pathStr(s)))
			} else {
				v.site.viol = append(v.site.viol, fmt.Sprintf("`%s` is found non-nil but then neither returned, reported nor used before %s at %s (path [%s])", o.Name(), how, r.c.Pos(at), pathStr(s)))
			}
		}
	}
	overwrite := func(s *st, o types.Object, at token.Pos) {
		if v, ok := s.m[o]; ok {
			if v.phase == 0 {
				v.site.viol = append(v.site.viol, fmt.Sprintf("`%s` is overwritten at %s before it was tested (path [%s])", o.Name(), r.c.Pos(at), pathStr(s)))
			} else {
				v.site.viol = append(v.site.viol, fmt.Sprintf("`%s` is found non-nil and then overwritten at %s without being returned or reported (path [%s])", o.Name(), r.c.Pos(at), pathStr(s)))
			}
			delete(s.m, o)
		}
	}
	var w *Walker[*st]
	w = &Walker[*st]{
		Clone:    clone,
		MaxPaths: 40000,
		IsPanic:  func(s ast.Stmt) bool { return IsPanicCall(info, s) },
		OnCond: func(s *st, cond ast.Expr, taken bool) (*st, bool) {
			if len(s.m) == 0 && cond.Pos() > lastSite {
				return s, false
			}
			cond = ast.Unparen(cond)
			if b, ok := cond.(*ast.BinaryExpr); ok && (b.Op == token.EQL || b.Op == token.NEQ) {
				x, y := b.X, b.Y
				if isNilIdent(x) {
					x, y = y, x
				}
				if isNilIdent(y) {
					if o := objOf(x); o != nil {
						if v, ok := s.m[o]; ok {
							nonNil := (b.Op == token.NEQ) == taken
							if nonNil {
								v.phase = 1
								s.m[o] = v
							} else {
								if v.phase == 1 {
									return s, false // contradicts an earlier test
								}
								delete(s.m, o)
							}
							s.dec = append(s.dec, fmt.Sprintf("%s:%v", exprStr(cond), taken))
							return s, true
						}
					}
				}
			}
			for _, o := range usesIn(s, cond, nil) {
				delete(s.m, o)
			}
			s.dec = append(s.dec, fmt.Sprintf("%s:%v", exprStr(cond), taken))
			return s, true
		},
		OnCase: func(s *st, sw *ast.SwitchStmt, vals, others []ast.Expr) (*st, bool) {
			if len(s.m) == 0 && sw.Pos() > lastSite {
				return s, false
			}
			for _, o := range usesIn(s, sw.Tag, nil) {
				delete(s.m, o)
			}
			if vals == nil {
				s.dec = append(s.dec, "switch "+exprStr(sw.Tag)+": default")
			} else {
				s.dec = append(s.dec, "switch "+exprStr(sw.Tag)+": case "+exprStr(vals[0]))
			}
			return s, true
		},
		OnTypeCase: func(s *st, sw *ast.TypeSwitchStmt, cc *ast.CaseClause) (*st, bool) {
			if len(s.m) == 0 && sw.Pos() > lastSite {
				return s, false
			}
			return s, true
		},
		OnRange: func(s *st, rg *ast.RangeStmt) (*st, bool) {
			for _, o := range usesIn(s, rg.X, nil) {
				delete(s.m, o)
			}
			return s, true
		},
		OnDefer: func(s *st, d *ast.DeferStmt) (*st, bool) {
			for _, o := range usesIn(s, d.Call, nil) {
				delete(s.m, o)
			}
			return s, true
		},
		OnStmt: func(s *st, x ast.Stmt) (*st, bool) {
			if len(s.m) == 0 && x.Pos() > lastSite {
				return s, false
			}
			skip := map[*ast.Ident]bool{}
			var defs []ast.Expr
			switch a := x.(type) {
			case *ast.AssignStmt:
				defs = a.Lhs
				for _, l := range a.Lhs {
					if id, ok := l.(*ast.Ident); ok {
						skip[id] = true
					}
				}
				for _, rh := range a.Rhs {
					for _, o := range usesIn(s, rh, nil) {
						delete(s.m, o)
					}
				}
				// uses inside non-identifier left-hand sides (x.f[err] = …): ignore
			case *ast.DeclStmt:
				if gd, ok := a.Decl.(*ast.GenDecl); ok {
					for _, sp := range gd.Specs {
						if vs, ok := sp.(*ast.ValueSpec); ok {
							for _, v := range vs.Values {
								for _, o := range usesIn(s, v, nil) {
									delete(s.m, o)
								}
							}
							for _, n := range vs.Names {
								defs = append(defs, n)
							}
						}
					}
				}
			case *ast.ReturnStmt:
				if len(a.Results) == 0 {
					// bare return: named results are returned
					for o := range s.m {
						if v, ok := o.(*types.Var); ok && pxIsNamedResult(info, body, v) {
							delete(s.m, o)
						}
					}
				}
				for _, o := range usesIn(s, a, nil) {
					delete(s.m, o)
				}
			default:
				for _, o := range usesIn(s, x, nil) {
					delete(s.m, o)
				}
			}
			// (re)definitions
			for _, l := range defs {
				if o := objOf(l); o != nil {
					overwrite(s, o, l.Pos())
				}
			}
			// new sites
			for call, o := range varSites {
				if call.Pos() >= x.Pos() && call.End() <= x.End() {
					s.m[o] = vstate{site: byCall[call], assign: call.Pos()}
				}
			}
			return s, true
		},
		Exit: func(s *st, oc outcome) {
			if oc.kind == cPanic {
				return
			}
			how := "the function returns"
			at := body.End()
			if oc.ret != nil {
				at = oc.ret.Pos()
			} else {
				how = "the function ends"
			}
			flagEnd(s, at, how)
		},
	}
	w.Run(body, &st{m: map[types.Object]vstate{}})
	if w.Overflow {
		undecided = append(undecided, "path enumeration overflow while tracking *errors.Error variables")
	}
	if len(w.Unsupported) > 0 {
		undecided = append(undecided, "unsupported control flow (goto/select) while tracking *errors.Error variables")
	}
	for _, c := range order {
		s := byCall[c]
		if s.needVar && len(s.viol) == 0 {
			s.class = "bound to `" + varSites[c].Name() + "`: on every path nil-tested with the non-nil branch returning/reporting it, or returned/used directly"
		}
		sites = append(sites, s)
	}
	return sites, undecided
}

func (r *pxRoles) classifyBinding(info *types.Info, s *pxErrSite, lhs ast.Expr, varSites map[*ast.CallExpr]types.Object) {
	if lhs == nil {
		s.viol = append(s.viol, "cannot relate the call's *errors.Error result to a left-hand side")
		return
	}
	id, ok := ast.Unparen(lhs).(*ast.Ident)
	if !ok {
		s.class = "stored in " + exprStr(lhs)
		return
	}
	if id.Name == "_" {
		s.viol = append(s.viol, "the *errors.Error result is assigned to `_`")
		return
	}
	o := info.Defs[id]
	if o == nil {
		o = info.Uses[id]
	}
	if o == nil {
		s.viol = append(s.viol, "unresolved left-hand side "+id.Name)
		return
	}
	if v, ok := o.(*types.Var); ok && v.Parent() == v.Pkg().Scope() {
		s.class = "stored in package variable " + id.Name
		return
	}
	s.needVar = true
	varSites[s.call] = o
}

// pxIsNamedResult reports whether v is a named result of the function whose
// body is given (bare returns hand it to the caller).
func pxIsNamedResult(info *types.Info, body *ast.BlockStmt, v *types.Var) bool {
	// a named result's scope is the function scope that directly encloses the body scope
	sc := info.Scopes[body]
	_ = sc
	return v.Pos() < body.Pos() && !v.IsField()
}
