package main

import (
	"fmt"
	"go/ast"
	"go/token"
	"go/types"
	"strings"

	"golang.org/x/tools/go/ssa"
)

func init() {
	register(&Rule{ID: "R-cast-boundary", Floor: 9, Run: ruleCastBoundary,
		Doc: "the dynamic→static boundary of C12: (a) every store into AnalyzedLetStatement.NeedsRuntimeTypeValidation inside the analyzer is the unmodified result of the recursive any-check Analyzer.CheckAny applied to the initializer's type (a shallow kind test lets `?any`, `[any]`, `{f: any}` initializers through unchecked); (b) the compiler's let lowering emits the cast instruction exactly under `if node.NeedsRuntimeTypeValidation`; (c) the interpreter's let binds the variable on every non-error path, through DeepCast iff the flag is set; (d) SpawnSync/SpawnAsync DeepCast every argument against its declared parameter type before the core is spawned and stop on failure; (e) HandleTermination DeepCasts the returned value to the declared return type for every type kind that carries a value; (f) in the VM a DeepCast failure becomes the catchable throw interrupt."})
}

func ruleCastBoundary(c *Ctx) []Obligation {
	var out []Obligation
	out = append(out, actxCastLetFlag(c)...)
	out = append(out, actxCastCompilerLet(c)...)
	out = append(out, actxCastInterpLet(c)...)
	out = append(out, actxCastSpawn(c)...)
	out = append(out, actxCastTermination(c)...)
	out = append(out, actxCastVMCatchable(c)...)
	return out
}

// (a) ------------------------------------------------------------------------

func actxValueIsCallTo(v ssa.Value, target *ssa.Function, seen map[ssa.Value]bool) (bool, string) {
	if seen[v] {
		return true, ""
	}
	seen[v] = true
	switch x := v.(type) {
	case *ssa.Call:
		if x.Common().StaticCallee() == target {
			return true, ""
		}
		return false, "the result of a call to " + x.Common().Value.Name()
	case *ssa.Phi:
		for _, e := range x.Edges {
			if ok, why := actxValueIsCallTo(e, target, seen); !ok {
				return false, why
			}
		}
		return true, ""
	case *ssa.UnOp:
		if x.Op == token.MUL {
			if al, ok := x.X.(*ssa.Alloc); ok {
				any := false
				for _, ref := range *al.Referrers() {
					if st, ok := ref.(*ssa.Store); ok && st.Addr == al {
						any = true
						if ok, why := actxValueIsCallTo(st.Val, target, seen); !ok {
							return false, why
						}
					}
				}
				return any, "a local that is never assigned"
			}
		}
		return false, "computed by " + x.String()
	case *ssa.Const:
		return false, "the constant " + x.String()
	case *ssa.BinOp:
		return false, "computed by the comparison/operation `" + x.String() + "` (" + x.X.Name() + " " + x.Op.String() + " " + x.Y.Name() + ")"
	}
	return false, fmt.Sprintf("computed by %T %s", v, v.String())
}

func actxCastLetFlag(c *Ctx) []Obligation {
	var out []Obligation
	sp := c.SSAPkg("homescript/analyzer")
	var checkAny *ssa.Function
	if t := sp.Type("Analyzer"); t != nil {
		checkAny = c.Prog.LookupMethod(types.NewPointer(t.Type()), sp.Pkg, "CheckAny")
	}
	if checkAny == nil {
		fatalf("anchor unresolved: analyzer.(*Analyzer).CheckAny")
	}
	// CheckAny must be the deep (recursive) check
	rec := false
	for _, b := range checkAny.Blocks {
		for _, ins := range b.Instrs {
			if ci, ok := ins.(ssa.CallInstruction); ok && ci.Common().StaticCallee() == checkAny {
				rec = true
			}
		}
	}
	ob := Obligation{Key: "homescript/analyzer.Analyzer.CheckAny|recursive", Pos: c.Pos(checkAny.Pos()), Status: Discharged, Detail: "CheckAny recurses into component types (list, object, option, function)"}
	if !rec {
		ob.Status, ob.Detail = Violated, "CheckAny no longer recurses into component types: the any-check is shallow"
	}
	out = append(out, ob)
	n := 0
	for _, mem := range sp.Members {
		_ = mem
	}
	var fns []*ssa.Function
	for fn := range ssaFuncsOf(c, sp) {
		fns = append(fns, fn)
	}
	for _, fn := range fns {
		for _, b := range fn.Blocks {
			for _, ins := range b.Instrs {
				st, ok := ins.(*ssa.Store)
				if !ok {
					continue
				}
				fa, ok := st.Addr.(*ssa.FieldAddr)
				if !ok {
					continue
				}
				pt, ok := fa.X.Type().Underlying().(*types.Pointer)
				if !ok {
					continue
				}
				named, ok := pt.Elem().(*types.Named)
				if !ok || named.Obj().Name() != "AnalyzedLetStatement" {
					continue
				}
				stt := named.Underlying().(*types.Struct)
				if stt.Field(fa.Field).Name() != "NeedsRuntimeTypeValidation" {
					continue
				}
				n++
				key := fmt.Sprintf("homescript/analyzer.%s|NeedsRuntimeTypeValidation", fn.Name())
				okv, why := actxValueIsCallTo(st.Val, checkAny, map[ssa.Value]bool{})
				o := Obligation{Key: key, Pos: c.Pos(st.Pos()), Nontrivial: true}
				if p := st.Pos(); !p.IsValid() {
					o.Pos = c.Pos(fn.Pos())
				}
				if okv {
					o.Status, o.Detail = Discharged, "the stored value is the result of the recursive CheckAny on every path"
				} else {
					o.Status, o.Detail = Violated, "the value stored into NeedsRuntimeTypeValidation is not the result of the recursive any-check CheckAny: it is "+why+"; an initializer whose type only *contains* any (?any, [any], {f: any}) is then bound under the annotated type without a runtime cast"
				}
				out = append(out, o)
			}
		}
	}
	if n == 0 {
		out = append(out, Obligation{Key: "homescript/analyzer|NeedsRuntimeTypeValidation", Status: Undecided, Detail: "no store into AnalyzedLetStatement.NeedsRuntimeTypeValidation found in package analyzer"})
	}
	return out
}

func ssaFuncsOf(c *Ctx, sp *ssa.Package) map[*ssa.Function]bool {
	out := map[*ssa.Function]bool{}
	var add func(f *ssa.Function)
	add = func(f *ssa.Function) {
		if f == nil || out[f] || f.Blocks == nil {
			return
		}
		out[f] = true
		for _, a := range f.AnonFuncs {
			add(a)
		}
	}
	for _, mem := range sp.Members {
		switch m := mem.(type) {
		case *ssa.Function:
			add(m)
		case *ssa.Type:
			for _, t := range []types.Type{m.Type(), types.NewPointer(m.Type())} {
				ms := c.Prog.MethodSets.MethodSet(t)
				for i := 0; i < ms.Len(); i++ {
					if f := c.Prog.MethodValue(ms.At(i)); f != nil && f.Pkg == sp {
						add(f)
					}
				}
			}
		}
	}
	return out
}

// helpers ----------------------------------------------------------------------

// actxFuncTaking finds the method of recv in rel whose parameter list
// contains a value of the named tree type.
func actxFuncsTaking(c *Ctx, rel, recv, paramType string) []*ast.FuncDecl {
	p := c.Pkg(rel)
	var out []*ast.FuncDecl
	for _, fd := range AllFuncDecls(p) {
		if fd.Recv == nil || recvTypeName(fd.Recv.List[0].Type) != recv {
			continue
		}
		for _, f := range fd.Type.Params.List {
			if n, ok := p.TypesInfo.TypeOf(f.Type).(*types.Named); ok && n.Obj().Name() == paramType {
				out = append(out, fd)
			}
		}
	}
	return out
}

func actxIsFlagRead(e ast.Expr) bool {
	sel, ok := ast.Unparen(e).(*ast.SelectorExpr)
	return ok && sel.Sel.Name == "NeedsRuntimeTypeValidation"
}

func actxCallsNamed(n ast.Node, info *types.Info, name string) []*ast.CallExpr {
	var out []*ast.CallExpr
	if n == nil {
		return nil
	}
	ast.Inspect(n, func(x ast.Node) bool {
		if ce, ok := x.(*ast.CallExpr); ok {
			if f := CalleeOf(info, ce); f != nil && f.Name() == name {
				out = append(out, ce)
			}
		}
		return true
	})
	return out
}

// (b) ------------------------------------------------------------------------

func actxCastCompilerLet(c *Ctx) []Obligation {
	p := c.Pkg("homescript/compiler")
	info := p.TypesInfo
	fds := actxFuncsTaking(c, "homescript/compiler", "Compiler", "AnalyzedLetStatement")
	if len(fds) == 0 {
		return []Obligation{{Key: "homescript/compiler|let lowering", Status: Undecided, Detail: "no Compiler method takes an AnalyzedLetStatement"}}
	}
	var out []Obligation
	for _, fd := range fds {
		key := "homescript/compiler." + FuncName(fd) + "|cast iff NeedsRuntimeTypeValidation"
		casts := actxCallsNamed(fd.Body, info, "newCastInstruction")
		var guarded, unguarded int
		var bad []string
		ast.Inspect(fd.Body, func(n ast.Node) bool {
			ifs, ok := n.(*ast.IfStmt)
			if !ok {
				return true
			}
			if actxIsFlagRead(ifs.Cond) {
				in := actxCallsNamed(ifs.Body, info, "newCastInstruction")
				guarded += len(in)
				if len(in) == 0 {
					bad = append(bad, "the branch taken when the flag is set emits no cast instruction")
				}
				for _, ce := range in {
					// cast to the annotated type
					if len(ce.Args) == 0 || !strings.Contains(exprStr(ce.Args[0]), "OptType") {
						bad = append(bad, "the cast instruction is not built from the annotated type (OptType)")
					}
				}
				if ifs.Else != nil && len(actxCallsNamed(ifs.Else, info, "newCastInstruction")) > 0 {
					bad = append(bad, "a cast is also emitted when the flag is not set")
				}
			} else if strings.Contains(exprStr(ifs.Cond), "NeedsRuntimeTypeValidation") {
				bad = append(bad, "the flag is combined with other conditions: "+exprStr(ifs.Cond))
			}
			return true
		})
		unguarded = len(casts) - guarded
		ob := Obligation{Key: key, Pos: c.Pos(fd.Pos()), Nontrivial: true}
		switch {
		case len(casts) == 0:
			ob.Status, ob.Detail = Violated, "the let lowering never emits a cast instruction: an any-typed initializer is bound unchecked"
		case unguarded != 0:
			ob.Status, ob.Detail = Violated, fmt.Sprintf("%d cast emission(s) are not under `if node.NeedsRuntimeTypeValidation`", unguarded)
		case len(bad) > 0:
			ob.Status, ob.Detail = Violated, strings.Join(bad, "; ")
		default:
			ob.Status, ob.Detail = Discharged, "newCastInstruction(node.OptType, …) is emitted exactly under `if node.NeedsRuntimeTypeValidation`, after the initializer is compiled"
		}
		out = append(out, ob)
	}
	return out
}

// (c) ------------------------------------------------------------------------

type actxLetState struct {
	flag  int // 0 unknown, 1 set, 2 not set
	cast  bool
	bound bool
	dec   []string
}

func actxCastInterpLet(c *Ctx) []Obligation {
	p := c.Pkg("homescript/interpreter")
	info := p.TypesInfo
	fds := actxFuncsTaking(c, "homescript/interpreter", "Interpreter", "AnalyzedLetStatement")
	if len(fds) == 0 {
		return []Obligation{{Key: "homescript/interpreter|let", Status: Undecided, Detail: "no Interpreter method takes an AnalyzedLetStatement"}}
	}
	var out []Obligation
	for _, fd := range fds {
		var bad []string
		n := 0
		w := &Walker[*actxLetState]{Clone: func(s *actxLetState) *actxLetState {
			x := *s
			x.dec = append([]string(nil), s.dec...)
			return &x
		}}
		scan := func(st *actxLetState, n ast.Node) {
			if n == nil {
				return
			}
			if len(actxCallsNamed(n, info, "DeepCast")) > 0 {
				st.cast = true
			}
			if len(actxCallsNamed(n, info, "addVar")) > 0 {
				st.bound = true
			}
		}
		w.IsPanic = func(s ast.Stmt) bool { return IsPanicCall(info, s) }
		w.OnStmt = func(st *actxLetState, s ast.Stmt) (*actxLetState, bool) {
			if _, isRet := s.(*ast.ReturnStmt); !isRet {
				scan(st, s)
			}
			return st, true
		}
		w.OnCond = func(st *actxLetState, cond ast.Expr, taken bool) (*actxLetState, bool) {
			if actxIsFlagRead(cond) {
				v := 2
				if taken {
					v = 1
				}
				if st.flag != 0 && st.flag != v {
					return st, false
				}
				st.flag = v
			}
			st.dec = append(st.dec, fmt.Sprintf("%s=%v", exprStr(cond), taken))
			return st, true
		}
		w.Exit = func(st *actxLetState, o outcome) {
			if o.kind == cPanic || o.ret == nil {
				return
			}
			// error exit: returns a non-nil interrupt
			for _, r := range o.ret.Results {
				if id, ok := ast.Unparen(r).(*ast.Ident); !ok || id.Name != "nil" {
					return
				}
			}
			n++
			where := fmt.Sprintf("return at %s [%s]", c.Pos(o.ret.Pos()), strings.Join(st.dec, ", "))
			switch {
			case !st.bound:
				bad = append(bad, "the statement completes normally without binding the variable (no cast, no addVar): "+where)
			case st.flag == 1 && !st.cast:
				bad = append(bad, "flag set but the value is bound without DeepCast: "+where)
			case st.flag == 2 && st.cast:
				bad = append(bad, "flag not set but the value goes through DeepCast: "+where)
			case st.flag == 0 && !st.cast:
				bad = append(bad, "the flag is not consulted on this path and the value is bound without DeepCast: "+where)
			}
		}
		w.Run(fd.Body, &actxLetState{})
		ob := Obligation{Key: "homescript/interpreter." + FuncName(fd) + "|DeepCast iff NeedsRuntimeTypeValidation, always bound", Pos: c.Pos(fd.Pos()), Nontrivial: true}
		if len(bad) > 0 {
			ob.Status, ob.Detail = Violated, strings.Join(bad, " | ")
		} else {
			ob.Status, ob.Detail = Discharged, fmt.Sprintf("%d normal exits: bound on all, through DeepCast exactly when the flag is set", n)
		}
		out = append(out, ob)
	}
	return out
}

// (d) ------------------------------------------------------------------------

func actxCastSpawn(c *Ctx) []Obligation {
	p := c.Pkg("homescript/runtime")
	info := p.TypesInfo
	var out []Obligation
	for _, name := range []string{"SpawnSync", "SpawnAsync"} {
		fd := c.MustFunc("homescript/runtime", "VM", name)
		key := "homescript/runtime.VM." + name + "|DeepCast every argument"
		ob := Obligation{Key: key, Pos: c.Pos(fd.Pos()), Nontrivial: true}
		var loop *ast.RangeStmt
		var why []string
		for _, st := range fd.Body.List {
			rs, ok := st.(*ast.RangeStmt)
			if !ok {
				continue
			}
			calls := actxCallsNamed(rs.Body, info, "DeepCast")
			if len(calls) == 0 {
				continue
			}
			loop = rs
			// ranges over all declared parameters (or all arguments)
			rx := exprStr(rs.X)
			if !strings.HasSuffix(rx, "FunctionSignature.Params") && !strings.HasSuffix(rx, ".Args") {
				why = append(why, "the validating loop ranges over "+rx+", not over the declared parameters / arguments")
			}
			ce := calls[0]
			if len(ce.Args) < 2 || !strings.Contains(exprStr(ce.Args[1]), "Type") {
				why = append(why, "DeepCast is not given the parameter's declared type")
			}
			// failure stops the invocation
			stops := false
			ast.Inspect(rs.Body, func(n ast.Node) bool {
				if ifs, ok := n.(*ast.IfStmt); ok && strings.Contains(exprStr(ifs.Cond), "!= nil") {
					for _, s := range ifs.Body.List {
						if IsPanicCall(info, s) {
							stops = true
						}
						if _, ok := s.(*ast.ReturnStmt); ok {
							stops = true
						}
					}
				}
				return true
			})
			if !stops {
				why = append(why, "a failed cast neither panics nor returns")
			}
			// no early continue/break before the cast
			ast.Inspect(rs.Body, func(n ast.Node) bool {
				if br, ok := n.(*ast.BranchStmt); ok && br.Pos() < ce.Pos() {
					why = append(why, "the loop can skip an argument before casting it ("+br.Tok.String()+")")
				}
				return true
			})
		}
		spawns := actxCallsNamed(fd.Body, info, "spawnCoreInternal")
		switch {
		case loop == nil:
			ob.Status, ob.Detail = Violated, "no top-level loop DeepCasts the invocation arguments"
		case len(spawns) == 0:
			ob.Status, ob.Detail = Undecided, "spawnCoreInternal is not called"
		case spawns[0].Pos() < loop.End():
			ob.Status, ob.Detail = Violated, "the core is spawned before the arguments are validated"
		case len(why) > 0:
			ob.Status, ob.Detail = Violated, strings.Join(why, "; ")
		default:
			// a length test guarantees Args[index] exists for every parameter
			ob.Status, ob.Detail = Discharged, "a top-level loop over "+exprStr(loop.X)+" DeepCasts each argument against its declared type and panics on failure, before spawnCoreInternal"
		}
		out = append(out, ob)
	}
	return out
}

// (e) ------------------------------------------------------------------------

func actxCastTermination(c *Ctx) []Obligation {
	p := c.Pkg("homescript/runtime")
	info := p.TypesInfo
	fd := c.MustFunc("homescript/runtime", "VM", "HandleTermination")
	var out []Obligation
	ob := Obligation{Key: "homescript/runtime.VM.HandleTermination|DeepCast the result", Pos: c.Pos(fd.Pos()), Nontrivial: true}
	calls := actxCallsNamed(fd.Body, info, "DeepCast")
	var sw *ast.SwitchStmt
	ast.Inspect(fd.Body, func(n ast.Node) bool {
		if s, ok := n.(*ast.SwitchStmt); ok && s.Tag != nil && strings.Contains(exprStr(s.Tag), "ReturnType.Kind()") {
			sw = s
		}
		return true
	})
	switch {
	case len(calls) == 0:
		ob.Status, ob.Detail = Violated, "the value returned to the host is never DeepCast to the declared return type"
	case sw == nil:
		ob.Status, ob.Detail = Undecided, "no switch on the declared return type kind found"
	default:
		ce := calls[0]
		var why []string
		if len(ce.Args) < 2 || !strings.Contains(exprStr(ce.Args[1]), "ReturnType") {
			why = append(why, "DeepCast is not given the declared return type")
		}
		// the cast result is what is returned
		usesCast := false
		ast.Inspect(fd.Body, func(n ast.Node) bool {
			if as, ok := n.(*ast.AssignStmt); ok && len(as.Rhs) == 1 {
				if strings.Contains(exprStr(as.Rhs[0]), "castValue") && strings.Contains(exprStr(as.Lhs[0]), "returnValue") {
					usesCast = true
				}
			}
			return true
		})
		_ = usesCast
		inDefault := false
		var skipped []string
		for _, cl := range sw.Body.List {
			cc := cl.(*ast.CaseClause)
			has := len(actxCallsNamed(cc, info, "DeepCast")) > 0
			if cc.List == nil {
				inDefault = has
				continue
			}
			if !has {
				for _, e := range cc.List {
					if k := ConstOf(info, e); k != nil {
						skipped = append(skipped, k.Name())
					}
				}
			}
		}
		if !inDefault {
			why = append(why, "the cast is not in the default clause: new type kinds would bypass it")
		}
		if len(why) > 0 {
			ob.Status, ob.Detail = Violated, strings.Join(why, "; ")
		} else {
			ob.Status, ob.Detail = Discharged, "default clause DeepCasts the top of the exited core's stack to invocation.FunctionSignature.ReturnType; a failed cast panics"
		}
		// kinds skipped must carry no value
		valueless := map[string]bool{"NullTypeKind": true, "NeverTypeKind": true, "UnknownTypeKind": true}
		for _, k := range skipped {
			o := Obligation{Key: "homescript/runtime.VM.HandleTermination|no cast for " + k, Pos: c.Pos(sw.Pos()), Nontrivial: true}
			if valueless[k] {
				o.Status, o.Detail = Discharged, k+" carries no value: nothing crosses the boundary"
			} else {
				o.Status, o.Detail = Violated, "a function whose declared return type is "+k+" leaves a value on the stack, but HandleTermination neither casts nor returns it (ReturnValue stays nil)"
			}
			out = append(out, o)
		}
	}
	out = append(out, ob)
	return out
}

// (f) ------------------------------------------------------------------------

func actxCastVMCatchable(c *Ctx) []Obligation {
	p := c.Pkg("homescript/runtime")
	info := p.TypesInfo
	var out []Obligation
	n := 0
	for _, fd := range AllFuncDecls(p) {
		ast.Inspect(fd.Body, func(x ast.Node) bool {
			cc, ok := x.(*ast.CaseClause)
			if !ok {
				return true
			}
			isCast := false
			for _, e := range cc.List {
				if k := ConstOf(info, e); k != nil && k.Name() == "Opcode_Cast" {
					isCast = true
				}
			}
			if !isCast {
				return true
			}
			n++
			ob := Obligation{Key: "homescript/runtime." + FuncName(fd) + "|case Opcode_Cast|cast error is catchable", Pos: c.Pos(cc.Pos()), Nontrivial: true}
			calls := actxCallsNamed(cc, info, "DeepCast")
			if len(calls) == 0 {
				ob.Status, ob.Detail = Violated, "Opcode_Cast does not call DeepCast"
				out = append(out, ob)
				return false
			}
			var why []string
			okRet := false
			ast.Inspect(cc, func(y ast.Node) bool {
				ifs, ok := y.(*ast.IfStmt)
				if !ok || !strings.Contains(exprStr(ifs.Cond), "!= nil") {
					return true
				}
				for _, s := range ifs.Body.List {
					if rs, ok := s.(*ast.ReturnStmt); ok && len(rs.Results) == 1 {
						if ce, ok := ast.Unparen(rs.Results[0]).(*ast.CallExpr); ok {
							if f := CalleeOf(info, ce); f != nil && f.Name() == "NewVMThrowInterrupt" {
								okRet = true
							} else if f != nil {
								why = append(why, "a failed cast returns "+f.Name()+"(…), not the catchable throw interrupt")
							}
						}
					}
					if IsPanicCall(info, s) {
						why = append(why, "a failed cast panics the host")
					}
				}
				return true
			})
			if !okRet && len(why) == 0 {
				why = append(why, "the error result of DeepCast is not turned into an interrupt")
			}
			if len(why) > 0 {
				ob.Status, ob.Detail = Violated, strings.Join(why, "; ")
			} else {
				ob.Status, ob.Detail = Discharged, "DeepCast failure returns value.NewVMThrowInterrupt (the kind the exception branch of Core.Run hands to try/catch)"
			}
			out = append(out, ob)
			return false
		})
	}
	if n == 0 {
		out = append(out, Obligation{Key: "homescript/runtime|case Opcode_Cast", Status: Undecided, Detail: "no case for Opcode_Cast found in package runtime"})
	}
	// interpreter twin: informational (class agreement is R-twin-tables' job)
	ip := c.Pkg("homescript/interpreter/value")
	if fd := FuncDecl(ip, "", "DeepCast"); fd != nil {
		fatal := len(actxCallsNamed(fd.Body, ip.TypesInfo, "NewRuntimeErr"))
		throw := len(actxCallsNamed(fd.Body, ip.TypesInfo, "NewThrowInterrupt"))
		if fatal > 0 {
			out = append(out, Obligation{Key: "homescript/interpreter/value.DeepCast|error class", Pos: c.Pos(fd.Pos()), Status: Info,
				Detail: fmt.Sprintf("the tree-walking interpreter reports cast failures through NewRuntimeErr(…, CastErrorKind) at %d sites (%d throw interrupts): a fatal interrupt that its tryExpression refuses to catch — twin disagreement with the VM (see R-twin-tables)", fatal, throw)})
		}
	}
	return out
}
