package main

import (
	"fmt"
	"go/ast"
	"go/constant"
	"go/token"
	"go/types"
	"sort"
	"strings"

	"golang.org/x/tools/go/ssa"
)

func init() {
	register(&Rule{ID: "R-cast-boundary", Floor: 12, Run: ruleCastBoundary,
		Doc: "the dynamic→static boundary of C12, decided on types / SSA data flow / the call graph (helpers of the package are entered with the arguments substituted for their parameters, so it does not matter whether a loop, guard or cast is written in the entry point or in a helper): (a) every store into AnalyzedLetStatement.NeedsRuntimeTypeValidation inside the analyzer is the unmodified result of the recursive any-check Analyzer.CheckAny (directly, through a wrapper that returns it, or through a parameter all of whose call sites pass it); a shallow kind test lets `?any`, `[any]`, `{f: any}` initializers through unchecked; (b) the compiler's let lowering, evaluated with the flag fixed to true and to false: with the flag set every path emits a CastInstruction built from node.OptType, with the flag clear no emission is reachable; (c) the interpreter's let, same evaluation: every normal (non-error) exit has bound the variable; with the flag set it passed DeepCast against node.OptType and binds the cast result, with the flag clear no such cast is reachable; (d) SpawnSync/SpawnAsync: every call that (transitively) starts the goroutine of the new core is dominated by the exit of a loop that visits every position below len(Params)/len(Args), hands Args[i] and Params[i].Type of the same invocation to DeepCast on every iteration (no skip, no early leave) and cannot continue after a failed cast; (e) HandleTermination, evaluated once per constant of the return-type kind enumeration and once for a kind outside it: on every non-exception return the value handed to the host is the result of DeepCast against the declared return type, except for kinds that are singled out, which must be the value-less ones (null, never, unknown); (f) the DeepCast executed for Opcode_Cast (type argument = CastInstruction.Type): every return reachable from its failure branch hands back value.NewVMThrowInterrupt, the catchable interrupt; a panic there crashes the host."})
}

func ruleCastBoundary(c *Ctx) []Obligation {
	var out []Obligation
	actxCastModeLog = map[string]map[string]string{}
	out = append(out, actxCastLetFlag(c)...)
	out = append(out, actxCastCompilerLet(c)...)
	out = append(out, actxCastInterpLet(c)...)
	out = append(out, actxCastSpawn(c)...)
	out = append(out, actxCastTermination(c)...)
	out = append(out, actxCastVMCatchable(c)...)
	out = append(out, actxCastSupersedes(c)...)
	out = append(out, actxCastExprAlways(c)...)
	out = append(out, actxCastModesAgree(c)...)
	return out
}

// (a) ------------------------------------------------------------------------

func actxValueIsCallTo(v ssa.Value, target *ssa.Function, seen map[ssa.Value]bool) (bool, string) {
	if seen[v] {
		return true, ""
	}
	seen[v] = true
	switch x := v.(type) {
	case *ssa.Call:
		g := x.Common().StaticCallee()
		if g == target {
			return true, ""
		}
		// a wrapper: every return of the callee hands back (first result) the result of the target
		if g != nil && g.Blocks != nil && len(seen) < 40 && g.Signature.Results().Len() == 1 {
			rets := actxReturns(g)
			for _, r := range rets {
				if len(r.Results) != 1 {
					return false, "the result of a call to " + g.Name()
				}
				if ok, why := actxValueIsCallTo(r.Results[0], target, seen); !ok {
					return false, "the result of " + g.Name() + ", which returns " + why
				}
			}
			if len(rets) > 0 {
				return true, ""
			}
		}
		return false, "the result of a call to " + x.Common().Value.Name()
	case *ssa.Parameter:
		// a helper that receives the flag: every static call site must pass the target's result
		fn := x.Parent()
		idx := -1
		for i, p := range fn.Params {
			if p == x {
				idx = i
			}
		}
		if idx < 0 || fn.Pkg == nil || fn.Object() == nil || fn.Object().Exported() {
			return false, "the parameter " + x.Name() + " of " + fn.Name()
		}
		n := 0
		for _, mem := range actxAllFuncs(fn.Pkg) {
			for _, b := range mem.Blocks {
				for _, ins := range b.Instrs {
					ci, ok := ins.(ssa.CallInstruction)
					if !ok {
						continue
					}
					cc := ci.Common()
					if cc.StaticCallee() != fn {
						// the function used as a value: call sites unknown
						for _, op := range ins.Operands(nil) {
							if *op == ssa.Value(fn) {
								return false, "the parameter " + x.Name() + " of " + fn.Name() + ", which is used as a function value"
							}
						}
						continue
					}
					if idx >= len(cc.Args) {
						return false, "the parameter " + x.Name() + " of " + fn.Name()
					}
					n++
					if ok, why := actxValueIsCallTo(cc.Args[idx], target, seen); !ok {
						return false, "the parameter " + x.Name() + " of " + fn.Name() + ", for which a caller passes " + why
					}
				}
			}
		}
		if n == 0 {
			return false, "the parameter " + x.Name() + " of " + fn.Name() + " (no static call site)"
		}
		return true, ""
	case *ssa.Phi:
		for _, e := range x.Edges {
			if ok, why := actxValueIsCallTo(e, target, seen); !ok {
				return false, why
			}
		}
		return true, ""
	case *ssa.UnOp:
		if x.Op == token.MUL {
			if al, ok := x.X.(*ssa.Alloc); ok {
				any := false
				for _, ref := range *al.Referrers() {
					if st, ok := ref.(*ssa.Store); ok && st.Addr == al {
						any = true
						if ok, why := actxValueIsCallTo(st.Val, target, seen); !ok {
							return false, why
						}
					}
				}
				return any, "a local that is never assigned"
			}
		}
		return false, "computed by " + x.String()
	case *ssa.Const:
		return false, "the constant " + x.String()
	case *ssa.BinOp:
		return false, "computed by the comparison/operation `" + x.String() + "` (" + x.X.Name() + " " + x.Op.String() + " " + x.Y.Name() + ")"
	}
	return false, fmt.Sprintf("computed by %T %s", v, v.String())
}

func actxCastLetFlag(c *Ctx) []Obligation {
	var out []Obligation
	sp := c.SSAPkg("homescript/analyzer")
	var checkAny *ssa.Function
	if t := sp.Type("Analyzer"); t != nil {
		checkAny = c.Prog.LookupMethod(types.NewPointer(t.Type()), sp.Pkg, "CheckAny")
	}
	if checkAny == nil {
		fatalf("anchor unresolved: analyzer.(*Analyzer).CheckAny")
	}
	// CheckAny must be the deep (recursive) check
	rec := false
	for _, b := range checkAny.Blocks {
		for _, ins := range b.Instrs {
			if ci, ok := ins.(ssa.CallInstruction); ok && ci.Common().StaticCallee() == checkAny {
				rec = true
			}
		}
	}
	ob := Obligation{Key: "homescript/analyzer.Analyzer.CheckAny|recursive", Pos: c.Pos(checkAny.Pos()), Status: Discharged, Detail: "CheckAny recurses into component types (list, object, option, function)"}
	if !rec {
		ob.Status, ob.Detail = Violated, "CheckAny no longer recurses into component types: the any-check is shallow"
	}
	out = append(out, ob)
	n := 0
	for _, mem := range sp.Members {
		_ = mem
	}
	var fns []*ssa.Function
	for fn := range ssaFuncsOf(c, sp) {
		fns = append(fns, fn)
	}
	sort.Slice(fns, func(i, j int) bool { return fns[i].String() < fns[j].String() })
	for _, fn := range fns {
		for _, b := range fn.Blocks {
			for _, ins := range b.Instrs {
				st, ok := ins.(*ssa.Store)
				if !ok {
					continue
				}
				fa, ok := st.Addr.(*ssa.FieldAddr)
				if !ok {
					continue
				}
				pt, ok := fa.X.Type().Underlying().(*types.Pointer)
				if !ok {
					continue
				}
				named, ok := pt.Elem().(*types.Named)
				if !ok || named.Obj().Name() != "AnalyzedLetStatement" {
					continue
				}
				stt := named.Underlying().(*types.Struct)
				if stt.Field(fa.Field).Name() != "NeedsRuntimeTypeValidation" {
					continue
				}
				n++
				key := fmt.Sprintf("homescript/analyzer.%s|NeedsRuntimeTypeValidation", fn.Name())
				okv, why := actxValueIsCallTo(st.Val, checkAny, map[ssa.Value]bool{})
				o := Obligation{Key: key, Pos: c.Pos(st.Pos()), Nontrivial: true}
				if p := st.Pos(); !p.IsValid() {
					o.Pos = c.Pos(fn.Pos())
				}
				if okv {
					o.Status, o.Detail = Discharged, "the stored value is the result of the recursive CheckAny on every path"
				} else {
					o.Status, o.Detail = Violated, "the value stored into NeedsRuntimeTypeValidation is not the result of the recursive any-check CheckAny: it is "+why+"; an initializer whose type only *contains* any (?any, [any], {f: any}) is then bound under the annotated type without a runtime cast"
				}
				out = append(out, o)
			}
		}
	}
	if n == 0 {
		out = append(out, Obligation{Key: "homescript/analyzer|NeedsRuntimeTypeValidation", Status: Undecided, Detail: "no store into AnalyzedLetStatement.NeedsRuntimeTypeValidation found in package analyzer"})
	}
	return out
}

// actxAllFuncs: every function with a body that belongs to the package (methods and closures included).
func actxAllFuncs(sp *ssa.Package) []*ssa.Function {
	var out []*ssa.Function
	seen := map[*ssa.Function]bool{}
	var add func(f *ssa.Function)
	add = func(f *ssa.Function) {
		if f == nil || seen[f] || f.Blocks == nil {
			return
		}
		seen[f] = true
		out = append(out, f)
		for _, a := range f.AnonFuncs {
			add(a)
		}
	}
	var names []string
	for name := range sp.Members {
		names = append(names, name)
	}
	sort.Strings(names)
	for _, name := range names {
		switch m := sp.Members[name].(type) {
		case *ssa.Function:
			add(m)
		case *ssa.Type:
			for _, t := range []types.Type{m.Type(), types.NewPointer(m.Type())} {
				ms := sp.Prog.MethodSets.MethodSet(t)
				for i := 0; i < ms.Len(); i++ {
					if f := sp.Prog.MethodValue(ms.At(i)); f != nil && f.Pkg == sp {
						add(f)
					}
				}
			}
		}
	}
	return out
}

func ssaFuncsOf(c *Ctx, sp *ssa.Package) map[*ssa.Function]bool {
	out := map[*ssa.Function]bool{}
	var add func(f *ssa.Function)
	add = func(f *ssa.Function) {
		if f == nil || out[f] || f.Blocks == nil {
			return
		}
		out[f] = true
		for _, a := range f.AnonFuncs {
			add(a)
		}
	}
	for _, mem := range sp.Members {
		switch m := mem.(type) {
		case *ssa.Function:
			add(m)
		case *ssa.Type:
			for _, t := range []types.Type{m.Type(), types.NewPointer(m.Type())} {
				ms := c.Prog.MethodSets.MethodSet(t)
				for i := 0; i < ms.Len(); i++ {
					if f := c.Prog.MethodValue(ms.At(i)); f != nil && f.Pkg == sp {
						add(f)
					}
				}
			}
		}
	}
	return out
}

// helpers ----------------------------------------------------------------------

// actxFuncTaking finds the method of recv in rel whose parameter list
// contains a value of the named tree type.
func actxFuncsTaking(c *Ctx, rel, recv, paramType string) []*ast.FuncDecl {
	p := c.Pkg(rel)
	var out []*ast.FuncDecl
	for _, fd := range AllFuncDecls(p) {
		if fd.Recv == nil || recvTypeName(fd.Recv.List[0].Type) != recv {
			continue
		}
		for _, f := range fd.Type.Params.List {
			if n, ok := p.TypesInfo.TypeOf(f.Type).(*types.Named); ok && n.Obj().Name() == paramType {
				out = append(out, fd)
			}
		}
	}
	return out
}

func actxCallsNamed(n ast.Node, info *types.Info, name string) []*ast.CallExpr {
	var out []*ast.CallExpr
	if n == nil {
		return nil
	}
	ast.Inspect(n, func(x ast.Node) bool {
		if ce, ok := x.(*ast.CallExpr); ok {
			if f := CalleeOf(info, ce); f != nil && f.Name() == name {
				out = append(out, ce)
			}
		}
		return true
	})
	return out
}

// actxSSAOf: the SSA function of a declaration.
func actxSSAOf(c *Ctx, rel string, fd *ast.FuncDecl) *ssa.Function {
	c.SSA()
	p := c.Pkg(rel)
	obj, _ := p.TypesInfo.Defs[fd.Name].(*types.Func)
	if obj == nil {
		return nil
	}
	return c.Prog.FuncValue(obj)
}

// actxLetParam: the parameter that carries the analysed let statement, and the
// symbolic path of its validation flag / annotated type.
func actxLetParam(fn *ssa.Function) *ssa.Parameter {
	for _, p := range fn.Params {
		if n, ok := p.Type().(*types.Named); ok && n.Obj().Name() == "AnalyzedLetStatement" {
			return p
		}
	}
	return nil
}

func actxBoolAbs(b bool) actxAbs { return actxAbs{k: abConst, c: constant.MakeBool(b)} }

// (b) ------------------------------------------------------------------------

// Decided on the SSA form with the flag fixed to true / false (conditions that
// depend on it are folded, helpers of the package are entered with their
// arguments substituted): with the flag set every path to a return passes the
// emission of a cast instruction built from the annotated type; with the flag
// clear no emission is reachable. An emission is the conversion of a
// compiler.CastInstruction value to the instruction interface (wherever the
// value was constructed).
func actxCastCompilerLet(c *Ctx) []Obligation {
	fds := actxFuncsTaking(c, "homescript/compiler", "Compiler", "AnalyzedLetStatement")
	if len(fds) == 0 {
		return []Obligation{{Key: "homescript/compiler|let lowering", Status: Undecided, Detail: "no Compiler method takes an AnalyzedLetStatement"}}
	}
	sp := c.SSAPkg("homescript/compiler")
	var castT types.Type
	if t := sp.Type("CastInstruction"); t != nil {
		castT = t.Type()
	}
	if castT == nil {
		fatalf("anchor unresolved: compiler.CastInstruction")
	}
	inserters := actxInserters(c)
	var out []Obligation
	for _, fd := range fds {
		key := "homescript/compiler." + FuncName(fd) + "|cast iff NeedsRuntimeTypeValidation"
		ob := Obligation{Key: key, Pos: c.Pos(fd.Pos()), Nontrivial: true}
		fn := actxSSAOf(c, "homescript/compiler", fd)
		var lp *ssa.Parameter
		if fn != nil {
			lp = actxLetParam(fn)
		}
		if lp == nil {
			ob.Status, ob.Detail = Undecided, "SSA form / let parameter not found"
			out = append(out, ob)
			continue
		}
		root := actxNewFrame(fn, nil, 0).sym(lp)
		flag := root + ".NeedsRuntimeTypeValidation"
		var bad []string
		emission := func(ef *actxEvalFrame, ins ssa.Instruction) bool {
			mi, _ := actxCastEmitted(ef, ins, castT, inserters)
			return mi != nil
		}
		// the type the emitted instruction casts to
		fromOpt := func(ef *actxEvalFrame, ins ssa.Instruction) bool {
			mi, mfr := actxCastEmitted(ef, ins, castT, inserters)
			if mi == nil {
				return false
			}
			okT := false
			for _, a := range actxCastTypeArgs(mi, mfr) {
				if a == root+".OptType" {
					okT = true
				}
			}
			if !okT {
				bad = append(bad, "the cast instruction emitted at "+c.Pos(actxInstrPos(ins))+" is not built from the annotated type (OptType)")
			} else {
				actxLogCastMode("let|compiler", c.Pos(actxInstrPos(ins)), actxCastInstrMode(mi, mfr))
			}
			return true
		}
		run := func(v bool) *actxEvalFrame {
			ev := &actxKindEval{c: c, assume: map[string]actxAbs{flag: actxBoolAbs(v)}}
			return ev.newFrame(actxNewFrame(fn, nil, 0), map[*ssa.Parameter]actxAbs{})
		}
		free := (&actxKindEval{c: c}).newFrame(actxNewFrame(fn, nil, 0), map[*ssa.Parameter]actxAbs{})
		on, off := run(true), run(false)
		switch {
		case !free.mayPass(emission, nil):
			ob.Status, ob.Detail = Violated, "the let lowering never emits a cast instruction: an any-typed initializer is bound unchecked"
		case off.mayPass(emission, nil):
			ob.Status, ob.Detail = Violated, "a cast emission is reachable when NeedsRuntimeTypeValidation is not set (the emission is not under the flag, or the flag is combined with other conditions)"
		case !on.mustPass(emission, nil):
			d := "with NeedsRuntimeTypeValidation set, a path reaches the end of the lowering without emitting the cast instruction"
			if r := on.uncoveredReturn(emission); r != nil {
				d += " (return at " + c.Pos(r.Pos()) + ")"
			}
			ob.Status, ob.Detail = Violated, d
		default:
			on.mayPass(fromOpt, nil)
			if len(bad) > 0 {
				ob.Status, ob.Detail = Violated, strings.Join(actxUniq(bad), "; ")
			} else {
				ob.Status, ob.Detail = Discharged, "a CastInstruction built from node.OptType is emitted on every path exactly when node.NeedsRuntimeTypeValidation is set"
			}
		}
		out = append(out, ob)
	}
	return out
}

// (c) ------------------------------------------------------------------------

// actxInterpBinders: the Interpreter methods that bind a name in the current
// scope: they store a value parameter into a map under a string parameter.
func actxInterpBinders(c *Ctx) map[*ssa.Function]bool {
	out := map[*ssa.Function]bool{}
	for _, fn := range actxAllFuncs(c.SSAPkg("homescript/interpreter")) {
		if fn.Signature.Recv() == nil {
			continue
		}
		for _, b := range fn.Blocks {
			for _, ins := range b.Instrs {
				mu, ok := ins.(*ssa.MapUpdate)
				if !ok {
					continue
				}
				if kp, ok := mu.Key.(*ssa.Parameter); ok {
					if bt, ok := kp.Type().Underlying().(*types.Basic); ok && bt.Kind() == types.String {
						out[fn] = true
					}
				}
			}
		}
	}
	return out
}

func actxCastInterpLet(c *Ctx) []Obligation {
	fds := actxFuncsTaking(c, "homescript/interpreter", "Interpreter", "AnalyzedLetStatement")
	if len(fds) == 0 {
		return []Obligation{{Key: "homescript/interpreter|let", Status: Undecided, Detail: "no Interpreter method takes an AnalyzedLetStatement"}}
	}
	deepCast := c.SSAPkg("homescript/interpreter/value").Func("DeepCast")
	if deepCast == nil {
		fatalf("anchor unresolved: interpreter/value.DeepCast")
	}
	binders := actxInterpBinders(c)
	if len(binders) == 0 {
		fatalf("anchor unresolved: no Interpreter method stores a value under a name in a scope map")
	}
	var out []Obligation
	for _, fd := range fds {
		ob := Obligation{Key: "homescript/interpreter." + FuncName(fd) + "|DeepCast iff NeedsRuntimeTypeValidation, always bound", Pos: c.Pos(fd.Pos()), Nontrivial: true}
		fn := actxSSAOf(c, "homescript/interpreter", fd)
		var lp *ssa.Parameter
		if fn != nil {
			lp = actxLetParam(fn)
		}
		if lp == nil {
			ob.Status, ob.Detail = Undecided, "SSA form / let parameter not found"
			out = append(out, ob)
			continue
		}
		root := actxNewFrame(fn, nil, 0).sym(lp)
		flag := root + ".NeedsRuntimeTypeValidation"
		isCall := func(ins ssa.Instruction, set map[*ssa.Function]bool) bool {
			ci, ok := ins.(ssa.CallInstruction)
			if !ok {
				return false
			}
			g := ci.Common().StaticCallee()
			return g != nil && set[g]
		}
		binds := func(ef *actxEvalFrame, ins ssa.Instruction) bool { return isCall(ins, binders) }
		// the cast of this statement: DeepCast against the annotated type of the let node
		casts := func(ef *actxEvalFrame, ins ssa.Instruction) bool {
			if !isCall(ins, map[*ssa.Function]bool{deepCast: true}) {
				return false
			}
			args := ins.(ssa.CallInstruction).Common().Args
			if len(args) >= 2 && ef.fr.sym(args[1]) == root+".OptType" {
				actxLogCastMode("let|interpreter", c.Pos(ins.Pos()), actxDeepCastMode(ef.fr, ins.(ssa.CallInstruction)))
				return true
			}
			return false
		}
		run := func(assume map[string]actxAbs) *actxEvalFrame {
			ev := &actxKindEval{c: c, assume: assume}
			return ev.newFrame(actxNewFrame(fn, nil, 0), map[*ssa.Parameter]actxAbs{})
		}
		on, off := run(map[string]actxAbs{flag: actxBoolAbs(true)}), run(map[string]actxAbs{flag: actxBoolAbs(false)})
		var bad []string
		at := func(ef *actxEvalFrame, h actxHit) string {
			if r := ef.uncoveredReturn(h); r != nil {
				return "return at " + c.Pos(r.Pos())
			}
			return "?"
		}
		if !on.mustPass(binds, nil) {
			bad = append(bad, "the statement completes normally without binding the variable (flag set): "+at(on, binds))
		}
		if !off.mustPass(binds, nil) {
			bad = append(bad, "the statement completes normally without binding the variable (flag not set): "+at(off, binds))
		}
		if !on.mustPass(casts, nil) {
			bad = append(bad, "flag set but the value is bound without DeepCast: "+at(on, casts))
		}
		if off.mayPass(casts, nil) {
			bad = append(bad, "flag not set but the value goes through DeepCast")
		}
		// with the flag set, what is bound is the result of the cast, not the raw initializer
		for _, b := range fn.Blocks {
			if !on.feasible[b] {
				continue
			}
			for _, ins := range b.Instrs {
				if !isCall(ins, binders) {
					continue
				}
				fromCast := false
				for _, a := range ins.(ssa.CallInstruction).Common().Args {
					if _, isIface := a.Type().Underlying().(*types.Interface); !isIface {
						continue
					}
					if call, _, _ := on.traceCast(a, deepCast, map[ssa.Value]bool{}); call != nil {
						fromCast = true
					}
				}
				if !fromCast {
					bad = append(bad, "flag set, but the value bound at "+c.Pos(ins.Pos())+" is not the result of DeepCast")
				}
			}
		}
		if len(bad) > 0 {
			ob.Status, ob.Detail = Violated, strings.Join(bad, " | ")
		} else {
			ob.Status, ob.Detail = Discharged, "every normal exit has bound the variable; through DeepCast exactly when the flag is set"
		}
		out = append(out, ob)
	}
	return out
}

// (d) ------------------------------------------------------------------------

// actxVMMethod: the SSA function of an exported VM entry point.
func actxVMMethod(c *Ctx, name string) *ssa.Function {
	sp := c.SSAPkg("homescript/runtime")
	t := sp.Type("VM")
	if t == nil {
		fatalf("anchor unresolved: runtime.VM")
	}
	fn := c.Prog.LookupMethod(types.NewPointer(t.Type()), sp.Pkg, name)
	if fn == nil || fn.Blocks == nil {
		fatalf("anchor unresolved: runtime.(*VM).%s", name)
	}
	return fn
}

func actxDeepCastFn(c *Ctx) *ssa.Function {
	fn := c.SSAPkg("homescript/runtime/value").Func("DeepCast")
	if fn == nil {
		fatalf("anchor unresolved: runtime/value.DeepCast")
	}
	return fn
}

// actxInvocationParam: the parameter of the entry point that carries the
// invocation (the struct with the argument list and the declared signature).
func actxInvocationParam(fn *ssa.Function) *ssa.Parameter {
	for _, p := range fn.Params {
		st, ok := p.Type().Underlying().(*types.Struct)
		if !ok {
			continue
		}
		hasArgs, hasSig := false, false
		for i := 0; i < st.NumFields(); i++ {
			switch st.Field(i).Name() {
			case "Args":
				hasArgs = true
			case "FunctionSignature":
				hasSig = true
			}
		}
		if hasArgs && hasSig {
			return p
		}
	}
	return nil
}

// The obligation is decided on the SSA form through the call graph: every call
// that (transitively) starts the new core must be dominated by the exit of a
// loop that visits every position i < len(Params) (= len(Args)), hands
// Args[i] and Params[i].Type of the *same* invocation to DeepCast on every
// iteration and cannot continue after a failed cast — whether that loop is
// written in the entry point or in a helper that receives the invocation (or
// its argument / parameter lists), and whether the cast itself is written in
// the loop or in a per-argument helper.
func actxCastSpawn(c *Ctx) []Obligation {
	var out []Obligation
	deepCast := actxDeepCastFn(c)
	base, all := actxSpawners(c, c.SSAPkg("homescript/runtime"))
	for _, name := range []string{"SpawnSync", "SpawnAsync"} {
		fd := c.MustFunc("homescript/runtime", "VM", name)
		fn := actxVMMethod(c, name)
		key := "homescript/runtime.VM." + name + "|DeepCast every argument"
		ob := Obligation{Key: key, Pos: c.Pos(fd.Pos()), Nontrivial: true}
		inv := actxInvocationParam(fn)
		if inv == nil {
			ob.Status, ob.Detail = Undecided, "no parameter carries the invocation (argument list + declared signature)"
			out = append(out, ob)
			continue
		}
		fr := actxNewFrame(fn, nil, 0)
		root := fr.sym(inv)
		nsink, good, bad := actxCheckSpawn(c, fr, root, deepCast, base, all)
		switch {
		case nsink == 0:
			ob.Status, ob.Detail = Undecided, "no call that spawns a core (a function starting the goroutine that runs it) is reachable"
		case len(bad) > 0:
			ob.Status, ob.Detail = Violated, strings.Join(actxUniq(bad), " || ")
		default:
			ob.Status, ob.Detail = Discharged, strings.Join(actxUniq(good), "; ")
		}
		out = append(out, ob)
	}
	return out
}

// (e) ------------------------------------------------------------------------

// Decided per type kind on the SSA form: the handler (and the helpers it
// hands the invocation to) is evaluated with `ReturnType.Kind()` fixed to each
// constant of the kind enumeration, and once to "a kind different from every
// declared constant"; conditions that depend only on the kind are folded,
// whatever their syntactic form (switch, if-chain, early return, predicate
// helper). On every feasible non-exception return the value handed to the host
// must be the result of DeepCast against the declared return type.
func actxCastTermination(c *Ctx) []Obligation {
	fd := c.MustFunc("homescript/runtime", "VM", "HandleTermination")
	fn := actxVMMethod(c, "HandleTermination")
	deepCast := actxDeepCastFn(c)
	var out []Obligation
	ob := Obligation{Key: "homescript/runtime.VM.HandleTermination|DeepCast the result", Pos: c.Pos(fd.Pos()), Nontrivial: true}
	fail := func(st Status, d string) []Obligation {
		ob.Status, ob.Detail = st, d
		return append(out, ob)
	}
	inv := actxInvocationParam(fn)
	if inv == nil {
		return fail(Undecided, "no parameter carries the invocation (declared signature)")
	}
	// result record: the exception field (pointer) and the value field (interface)
	sig := fn.Signature
	if sig.Results().Len() != 1 {
		return fail(Undecided, "the termination handler does not return one result record")
	}
	resType, _ := sig.Results().At(0).Type().(*types.Named)
	var rst *types.Struct
	if resType != nil {
		rst, _ = resType.Underlying().(*types.Struct)
	}
	excField, valField := -1, -1
	if rst != nil {
		for i := 0; i < rst.NumFields(); i++ {
			switch rst.Field(i).Type().Underlying().(type) {
			case *types.Pointer:
				excField = i
			case *types.Interface:
				valField = i
			}
		}
	}
	if excField < 0 || valField < 0 {
		return fail(Undecided, "the result record has no exception / value field pair")
	}
	// the kind enumeration of the declared return type
	fr0 := actxNewFrame(fn, nil, 0)
	root := fr0.sym(inv)
	rtPath := root + ".FunctionSignature.ReturnType"
	var kindType types.Type
	if sf, ok := inv.Type().Underlying().(*types.Struct); ok {
		for i := 0; i < sf.NumFields(); i++ {
			if sf.Field(i).Name() != "FunctionSignature" {
				continue
			}
			if ss, ok := sf.Field(i).Type().Underlying().(*types.Struct); ok {
				for j := 0; j < ss.NumFields(); j++ {
					if ss.Field(j).Name() == "ReturnType" {
						ms := types.NewMethodSet(ss.Field(j).Type())
						for k := 0; k < ms.Len(); k++ {
							if ms.At(k).Obj().Name() == "Kind" {
								kindType = ms.At(k).Type().(*types.Signature).Results().At(0).Type()
							}
						}
					}
				}
			}
		}
	}
	if kindType == nil {
		return fail(Undecided, "the declared return type has no Kind() method")
	}
	enum := c.EnumOf(kindType)
	if enum == nil {
		return fail(Undecided, "the kind of the declared return type is not an enumeration")
	}
	run := func(assume actxAbs) ([]actxRetInfo, bool) {
		ev := &actxKindEval{c: c, assume: map[string]actxAbs{"Kind(" + rtPath + ")": assume}}
		ef := ev.newFrame(actxNewFrame(fn, nil, 0), map[*ssa.Parameter]actxAbs{})
		return ef.returns(resType, excField, valField, deepCast), true
	}
	// a kind that is none of the declared constants: the cast must not depend on an allow-list
	infos, _ := run(actxAbs{k: abOther})
	var why []string
	nval, ncast := 0, 0
	var und []string
	checkCall := func(info actxRetInfo) {
		call := info.cast
		if len(call.Call.Args) < 2 || info.castFr.sym(call.Call.Args[1]) != rtPath {
			why = append(why, "DeepCast is not given the declared return type")
		}
		if fs := actxFailSucc(call, 1); fs != nil && actxHasReturn(actxReach(fs)) {
			why = append(why, "a failed cast of the result does not stop (the handler still returns)")
		}
	}
	for _, info := range infos {
		if info.undecided != "" {
			und = append(und, info.undecided)
			continue
		}
		if info.exception {
			continue
		}
		nval++
		if info.cast == nil {
			why = append(why, fmt.Sprintf("for a type kind outside the explicitly skipped ones the return at %s is not cast: %s — new type kinds would bypass the cast", c.Pos(info.pos), info.why))
			continue
		}
		ncast++
		checkCall(info)
	}
	anyCast := false
	for _, b := range fn.Blocks {
		for _, ins := range b.Instrs {
			if call, ok := ins.(*ssa.Call); ok {
				if g := call.Call.StaticCallee(); g != nil && (g == deepCast || actxReachesFn(g, deepCast, 2)) {
					anyCast = true
				}
			}
		}
	}
	switch {
	case !anyCast:
		ob.Status, ob.Detail = Violated, "the value returned to the host is never DeepCast to the declared return type"
	case len(und) > 0:
		ob.Status, ob.Detail = Undecided, strings.Join(actxUniq(und), "; ")
	case nval == 0:
		ob.Status, ob.Detail = Undecided, "no return that hands a value to the host found"
	case len(why) > 0:
		ob.Status, ob.Detail = Violated, strings.Join(actxUniq(why), "; ")
	default:
		ob.Status, ob.Detail = Discharged, fmt.Sprintf("for every type kind that is not explicitly skipped, all %d value return(s) hand the host the result of DeepCast(top of the exited core's stack, invocation.FunctionSignature.ReturnType); a failed cast panics", ncast)
	}
	out = append(out, ob)
	if len(und) > 0 || !anyCast {
		return out
	}
	// kinds that are singled out (treated differently from "any other kind") and for
	// which no cast happens must carry no value
	otherUncast := map[token.Pos]bool{}
	for _, info := range infos {
		if info.undecided == "" && !info.exception && info.cast == nil {
			otherUncast[info.pos] = true
		}
	}
	valueless := map[string]bool{"NullTypeKind": true, "NeverTypeKind": true, "UnknownTypeKind": true}
	for _, k := range enum.Consts {
		infos, _ := run(actxAbs{k: abConst, c: k.Val()})
		skipped, pos := "", token.NoPos
		for _, info := range infos {
			if info.undecided == "" && !info.exception && info.cast == nil && !otherUncast[info.pos] {
				skipped, pos = info.why, info.pos
			}
		}
		if skipped == "" {
			continue
		}
		o := Obligation{Key: "homescript/runtime.VM.HandleTermination|no cast for " + k.Name(), Pos: c.Pos(pos), Nontrivial: true}
		if valueless[k.Name()] {
			o.Status, o.Detail = Discharged, k.Name()+" carries no value: nothing crosses the boundary"
		} else {
			o.Status, o.Detail = Violated, "a function whose declared return type is "+k.Name()+" leaves a value on the stack, but HandleTermination neither casts nor returns it ("+skipped+")"
		}
		out = append(out, o)
	}
	return out
}

// actxReachesFn: g reaches target through static calls (bounded depth).
func actxReachesFn(g, target *ssa.Function, depth int) bool {
	if g == target {
		return true
	}
	if depth == 0 || g.Blocks == nil {
		return false
	}
	for _, b := range g.Blocks {
		for _, ins := range b.Instrs {
			if ci, ok := ins.(ssa.CallInstruction); ok {
				if h := ci.Common().StaticCallee(); h != nil && h != g && actxReachesFn(h, target, depth-1) {
					return true
				}
			}
		}
	}
	return false
}

// (f) ------------------------------------------------------------------------

// The case of the VM's instruction dispatch for Opcode_Cast is found by the
// exported constant; the cast it executes is found on the SSA form as the
// DeepCast call (in that function between the clause's positions, or in a
// helper of the package called from there) whose type argument is the Type
// field of a compiler.CastInstruction. Every return reachable from the branch
// taken when the error result is non-nil must hand back the result of
// value.NewVMThrowInterrupt; a panic there is a host crash.
func actxCastVMCatchable(c *Ctx) []Obligation {
	p := c.Pkg("homescript/runtime")
	info := p.TypesInfo
	var out []Obligation
	n := 0
	deepCast := actxDeepCastFn(c)
	throwFn := c.SSAPkg("homescript/runtime/value").Func("NewVMThrowInterrupt")
	var castT types.Type
	if t := c.SSAPkg("homescript/compiler").Type("CastInstruction"); t != nil {
		castT = t.Type()
	}
	isCastInstrType := func(v ssa.Value) bool {
		// v = (load of) the Type field of a CastInstruction
		if u, ok := v.(*ssa.UnOp); ok && u.Op == token.MUL {
			v = u.X
		}
		var base types.Type
		switch x := v.(type) {
		case *ssa.FieldAddr:
			base = x.X.Type()
		case *ssa.Field:
			base = x.X.Type()
		default:
			return false
		}
		if pt, ok := base.Underlying().(*types.Pointer); ok {
			base = pt.Elem()
		}
		return castT != nil && types.Identical(base, castT)
	}
	var sites func(fn *ssa.Function, lo, hi token.Pos, depth int) []*ssa.Call
	sites = func(fn *ssa.Function, lo, hi token.Pos, depth int) []*ssa.Call {
		var res []*ssa.Call
		for _, b := range fn.Blocks {
			for _, ins := range b.Instrs {
				call, ok := ins.(*ssa.Call)
				if !ok || (lo.IsValid() && (call.Pos() < lo || call.Pos() > hi)) {
					continue
				}
				g := call.Call.StaticCallee()
				if g == nil {
					continue
				}
				if g == deepCast && len(call.Call.Args) >= 2 && isCastInstrType(call.Call.Args[1]) {
					res = append(res, call)
				} else if g.Pkg == fn.Pkg && g.Blocks != nil && depth < 2 && g != fn {
					res = append(res, sites(g, token.NoPos, token.NoPos, depth+1)...)
				}
			}
		}
		return res
	}
	for _, fd := range AllFuncDecls(p) {
		ast.Inspect(fd.Body, func(x ast.Node) bool {
			cc, ok := x.(*ast.CaseClause)
			if !ok {
				return true
			}
			isCast := false
			for _, e := range cc.List {
				if k := ConstOf(info, e); k != nil && k.Name() == "Opcode_Cast" {
					isCast = true
				}
			}
			if !isCast {
				return true
			}
			n++
			ob := Obligation{Key: "homescript/runtime." + FuncName(fd) + "|case Opcode_Cast|cast error is catchable", Pos: c.Pos(cc.Pos()), Nontrivial: true}
			fn := actxSSAOf(c, "homescript/runtime", fd)
			if fn == nil {
				ob.Status, ob.Detail = Undecided, "SSA form not found"
				out = append(out, ob)
				return false
			}
			calls := sites(fn, cc.Pos(), cc.End(), 0)
			if len(calls) == 0 {
				ob.Status, ob.Detail = Violated, "Opcode_Cast does not call DeepCast"
				out = append(out, ob)
				return false
			}
			var why []string
			for _, call := range calls {
				fs := actxFailSucc(call, 1)
				if fs == nil {
					why = append(why, "the error result of DeepCast is not turned into an interrupt")
					continue
				}
				reach := actxReach(fs)
				nret := 0
				for b := range reach {
					if len(b.Instrs) == 0 {
						continue
					}
					switch t := b.Instrs[len(b.Instrs)-1].(type) {
					case *ssa.Panic:
						// only a panic the failing branch cannot avoid counts; a shared later panic site does not
						if b == fs || fs.Dominates(b) {
							why = append(why, "a failed cast panics the host")
						}
					case *ssa.Return:
						if !(b == fs || fs.Dominates(b)) {
							// the failing branch rejoins the normal flow
							why = append(why, "the error result of DeepCast is not turned into an interrupt")
							continue
						}
						nret++
						okRet := false
						for _, r := range t.Results {
							v := r
							if mi, ok := v.(*ssa.MakeInterface); ok {
								v = mi.X
							}
							if cl, ok := v.(*ssa.Call); ok {
								if g := cl.Call.StaticCallee(); g != nil && g == throwFn {
									okRet = true
								} else if g != nil && actxIsErrType(cl.Type()) {
									why = append(why, "a failed cast returns "+g.Name()+"(…), not the catchable throw interrupt")
									okRet = true
								}
							}
						}
						if !okRet {
							why = append(why, "the error result of DeepCast is not turned into an interrupt")
						}
					}
				}
				if nret == 0 && len(why) == 0 {
					why = append(why, "the error result of DeepCast is not turned into an interrupt")
				}
			}
			if len(why) > 0 {
				ob.Status, ob.Detail = Violated, strings.Join(actxUniq(why), "; ")
			} else {
				ob.Status, ob.Detail = Discharged, "DeepCast failure returns value.NewVMThrowInterrupt (the kind the exception branch of Core.Run hands to try/catch)"
			}
			out = append(out, ob)
			return false
		})
	}
	if n == 0 {
		out = append(out, Obligation{Key: "homescript/runtime|case Opcode_Cast", Status: Undecided, Detail: "no case for Opcode_Cast found in package runtime"})
	}
	// interpreter twin: informational (class agreement is R-twin-tables' job)
	ip := c.Pkg("homescript/interpreter/value")
	if fd := FuncDecl(ip, "", "DeepCast"); fd != nil {
		fatal := len(actxCallsNamed(fd.Body, ip.TypesInfo, "NewRuntimeErr"))
		throw := len(actxCallsNamed(fd.Body, ip.TypesInfo, "NewThrowInterrupt"))
		if fatal > 0 {
			out = append(out, Obligation{Key: "homescript/interpreter/value.DeepCast|error class", Pos: c.Pos(fd.Pos()), Status: Info,
				Detail: fmt.Sprintf("the tree-walking interpreter reports cast failures through NewRuntimeErr(…, CastErrorKind) at %d sites (%d throw interrupts): a fatal interrupt that its tryExpression refuses to catch — twin disagreement with the VM (see R-twin-tables)", fatal, throw)})
		}
	}
	return out
}

// (g) ------------------------------------------------------------------------

// actxCastSupersedes: at every call of DeepCast outside the two cast libraries
// (both engines: interpreter let / `as`, VM Opcode_Cast, host arguments and
// results) the admitted value is the *result* of the cast: DeepCast converts
// while it validates (T into ?T, null into none, object into any-object, at
// every depth), so a site that only looks at the error and hands the original
// on admits a value that does not deeply conform to the target type. Per call
// site, on the SSA form of the calling function: (A) the value result is
// consumed (not discarded); (B) on the success path (the region dominated by
// the branch taken when the error result is nil; the rest of the block when
// the results are returned directly) the subject of the cast — the first
// argument, the pointer / element address it was loaded from — is not used any
// more (bound, pushed, stored, returned, merged with the result in a phi).
func actxCastSupersedes(c *Ctx) []Obligation {
	var out []Obligation
	targets := map[*ssa.Function]bool{}
	for _, rel := range []string{"homescript/runtime/value", "homescript/interpreter/value"} {
		if f := c.SSAPkg(rel).Func("DeepCast"); f != nil {
			targets[f] = true
		}
	}
	if len(targets) == 0 {
		fatalf("anchor unresolved: DeepCast")
	}
	n := 0
	for _, rel := range []string{"homescript/interpreter", "homescript/runtime", "homescript"} {
		if !c.HasPkg(rel) {
			continue
		}
		fns := actxAllFuncs(c.SSAPkg(rel))
		sort.Slice(fns, func(i, j int) bool { return fns[i].String() < fns[j].String() })
		ordOf := map[*ssa.Function]int{}
		for _, fn := range fns {
			for _, b := range fn.Blocks {
				for _, ins := range b.Instrs {
					call, ok := ins.(*ssa.Call)
					if !ok || !targets[call.Call.StaticCallee()] || len(call.Call.Args) < 1 {
						continue
					}
					n++
					ob := Obligation{Pos: c.Pos(call.Pos()), Nontrivial: true}
					emit := func(o Obligation) {
						// the site belongs to the function that supplies the subject: a helper that casts what
						// it is handed (the subject derives from its parameter) is attributed to its callers, so
						// that the construct keeps its key when the cast is moved into / out of a helper
						for _, owner := range actxCastOwners(fn, call.Call.Args[0], fns, 0) {
							ordOf[owner]++
							name := owner.Name()
							if owner.Signature.Recv() != nil {
								name = recvTypeNameOfSSA(owner) + "." + name
							}
							o2 := o
							o2.Key = fmt.Sprintf("%s.%s|DeepCast #%d|the cast result supersedes the subject", rel, name, ordOf[owner])
							if owner != fn {
								o2.Detail += " (cast performed in " + fn.Name() + ")"
							}
							out = append(out, o2)
						}
					}
					// (A) result consumed
					consumed := false
					var results []ssa.Value
					if refs := call.Referrers(); refs != nil {
						for _, r := range *refs {
							if ex, ok := r.(*ssa.Extract); ok && ex.Index == 0 {
								results = append(results, ex)
								if ex.Referrers() != nil {
									for _, r2 := range *ex.Referrers() {
										if _, dbg := r2.(*ssa.DebugRef); !dbg {
											consumed = true
										}
									}
								}
							}
							if _, isRet := r.(*ssa.Return); isRet {
								consumed = true
							}
						}
					}
					if !consumed {
						ob.Status, ob.Detail = Violated, "only the error result of DeepCast is looked at and the value result is discarded: the value that is handed on afterwards is the unconverted original (an int admitted for ?int stays an int, null admitted for an option stays null, an object admitted for an any-object keeps its static shape), so the admitted value does not deeply conform to the target type"
						emit(ob)
						continue
					}
					// (B) subject not used on the success path
					subjects := map[ssa.Value]bool{}
					x := call.Call.Args[0]
					if mi, ok := x.(*ssa.MakeInterface); ok {
						x = mi.X
					}
					subjects[x] = true
					if u, ok := x.(*ssa.UnOp); ok && u.Op == token.MUL {
						subjects[u.X] = true
					}
					inRegion := func(i ssa.Instruction) bool {
						if fs := actxFailSucc(call, 1); fs != nil {
							// the success successor: the other successor of the block that tests the error
							for _, p := range fs.Preds {
								if iff, ok := p.Instrs[len(p.Instrs)-1].(*ssa.If); ok && len(p.Succs) == 2 {
									_ = iff
									succ := p.Succs[0]
									if succ == fs {
										succ = p.Succs[1]
									}
									if succ != fs && (succ == i.Block() || succ.Dominates(i.Block())) {
										return true
									}
								}
							}
							return false
						}
						return actxInstrDominates(call, i)
					}
					var reuse []string
					for sv := range subjects {
						refs := sv.Referrers()
						if refs == nil {
							continue
						}
						for _, r := range *refs {
							if r == ssa.Instruction(call) {
								continue
							}
							if _, dbg := r.(*ssa.DebugRef); dbg {
								continue
							}
							if v, isVal := r.(ssa.Value); isVal && subjects[v] {
								continue // the load the subject itself came from
							}
							if inRegion(r) {
								reuse = append(reuse, c.Pos(actxInstrPos(r)))
							}
						}
					}
					if len(reuse) > 0 {
						sort.Strings(reuse)
						ob.Status, ob.Detail = Violated, "after a successful cast the original (unconverted) value is still used at "+strings.Join(actxUniq(reuse), ", ")+": what is bound / pushed / returned there is not the result of DeepCast, so the admitted value does not deeply conform to the target type"
					} else {
						ob.Status, ob.Detail = Discharged, "the value result of DeepCast is consumed and the subject is not used again on the success path"
					}
					emit(ob)
				}
			}
		}
	}
	if n == 0 {
		out = append(out, Obligation{Key: "DeepCast call sites", Status: Undecided, Detail: "no call of DeepCast outside the cast libraries found"})
	}
	return out
}

func recvTypeNameOfSSA(fn *ssa.Function) string {
	t := fn.Signature.Recv().Type()
	if p, ok := t.(*types.Pointer); ok {
		t = p.Elem()
	}
	if n, ok := t.(*types.Named); ok {
		return n.Obj().Name()
	}
	return t.String()
}

// actxInstrPos: a position for an instruction (phis and loads have none of their own).
func actxInstrPos(i ssa.Instruction) token.Pos {
	if p := i.Pos(); p.IsValid() {
		return p
	}
	if v, ok := i.(ssa.Value); ok && v.Referrers() != nil {
		for _, r := range *v.Referrers() {
			if p := r.Pos(); p.IsValid() {
				return p
			}
		}
	}
	for _, x := range i.Block().Instrs {
		if p := x.Pos(); p.IsValid() {
			return p
		}
	}
	return i.Parent().Pos()
}

// actxCastOwners: the functions a cast site is attributed to. When the subject
// of the cast derives from a parameter of the (unexported) function that
// contains the call, the function is a helper casting what it is handed: the
// site belongs to its static callers in the package (followed two levels).
func actxCastOwners(fn *ssa.Function, subject ssa.Value, pkgFns []*ssa.Function, depth int) []*ssa.Function {
	fr := actxNewFrame(fn, nil, 0)
	s := fr.sym(subject)
	if depth >= 2 || !strings.HasPrefix(s, "$"+fn.Name()+".") || fn.Object() == nil || fn.Object().Exported() {
		return []*ssa.Function{fn}
	}
	// which parameter?
	var param *ssa.Parameter
	for _, p := range fn.Params {
		ps := fr.sym(p)
		if s == ps || strings.HasPrefix(s, ps+".") || strings.HasPrefix(s, ps+"[") {
			param = p
		}
	}
	if param == nil {
		return []*ssa.Function{fn}
	}
	idx := 0
	for i, p := range fn.Params {
		if p == param {
			idx = i
		}
	}
	var owners []*ssa.Function
	seen := map[*ssa.Function]bool{}
	for _, g := range pkgFns {
		for _, b := range g.Blocks {
			for _, ins := range b.Instrs {
				ci, ok := ins.(ssa.CallInstruction)
				if !ok || ci.Common().StaticCallee() != fn || idx >= len(ci.Common().Args) {
					continue
				}
				for _, o := range actxCastOwners(g, ci.Common().Args[idx], pkgFns, depth+1) {
					if !seen[o] {
						seen[o] = true
						owners = append(owners, o)
					}
				}
			}
		}
	}
	if len(owners) == 0 {
		return []*ssa.Function{fn}
	}
	sort.Slice(owners, func(i, j int) bool { return owners[i].String() < owners[j].String() })
	return owners
}

// (h) ------------------------------------------------------------------------

// actxCastExprAlways: wherever an engine gets hold of an analysed cast
// expression (`expr as T`: a value of type AnalyzedCastExpression, obtained by
// a type assertion in a dispatcher or received as a parameter), every normal
// path from there to the end of the function performs the cast against the
// node's AsType: the compiler emits a CastInstruction built from it, the
// interpreter calls DeepCast with it (directly or in a helper of the package
// that always does). Whether a cast can be skipped is not for the engine to
// decide from the shape of the static types: `?any as ?T`, `[any] as [T]`, an
// any-object accessor — same Kind() on both sides, yet the dynamic value must
// be validated. The only skip a path may take is one decided by the analyzer,
// i.e. a branch on a boolean field of the node itself.
func actxCastExprAlways(c *Ctx) []Obligation {
	var out []Obligation
	var castT types.Type
	if t := c.SSAPkg("homescript/compiler").Type("CastInstruction"); t != nil {
		castT = t.Type()
	}
	deep := map[*ssa.Function]bool{}
	for _, rel := range []string{"homescript/runtime/value", "homescript/interpreter/value"} {
		if f := c.SSAPkg(rel).Func("DeepCast"); f != nil {
			deep[f] = true
		}
	}
	inserters := actxInserters(c)
	isCastNode := func(t types.Type) bool {
		n, ok := t.(*types.Named)
		return ok && n.Obj().Name() == "AnalyzedCastExpression" && n.Obj().Pkg() != nil && strings.HasSuffix(n.Obj().Pkg().Path(), "/analyzer/ast")
	}
	n := 0
	for _, rel := range []string{"homescript/compiler", "homescript/interpreter"} {
		fns := actxAllFuncs(c.SSAPkg(rel))
		sort.Slice(fns, func(i, j int) bool { return fns[i].String() < fns[j].String() })
		for _, fn := range fns {
			type occ struct {
				v    ssa.Value
				from ssa.Instruction // nil: function entry
			}
			var occs []occ
			for _, p := range fn.Params {
				if isCastNode(p.Type()) {
					occs = append(occs, occ{v: p})
				}
			}
			for _, b := range fn.Blocks {
				for _, ins := range b.Instrs {
					if ta, ok := ins.(*ssa.TypeAssert); ok && !ta.CommaOk && isCastNode(ta.AssertedType) {
						occs = append(occs, occ{v: ta, from: ta})
					}
				}
			}
			if len(occs) == 0 {
				continue
			}
			name := fn.Name()
			if fn.Signature.Recv() != nil {
				name = recvTypeNameOfSSA(fn) + "." + name
			}
			for i, o := range occs {
				n++
				key := fmt.Sprintf("%s.%s|cast expression|the cast is performed on every path", rel, name)
				if len(occs) > 1 {
					key = fmt.Sprintf("%s.%s|cast expression #%d|the cast is performed on every path", rel, name, i+1)
				}
				pos := fn.Pos()
				if o.from != nil {
					pos = o.from.Pos()
				}
				ob := Obligation{Key: key, Pos: c.Pos(pos), Nontrivial: true}
				ev := &actxKindEval{c: c}
				ef := ev.newFrame(actxNewFrame(fn, nil, 0), map[*ssa.Parameter]actxAbs{})
				root := ef.fr.sym(o.v)
				if actxUnknownSym(root) {
					ob.Status, ob.Detail = Undecided, "the cast node cannot be traced to a parameter of the function"
					out = append(out, ob)
					continue
				}
				want := root + ".AsType"
				hit := func(f *actxEvalFrame, ins ssa.Instruction) bool {
					if mi, mfr := actxCastEmitted(f, ins, castT, inserters); mi != nil {
						for _, a := range actxCastTypeArgs(mi, mfr) {
							if a == want {
								actxLogCastMode("as|"+relPkg(fn.Pkg.Pkg.Path())[len("homescript/"):], c.Pos(actxInstrPos(ins)), actxCastInstrMode(mi, mfr))
								return true
							}
						}
					}
					switch x := ins.(type) {
					case ssa.CallInstruction:
						cc := x.Common()
						if g := cc.StaticCallee(); g != nil && deep[g] && len(cc.Args) >= 2 && f.fr.sym(cc.Args[1]) == want {
							actxLogCastMode("as|"+relPkg(fn.Pkg.Pkg.Path())[len("homescript/"):], c.Pos(ins.Pos()), actxDeepCastMode(f.fr, x))
							return true
						}
					}
					return false
				}
				// blocks reachable from the occurrence
				var start *ssa.BasicBlock
				startIdx := 0
				if o.from != nil {
					start, startIdx = o.from.Block(), actxInstrIndex(o.from)+1
				} else {
					start = fn.Blocks[0]
				}
				reach := actxReach(start)
				hitBlock := map[*ssa.BasicBlock]bool{}
				stack := map[*ssa.Function]bool{fn: true}
				var order []*ssa.BasicBlock
				for _, b := range fn.Blocks {
					if reach[b] {
						order = append(order, b)
					}
				}
				for _, b := range order {
					for idx, ins := range b.Instrs {
						if b == start && idx < startIdx {
							continue
						}
						if hit(ef, ins) {
							hitBlock[b] = true
							break
						}
						call, ok := ins.(*ssa.Call)
						if !ok {
							continue
						}
						g := call.Call.StaticCallee()
						if g == nil || g.Pkg != fn.Pkg || stack[g] || g.Blocks == nil {
							continue
						}
						// only helpers that are handed (part of) the node
						gets := false
						for _, a := range call.Call.Args {
							if sa := ef.fr.sym(a); sa == root || strings.HasPrefix(sa, root+".") {
								gets = true
							}
						}
						if !gets {
							continue
						}
						if sub := ef.enter(&call.Call); sub != nil {
							stack[g] = true
							okSub := sub.mustPass(hit, stack)
							delete(stack, g)
							if okSub {
								hitBlock[b] = true
								break
							}
						}
					}
				}
				// a path to a normal return that avoids every hit; a branch on a boolean field of the node is the analyzer's decision
				var witness *ssa.Return
				var skipCond string
				seen := map[*ssa.BasicBlock]bool{}
				work := []*ssa.BasicBlock{start}
				for len(work) > 0 && witness == nil {
					b := work[len(work)-1]
					work = work[:len(work)-1]
					if seen[b] || hitBlock[b] {
						continue
					}
					seen[b] = true
					if len(b.Instrs) == 0 {
						continue
					}
					switch t := b.Instrs[len(b.Instrs)-1].(type) {
					case *ssa.Return:
						if !actxErrorReturn(t) {
							witness = t
						}
					case *ssa.If:
						cs := ef.fr.sym(t.Cond)
						if u, ok := t.Cond.(*ssa.UnOp); ok && u.Op == token.NOT {
							cs = ef.fr.sym(u.X)
						}
						if strings.HasPrefix(cs, root+".") && !strings.Contains(cs[len(root)+1:], ".") && !strings.Contains(cs, "(") {
							if bt, ok := t.Cond.Type().Underlying().(*types.Basic); ok && bt.Kind() == types.Bool {
								skipCond = cs
								continue // both sides are the analyzer's decision
							}
						}
						work = append(work, b.Succs...)
					default:
						work = append(work, b.Succs...)
					}
				}
				switch {
				case len(hitBlock) == 0:
					ob.Status, ob.Detail = Violated, "the cast against the node's AsType is never performed (no CastInstruction built from it is emitted, DeepCast is not called with it)"
				case witness != nil:
					ob.Status, ob.Detail = Violated, "a path from the cast node to the return at "+c.Pos(actxInstrPos(witness))+" performs no cast against AsType: the skip is decided by the engine (static type kinds or other conditions), not by the analyzer; a same-kind cast such as `?any as ?T` or `[any] as [T]` then lets an unvalidated value through"
				default:
					ob.Status, ob.Detail = Discharged, "every normal path performs the cast against AsType"
					if skipCond != "" {
						ob.Detail += " (except under the analyzer-decided flag " + skipCond + ")"
					}
				}
				out = append(out, ob)
			}
		}
	}
	if n == 0 {
		out = append(out, Obligation{Key: "cast expression", Status: Undecided, Detail: "no engine function handles an AnalyzedCastExpression"})
	}
	return out
}

// (i) ------------------------------------------------------------------------

// actxCastModeLog: construct ("let" / "as") | engine → cast site → the constant
// conversion mode with which the cast is performed there ("true": scalar
// conversions allowed, "false": validation only, "?": not a constant).
var actxCastModeLog map[string]map[string]string

func actxLogCastMode(key, site, mode string) {
	if actxCastModeLog == nil {
		actxCastModeLog = map[string]map[string]string{}
	}
	if actxCastModeLog[key] == nil {
		actxCastModeLog[key] = map[string]string{}
	}
	actxCastModeLog[key][site] = mode
}

func actxConstMode(v ssa.Value, fr *actxFrame) string {
	o, _ := fr.origin(v)
	if k, ok := o.(*ssa.Const); ok && k.Value != nil && k.Value.Kind() == constant.Bool {
		if constant.BoolVal(k.Value) {
			return "true"
		}
		return "false"
	}
	return "?"
}

// actxCastInstrMode: the AllowCast constant of the CastInstruction behind the
// conversion mi (made in frame fr): the value stored into the exported field
// AllowCast — in the literal itself, or in the constructor that returns the
// instruction, traced through the parameters of the helpers on the way.
func actxCastInstrMode(mi *ssa.MakeInterface, fr *actxFrame) string {
	modeIn := func(fn *ssa.Function, f *actxFrame, only *ssa.Alloc) (string, bool) {
		for _, b := range fn.Blocks {
			for _, ins := range b.Instrs {
				st, ok := ins.(*ssa.Store)
				if !ok {
					continue
				}
				fa, ok := st.Addr.(*ssa.FieldAddr)
				if !ok || actxFieldName(fa.X.Type(), fa.Field) != "AllowCast" {
					continue
				}
				if only != nil && fa.X != ssa.Value(only) {
					continue
				}
				return actxConstMode(st.Val, f), true
			}
		}
		return "", false
	}
	switch x := mi.X.(type) {
	case *ssa.Call:
		if sub := fr.enter(&x.Call); sub != nil {
			if m, ok := modeIn(sub.fn, sub, nil); ok {
				return m
			}
			return "false" // the field keeps its zero value
		}
	case *ssa.UnOp:
		if al, ok := x.X.(*ssa.Alloc); ok {
			if m, ok := modeIn(fr.fn, fr, al); ok {
				return m
			}
			return "false"
		}
	}
	return "?"
}

// actxDeepCastMode: the constant passed for DeepCast's boolean parameter.
func actxDeepCastMode(fr *actxFrame, call ssa.CallInstruction) string {
	for _, a := range call.Common().Args {
		if bt, ok := a.Type().Underlying().(*types.Basic); ok && bt.Kind() == types.Bool {
			return actxConstMode(a, fr)
		}
	}
	return "?"
}

// actxCastModesAgree: the two engines perform the cast of the same construct
// in the same mode. DeepCast / Opcode_Cast either only validate (allowCast =
// false: a float is not an int) or also convert between the scalar kinds
// (allowCast = true). For each construct that crosses the dynamic→static
// boundary inside a program — the runtime validation of `let x: T = <any>`
// and the cast expression `expr as T` — the AllowCast constant of the
// CastInstruction the compiler emits (found on the paths that parts (b) and
// (h) walk, helpers entered with their arguments substituted) must be a
// constant and equal the constant the interpreter hands to DeepCast at its
// twin site; otherwise the same accepted program yields a converted value in
// one engine and a cast error in the other.
func actxCastModesAgree(c *Ctx) []Obligation {
	var out []Obligation
	for _, con := range []struct{ tag, what string }{{"let", "let validation"}, {"as", "cast expression"}} {
		ob := Obligation{Key: "homescript|" + con.what + "|cast mode agrees between compiler and interpreter", Nontrivial: true}
		comp, interp := actxCastModeLog[con.tag+"|compiler"], actxCastModeLog[con.tag+"|interpreter"]
		describe := func(m map[string]string) (string, map[string]bool) {
			var sites []string
			modes := map[string]bool{}
			for s, v := range m {
				sites = append(sites, s+" allowCast="+v)
				modes[v] = true
			}
			sort.Strings(sites)
			return strings.Join(sites, ", "), modes
		}
		cs, cm := describe(comp)
		is, im := describe(interp)
		switch {
		case len(comp) == 0 || len(interp) == 0:
			ob.Status, ob.Detail = Undecided, "no cast site found for the "+con.what+" in one of the engines (compiler: "+cs+"; interpreter: "+is+")"
		case cm["?"] || im["?"]:
			ob.Status, ob.Detail = Undecided, "the conversion mode is not a constant at some site (compiler: "+cs+"; interpreter: "+is+")"
		case len(cm) == 1 && len(im) == 1 && (cm["true"] == im["true"]):
			ob.Status, ob.Detail = Discharged, "compiler: "+cs+"; interpreter: "+is
		default:
			ob.Status, ob.Detail = Violated, "the "+con.what+" is cast in different modes — compiler: "+cs+"; interpreter: "+is+": with allowCast=true a float or bool is silently converted (e.g. into an int annotation), with allowCast=false the same value raises the cast error, so the engines disagree on accepted programs"
		}
		out = append(out, ob)
	}
	return out
}
