package main

// r3print: R-print-payload (literal payloads are printed losslessly, inside the
// literal grammar, escaped when quoted, and alike by twin printers) and
// R-print-bare-guard (a text that is printed bare under a guard predicate is
// never a keyword). Both read the per-path symbolic results of the printers
// computed by r2pPrintRun (rules_r2print_print.go): every hole of a returned
// string carries the chain of formatting steps applied to the field's value.

import (
	"fmt"
	"go/ast"
	"go/constant"
	"go/types"
	"regexp"
	"sort"
	"strings"
)

func init() {
	register(&Rule{ID: "R-print-payload", Floor: 14, Run: ruleR3pPayload,
		Doc: "For every String() method of a node struct of parser/ast and analyzer/ast and every field whose text it inserts into the result, the chain of formatting steps applied to the field's value on each path " +
			"(conversions, fmt verbs, strconv calls, module helpers, string post-processing) is extracted from the symbolic result. " +
			"(1) A literal payload (a field of unnamed basic type: int/float/bool/string) is formatted by a value-preserving chain: ints in decimal (%d, %v, Sprint, Itoa, FormatInt base 10); floats by a shortest-round-trip formatter " +
			"(%v, Sprint, %g without precision, FormatFloat(_, _, -1, 64)) — never a fixed precision (%f, %.3f, %e) nor bit size 32; a narrowing conversion (float -> int64) only on paths that tested its exactness " +
			"(`float64(int64(x)) == x`); no trimming / slicing / case mapping of the formatted text. (2) A float's text stays inside the `number` production of grammar.ebnf: when that production has no exponent part, " +
			"formatters that may emit one (%v, %g, %e, FormatFloat 'g'/'e') are reported. (3) Text printed between double quotes passes through a module helper string -> string (the escaper; its table is R-lexeme-tables' business). " +
			"(4) Twin structs format same-named payload fields by the same classes of chains. " +
			"Necessary: the printed program is lexed again; a literal printed with fewer digits, in another base, in exponent notation or with an unescaped quote is another program or none (C19, and C20 through the serialisation between fuzzer and analyzer)."})
	register(&Rule{ID: "R-print-bare-guard", Floor: 3, Run: ruleR3pBareGuard,
		Doc: "Where a printer prints a name / string field bare on the paths on which a string predicate of the module (e.g. util.IsIdent) gave a certain answer about that text, and in another form otherwise, " +
			"the bare form must never be chosen for a keyword: the predicate is partially evaluated (constant folding of its body, including the helpers it calls) on every keyword spelling of the lexer's keyword switch, " +
			"and must give the opposite answer for each. Necessary: a bare keyword is lexed as the keyword token, which the grammar does not accept where an identifier or string is expected, so the printed program is rejected (C19)."})
}

// ---------------------------------------------------------------------------
// R-print-payload
// ---------------------------------------------------------------------------

type r3pKind int

const (
	r3pOther r3pKind = iota
	r3pInt
	r3pFloat
	r3pString
	r3pBool
	r3pText
)

func (k r3pKind) String() string {
	return [...]string{"other", "int", "float", "string", "bool", "text"}[k]
}

func r3pKindOfBasic(b *types.Basic) r3pKind {
	switch {
	case b.Info()&types.IsInteger != 0:
		return r3pInt
	case b.Info()&types.IsFloat != 0:
		return r3pFloat
	case b.Info()&types.IsString != 0:
		return r3pString
	case b.Info()&types.IsBoolean != 0:
		return r3pBool
	}
	return r3pOther
}

// payload kind of a field: unnamed basic type only (named scalars are operators / enums with their own printers)
func r3pPayloadKind(f *travField) r3pKind {
	if f.Class != tfScalar {
		return r3pOther
	}
	if b, ok := types.Unalias(f.Var.Type()).(*types.Basic); ok {
		return r3pKindOfBasic(b)
	}
	return r3pOther
}

var r3pVerbParts = regexp.MustCompile(`^%([-+# 0]*)([0-9]*)(\.[0-9]*)?([a-zA-Z])$`)

type r3pVerdict struct {
	lossy     string // reason, "" when value preserving
	undecided string
	exponent  string // formatter that may produce exponent notation
	norm      []string
	helper    bool
}

func r3pJudge(kind r3pKind, rec *r2pFmtRec) r3pVerdict {
	var v r3pVerdict
	cur := kind
	lossy := func(format string, a ...any) {
		if v.lossy == "" {
			v.lossy = fmt.Sprintf(format, a...)
		}
	}
	for _, op := range rec.chain {
		switch {
		case strings.HasPrefix(op, "conv:"):
			t := strings.TrimPrefix(op, "conv:")
			v.norm = append(v.norm, op)
			isInt := strings.HasPrefix(t, "int") || strings.HasPrefix(t, "uint") || t == "rune" || t == "byte"
			wide := t == "int" || t == "int64" || t == "uint64" || t == "uint"
			switch {
			case cur == r3pFloat && isInt:
				if !rec.exact[t] {
					lossy("the float is converted to %s without a test that the conversion is exact (`float64(%s(x)) == x`) on that path", t, t)
				}
				cur = r3pInt
			case cur == r3pFloat && t == "float32":
				lossy("the float is narrowed to float32")
			case cur == r3pFloat && t == "float64":
			case cur == r3pInt && isInt:
				if !wide {
					lossy("the integer is narrowed to %s", t)
				}
			case cur == r3pInt && strings.HasPrefix(t, "float"):
				cur = r3pFloat
			case cur == r3pString && t == "string":
			default:
				if cur != r3pOther && cur != r3pText {
					v.undecided = fmt.Sprintf("conversion of a %s to %s", cur, t)
				}
			}
		case strings.HasPrefix(op, "%"):
			mm := r3pVerbParts.FindStringSubmatch(op)
			if mm == nil {
				v.undecided = "verb " + op
				break
			}
			letter, prec := mm[4], mm[3]
			switch cur {
			case r3pInt:
				if letter != "d" && letter != "v" {
					lossy("the integer is printed with %s, which is not the decimal notation the lexer reads", op)
				}
				v.norm = append(v.norm, "decimal")
			case r3pFloat:
				switch letter {
				case "v":
					v.exponent = op
				case "g", "G":
					v.exponent = op
					if prec != "" {
						lossy("the float is printed with the fixed precision of %s", op)
					}
				case "e", "E":
					v.exponent = op
					lossy("the float is printed with %s, i.e. with a fixed precision (default 6 digits)", op)
				case "f", "F":
					lossy("the float is printed with %s, i.e. with a fixed number of fractional digits (default 6): further digits are rounded away", op)
				default:
					lossy("the float is printed with %s", op)
				}
				if letter == "v" || ((letter == "g" || letter == "G") && prec == "") {
					v.norm = append(v.norm, "shortest-g")
				} else {
					v.norm = append(v.norm, op)
				}
			case r3pString:
				switch letter {
				case "s", "v":
					v.norm = append(v.norm, "text")
				case "q":
					v.norm = append(v.norm, "go-quote")
				default:
					lossy("the string is printed with %s", op)
					v.norm = append(v.norm, op)
				}
			case r3pBool:
				if letter != "t" && letter != "v" {
					lossy("the bool is printed with %s", op)
				}
				v.norm = append(v.norm, "bool")
			default:
				if letter != "s" && letter != "v" {
					v.norm = append(v.norm, op)
				}
			}
			if cur != r3pOther {
				cur = r3pText
			}
		case strings.HasPrefix(op, "FormatFloat("):
			var fc rune
			var pr, bs int
			if _, err := fmt.Sscanf(op, "FormatFloat('%c',%d,%d)", &fc, &pr, &bs); err != nil {
				v.undecided = "strconv.FormatFloat with non-constant format arguments"
				break
			}
			if pr != -1 {
				lossy("strconv.FormatFloat is called with the fixed precision %d (only -1 gives the shortest text that parses back to the same value)", pr)
			}
			if bs != 64 {
				lossy("strconv.FormatFloat is called with bit size %d: the shortest text is computed for a float%d, about 7 significant digits survive", bs, bs)
			}
			switch fc {
			case 'g', 'G', 'e', 'E':
				v.exponent = op
			}
			if fc == 'g' && pr == -1 && bs == 64 {
				v.norm = append(v.norm, "shortest-g")
			} else {
				v.norm = append(v.norm, op)
			}
			cur = r3pText
		case strings.HasPrefix(op, "FormatInt("):
			lossy("the integer is printed by %s, not in base 10", op)
			v.norm = append(v.norm, op)
			cur = r3pText
		case strings.HasPrefix(op, "helper:"):
			v.helper = true
			v.norm = append(v.norm, "helper")
			cur = r3pText
		case strings.HasPrefix(op, "method:"):
			v.norm = append(v.norm, op)
			cur = r3pText
		case op == "Quote":
			v.norm = append(v.norm, "go-quote")
			cur = r3pText
		case op == "trim", op == "slice", op == "case", op == "replace":
			if kind != r3pOther {
				lossy("the formatted text of the payload is altered afterwards (%s): characters of the value can be removed or changed", op)
			}
			v.norm = append(v.norm, op)
		default:
			if kind != r3pOther {
				v.undecided = "the value passes through " + op + ", which the rule cannot see through"
			}
			v.norm = append(v.norm, op)
		}
	}
	return v
}

// r3pNumberHasExponent: does the `number` production of grammar.ebnf have an exponent part?
func r3pNumberHasExponent(c *Ctx) (bool, string) {
	g := readGrammar(c)
	m := regexp.MustCompile(`(?s)\n\s*number\s*=(.*?);`).FindStringSubmatch("\n" + g)
	if m == nil {
		return false, ""
	}
	prod := m[1]
	return regexp.MustCompile(`'[eE]'|"[eE]"`).MatchString(prod), strings.Join(strings.Fields(prod), " ")
}

func ruleR3pPayload(c *Ctx) []Obligation {
	res := r2pPrintRun(c)
	m := travGetModel(c)
	hasExp, numberProd := r3pNumberHasExponent(c)
	var obs []Obligation
	if numberProd == "" {
		obs = append(obs, Obligation{Key: "<anchor>|number production of grammar.ebnf", Status: Undecided, Detail: "grammar.ebnf has no production `number = … ;`"})
	}
	norms := map[*travStruct]map[string][]string{} // struct -> field -> sorted normal forms
	for _, mi := range res.methods {
		keyBase := travFuncKey(mi.pkg, mi.fd)
		var fields []string
		for f := range mi.fmts {
			fields = append(fields, f)
		}
		sort.Strings(fields)
		for _, fname := range fields {
			f := mi.s.Field(fname)
			kind := r3pPayloadKind(f)
			recs := mi.fmts[fname]
			var keys []string
			for k := range recs {
				keys = append(keys, k)
			}
			sort.Strings(keys)
			// (3) quoted text is escaped
			var unescaped []string
			nq := 0
			for _, k := range keys {
				rec := recs[k]
				if !rec.quoted {
					continue
				}
				nq++
				if v := r3pJudge(kind, rec); !v.helper {
					unescaped = append(unescaped, fmt.Sprintf("chain [%s] on the path returning %s", strings.Join(rec.chain, " "), rec.witness))
				}
			}
			if nq > 0 {
				ob := Obligation{Key: keyBase + "|" + fname + "|quoted text passes the escaper", Pos: c.Pos(mi.fd.Pos()), Nontrivial: true}
				if len(unescaped) == 0 {
					ob.Status, ob.Detail = Discharged, fmt.Sprintf("%s.%s is printed between double quotes only after a string -> string helper of the module", mi.s.Short(), fname)
				} else {
					ob.Status = Violated
					ob.Detail = fmt.Sprintf("%s.String() prints %s.%s between double quotes without passing it through an escaping helper (%s): a value that contains `\"`, `\\` or a line break ends the literal early / does not lex back to the same text",
						mi.s.Short(), mi.s.Short(), fname, strings.Join(unescaped, "; "))
				}
				obs = append(obs, ob)
			}
			if kind == r3pOther {
				continue
			}
			// (1) lossless, (2) grammar
			var lossy, undec, expo []string
			var nf []string
			for _, k := range keys {
				rec := recs[k]
				v := r3pJudge(kind, rec)
				form := strings.Join(v.norm, " ")
				if rec.quoted {
					form = "quoted " + form
				}
				nf = append(nf, form)
				w := fmt.Sprintf("[%s] (path returning %s)", strings.Join(rec.chain, " "), rec.witness)
				if v.lossy != "" {
					lossy = append(lossy, v.lossy+" "+w)
				} else if v.undecided != "" {
					undec = append(undec, v.undecided+" "+w)
				}
				if v.exponent != "" {
					expo = append(expo, v.exponent+" "+w)
				}
			}
			sort.Strings(nf)
			if norms[mi.s] == nil {
				norms[mi.s] = map[string][]string{}
			}
			norms[mi.s][fname] = nf
			ob := Obligation{Key: keyBase + "|" + fname + "|payload is formatted losslessly", Pos: c.Pos(mi.fd.Pos()), Nontrivial: true}
			switch {
			case len(lossy) > 0:
				ob.Status = Violated
				ob.Detail = fmt.Sprintf("%s.%s (%s payload): %s — the printed literal denotes another value than the node holds", mi.s.Short(), fname, kind, strings.Join(lossy, "; "))
			case len(undec) > 0:
				ob.Status, ob.Detail = Undecided, fmt.Sprintf("%s.%s (%s payload): %s", mi.s.Short(), fname, kind, strings.Join(undec, "; "))
			default:
				ob.Status, ob.Detail = Discharged, fmt.Sprintf("%s.%s (%s payload) is formatted by value-preserving chains only: %s", mi.s.Short(), fname, kind, strings.Join(keys, " | "))
			}
			obs = append(obs, ob)
			if kind == r3pFloat && numberProd != "" {
				ob := Obligation{Key: keyBase + "|" + fname + "|float text stays inside the number grammar", Pos: c.Pos(mi.fd.Pos()), Nontrivial: true}
				switch {
				case hasExp || len(expo) == 0:
					ob.Status, ob.Detail = Discharged, "no formatter of this float can produce text outside `number = "+numberProd+"`"
				default:
					ob.Status = Violated
					ob.Detail = fmt.Sprintf("%s.%s is formatted by %s, which switches to exponent notation for values below 1e-4 or from 1e21 (0.00001 -> `1e-05`), but grammar.ebnf has `number = %s` without an exponent part: "+
						"the printed literal does not lex as one number. strconv.FormatFloat(v, 'f', -1, 64) is both exact and inside the grammar", mi.s.Short(), fname, strings.Join(expo, "; "), numberProd)
				}
				obs = append(obs, ob)
			}
		}
	}
	// (4) twins
	for _, a := range m.sortedStructs() {
		if !m.inA(a.T) || a.Twin == nil || norms[a] == nil || norms[a.Twin] == nil {
			continue
		}
		var fields []string
		for f := range norms[a] {
			fields = append(fields, f)
		}
		sort.Strings(fields)
		for _, f := range fields {
			pn, ok := norms[a.Twin][f]
			if !ok {
				continue
			}
			an := norms[a][f]
			ob := Obligation{Key: a.Twin.Short() + "~" + a.Short() + "|" + f + "|twins format the payload alike", Pos: c.Pos(res.infos[a].fd.Pos()), Nontrivial: true}
			if strings.Join(an, "|") == strings.Join(pn, "|") {
				ob.Status, ob.Detail = Discharged, fmt.Sprintf("both printers format %s by %q", f, an)
			} else {
				ob.Status = Violated
				ob.Detail = fmt.Sprintf("%s.String() formats the payload %s by %q, its twin %s.String() by %q: the same literal is printed as different text by the two printers, at least one of them does not match the lexer",
					a.Short(), f, an, a.Twin.Short(), pn)
			}
			obs = append(obs, ob)
		}
	}
	return obs
}

// ---------------------------------------------------------------------------
// R-print-bare-guard
// ---------------------------------------------------------------------------

// r3pKeywords: the spellings of the lexer's keyword switch (the switch over string constants with the most cases
// whose clauses assign / return a constant of the token kind type). Spellings whose token kind the parser accepts
// wherever it accepts the identifier kind (the kind of the switch's default clause) — the wildcard `_` — are not
// keywords in the sense of this rule and are returned separately.
func r3pKeywords(c *Ctx) (kws []string, identLike []string, where string) {
	p := c.Pkg("homescript/lexer")
	info := p.TypesInfo
	kindOf := func(body []ast.Stmt) *types.Const {
		var k *types.Const
		for _, s := range body {
			ast.Inspect(s, func(z ast.Node) bool {
				if e, ok := z.(ast.Expr); ok && k == nil {
					if kk := ConstOf(info, e); kk != nil {
						if _, named := types.Unalias(kk.Type()).(*types.Named); named {
							k = kk
						}
					}
				}
				return true
			})
		}
		return k
	}
	var best map[string]*types.Const
	var ident *types.Const
	for _, fd := range AllFuncDecls(p) {
		ast.Inspect(fd.Body, func(n ast.Node) bool {
			sw, ok := n.(*ast.SwitchStmt)
			if !ok || sw.Tag == nil {
				return true
			}
			ks := map[string]*types.Const{}
			var def *types.Const
			for _, cl := range sw.Body.List {
				cc := cl.(*ast.CaseClause)
				k := kindOf(cc.Body)
				if cc.List == nil {
					def = k
					continue
				}
				if k == nil {
					continue
				}
				for _, e := range cc.List {
					if tv := info.Types[e]; tv.Value != nil && tv.Value.Kind() == constant.String {
						ks[constant.StringVal(tv.Value)] = k
					}
				}
			}
			if len(ks) >= 5 && len(ks) > len(best) {
				best, ident, where = ks, def, travFuncKeyAny(p, fd)
			}
			return true
		})
	}
	// the same table written as a map literal `map[string]<kind>{"fn": Fn, …}`; the identifier kind is then the kind
	// constant assigned in the function that looks a spelling up in the map (the not-found branch)
	if len(best) < 5 {
		var tableObj types.Object
		for _, f := range p.Syntax {
			ast.Inspect(f, func(n ast.Node) bool {
				lit, ok := n.(*ast.CompositeLit)
				if !ok {
					return true
				}
				mt, ok := types.Unalias(info.TypeOf(lit)).Underlying().(*types.Map)
				if !ok || !r2pIsString(mt.Key()) {
					return true
				}
				if _, named := types.Unalias(mt.Elem()).(*types.Named); !named {
					return true
				}
				ks := map[string]*types.Const{}
				for _, el := range lit.Elts {
					kv, ok := el.(*ast.KeyValueExpr)
					if !ok {
						continue
					}
					tv := info.Types[kv.Key]
					k := ConstOf(info, kv.Value)
					if tv.Value != nil && tv.Value.Kind() == constant.String && k != nil {
						ks[constant.StringVal(tv.Value)] = k
					}
				}
				if len(ks) >= 5 && len(ks) > len(best) {
					best, where = ks, "the table at "+c.Pos(lit.Pos())
					tableObj = nil
					// the variable the literal initialises
					for _, f2 := range p.Syntax {
						ast.Inspect(f2, func(n2 ast.Node) bool {
							if vs, ok := n2.(*ast.ValueSpec); ok {
								for i, v := range vs.Values {
									if v == ast.Expr(lit) && i < len(vs.Names) {
										tableObj = info.Defs[vs.Names[i]]
									}
								}
							}
							return true
						})
					}
				}
				return true
			})
		}
		if tableObj != nil {
			for _, fd := range AllFuncDecls(p) {
				uses := false
				ast.Inspect(fd.Body, func(n ast.Node) bool {
					if ix, ok := n.(*ast.IndexExpr); ok {
						if id, ok := ast.Unparen(ix.X).(*ast.Ident); ok && info.Uses[id] == tableObj {
							uses = true
						}
					}
					return true
				})
				if !uses {
					continue
				}
				ast.Inspect(fd.Body, func(n ast.Node) bool {
					if as, ok := n.(*ast.AssignStmt); ok && len(as.Rhs) == 1 && ident == nil {
						if k := ConstOf(info, as.Rhs[0]); k != nil {
							if _, named := types.Unalias(k.Type()).(*types.Named); named {
								ident = k
							}
						}
					}
					return true
				})
			}
		}
	}
	// kinds that occur in every accept set of the parser that contains the identifier kind
	like := map[*types.Const]bool{}
	if ident != nil && c.HasPkg("homescript/parser") {
		pp := c.Pkg("homescript/parser")
		nsets := 0
		count := map[*types.Const]int{}
		for _, fd := range AllFuncDecls(pp) {
			ast.Inspect(fd.Body, func(n ast.Node) bool {
				call, ok := n.(*ast.CallExpr)
				if !ok || len(call.Args) < 2 {
					return true
				}
				var set []*types.Const
				has := false
				for _, a := range call.Args {
					k := ConstOf(pp.TypesInfo, a)
					if k == nil || !types.Identical(k.Type(), ident.Type()) {
						return true
					}
					set = append(set, k)
					if k == ident {
						has = true
					}
				}
				if has {
					nsets++
					for _, k := range set {
						count[k]++
					}
				}
				return true
			})
		}
		for k, n := range count {
			if nsets >= 2 && n == nsets && k != ident {
				like[k] = true
			}
		}
	}
	for s, k := range best {
		if like[k] {
			identLike = append(identLike, s)
		} else {
			kws = append(kws, s)
		}
	}
	sort.Strings(kws)
	sort.Strings(identLike)
	return
}

func ruleR3pBareGuard(c *Ctx) []Obligation {
	res := r2pPrintRun(c)
	m := travGetModel(c)
	kws, identLike, where := r3pKeywords(c)
	if len(kws) == 0 {
		return []Obligation{{Key: "<anchor>|keyword switch", Status: Undecided, Detail: "no switch over string constants assigning token kinds found in package lexer"}}
	}
	var obs []Obligation
	cache := map[string]map[string]any{} // function -> keyword -> result or error
	byName := map[string]*types.Func{}
	for fn := range m.decls {
		byName[fn.FullName()] = fn
	}
	helperCache := map[*types.Func]*r3pHelperInfo{}
	// guards that sit in a string -> string helper the printer hands the text to
	for _, mi := range res.methods {
		var fields []string
		for f := range mi.fmts {
			fields = append(fields, f)
		}
		sort.Strings(fields)
		for _, fname := range fields {
			seen := map[*types.Func]bool{}
			var chains []string
			for k := range mi.fmts[fname] {
				chains = append(chains, k)
			}
			sort.Strings(chains)
			for _, ck := range chains {
				for _, op := range mi.fmts[fname][ck].chain {
					if !strings.HasPrefix(op, "helper:") {
						continue
					}
					h := byName[strings.TrimPrefix(op, "helper:")]
					if h == nil || seen[h] {
						continue
					}
					seen[h] = true
					if helperCache[h] == nil {
						helperCache[h] = r3pAnalyseHelper(c, m, h)
					}
					hi := helperCache[h]
					if hi.forms < 2 {
						continue
					}
					var gks []string
					for k := range hi.bare {
						gks = append(gks, k)
					}
					sort.Strings(gks)
					for _, gk := range gks {
						br := hi.bare[gk]
						if mi.bare[fname] == nil {
							mi.bare[fname] = map[string]*r2pBareRec{}
						}
						k := gk + " through " + h.Name()
						if mi.bare[fname][k] == nil {
							mi.bare[fname][k] = &r2pBareRec{fn: br.fn, val: br.val, witness: "inside the helper " + h.Name() + ": " + br.witness, via: h.Name()}
						}
					}
				}
			}
		}
	}
	for _, mi := range res.methods {
		var fields []string
		for f := range mi.bare {
			fields = append(fields, f)
		}
		sort.Strings(fields)
		for _, fname := range fields {
			// only where the field is printed in another form on other paths (quoted / through another chain), or the choice is made in a helper
			viaHelper := false
			for _, br := range mi.bare[fname] {
				if br.via != "" {
					viaHelper = true
				}
			}
			if len(mi.fmts[fname]) < 2 && !viaHelper {
				continue
			}
			var gks []string
			for k := range mi.bare[fname] {
				gks = append(gks, k)
			}
			sort.Strings(gks)
			for _, gk := range gks {
				br := mi.bare[fname][gk]
				full := br.fn.FullName()
				if cache[full] == nil {
					cache[full] = map[string]any{}
					for _, kw := range kws {
						r, err := r3pCallConst(m, br.fn, []any{kw})
						if err != nil {
							cache[full][kw] = err
						} else if len(r) == 1 {
							cache[full][kw] = r[0]
						} else {
							cache[full][kw] = fmt.Errorf("%d results", len(r))
						}
					}
				}
				var bad, errs []string
				for _, kw := range kws {
					switch r := cache[full][kw].(type) {
					case bool:
						if r == br.val {
							bad = append(bad, kw)
						}
					case error:
						errs = append(errs, kw+": "+r.Error())
					}
				}
				ob := Obligation{Key: fmt.Sprintf("%s|%s|bare form under %s=%v is never a keyword", travFuncKey(mi.pkg, mi.fd), fname, br.fn.Name(), br.val), Pos: c.Pos(mi.fd.Pos()), Nontrivial: true}
				if br.via != "" {
					ob.Key += " (through " + br.via + ")"
				}
				switch {
				case len(bad) > 0:
					ob.Status = Violated
					ob.Detail = fmt.Sprintf("%s.String() prints %s bare when %s(text) is %v (%s); folding %s over the %d keyword spellings of %s gives %v for: %s — such a key / name is printed as the keyword, which the parser does not accept in its place",
						mi.s.Short(), fname, br.fn.Name(), br.val, br.witness, br.fn.Name(), len(kws), where, br.val, strings.Join(bad, ", "))
				case len(errs) > 0:
					ob.Status, ob.Detail = Undecided, fmt.Sprintf("%s could not be folded over the keywords: %s", br.fn.Name(), errs[0])
				default:
					ob.Status, ob.Detail = Discharged, fmt.Sprintf("%s(k) is %v for each of the %d keyword spellings of %s, so no keyword takes the bare form (not counted as keywords, the parser accepts them wherever it accepts an identifier: %q)", br.fn.Name(), !br.val, len(kws), where, identLike)
				}
				obs = append(obs, ob)
			}
		}
	}
	return obs
}

// r3pHelperInfo: how a string -> string helper prints its argument.
type r3pHelperInfo struct {
	forms int // number of distinct forms (bare / quoted) over its paths
	bare  map[string]*r2pBareRec
}

func r3pAnalyseHelper(c *Ctx, m *travModel, fn *types.Func) *r3pHelperInfo {
	hi := &r3pHelperInfo{bare: map[string]*r2pBareRec{}}
	d := m.decls[fn]
	if d == nil || d.Fd.Recv != nil || d.Fd.Type.Params == nil || len(d.Fd.Type.Params.List) != 1 || len(d.Fd.Type.Params.List[0].Names) != 1 {
		return hi
	}
	param := d.Fd.Type.Params.List[0].Names[0].Name
	env := r2pNewEnv(c, m, d.Pkg, d.Fd)
	pr := &r2pPrinter{r2pEnv: env, enclosing: r2pEnclosing(d.Fd.Body)}
	body, loops := r2pWrap(d.Fd.Body)
	env.loops = loops
	forms := map[bool]bool{}
	w := &Walker[*r2pState]{
		Clone:  r2pClone,
		OnStmt: pr.onStmt,
		OnCond: func(st *r2pState, cond ast.Expr, taken bool) (*r2pState, bool) {
			if !env.applyCond(st, cond, taken) {
				return st, false
			}
			pr.noteGuard(st, cond, taken)
			return st, true
		},
		OnRange: func(st *r2pState, r *ast.RangeStmt) (*r2pState, bool) {
			env.onRange(st, r)
			return st, true
		},
		IsPanic: func(s ast.Stmt) bool { return IsPanicCall(env.info, s) },
		Exit: func(st *r2pState, o outcome) {
			if o.kind != cReturn || o.ret == nil || len(o.ret.Results) != 1 || !st.feasible() {
				return
			}
			t := pr.eval(st, o.ret.Results[0])
			for i, sg := range t {
				if sg.hole == nil || sg.imp || !sg.hole[param] {
					continue
				}
				quoted := strings.Contains(strings.SplitN(r2pSig(t, i), "…", 2)[0], `"`)
				forms[quoted] = true
				if quoted {
					continue
				}
				for _, g := range st.guards {
					if !g.paths[param] {
						continue
					}
					k := fmt.Sprintf("%s=%v", g.fn.FullName(), g.val)
					if hi.bare[k] == nil {
						hi.bare[k] = &r2pBareRec{fn: g.fn, val: g.val, witness: fmt.Sprintf("%s is %v at line %d, returned %s", g.fn.Name(), g.val, g.line, t.String())}
					}
				}
			}
		},
	}
	w.Run(body, r2pNewState())
	hi.forms = len(forms)
	return hi
}
