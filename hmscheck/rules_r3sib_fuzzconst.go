package main

import (
	"fmt"
	"go/ast"
	"go/token"
	"go/types"
	"sort"
	"strings"
)

// R-fuzz-static: what the fuzzer builds in a position that must stay constant is accepted by Constant().

func init() {
	register(&Rule{ID: "R-fuzz-static", Floor: 16, Run: ruleR3FuzzStatic,
		Doc: "cross-component agreement between the fuzzer's rewrite tables and the analyzer's constness predicate. The analyzer rejects a global whose initializer is not Constant(); the transformer rewrites such initializers with its static flag set (the bool parameter it forwards through Expression/expressionVariants/infixExpr). Extracted on every run: (a) from analyzer/ast, per node type, whether Constant() can answer true at all and for which values of an enum field (Operator) it answers false outright (paths returning the literal false under `self.Field == C`); (b) from the fuzzer, every node literal (composite literal of a type with a Constant method) built in code reachable with the static flag set — not inside `if !static`, not after `if static { return }` — in a clause that rewrites a node kind which can itself be constant, with the set of enum constants its Operator field can take (constants, elements of the operator tables it indexes or ranges over; an operator copied from the rewritten node is inherited and was accepted before). Each such literal must be of a type whose Constant() can be true and must not take an operator Constant() rejects. Otherwise a variant of a well-typed program with a numeric / boolean global is rejected with 'Global initializer must be constant' (C20: every variant the transformer produces is accepted by the analyzer)."})
}

type r3fcConst struct {
	never    bool
	rejected map[string]map[string]bool // field → constant names
}

func ruleR3FuzzStatic(c *Ctx) []Obligation {
	ap := c.Pkg("homescript/analyzer/ast")
	fp := c.Pkg("homescript/fuzzer")
	var out []Obligation

	// (a) Constant() per node type; Kind() constant per node type
	consts := map[*types.TypeName]*r3fcConst{}
	kindOf := map[string]*types.TypeName{}
	for _, fd := range AllFuncDecls(ap) {
		if fd.Recv == nil || len(fd.Recv.List) == 0 {
			continue
		}
		tn, _ := ap.Types.Scope().Lookup(recvTypeName(fd.Recv.List[0].Type)).(*types.TypeName)
		if tn == nil {
			continue
		}
		switch fd.Name.Name {
		case "Kind":
			if len(fd.Body.List) == 1 {
				if rs, ok := fd.Body.List[0].(*ast.ReturnStmt); ok && len(rs.Results) == 1 {
					if k := ConstOf(ap.TypesInfo, rs.Results[0]); k != nil {
						kindOf[k.Name()] = tn
					}
				}
			}
		case "Constant":
			f := r2sibFuncOf(c, ap, fd)
			cc := &r3fcConst{never: true, rejected: map[string]map[string]bool{}}
			type st struct{ lits []r2sibLit }
			w := &Walker[*st]{Clone: func(s *st) *st { return &st{append([]r2sibLit(nil), s.lits...)} }}
			w.IsPanic = func(s ast.Stmt) bool { return IsPanicCall(ap.TypesInfo, s) }
			w.OnCond = func(s *st, cond ast.Expr, taken bool) (*st, bool) {
				s.lits = append(s.lits, f.atomOf(cond, taken))
				return s, true
			}
			w.OnCase = func(s *st, sw *ast.SwitchStmt, vals, others []ast.Expr) (*st, bool) {
				tag := f.norm(sw.Tag)
				if vals == nil {
					s.lits = append(s.lits, r2sibLit{"default of " + tag, true})
					return s, true
				}
				var vs []string
				for _, v := range vals {
					vs = append(vs, f.norm(v))
				}
				s.lits = append(s.lits, r2sibLit{"in(" + tag + "\x01" + strings.Join(vs, "\x01") + ")", true})
				return s, true
			}
			w.Exit = func(s *st, o outcome) {
				if o.kind != cReturn || o.ret == nil || len(o.ret.Results) != 1 {
					return
				}
				if v, isConst := r2sibBoolConst(ap.TypesInfo, o.ret.Results[0]); isConst && !v {
					// returns false outright: under which enum-field values?
					if len(s.lits) == 0 {
						return
					}
					onlyEnum := true
					rej := map[string][]string{}
					for _, l := range s.lits {
						if !l.val {
							// an earlier alternative of the same enum test that was not taken says nothing about others
							if !strings.HasPrefix(l.atom, "self.") && !strings.HasPrefix(l.atom, "in(self.") || !strings.Contains(l.atom, "const:") {
								onlyEnum = false
							}
							continue
						}
						var tag string
						var vals []string
						if strings.HasPrefix(l.atom, "in(") {
							parts := strings.Split(l.atom[3:len(l.atom)-1], "\x01")
							tag, vals = parts[0], parts[1:]
						} else if i := strings.LastIndex(l.atom, " == "); i > 0 {
							tag, vals = l.atom[:i], []string{l.atom[i+4:]}
						} else {
							onlyEnum = false
							continue
						}
						if !strings.HasPrefix(tag, "self.") || strings.ContainsAny(tag[5:], ".()") {
							onlyEnum = false
							continue
						}
						for _, v := range vals {
							if !strings.HasPrefix(v, "const:") {
								onlyEnum = false
							}
							rej[tag[5:]] = append(rej[tag[5:]], v[strings.LastIndex(v, ".")+1:])
						}
					}
					if onlyEnum {
						for fld, vs := range rej {
							if cc.rejected[fld] == nil {
								cc.rejected[fld] = map[string]bool{}
							}
							for _, v := range vs {
								cc.rejected[fld][v] = true
							}
						}
					}
					return
				}
				cc.never = false
			}
			w.Run(fd.Body, &st{})
			consts[tn] = cc
		}
	}
	if len(consts) < 10 || len(kindOf) < 10 {
		return []Obligation{{Key: "anchor|Constant()/Kind() methods of analyzer/ast", Status: Undecided, Detail: fmt.Sprintf("only %d Constant() and %d Kind() methods found", len(consts), len(kindOf))}}
	}
	nodeType := func(t types.Type) *types.TypeName {
		if n, ok := types.Unalias(t).(*types.Named); ok {
			if _, ok := consts[n.Obj()]; ok {
				return n.Obj()
			}
		}
		return nil
	}

	// (b) the fuzzer's node literals in static-reachable code
	info := fp.TypesInfo
	seen := map[string]int{}
	for _, fd := range AllFuncDecls(fp) {
		fn, _ := info.Defs[fd.Name].(*types.Func)
		if fn == nil {
			continue
		}
		f := r2sibFuncOf(c, fp, fd)
		// the static flag: a bool parameter, or a bool field of the receiver (the flag kept in the transformer)
		flags := map[types.Object]bool{}
		for o := range f.params {
			if b, ok := o.Type().Underlying().(*types.Basic); ok && b.Kind() == types.Bool {
				flags[o] = true
			}
		}
		if f.recv != nil {
			rt := f.recv.Type()
			if pt, ok := rt.(*types.Pointer); ok {
				rt = pt.Elem()
			}
			if st, ok := rt.Underlying().(*types.Struct); ok {
				for i := 0; i < st.NumFields(); i++ {
					if b, ok := st.Field(i).Type().Underlying().(*types.Basic); ok && b.Kind() == types.Bool {
						flags[st.Field(i)] = true
					}
				}
			}
		}
		// the node type rewritten by the function as a whole (a concrete node parameter)
		var fnNode *types.TypeName
		for o := range f.params {
			if tn := nodeType(o.Type()); tn != nil {
				fnNode = tn
			}
		}
		parent := map[ast.Node]ast.Node{}
		var stack []ast.Node
		ast.Inspect(fd.Body, func(n ast.Node) bool {
			if n == nil {
				stack = stack[:len(stack)-1]
				return true
			}
			if len(stack) > 0 {
				parent[n] = stack[len(stack)-1]
			}
			stack = append(stack, n)
			return true
		})
		isFlag := func(e ast.Expr) bool {
			switch x := ast.Unparen(e).(type) {
			case *ast.Ident:
				return flags[info.Uses[x]]
			case *ast.SelectorExpr:
				return flags[info.Uses[x.Sel]]
			}
			return false
		}
		mentionsFlag := func(e ast.Expr) (uses bool, positive bool) {
			e = ast.Unparen(e)
			if u, ok := e.(*ast.UnaryExpr); ok && u.Op == token.NOT {
				return isFlag(u.X), false
			}
			return isFlag(e), true
		}
		staticReachable := func(n ast.Node) bool {
			for cur := n; cur != nil; cur = parent[cur] {
				pn := parent[cur]
				switch x := pn.(type) {
				case *ast.IfStmt:
					if uses, pos := mentionsFlag(x.Cond); uses {
						if x.Body == cur && !pos || x.Else == cur && pos {
							return false
						}
					}
				case *ast.BlockStmt:
					for _, st := range x.List {
						if st.Pos() >= cur.Pos() {
							break
						}
						if ifs, ok := st.(*ast.IfStmt); ok && len(ifs.Body.List) > 0 {
							if uses, pos := mentionsFlag(ifs.Cond); uses && pos {
								switch l := ifs.Body.List[len(ifs.Body.List)-1].(type) {
								case *ast.ReturnStmt:
									return false
								case *ast.BranchStmt:
									if l.Tok == token.BREAK || l.Tok == token.CONTINUE {
										return false
									}
								}
							}
						}
					}
				case *ast.CaseClause:
					for _, st := range x.Body {
						if st.Pos() >= cur.Pos() {
							break
						}
						if ifs, ok := st.(*ast.IfStmt); ok && len(ifs.Body.List) > 0 {
							if uses, pos := mentionsFlag(ifs.Cond); uses && pos {
								switch ifs.Body.List[len(ifs.Body.List)-1].(type) {
								case *ast.ReturnStmt, *ast.BranchStmt:
									return false
								}
							}
						}
					}
				}
			}
			return true
		}
		// the node kind a site rewrites: the enclosing clause of a switch over <node>.Kind()
		clauseNode := func(n ast.Node) (*types.TypeName, string) {
			for cur := n; cur != nil; cur = parent[cur] {
				cc, ok := parent[cur].(*ast.CaseClause)
				if !ok {
					continue
				}
				sw, ok := parent[parent[cc]].(*ast.SwitchStmt)
				if !ok || sw.Tag == nil || !strings.HasSuffix(exprStr(sw.Tag), ".Kind()") {
					continue
				}
				for _, v := range cc.List {
					if k := ConstOf(info, v); k != nil {
						if tn := kindOf[k.Name()]; tn != nil {
							return tn, "case " + k.Name()
						}
					}
				}
			}
			return fnNode, ""
		}
		var resolve func(e ast.Expr, depth int) (vals map[string]bool, inherited, unknown bool)
		elems := func(e ast.Expr, depth int) (map[string]bool, bool, bool) {
			vals := map[string]bool{}
			inh, unk := false, false
			var visit func(e ast.Expr, d int)
			visit = func(e ast.Expr, d int) {
				e = ast.Unparen(e)
				switch x := e.(type) {
				case *ast.CompositeLit:
					for _, el := range x.Elts {
						if kv, ok := el.(*ast.KeyValueExpr); ok {
							el = kv.Value
						}
						v, i, u := resolve(el, d+1)
						for k := range v {
							vals[k] = true
						}
						inh = inh || i
						unk = unk || u
					}
				case *ast.Ident:
					o := f.objOf(x)
					ds := f.defs[o]
					if len(ds) == 0 || d > 6 {
						unk = true
						return
					}
					for _, df := range ds {
						if df.kind == r2dAssign && df.n == 1 {
							visit(df.rhs, d+1)
						} else {
							unk = true
						}
					}
				default:
					unk = true
				}
			}
			visit(e, depth)
			return vals, inh, unk
		}
		resolve = func(e ast.Expr, depth int) (map[string]bool, bool, bool) {
			e = ast.Unparen(e)
			if k := ConstOf(info, e); k != nil {
				return map[string]bool{k.Name(): true}, false, false
			}
			if depth > 6 {
				return nil, false, true
			}
			switch x := e.(type) {
			case *ast.SelectorExpr:
				// node.Operator: copied from the node being rewritten
				return nil, true, false
			case *ast.IndexExpr:
				return elems(x.X, depth+1)
			case *ast.Ident:
				o := f.objOf(x)
				ds := f.defs[o]
				if len(ds) == 0 {
					return nil, false, true
				}
				vals := map[string]bool{}
				inh, unk := false, false
				for _, df := range ds {
					var v map[string]bool
					var i, u bool
					switch df.kind {
					case r2dAssign:
						if df.n != 1 {
							u = true
						} else {
							v, i, u = resolve(df.rhs, depth+1)
						}
					case r2dRangeVal:
						v, i, u = elems(df.rng.X, depth+1)
					default:
						u = true
					}
					for k := range v {
						vals[k] = true
					}
					inh = inh || i
					unk = unk || u
				}
				return vals, inh, unk
			}
			return nil, false, true
		}

		ast.Inspect(fd.Body, func(n ast.Node) bool {
			cl, ok := n.(*ast.CompositeLit)
			if !ok {
				return true
			}
			tv, ok := info.Types[cl]
			if !ok {
				return true
			}
			tn := nodeType(tv.Type)
			if tn == nil {
				return true
			}
			rewritten, clause := clauseNode(cl)
			if rewritten == nil || consts[rewritten] == nil || consts[rewritten].never {
				return true // the rewritten node kind is never constant: never in a static position
			}
			if !staticReachable(cl) {
				return true
			}
			cc := consts[tn]
			key := fmt.Sprintf("homescript/fuzzer.%s|%s|builds %s", FuncName(fd), clause, tn.Name())
			seen[key]++
			if k := seen[key]; k > 1 {
				key = fmt.Sprintf("%s #%d", key, k)
			}
			ob := Obligation{Key: key, Pos: c.Pos(cl.Pos()), Nontrivial: true}
			var problems, notes []string
			if cc.never {
				problems = append(problems, fmt.Sprintf("%s.Constant() never answers true, but the literal is built with the static flag possibly set while rewriting a %s (which can be constant)", tn.Name(), rewritten.Name()))
			}
			var flds []string
			for fld := range cc.rejected {
				flds = append(flds, fld)
			}
			sort.Strings(flds)
			for _, fld := range flds {
				fe := r2sibLitField(cl, fld)
				if fe == nil {
					continue
				}
				vals, inh, unk := resolve(fe, 0)
				var bad, all []string
				for v := range vals {
					all = append(all, v)
					if cc.rejected[fld][v] {
						bad = append(bad, v)
					}
				}
				sort.Strings(bad)
				sort.Strings(all)
				if len(bad) > 0 {
					problems = append(problems, fmt.Sprintf("field %s = %s can be %s, for which %s.Constant() answers false outright: the variant of a constant %s is rejected as a global initializer", fld, exprStr(fe), strings.Join(bad, ", "), tn.Name(), rewritten.Name()))
				}
				if unk && !inh {
					notes = append(notes, fmt.Sprintf("value set of %s = %s not resolved", fld, exprStr(fe)))
				}
				notes = append(notes, fmt.Sprintf("%s ∈ {%s}", fld, strings.Join(all, ", ")))
			}
			// the value set is reported even when nothing is rejected today
			if len(cc.rejected) == 0 {
				if fe := r2sibLitField(cl, "Operator"); fe != nil {
					vals, inh, _ := resolve(fe, 0)
					var all []string
					for v := range vals {
						all = append(all, v)
					}
					sort.Strings(all)
					if inh {
						all = append(all, "<operator of the rewritten node>")
					}
					notes = append(notes, "Operator ∈ {"+strings.Join(all, ", ")+"}")
				}
			}
			if len(problems) > 0 {
				ob.Status = Violated
				ob.Detail = strings.Join(problems, "; ")
			} else {
				ob.Detail = fmt.Sprintf("%s.Constant() can answer true for it (%s)", tn.Name(), strings.Join(notes, "; "))
			}
			out = append(out, ob)
			return true
		})
	}
	return out
}
