package main

import (
	"go/ast"
	"go/types"
	"strings"
)

func init() {
	register(&Rule{ID: "R-poll-pure", Floor: 2, Run: rulePollPure,
		Doc: "the cancellation polls of both engines (the functions that select on the execution context's Done channel) report 'not cancelled' only through the default branch of that select: no return statement precedes or bypasses the select, the Done branch returns a non-nil interrupt, and nothing but the context decides the answer (no clock, no counter) — otherwise a cancel that has been delivered is invisible to a running core"})
}

func rulePollPure(c *Ctx) []Obligation {
	var obs []Obligation
	for _, rel := range []string{"homescript/runtime", "homescript/interpreter"} {
		p := c.Pkg(rel)
		info := p.TypesInfo
		for _, fd := range AllFuncDecls(p) {
			// role: contains a select with a receive from X.Done() where X is a context.Context
			var sel *ast.SelectStmt
			var doneClause, defClause *ast.CommClause
			ast.Inspect(fd.Body, func(n ast.Node) bool {
				s, ok := n.(*ast.SelectStmt)
				if !ok || sel != nil {
					return true
				}
				for _, cl := range s.Body.List {
					cc := cl.(*ast.CommClause)
					if cc.Comm == nil {
						defClause = cc
						continue
					}
					isDone := false
					ast.Inspect(cc.Comm, func(m ast.Node) bool {
						if call, ok := m.(*ast.CallExpr); ok {
							if fn := CalleeOf(info, call); fn != nil && fn.Name() == "Done" && fn.Pkg() != nil && fn.Pkg().Path() == "context" {
								isDone = true
							}
						}
						return true
					})
					if isDone {
						doneClause = cc
					}
				}
				if doneClause != nil {
					sel = s
				}
				return true
			})
			if sel == nil || defClause == nil {
				continue
			}
			// only the dedicated poll functions: result is a single pointer-to-interrupt
			if fd.Type.Results == nil || len(fd.Type.Results.List) != 1 {
				continue
			}
			key := relPkg(p.PkgPath) + "." + FuncName(fd) + "|nil only via the select's default branch"
			var fails []string
			// no return may precede the select: the context is consulted on every call
			for _, st := range fd.Body.List {
				if st == sel {
					break
				}
				ast.Inspect(st, func(n ast.Node) bool {
					if _, ok := n.(*ast.FuncLit); ok {
						return false
					}
					if r, ok := n.(*ast.ReturnStmt); ok {
						fails = append(fails, "return at "+c.Pos(r.Pos())+" bypasses the select on the context's Done channel")
					}
					return true
				})
			}
			// the select must be reached unconditionally: it is a top-level statement of the body
			top := false
			for _, s := range fd.Body.List {
				if s == sel {
					top = true
				}
			}
			if !top {
				fails = append(fails, "the select is nested in a conditional: some calls do not poll the context")
			}
			// the select has exactly the Done branch and the default branch
			if len(sel.Body.List) != 2 {
				fails = append(fails, "the select has further branches besides Done and default")
			}
			retNil := func(cc *ast.CommClause) (isNil, found bool) {
				for _, s := range cc.Body {
					if r, ok := s.(*ast.ReturnStmt); ok && len(r.Results) == 1 {
						id, ok := ast.Unparen(r.Results[0]).(*ast.Ident)
						return ok && id.Name == "nil" && info.Uses[id] == types.Universe.Lookup("nil"), true
					}
				}
				return false, false
			}
			undecided := ""
			// every path through the Done branch reports the cancellation: enumerate its paths
			{
				assigns := false
				for _, st := range doneClause.Body {
					if _, ok := st.(*ast.AssignStmt); ok {
						assigns = true
					}
				}
				type pst struct{ decided []string }
				w := &Walker[*pst]{
					Clone:   func(s *pst) *pst { return &pst{decided: append([]string(nil), s.decided...)} },
					IsPanic: func(s ast.Stmt) bool { return IsPanicCall(info, s) },
					OnCond: func(s *pst, cond ast.Expr, taken bool) (*pst, bool) {
						s.decided = append(s.decided, exprStr(cond)+":"+map[bool]string{true: "true", false: "false"}[taken])
						return s, true
					},
				}
				fell := false
				w.Exit = func(s *pst, o outcome) {
					switch o.kind {
					case cReturn:
						if len(o.ret.Results) >= 1 {
							if id, ok := ast.Unparen(o.ret.Results[0]).(*ast.Ident); ok && id.Name == "nil" && info.Uses[id] == types.Universe.Lookup("nil") {
								fails = append(fails, "a path through the Done branch returns nil ("+c.Pos(o.ret.Pos())+", decisions "+strings.Join(s.decided, ", ")+"): a delivered cancel is reported as 'not cancelled'")
							}
						}
					case cNormal:
						fell = true
					}
				}
				w.Run(&ast.BlockStmt{List: doneClause.Body}, &pst{})
				if w.Overflow || len(w.Unsupported) > 0 {
					undecided = "path enumeration of the Done branch failed"
				}
				if fell && !assigns {
					undecided = "a path through the Done branch neither returns nor assigns a result"
				}
			}
			if isNil, found := retNil(defClause); found && !isNil {
				fails = append(fails, "the default branch returns an interrupt although the context is not done")
			}
			// no clock in the poll
			ast.Inspect(fd.Body, func(n ast.Node) bool {
				if call, ok := n.(*ast.CallExpr); ok {
					if fn := CalleeOf(info, call); fn != nil && fn.Pkg() != nil && fn.Pkg().Path() == "time" {
						fails = append(fails, "the poll consults the clock (time."+fn.Name()+")")
					}
				}
				return true
			})
			o := Obligation{Key: key, Pos: c.Pos(fd.Pos()), Nontrivial: true}
			if len(fails) > 0 {
				o.Status, o.Detail = Violated, strings.Join(fails, "; ")
			} else if undecided != "" {
				o.Status, o.Detail = Undecided, undecided
			} else {
				o.Status, o.Detail = Discharged, "single top-level select {Done → interrupt; default → nil}; no other return"
			}
			obs = append(obs, o)
		}
	}
	return obs
}
