package main

import (
	"fmt"
	"sort"
	"strings"
)

// R-decl-unify: a declared type is unified with the value it is declared for, on every path.

func init() {
	register(&Rule{ID: "R-decl-unify", Floor: 4, Run: ruleR4DeclUnify,
		Doc: "in every analyzer function that converts a declared type D of its node (a ConvertType descent on a child of the node parameter: the annotation of a let, the return type of a function or lambda, the target of a cast) and analyses a value child V of the same node (an expression / block descent: the initializer, the body, the cast operand), D and the type of V are the two operands of a TypeCheck, and that TypeCheck is passed on every path on which D was converted (guard of the conversion ⇒ guard of the check, compared by truth table over the normalised path conditions; a check moved into a helper is re-rooted). The only paths that may skip it are those on which the top-level kind of one operand is known (`V.Type().Kind() == K` / `D.Kind() == K` taken): for the kinds TypeCheck itself answers nil for at once (extracted from its two head switches: any / unknown / never) the skip changes nothing, for other kinds it is a kind-specific conversion rule (int as float) the analyzer states explicitly. A skip decided by anything else — a deep predicate such as CheckAny ('any occurs somewhere inside'), a flag, an option — adopts the declared type without having compared the part of the value's type that is statically known: `let a: int = none`, `let a: str = []` are accepted and the variable is recorded with a type its value can never have (C03: an annotated binding with a mismatching initializer gets an error; the recorded types are the ones the rules assign)."})
}

func ruleR4DeclUnify(c *Ctx) []Obligation {
	e := r2sibEngineOf(c)
	env := r4usEnvOf(c, e)
	p := c.Pkg("homescript/analyzer")
	var out []Obligation
	for _, fd := range AllFuncDecls(p) {
		if fd.Body == nil {
			continue
		}
		f := r2sibFuncOf(c, p, fd)
		if f.fn == nil || f.fn == e.roles.typeCheck {
			continue
		}
		e.busy[f.fn] = true
		sum := e.extract(f, fd.Body.List, r2sibOpts{Descents: true, Only: map[string]bool{"TypeCheck": true, "descent": true}}, 0)
		delete(e.busy, f.fn)
		// declared types and value children of the node: descents on a child of a parameter, outside loops
		var decls, vals []*r2sibEvent
		for _, ev := range sum.events {
			if ev.Kind != "descent" || ev.Via != "" {
				continue
			}
			t := ev.Attrs["term"]
			if !strings.HasPrefix(t, "$") || !strings.Contains(t, ".") || strings.Contains(t, "elem(") || strings.Contains(t, "(") {
				continue
			}
			callee := CalleeOf(f.info, ev.Call)
			switch r2sibResultRole(callee) {
			case "Type":
				decls = append(decls, ev)
			case "AnalyzedExpression", "AnalyzedBlock":
				vals = append(vals, ev)
			}
		}
		if len(decls) == 0 || len(vals) == 0 {
			continue
		}
		if !sum.ok {
			out = append(out, Obligation{Key: fmt.Sprintf("homescript/analyzer.%s|declared types", FuncName(fd)), Pos: c.Pos(fd.Pos()), Status: Undecided, Detail: "paths not enumerated: " + sum.why})
			continue
		}
		for _, d := range decls {
			dterm := "desc[Type](" + d.Attrs["term"] + ")"
			key := fmt.Sprintf("homescript/analyzer.%s|declared type %s is unified with the value", FuncName(fd), f.pretty(d.Attrs["term"]))
			ob := Obligation{Key: key, Pos: c.Pos(d.Pos), Nontrivial: true}
			// the checks between D and a value child
			var checks []*r2sibEvent
			var vterm string
			for _, ev := range sum.events {
				if ev.Kind != "TypeCheck" {
					continue
				}
				got := strings.TrimSuffix(strings.TrimPrefix(ev.Key, "TypeCheck(got="), ")")
				exp := ev.Attrs["exp"]
				for _, v := range vals {
					vt := "desc[" + r2sibResultRole(CalleeOf(f.info, v.Call)) + "](" + v.Attrs["term"] + ")"
					if strings.Contains(got, vt) && strings.Contains(exp, dterm) || strings.Contains(exp, vt) && strings.Contains(got, dterm) {
						checks = append(checks, ev)
						vterm = vt
					}
				}
			}
			if len(checks) == 0 {
				ob.Status = Violated
				var vs []string
				for _, v := range vals {
					vs = append(vs, f.pretty(v.Attrs["term"]))
				}
				ob.Detail = fmt.Sprintf("the function converts the declared type %s and analyses %s, but no TypeCheck has the two as operands: the declared type is adopted without being compared with the value", f.pretty(d.Attrs["term"]), strings.Join(vs, ", "))
				out = append(out, ob)
				continue
			}
			all := &r2sibDNF{}
			for _, ck := range checks {
				for _, cl := range ck.Guard.clauses {
					all.add(cl)
				}
			}
			cmp, m, ok := r2sibPrepare(nil, d.Guard, all)
			if !ok {
				if r2sibSyntacticImp(d.Guard, all) {
					ob.Detail = "checked on every path of the conversion (syntactic implication; too many atoms for a truth table)"
				} else {
					ob.Status = Undecided
					ob.Detail = "too many condition atoms to compare the guard of the conversion with the guard of the check"
				}
				out = append(out, ob)
				continue
			}
			// a kind atom of one of the two operands
			kindAtom := func(a string) (string, bool) {
				i := strings.LastIndex(a, ".Kind() == const:")
				if i < 0 {
					return "", false
				}
				lhs := a[:i]
				if lhs == dterm || strings.HasPrefix(lhs, vterm) && !strings.Contains(lhs[len(vterm):], "[") && strings.Count(lhs[len(vterm):], ".") <= 1 {
					return a[i+len(".Kind() == const:"):], true
				}
				return "", false
			}
			nonInf := map[string]bool{}
			for k := range env.nonInf {
				nonInf["ast."+k.Name()] = true
			}
			for k := range env.nonInfGot {
				nonInf["ast."+k.Name()] = true
			}
			var bad, exempt []string
			seenBad := map[string]bool{}
			n := uint(len(cmp.atoms))
			for x := uint32(0); x < 1<<n; x++ {
				if !cmp.feasible(x) || !r2sibEval(m[0], x) || r2sibEval(m[1], x) {
					continue
				}
				licensed, nil0 := false, false
				for i, at := range cmp.atoms {
					if x&(1<<uint(i)) == 0 {
						continue
					}
					if k, ok := kindAtom(at); ok {
						licensed = true
						if nonInf[k] {
							nil0 = true
						} else {
							exempt = append(exempt, k)
						}
					}
				}
				_ = nil0
				if licensed {
					continue
				}
				// describe the path by the atoms that matter
				var ps []string
				for i, at := range cmp.atoms {
					bit := uint32(1) << uint(i)
					y := x ^ bit
					if cmp.feasible(y) && r2sibEval(m[0], y) && !r2sibEval(m[1], y) {
						continue // the atom does not matter
					}
					if x&bit != 0 {
						ps = append(ps, at)
					} else {
						ps = append(ps, "not("+at+")")
					}
				}
				sort.Strings(ps)
				w := strings.Join(ps, " && ")
				if !seenBad[w] {
					seenBad[w] = true
					bad = append(bad, w)
				}
			}
			sort.Strings(bad)
			if len(bad) > 0 {
				if len(bad) > 3 {
					bad = append(bad[:3], fmt.Sprintf("… (%d more)", len(bad)-3))
				}
				ob.Status = Violated
				ob.Detail = fmt.Sprintf("%s is converted but TypeCheck(%s, %s) is skipped on the paths where %s — not a test of the top-level kind of an operand: the declared type is adopted although the statically known part of the value's type was never compared with it (check: %s)",
					f.pretty(dterm), f.pretty(vterm), f.pretty(dterm), f.pretty(strings.Join(bad, " | ")), c.Pos(checks[0].Pos))
			} else {
				ob.Detail = fmt.Sprintf("TypeCheck(%s, %s) at %s is passed on every path that converts the declared type", f.pretty(vterm), f.pretty(dterm), c.Pos(checks[0].Pos))
				if ex := r3usUniq(exempt); len(ex) > 0 {
					ob.Detail += "; skipped only under explicit top-level kind tests of an operand (" + strings.Join(ex, ", ") + ": kind-specific conversion rules, not judged here)"
				}
			}
			out = append(out, ob)
		}
	}
	out = append(out, r5sibCtxUnifyObligations(c)...)
	sort.SliceStable(out, func(i, j int) bool { return out[i].Key < out[j].Key })
	return out
}
