package main

import (
	"fmt"
	"go/ast"
	"go/constant"
	"go/token"
	"go/types"
	"sort"
	"strings"

	"golang.org/x/tools/go/ssa"
)

// Guard facts (E4 on the statement tree). The repository is goto-free, so a
// fact established by an enclosing `case`, an enclosing `if`, or a preceding
// early exit holds at a program point unless the guarded access path is
// written in between. The engine walks from the function body down to the
// target node, processing the preceding siblings of every enclosing block in
// order (transfer, then learn), kills at loop entries everything the loop
// writes, and forgets everything at function-literal boundaries.
//
// A fact is "path ∈ S" where path is a pure access path (variable, field
// selections, dereferences, constant indexes, zero-argument getter calls such
// as Kind()/Type()) and S a set of constants of one enum (by value, so that
// aliases are folded), or "path == path".
//
// Paths through a pointer (the parser's token cursor self.CurrentToken.Kind)
// are "heap" paths: a call kills them unless the callee provably cannot write
// the fields the path selects (SSA scan of everything reachable from the
// callee in the VTA call graph). A call whose success is tested
// (`if err := f(); err != nil { return }`, `…, ok := f(); if !ok { return }`)
// contributes what holds at f's successful returns, computed by running this
// same engine on f's body with the caller's facts mapped onto f's parameters
// (so `self.PreviousToken = self.CurrentToken` in next() moves the facts, and
// a membership loop over a variadic parameter yields a set).

type tblPath struct {
	Root   types.Object
	Key    string   // canonical text of the path
	Parts  string   // the selections below the root (each starts with '.' or '[')
	Heap   bool     // passes through a pointer / non-local root
	Fields []string // "pkg.T.F" of every field selected on the way
}

func (p *tblPath) extend(parts string, heap bool) *tblPath {
	return &tblPath{Root: p.Root, Key: p.Key + parts, Parts: p.Parts + parts, Heap: p.Heap || heap, Fields: p.Fields}
}

func (p *tblPath) rebase(root types.Object, rootHeap bool, prefixParts string, prefixFields []string, rest string) *tblPath {
	np := &tblPath{Root: root, Parts: prefixParts + rest, Heap: p.Heap || rootHeap}
	np.Key = tblRootKey(root) + np.Parts
	np.Fields = append(append([]string{}, prefixFields...), p.Fields...)
	return np
}

func tblRootKey(o types.Object) string { return fmt.Sprintf("%s@%d", o.Name(), o.Pos()) }

// tblHasPrefix: parts a starts with the whole-element prefix b.
func tblHasPrefix(a, b string) bool {
	if !strings.HasPrefix(a, b) {
		return false
	}
	return len(a) == len(b) || a[len(b)] == '.' || a[len(b)] == '['
}

func tblFieldKey(v *types.Var, recv types.Type) string {
	t := types.Unalias(recv)
	if p, ok := t.(*types.Pointer); ok {
		t = types.Unalias(p.Elem())
	}
	name := "?"
	if nt, ok := t.(*types.Named); ok {
		name = nt.Obj().Name()
		if nt.Obj().Pkg() != nil {
			name = nt.Obj().Pkg().Path() + "." + name
		}
	}
	return name + "." + v.Name()
}

// tblPathOf canonicalises a pure access-path expression.
func tblPathOf(info *types.Info, e ast.Expr) *tblPath {
	var parts, fields []string
	heap := false
	// the next field selected starts a new memory object (it is reached through a pointer, a slice or
	// map element, or a call result): its key is marked with a leading '*'
	pendingInd := false
	var root types.Object
	var walk func(e ast.Expr) bool
	walk = func(e ast.Expr) bool {
		switch x := ast.Unparen(e).(type) {
		case *ast.Ident:
			obj := info.Uses[x]
			if obj == nil {
				obj = info.Defs[x]
			}
			v, ok := obj.(*types.Var)
			if !ok {
				return false
			}
			root = v
			if v.Parent() == nil || (v.Pkg() != nil && v.Parent() == v.Pkg().Scope()) {
				heap = true // package-level variable
			}
			return true
		case *ast.SelectorExpr:
			sel := info.Selections[x]
			if sel == nil || sel.Kind() != types.FieldVal {
				return false
			}
			if !walk(x.X) {
				return false
			}
			if sel.Indirect() {
				heap = true
			}
			parts = append(parts, "."+x.Sel.Name)
			if fv, ok := sel.Obj().(*types.Var); ok {
				k := tblFieldKey(fv, sel.Recv())
				if sel.Indirect() || pendingInd {
					k = "*" + k
				}
				pendingInd = false
				fields = append(fields, k)
			}
			return true
		case *ast.StarExpr:
			if !walk(x.X) {
				return false
			}
			heap = true
			pendingInd = true
			parts = append(parts, ".*")
			return true
		case *ast.IndexExpr:
			tv, ok := info.Types[x.Index]
			if !ok || tv.Value == nil {
				return false
			}
			if !walk(x.X) {
				return false
			}
			switch types.Unalias(info.TypeOf(x.X)).Underlying().(type) {
			case *types.Slice, *types.Map, *types.Pointer:
				heap = true
				pendingInd = true
			}
			parts = append(parts, "["+tv.Value.ExactString()+"]")
			return true
		case *ast.CallExpr:
			if len(x.Args) != 0 {
				return false
			}
			se, ok := ast.Unparen(x.Fun).(*ast.SelectorExpr)
			if !ok {
				return false
			}
			sel := info.Selections[se]
			if sel == nil || sel.Kind() != types.MethodVal {
				return false
			}
			// a getter: value receiver or interface method (no way to write the receiver)
			sig := sel.Obj().Type().(*types.Signature)
			if sig.Recv() != nil {
				if _, isPtr := types.Unalias(sig.Recv().Type()).(*types.Pointer); isPtr {
					return false
				}
			}
			if sig.Results().Len() != 1 {
				return false
			}
			if !walk(se.X) {
				return false
			}
			parts = append(parts, "."+se.Sel.Name+"()")
			pendingInd = true
			return true
		}
		return false
	}
	if !walk(e) || root == nil {
		return nil
	}
	p := &tblPath{Root: root, Parts: strings.Join(parts, ""), Heap: heap, Fields: fields}
	p.Key = tblRootKey(root) + p.Parts
	return p
}

type tblFact struct {
	Path    *tblPath
	Enum    *Enum
	Allowed map[string]bool // constant values
	Why     string
}

type tblEq struct {
	A, B *tblPath
	Why  string
}

func (e tblEq) key() string {
	if e.A.Key < e.B.Key {
		return e.A.Key + "==" + e.B.Key
	}
	return e.B.Key + "==" + e.A.Key
}

type tblFacts struct {
	m   map[string]*tblFact
	eqs map[string]tblEq // path == path (same enum), e.g. got.Kind() == expected.Kind()
}

func newTblFacts() *tblFacts { return &tblFacts{m: map[string]*tblFact{}, eqs: map[string]tblEq{}} }

func (f *tblFacts) empty() bool { return len(f.m) == 0 && len(f.eqs) == 0 }

func tblCopySet(s map[string]bool) map[string]bool {
	o := make(map[string]bool, len(s))
	for k := range s {
		o[k] = true
	}
	return o
}

func (f *tblFacts) clone() *tblFacts {
	g := newTblFacts()
	for k, v := range f.m {
		cp := *v
		cp.Allowed = tblCopySet(v.Allowed)
		g.m[k] = &cp
	}
	for k, e := range f.eqs {
		g.eqs[k] = e
	}
	return g
}

func (f *tblFacts) restrict(n *tblFact) {
	old := f.m[n.Path.Key]
	if old == nil {
		cp := *n
		cp.Allowed = tblCopySet(n.Allowed)
		f.m[n.Path.Key] = &cp
		return
	}
	for a := range old.Allowed {
		if !n.Allowed[a] {
			delete(old.Allowed, a)
		}
	}
	if !strings.Contains(old.Why, n.Why) {
		old.Why += "; " + n.Why
	}
}

func (f *tblFacts) and(g *tblFacts) {
	if g == nil {
		return
	}
	for _, v := range g.m {
		f.restrict(v)
	}
	for k, e := range g.eqs {
		f.eqs[k] = e
	}
}

// or: join of two alternatives (only what holds on both sides survives).
func tblFactsOr(a, b *tblFacts) *tblFacts {
	out := newTblFacts()
	for k, fa := range a.m {
		fb := b.m[k]
		if fb == nil {
			continue
		}
		n := &tblFact{Path: fa.Path, Enum: fa.Enum, Allowed: tblCopySet(fa.Allowed), Why: fa.Why}
		for v := range fb.Allowed {
			n.Allowed[v] = true
		}
		if fb.Why != fa.Why {
			n.Why += " | " + fb.Why
		}
		out.m[k] = n
	}
	for k, e := range a.eqs {
		if _, ok := b.eqs[k]; ok {
			out.eqs[k] = e
		}
	}
	return out
}

func (f *tblFacts) killIf(pred func(p *tblPath) bool) {
	for k, v := range f.m {
		if pred(v.Path) {
			delete(f.m, k)
		}
	}
	for k, e := range f.eqs {
		if pred(e.A) || pred(e.B) {
			delete(f.eqs, k)
		}
	}
}

func (f *tblFacts) killRoot(o types.Object) {
	f.killIf(func(p *tblPath) bool { return p.Root == o })
}

func (f *tblFacts) killHeap() {
	f.killIf(func(p *tblPath) bool { return p.Heap })
}

// killStore: a store to lhs invalidates every path that overlaps it, and every
// heap path that selects one of the fields lhs selects (possible alias).
func (f *tblFacts) killStore(lhs *tblPath) {
	lf := map[string]bool{}
	for _, x := range lhs.Fields {
		lf[tblBareField(x)] = true
	}
	f.killIf(func(p *tblPath) bool {
		if p.Root == lhs.Root && (tblHasPrefix(p.Parts, lhs.Parts) || tblHasPrefix(lhs.Parts, p.Parts)) {
			return true
		}
		if p.Heap && lhs.Heap && p.Root != lhs.Root {
			if len(lhs.Fields) == 0 || len(p.Fields) == 0 {
				return true
			}
			for _, x := range p.Fields {
				if lf[tblBareField(x)] {
					return true
				}
			}
		}
		return false
	})
}

func tblBareField(x string) string { return strings.TrimPrefix(x, "*") }

// get returns what is known about p, using the recorded equalities
// (transitively): the intersection of the sets of every path equal to p.
func (f *tblFacts) get(p *tblPath) *tblFact {
	if p == nil {
		return nil
	}
	class := map[string]*tblPath{p.Key: p}
	var whyEq []string
	seenWhy := map[string]bool{}
	for changed, rounds := true, 0; changed && rounds < 8; rounds++ {
		changed = false
		for _, e := range f.eqs {
			for _, pr := range [][2]*tblPath{{e.A, e.B}, {e.B, e.A}} {
				from, to := pr[0], pr[1]
				for _, q := range class {
					if q.Root != from.Root || !tblHasPrefix(q.Parts, from.Parts) {
						continue
					}
					rest := q.Parts[len(from.Parts):]
					np := to.extend(rest, q.Heap)
					if class[np.Key] == nil {
						class[np.Key] = np
						changed = true
						if !seenWhy[e.Why] {
							seenWhy[e.Why] = true
							whyEq = append(whyEq, e.Why)
						}
					}
				}
			}
		}
	}
	var out *tblFact
	keys := make([]string, 0, len(class))
	for k := range class {
		keys = append(keys, k)
	}
	sort.Strings(keys)
	for _, k := range keys {
		v := f.m[k]
		if v == nil {
			continue
		}
		if out == nil {
			out = &tblFact{Path: p, Enum: v.Enum, Allowed: tblCopySet(v.Allowed), Why: v.Why}
			continue
		}
		for a := range out.Allowed {
			if !v.Allowed[a] {
				delete(out.Allowed, a)
			}
		}
		out.Why += "; " + v.Why
	}
	if out != nil && len(whyEq) > 0 {
		sort.Strings(whyEq)
		out.Why += "; " + strings.Join(whyEq, "; ")
	}
	return out
}

// tblGuard holds the per-function, run-independent data.
type tblGuard struct {
	m       *tblModel
	fn      *tblFn
	info    *types.Info
	body    *ast.BlockStmt
	parents map[ast.Node]ast.Node
	aliases map[types.Object]ast.Expr // single-assignment locals `k := <path>`
	// single-assignment boolean locals `b := <condition>`
	condAlias map[types.Object]ast.Expr
	// every single-definition, never-reassigned local → its defining expression (pure path or not)
	singleDef map[types.Object]ast.Expr
	// single-assignment locals bound to a call result: `…, ok := f(args)` / `err := f(args)`
	resCalls map[types.Object]tblResCall
	written  map[types.Object]int
	// locals whose address is taken or that a function literal assigns: any call or store through a
	// pointer may change them
	escaping map[types.Object]bool
	// locals on which a pointer-receiver method is called (implicit address-of); computed lazily
	ptrRecv map[types.Object]bool
	// booleans of comma-ok type assertions; computed lazily
	okAsserts map[types.Object]*ast.TypeAssertExpr
}

type tblResCall struct {
	Call *ast.CallExpr
	Idx  int
	Stmt ast.Stmt // the defining statement
}

// tblRun is the state of one evaluation (possibly an inlined callee).
type tblRun struct {
	g      *tblGuard
	consts map[types.Object]constant.Value  // parameters known constant at this call
	elems  map[types.Object][]*types.Const  // variadic parameter → its constant elements at this call
	member map[types.Object]map[string]bool // range value variable over such a parameter
	snaps  map[*ast.CallExpr]*tblFacts      // facts just before a bound call
	fresh  map[*ast.CallExpr]bool           // bound call whose test is adjacent (nothing ran in between)
	cur    *tblFacts                        // facts in force where a condition is evaluated
	depth  int
	dead   bool // the target is unreachable under the known constants
	// never-reassigned locals assumed "nil" / "true" for this evaluation: what is asked is what
	// holds at a `return v` when the caller then sees v == nil (resp. v true)
	assume map[types.Object]string
}

func (m *tblModel) guardFor(f *tblFn) *tblGuard {
	tblModelMu.Lock()
	if m.guardCache == nil {
		m.guardCache = map[*tblFn]*tblGuard{}
	}
	if g := m.guardCache[f]; g != nil {
		tblModelMu.Unlock()
		return g
	}
	tblModelMu.Unlock()
	g := &tblGuard{m: m, info: f.Pkg.TypesInfo, body: f.Decl.Body, parents: tblParents(f.Decl), aliases: map[types.Object]ast.Expr{},
		condAlias: map[types.Object]ast.Expr{}, resCalls: map[types.Object]tblResCall{}, fn: f}
	multi := map[types.Object]tblResCall{}
	defs := map[types.Object]int{}
	rhs := map[types.Object]ast.Expr{}
	written := map[types.Object]int{}
	ast.Inspect(f.Decl.Body, func(n ast.Node) bool {
		switch x := n.(type) {
		case *ast.AssignStmt:
			for i, l := range x.Lhs {
				id, ok := ast.Unparen(l).(*ast.Ident)
				if !ok {
					if r := tblRootObj(g.info, l); r != nil {
						written[r]++
					}
					continue
				}
				if x.Tok == token.DEFINE && g.info.Defs[id] != nil {
					o := g.info.Defs[id]
					defs[o]++
					if len(x.Lhs) == len(x.Rhs) {
						rhs[o] = x.Rhs[i]
						if call, ok := ast.Unparen(x.Rhs[i]).(*ast.CallExpr); ok {
							multi[o] = tblResCall{Call: call, Idx: 0, Stmt: x}
						}
					} else if len(x.Rhs) == 1 {
						if call, ok := ast.Unparen(x.Rhs[0]).(*ast.CallExpr); ok {
							multi[o] = tblResCall{Call: call, Idx: i, Stmt: x}
						}
					}
				} else if o := g.info.Uses[id]; o != nil {
					written[o]++
				}
			}
		case *ast.ValueSpec:
			// `var k = x.Kind()` is `k := x.Kind()`
			if _, isFile := g.parents[g.parents[x]].(*ast.DeclStmt); isFile && len(x.Names) == len(x.Values) {
				for i, nm := range x.Names {
					if o := g.info.Defs[nm]; o != nil {
						defs[o]++
						rhs[o] = x.Values[i]
						if call, ok := ast.Unparen(x.Values[i]).(*ast.CallExpr); ok {
							multi[o] = tblResCall{Call: call, Idx: 0, Stmt: g.parents[g.parents[x]].(*ast.DeclStmt)}
						}
					}
				}
			} else if _, isLocal := g.parents[g.parents[x]].(*ast.DeclStmt); isLocal {
				for _, nm := range x.Names {
					if o := g.info.Defs[nm]; o != nil {
						defs[o] += 2 // declared without (or with a tuple) initialiser: assigned elsewhere
					}
				}
			}
		case *ast.IncDecStmt:
			if r := tblRootObj(g.info, x.X); r != nil {
				written[r]++
			}
		case *ast.UnaryExpr:
			if x.Op == token.AND {
				if r := tblRootObj(g.info, x.X); r != nil {
					written[r]++
				}
			}
		case *ast.RangeStmt:
			for _, e := range []ast.Expr{x.Key, x.Value} {
				if e != nil && x.Tok == token.ASSIGN {
					if r := tblRootObj(g.info, e); r != nil {
						written[r]++
					}
				}
			}
		}
		return true
	})
	g.written = written
	g.escaping = map[types.Object]bool{}
	ast.Inspect(f.Decl.Body, func(n ast.Node) bool {
		switch x := n.(type) {
		case *ast.UnaryExpr:
			if x.Op == token.AND {
				// `return &x, …` ends this activation: no later point of it can observe a write through the pointer
				inReturn := false
				for p := g.parents[x]; p != nil; p = g.parents[p] {
					if _, ok := p.(*ast.ReturnStmt); ok {
						inReturn = true
					}
					if _, ok := p.(ast.Stmt); ok {
						break
					}
				}
				if inReturn {
					return true
				}
				if _, isLit := ast.Unparen(x.X).(*ast.CompositeLit); !isLit {
					if r := tblRootObj(g.info, x.X); r != nil {
						g.escaping[r] = true
					}
				}
			}
		case *ast.FuncLit:
			ast.Inspect(x.Body, func(m ast.Node) bool {
				switch y := m.(type) {
				case *ast.AssignStmt:
					for _, l := range y.Lhs {
						if id, ok := ast.Unparen(l).(*ast.Ident); ok && y.Tok == token.DEFINE && g.info.Defs[id] != nil {
							continue
						}
						if r := tblRootObj(g.info, l); r != nil {
							g.escaping[r] = true
						}
					}
				case *ast.IncDecStmt:
					if r := tblRootObj(g.info, y.X); r != nil {
						g.escaping[r] = true
					}
				}
				return true
			})
		}
		return true
	})
	isBool := func(o types.Object) bool {
		b, ok := types.Unalias(o.Type()).Underlying().(*types.Basic)
		return ok && b.Kind() == types.Bool
	}
	g.singleDef = map[types.Object]ast.Expr{}
	for o, n := range defs {
		if n != 1 || written[o] > 0 {
			continue
		}
		if rhs[o] != nil {
			g.singleDef[o] = rhs[o]
		}
		if rc, ok := multi[o]; ok {
			g.resCalls[o] = rc
			if tblPathOf(g.info, rc.Call) == nil {
				continue
			}
		}
		if rhs[o] == nil {
			continue
		}
		if isBool(o) {
			// every variable the condition reads must be write-free
			ok := true
			ast.Inspect(rhs[o], func(n ast.Node) bool {
				if id, isId := n.(*ast.Ident); isId {
					if v, isVar := g.info.Uses[id].(*types.Var); isVar && written[v] > 0 {
						ok = false
					}
				}
				if call, isCall := n.(*ast.CallExpr); isCall && g.impureCall(call) {
					ok = false
				}
				return true
			})
			if ok {
				g.condAlias[o] = rhs[o]
			}
			continue
		}
		p := tblPathOf(g.info, rhs[o])
		if p == nil || p.Heap || written[p.Root] > 0 {
			continue
		}
		g.aliases[o] = rhs[o]
	}
	tblModelMu.Lock()
	m.guardCache[f] = g
	tblModelMu.Unlock()
	return g
}

func tblRootObj(info *types.Info, e ast.Expr) types.Object {
	for {
		switch x := ast.Unparen(e).(type) {
		case *ast.Ident:
			if o := info.Uses[x]; o != nil {
				return o
			}
			return info.Defs[x]
		case *ast.SelectorExpr:
			e = x.X
		case *ast.StarExpr:
			e = x.X
		case *ast.IndexExpr:
			e = x.X
		case *ast.SliceExpr:
			e = x.X
		case *ast.CallExpr:
			if se, ok := ast.Unparen(x.Fun).(*ast.SelectorExpr); ok {
				e = se.X
				continue
			}
			return nil
		default:
			return nil
		}
	}
}

// defOf looks through single-definition, never-reassigned locals: the
// expression whose value the identifier holds (for questions that depend on
// how the value was obtained - its static source - not on whether the source
// still has that value).
func (g *tblGuard) defOf(e ast.Expr) ast.Expr {
	for i := 0; i < 4; i++ {
		id, ok := ast.Unparen(e).(*ast.Ident)
		if !ok {
			break
		}
		init := g.singleDef[g.info.Uses[id]]
		if init == nil {
			break
		}
		e = init
	}
	return ast.Unparen(e)
}

// pathOf resolves an expression to a path, looking through single-definition
// aliases (`kind := x.Kind()`).
func (g *tblGuard) pathOf(e ast.Expr) *tblPath {
	if id, ok := ast.Unparen(e).(*ast.Ident); ok {
		if o := g.info.Uses[id]; o != nil {
			if init := g.aliases[o]; init != nil {
				return tblPathOf(g.info, init)
			}
		}
	}
	return tblPathOf(g.info, e)
}

func tblAllOf(en *Enum) map[string]bool {
	s := map[string]bool{}
	for v := range en.ByVal {
		s[v] = true
	}
	return s
}

// evalConst evaluates a condition under the constants known in this run.
func (r *tblRun) evalConst(e ast.Expr) (val bool, known bool) {
	e = ast.Unparen(e)
	if tv, ok := r.g.info.Types[e]; ok && tv.Value != nil && tv.Value.Kind() == constant.Bool {
		return constant.BoolVal(tv.Value), true
	}
	switch x := e.(type) {
	case *ast.Ident:
		if o := r.g.info.Uses[x]; o != nil {
			if v, ok := r.consts[o]; ok && v.Kind() == constant.Bool {
				return constant.BoolVal(v), true
			}
			if r.assume[o] == "true" {
				return true, true
			}
			if r.assume[o] == "false" {
				return false, true
			}
		}
	case *ast.UnaryExpr:
		if x.Op == token.NOT {
			v, k := r.evalConst(x.X)
			return !v, k
		}
	case *ast.BinaryExpr:
		switch x.Op {
		case token.LAND:
			a, ka := r.evalConst(x.X)
			b, kb := r.evalConst(x.Y)
			if (ka && !a) || (kb && !b) {
				return false, true
			}
			if ka && kb {
				return true, true
			}
		case token.LOR:
			a, ka := r.evalConst(x.X)
			b, kb := r.evalConst(x.Y)
			if (ka && a) || (kb && b) {
				return true, true
			}
			if ka && kb {
				return false, true
			}
		case token.EQL, token.NEQ:
			va, vb := r.constOf(x.X), r.constOf(x.Y)
			if va != nil && vb != nil {
				eq := constant.Compare(va, token.EQL, vb)
				return eq == (x.Op == token.EQL), true
			}
			if len(r.assume) > 0 {
				for _, pr := range [][2]ast.Expr{{x.X, x.Y}, {x.Y, x.X}} {
					if id, ok := ast.Unparen(pr[0]).(*ast.Ident); ok && tblIsNil(r.g.info, pr[1]) && r.assume[r.g.info.Uses[id]] == "nil" {
						return x.Op == token.EQL, true
					}
				}
			}
		}
	}
	return false, false
}

func (r *tblRun) constOf(e ast.Expr) constant.Value {
	e = ast.Unparen(e)
	if tv, ok := r.g.info.Types[e]; ok && tv.Value != nil {
		return tv.Value
	}
	if id, ok := e.(*ast.Ident); ok {
		if o := r.g.info.Uses[id]; o != nil {
			if v, ok := r.consts[o]; ok {
				return v
			}
		}
	}
	return nil
}

// memberSet: e is a variadic parameter (never reassigned in the function) whose
// constant elements are known at this call: the set of those constants.
func (r *tblRun) memberSet(e ast.Expr) map[string]bool {
	id, ok := ast.Unparen(e).(*ast.Ident)
	if !ok {
		return nil
	}
	o := r.g.info.Uses[id]
	es, ok := r.elems[o]
	if !ok || r.g.written[o] > 0 {
		return nil
	}
	set := map[string]bool{}
	for _, k := range es {
		set[k.Val().ExactString()] = true
	}
	return set
}

func tblIsNil(info *types.Info, e ast.Expr) bool {
	id, ok := ast.Unparen(e).(*ast.Ident)
	if !ok {
		return false
	}
	_, isNil := info.Uses[id].(*types.Nil)
	return isNil
}

// condFacts: what holds when cond evaluates to `truth`.
func (r *tblRun) condFacts(cond ast.Expr, truth bool) *tblFacts {
	g := r.g
	out := newTblFacts()
	switch x := ast.Unparen(cond).(type) {
	case *ast.Ident:
		o := g.info.Uses[x]
		if o == nil {
			return out
		}
		if init := g.condAlias[o]; init != nil {
			return r.condFacts(init, truth)
		}
		if rc, ok := g.resCalls[o]; ok {
			if truth {
				return r.successFacts(rc.Call, rc.Idx, "true")
			}
			return r.successFacts(rc.Call, rc.Idx, "false")
		}
		// `v, ok := x.(T)`: ok tells whether x's discriminator is one of T's constants
		if ta := g.okAssert(o); ta != nil {
			return g.assertFacts(ta, truth, cond)
		}
	case *ast.CallExpr:
		if !truth {
			if fn := CalleeOf(g.info, x); fn != nil && g.m.fns[fn.Origin()] != nil {
				return r.successFacts(x, 0, "false")
			}
		}
		if truth {
			// slices.Contains(vs, path) with vs a variadic parameter whose elements are known at this call
			if fn := CalleeOf(g.info, x); fn != nil && fn.Pkg() != nil && fn.Pkg().Path() == "slices" && fn.Name() == "Contains" && len(x.Args) == 2 {
				if set := r.memberSet(x.Args[0]); set != nil {
					if p := g.pathOf(x.Args[1]); p != nil {
						if en := g.m.enumOf(g.info.TypeOf(x.Args[1])); en != nil {
							out.restrict(&tblFact{Path: p, Enum: en, Allowed: set,
								Why: fmt.Sprintf("%s is one of the values passed for %s (%s)", exprStr(x.Args[1]), exprStr(x.Args[0]), g.m.c.Pos(cond.Pos()))})
						}
					}
				}
				return out
			}
			return r.successFacts(x, 0, "true")
		}
	case *ast.UnaryExpr:
		if x.Op == token.NOT {
			return r.condFacts(x.X, !truth)
		}
	case *ast.BinaryExpr:
		switch x.Op {
		case token.LAND, token.LOR:
			a := r.condFacts(x.X, truth)
			conj := (x.Op == token.LAND) == truth
			saved := r.cur
			if conj && r.cur != nil {
				// the right operand is evaluated with the left one's facts in force
				r.cur = r.cur.clone()
				r.cur.and(a)
			}
			b := r.condFacts(x.Y, truth)
			r.cur = saved
			if conj {
				a.and(b)
				return a
			}
			return tblFactsOr(a, b)
		case token.EQL, token.NEQ:
			// err == nil for a call-bound result
			if tblIsNil(g.info, x.Y) || tblIsNil(g.info, x.X) {
				ve := x.X
				if tblIsNil(g.info, x.X) {
					ve = x.Y
				}
				if id, ok := ast.Unparen(ve).(*ast.Ident); ok && (x.Op == token.EQL) == truth {
					if rc, ok := g.resCalls[g.info.Uses[id]]; ok {
						return r.successFacts(rc.Call, rc.Idx, "nil")
					}
				}
				return out
			}
			pe, ke := x.X, x.Y
			k := ConstOf(g.info, ke)
			if k == nil {
				pe, ke = x.Y, x.X
				k = ConstOf(g.info, ke)
			}
			if k == nil {
				// path == member of a variadic parameter's elements
				if (x.Op == token.EQL) == truth {
					for _, pr := range [][2]ast.Expr{{x.X, x.Y}, {x.Y, x.X}} {
						if id, ok := ast.Unparen(pr[1]).(*ast.Ident); ok {
							if set := r.member[g.info.Uses[id]]; set != nil {
								if p := g.pathOf(pr[0]); p != nil {
									if en := g.m.enumOf(g.info.TypeOf(pr[0])); en != nil {
										out.restrict(&tblFact{Path: p, Enum: en, Allowed: set,
											Why: fmt.Sprintf("%s == one of the values passed for %s (%s)", exprStr(pr[0]), id.Name, g.m.c.Pos(cond.Pos()))})
										return out
									}
								}
							}
						}
						// path == vs[i]: any element of the variadic parameter
						if ix, ok := ast.Unparen(pr[1]).(*ast.IndexExpr); ok {
							if set := r.memberSet(ix.X); set != nil {
								if p := g.pathOf(pr[0]); p != nil {
									if en := g.m.enumOf(g.info.TypeOf(pr[0])); en != nil {
										out.restrict(&tblFact{Path: p, Enum: en, Allowed: set,
											Why: fmt.Sprintf("%s == one of the values passed for %s (%s)", exprStr(pr[0]), exprStr(ix.X), g.m.c.Pos(cond.Pos()))})
										return out
									}
								}
							}
						}
					}
				}
				// path == path over one enum
				pa, pb := g.pathOf(x.X), g.pathOf(x.Y)
				if pa != nil && pb != nil && (x.Op == token.EQL) == truth && g.m.enumOf(g.info.TypeOf(x.X)) != nil {
					e := tblEq{A: pa, B: pb, Why: fmt.Sprintf("%s == %s (%s)", exprStr(x.X), exprStr(x.Y), g.m.c.Pos(cond.Pos()))}
					out.eqs[e.key()] = e
					// Kind() of a value of concrete type is that type's constant
					for _, pr := range [][2]ast.Expr{{x.X, x.Y}, {x.Y, x.X}} {
						if set, en, who := g.concreteKind(pr[0]); set != nil {
							if op := g.pathOf(pr[1]); op != nil {
								out.restrict(&tblFact{Path: op, Enum: en, Allowed: set, Why: fmt.Sprintf("%s == %s, the kind of the concrete type %s (%s)", exprStr(pr[1]), exprStr(pr[0]), who, g.m.c.Pos(cond.Pos()))})
							}
						}
					}
				}
				return out
			}
			p := g.pathOf(pe)
			if p == nil {
				return out
			}
			en := g.m.enumOf(g.info.TypeOf(pe))
			if en == nil {
				return out
			}
			eq := (x.Op == token.EQL) == truth
			f := &tblFact{Path: p, Enum: en, Allowed: map[string]bool{}}
			if eq {
				f.Allowed[k.Val().ExactString()] = true
				f.Why = fmt.Sprintf("%s == %s (%s)", exprStr(pe), k.Name(), g.m.c.Pos(cond.Pos()))
			} else {
				f.Allowed = tblAllOf(en)
				delete(f.Allowed, k.Val().ExactString())
				f.Why = fmt.Sprintf("%s != %s (%s)", exprStr(pe), k.Name(), g.m.c.Pos(cond.Pos()))
			}
			out.restrict(f)
		}
	}
	return out
}

// okAssert: o is the boolean of a comma-ok type assertion `v, ok := x.(T)` that
// defines it (once; never reassigned): that assertion.
func (g *tblGuard) okAssert(o types.Object) *ast.TypeAssertExpr {
	if g.okAsserts == nil {
		g.okAsserts = map[types.Object]*ast.TypeAssertExpr{}
		defs := map[types.Object]int{}
		ast.Inspect(g.body, func(n ast.Node) bool {
			as, ok := n.(*ast.AssignStmt)
			if !ok {
				return true
			}
			for i, l := range as.Lhs {
				id, ok := ast.Unparen(l).(*ast.Ident)
				if !ok {
					continue
				}
				if d := g.info.Defs[id]; d != nil {
					defs[d]++
					if i == 1 && len(as.Lhs) == 2 && len(as.Rhs) == 1 {
						if ta, ok := ast.Unparen(as.Rhs[0]).(*ast.TypeAssertExpr); ok && ta.Type != nil {
							g.okAsserts[d] = ta
						}
					}
				}
			}
			return true
		})
		for d, n := range defs {
			if n != 1 || g.written[d] > 0 {
				delete(g.okAsserts, d)
			}
		}
	}
	return g.okAsserts[o]
}

// assertFacts: what the outcome of `_, ok := x.(T)` says about x's
// discriminator: ok ⇒ one of T's constants; !ok ⇒ none of them (when no other
// implementer shares them). x must be a path that cannot change between the
// assertion and the test (an unmodified local / parameter, no pointer on the
// way).
func (g *tblGuard) assertFacts(ta *ast.TypeAssertExpr, ok bool, at ast.Expr) *tblFacts {
	out := newTblFacts()
	ki := g.m.ifaceOf(g.info.TypeOf(ta.X))
	if ki == nil {
		return out
	}
	im := ki.implOf(g.info.TypeOf(ta.Type))
	if im == nil || im.NonConst != "" || len(im.Kinds) == 0 {
		return out
	}
	xp := g.pathOf(ta.X)
	if xp == nil || !g.immutablePath(xp) {
		return out
	}
	set := map[string]bool{}
	for _, k := range im.Kinds {
		v := k.Val().ExactString()
		if len(ki.byKind[v]) != 1 {
			return out // a shared constant does not identify the type
		}
		set[v] = true
	}
	f := &tblFact{Path: xp.extend("."+ki.Method+"()", false), Enum: ki.Enum, Allowed: map[string]bool{}}
	if ok {
		f.Allowed = set
		f.Why = fmt.Sprintf("%s holds a %s (%s)", exprStr(ta.X), im.name(), g.m.c.Pos(at.Pos()))
	} else {
		for v := range ki.Enum.ByVal {
			if !set[v] {
				f.Allowed[v] = true
			}
		}
		f.Why = fmt.Sprintf("%s does not hold a %s (%s)", exprStr(ta.X), im.name(), g.m.c.Pos(at.Pos()))
	}
	out.restrict(f)
	return out
}

// concreteKind: e is `recv.Kind()` with recv of a concrete implementer type.
func (g *tblGuard) concreteKind(e ast.Expr) (map[string]bool, *Enum, string) {
	call, ok := ast.Unparen(e).(*ast.CallExpr)
	if !ok || len(call.Args) != 0 {
		return nil, nil, ""
	}
	se, ok := ast.Unparen(call.Fun).(*ast.SelectorExpr)
	if !ok {
		return nil, nil, ""
	}
	t := g.info.TypeOf(se.X)
	if t == nil {
		return nil, nil, ""
	}
	if _, isI := types.Unalias(t).Underlying().(*types.Interface); isI {
		return nil, nil, ""
	}
	en := g.m.enumOf(g.info.TypeOf(e))
	if en == nil {
		return nil, nil, ""
	}
	for _, ki := range g.m.ifaces {
		if ki.Enum.Type != en.Type || ki.Method != se.Sel.Name {
			continue
		}
		if im := ki.implOf(t); im != nil && im.NonConst == "" {
			set := map[string]bool{}
			for _, k := range im.Kinds {
				set[k.Val().ExactString()] = true
			}
			return set, en, im.name()
		}
	}
	return nil, nil, ""
}

// clauseFacts: entering clause cc of a switch.
func (r *tblRun) clauseFacts(sw *ast.SwitchStmt, cc *ast.CaseClause) *tblFacts {
	g := r.g
	out := newTblFacts()
	if sw.Tag == nil {
		// tagless: earlier clauses false, one of this clause's conditions true
		for _, c := range sw.Body.List {
			c := c.(*ast.CaseClause)
			if c == cc {
				break
			}
			for _, e := range c.List {
				out.and(r.condFacts(e, false))
			}
		}
		if cc.List == nil {
			for _, c := range sw.Body.List {
				for _, e := range c.(*ast.CaseClause).List {
					out.and(r.condFacts(e, false))
				}
			}
			return out
		}
		var alt *tblFacts
		for _, e := range cc.List {
			f := r.condFacts(e, true)
			if alt == nil {
				alt = f
			} else {
				alt = tblFactsOr(alt, f)
			}
		}
		if alt != nil {
			out.and(alt)
		}
		return out
	}
	p := g.pathOf(sw.Tag)
	if p == nil {
		return out
	}
	en := g.m.enumOf(g.info.TypeOf(sw.Tag))
	if en == nil {
		return out
	}
	f := &tblFact{Path: p, Enum: en, Allowed: map[string]bool{}}
	if cc.List != nil {
		var names []string
		for _, e := range cc.List {
			k := ConstOf(g.info, e)
			if k == nil {
				return out // non-constant case label: no fact
			}
			f.Allowed[k.Val().ExactString()] = true
			names = append(names, k.Name())
		}
		f.Why = fmt.Sprintf("case %s of switch %s (%s)", strings.Join(names, ","), exprStr(sw.Tag), g.m.c.Pos(cc.Pos()))
	} else {
		f.Allowed = tblAllOf(en)
		for _, c := range sw.Body.List {
			for _, e := range c.(*ast.CaseClause).List {
				k := ConstOf(g.info, e)
				if k == nil {
					return out
				}
				delete(f.Allowed, k.Val().ExactString())
			}
		}
		f.Why = fmt.Sprintf("default of switch %s (%s)", exprStr(sw.Tag), g.m.c.Pos(cc.Pos()))
	}
	out.restrict(f)
	return out
}

// clauseLeaves: control cannot continue after the enclosing switch from this
// clause (return / panic / continue / labelled branch; a plain break does
// continue after the switch).
func (g *tblGuard) clauseLeaves(body []ast.Stmt) bool {
	if len(body) == 0 {
		return false
	}
	if br, ok := body[len(body)-1].(*ast.BranchStmt); ok {
		return br.Tok == token.CONTINUE || br.Tok == token.GOTO
	}
	// a break nested anywhere (not inside an inner loop/switch/select/closure) falls out of the switch
	hasBreak := false
	var scan func(n ast.Node) bool
	scan = func(n ast.Node) bool {
		switch x := n.(type) {
		case *ast.ForStmt, *ast.RangeStmt, *ast.SwitchStmt, *ast.TypeSwitchStmt, *ast.SelectStmt, *ast.FuncLit:
			return false
		case *ast.BranchStmt:
			if x.Tok == token.BREAK && x.Label == nil {
				hasBreak = true
			}
		}
		return true
	}
	for _, s := range body {
		ast.Inspect(s, scan)
	}
	return !hasBreak && g.m.tblTerminates(g.info, body)
}

// afterStmt: facts that hold after statement s completes normally.
func (r *tblRun) afterStmt(s ast.Stmt) *tblFacts {
	g := r.g
	out := newTblFacts()
	switch x := s.(type) {
	case *ast.IfStmt:
		thenT := g.m.tblTerminates(g.info, x.Body.List)
		elseT := false
		switch e := x.Else.(type) {
		case *ast.BlockStmt:
			elseT = g.m.tblTerminates(g.info, e.List)
		case *ast.IfStmt:
			elseT = g.m.tblTerminates(g.info, []ast.Stmt{e})
		}
		if thenT && !elseT {
			out.and(r.condFacts(x.Cond, false))
			if ei, ok := x.Else.(*ast.IfStmt); ok {
				out.and(r.afterStmt(ei))
			}
		} else if elseT && !thenT {
			out.and(r.condFacts(x.Cond, true))
		}
	case *ast.SwitchStmt:
		if x.Tag == nil {
			return out
		}
		p := g.pathOf(x.Tag)
		en := g.m.enumOf(g.info.TypeOf(x.Tag))
		if p == nil || en == nil {
			return out
		}
		f := &tblFact{Path: p, Enum: en, Allowed: tblAllOf(en)}
		var gone []string
		hasDefault, defaultLeaves := false, false
		for _, c := range x.Body.List {
			cc := c.(*ast.CaseClause)
			leaves := g.clauseLeaves(cc.Body)
			if cc.List == nil {
				hasDefault, defaultLeaves = true, leaves
				continue
			}
			if !leaves {
				continue
			}
			for _, e := range cc.List {
				if k := ConstOf(g.info, e); k != nil {
					delete(f.Allowed, k.Val().ExactString())
					gone = append(gone, k.Name())
				}
			}
		}
		if hasDefault && defaultLeaves {
			// only the listed, non-leaving constants survive
			keep := map[string]bool{}
			for _, c := range x.Body.List {
				cc := c.(*ast.CaseClause)
				if cc.List == nil || g.clauseLeaves(cc.Body) {
					continue
				}
				for _, e := range cc.List {
					if k := ConstOf(g.info, e); k != nil {
						keep[k.Val().ExactString()] = true
					} else {
						return out
					}
				}
			}
			f.Allowed = keep
			f.Why = fmt.Sprintf("after switch %s whose default leaves (%s)", exprStr(x.Tag), g.m.c.Pos(x.Pos()))
			out.restrict(f)
			return out
		}
		if len(gone) > 0 {
			f.Why = fmt.Sprintf("after switch %s: cases %s leave (%s)", exprStr(x.Tag), strings.Join(gone, ","), g.m.c.Pos(x.Pos()))
			out.restrict(f)
		}
	}
	return out
}

// kills applies the writes of node n (anywhere inside it) to the facts.
func (g *tblGuard) kills(f *tblFacts, n ast.Node) {
	if n == nil || tblNilNode(n) || f.empty() {
		return
	}
	ast.Inspect(n, func(n ast.Node) bool {
		switch x := n.(type) {
		case *ast.AssignStmt:
			for _, l := range x.Lhs {
				if id, ok := ast.Unparen(l).(*ast.Ident); ok && x.Tok == token.DEFINE && g.info.Defs[id] != nil {
					continue // new object
				}
				if lp := tblPathOf(g.info, l); lp != nil {
					f.killStore(lp)
					if lp.Heap {
						g.killEscaping(f) // the pointer may point at an address-taken local
					}
					continue
				}
				g.killEscaping(f)
				if r := tblRootObj(g.info, l); r != nil {
					f.killRoot(r)
				}
				f.killHeap() // store through something that is not a pure path
			}
		case *ast.IncDecStmt:
			if lp := tblPathOf(g.info, x.X); lp != nil {
				f.killStore(lp)
			} else if r := tblRootObj(g.info, x.X); r != nil {
				f.killRoot(r)
				f.killHeap()
			}
		case *ast.UnaryExpr:
			if x.Op == token.AND {
				if r := tblRootObj(g.info, x.X); r != nil {
					f.killRoot(r)
				}
			}
		case *ast.RangeStmt:
			if x.Tok == token.ASSIGN {
				for _, e := range []ast.Expr{x.Key, x.Value} {
					if e != nil {
						if r := tblRootObj(g.info, e); r != nil {
							f.killRoot(r)
						}
					}
				}
			}
		case *ast.CallExpr:
			if g.impureCall(x) {
				g.callKills(f, x)
				g.killEscaping(f)
			}
		case *ast.GoStmt:
			f.killHeap()
		case *ast.DeferStmt:
			// the deferred call runs when the function returns; counting it as run here (its CallExpr is
			// visited next) over-approximates what later points of the body can observe. What the caller
			// observes after the return is handled where return facts are computed (successFacts).
			if _, isLit := ast.Unparen(x.Call.Fun).(*ast.FuncLit); isLit {
				f.killHeap()
			}
		}
		return true
	})
}

// immutablePath: the path denotes the same value for the whole activation once
// its root is bound: the root is a local variable or parameter that is never
// assigned again, never has a part assigned, never has its address taken (also
// implicitly, by a pointer-receiver method call), and the path does not pass
// through a pointer, slice or map.
func (g *tblGuard) immutablePath(p *tblPath) bool {
	if p.Heap || g.written[p.Root] > 0 || g.escaping[p.Root] {
		return false
	}
	v, ok := p.Root.(*types.Var)
	if !ok || v.IsField() || v.Pkg() == nil || v.Parent() == nil || v.Parent() == v.Pkg().Scope() {
		return false
	}
	if g.ptrRecv == nil {
		g.ptrRecv = map[types.Object]bool{}
		ast.Inspect(g.body, func(n ast.Node) bool {
			// loop variables are rebound on every iteration (one variable per loop before Go 1.22)
			switch x := n.(type) {
			case *ast.RangeStmt:
				for _, e := range []ast.Expr{x.Key, x.Value} {
					if id, ok := e.(*ast.Ident); ok && g.info.Defs[id] != nil {
						g.ptrRecv[g.info.Defs[id]] = true
					}
				}
			case *ast.ForStmt:
				if as, ok := x.Init.(*ast.AssignStmt); ok {
					for _, l := range as.Lhs {
						if id, ok := l.(*ast.Ident); ok && g.info.Defs[id] != nil {
							g.ptrRecv[g.info.Defs[id]] = true
						}
					}
				}
			}
			call, ok := n.(*ast.CallExpr)
			if !ok {
				return true
			}
			se, ok := ast.Unparen(call.Fun).(*ast.SelectorExpr)
			if !ok {
				return true
			}
			if sel := g.info.Selections[se]; sel != nil && sel.Kind() == types.MethodVal {
				if sig, ok := sel.Obj().Type().(*types.Signature); ok && sig.Recv() != nil {
					if _, isPtr := types.Unalias(sig.Recv().Type()).(*types.Pointer); isPtr {
						if _, recvIsPtr := types.Unalias(g.info.TypeOf(se.X)).Underlying().(*types.Pointer); !recvIsPtr {
							if r := tblRootObj(g.info, se.X); r != nil {
								g.ptrRecv[r] = true
							}
						}
					}
				}
			}
			return true
		})
	}
	return !g.ptrRecv[p.Root]
}

// deferred: the defer statements of the function (outside closures).
func (g *tblGuard) deferred() []*ast.DeferStmt {
	var out []*ast.DeferStmt
	ast.Inspect(g.body, func(n ast.Node) bool {
		switch x := n.(type) {
		case *ast.FuncLit:
			return false
		case *ast.DeferStmt:
			out = append(out, x)
		}
		return true
	})
	return out
}

func (g *tblGuard) killEscaping(f *tblFacts) {
	if len(g.escaping) == 0 {
		return
	}
	f.killIf(func(p *tblPath) bool { return g.escaping[p.Root] })
}

func (g *tblGuard) impureCall(call *ast.CallExpr) bool {
	if tv, ok := g.info.Types[call.Fun]; ok && tv.IsType() {
		return false
	}
	if id, ok := ast.Unparen(call.Fun).(*ast.Ident); ok {
		if _, ok := g.info.Uses[id].(*types.Builtin); ok {
			return false
		}
	}
	if tblPathOf(g.info, call) != nil {
		return false // zero-argument getter on a pure path
	}
	return true
}

// callKills: what a call can invalidate. Heap paths survive a call to a
// statically known function when neither it nor anything it can reach in the
// call graph writes one of the fields the path selects; local values survive
// unless the call is a pointer-receiver method on them.
func (g *tblGuard) callKills(f *tblFacts, call *ast.CallExpr) {
	if se, ok := ast.Unparen(call.Fun).(*ast.SelectorExpr); ok {
		if sel := g.info.Selections[se]; sel != nil && sel.Kind() == types.MethodVal {
			if sig, ok := sel.Obj().Type().(*types.Signature); ok && sig.Recv() != nil {
				_, recvIsPtr := types.Unalias(g.info.TypeOf(se.X)).Underlying().(*types.Pointer)
				if _, isPtr := types.Unalias(sig.Recv().Type()).(*types.Pointer); isPtr && !recvIsPtr {
					// pointer-receiver method on an addressable local value (implicit &x): may write it
					if rp := tblPathOf(g.info, se.X); rp != nil && !rp.Heap {
						f.killStore(rp)
					} else if rp == nil {
						if r := tblRootObj(g.info, se.X); r != nil {
							f.killRoot(r)
						}
					}
				}
			}
		}
	}
	anyHeap := false
	for _, v := range f.m {
		anyHeap = anyHeap || v.Path.Heap
	}
	for _, e := range f.eqs {
		anyHeap = anyHeap || e.A.Heap || e.B.Heap
	}
	if !anyHeap {
		return
	}
	ws, known := g.m.callWrites(g.info, call)
	if !known {
		f.killHeap()
		return
	}
	f.killIf(func(p *tblPath) bool {
		if !p.Heap {
			return false
		}
		if len(p.Fields) == 0 {
			return true // *ptr, global, slice element: no field to reason about
		}
		return g.m.mayWrite(ws, p.Fields)
	})
}

// mayWrite: can one of the recorded writes change a location the path reads?
// The path's fields fall into segments, one per memory object it passes
// through (a field key with a leading '*' starts a new object). A write
// record is the chain of fields, outermost first, between the pointer the
// store goes through and the stored location. Record and segment can denote
// overlapping memory only if, laid over each other from the start of an
// object, one is a prefix of the other. The write's pointer may also point
// into the middle of the segment's object (at the sub-object held by field
// s_j) - but such a pointer exists only if the address of s_j is taken
// somewhere in the module and leaves the expression it is taken in
// (m.addrEscaped; pointer-receiver method calls on the field count). The
// reverse case (the segment's own base pointing into the middle of the written
// object) is covered where the record is made: the suffixes of the chain
// below an address-escaped field are recorded too.
func (m *tblModel) mayWrite(ws map[string]bool, fields []string) bool {
	esc := m.addrEscaped()
	var seg []string
	check := func(seg []string) bool {
		for j := 0; j < len(seg); j++ {
			if j > 0 && esc[seg[j-1]] == "" {
				continue
			}
			view := seg[j:]
			// whole-object store through a pointer to the struct that owns view[0]
			if i := strings.LastIndex(view[0], "."); i > 0 && ws["W:"+view[0][:i]] {
				return true
			}
			// a recorded chain is a prefix of the view
			for i := 1; i <= len(view); i++ {
				if ws["C:"+strings.Join(view[:i], ">")] {
					return true
				}
			}
			// the view is a proper prefix of a recorded chain
			if ws["P:"+strings.Join(view, ">")] {
				return true
			}
		}
		// a store through a plain pointer to a non-struct value: it may point at any field of that
		// type whose address escapes
		for _, x := range seg {
			if t := esc[x]; t != "" && ws["R:"+t] {
				return true
			}
		}
		return false
	}
	for i, x := range fields {
		if strings.HasPrefix(x, "*") && i > 0 {
			if check(seg) {
				return true
			}
			seg = nil
		}
		seg = append(seg, tblBareField(x))
	}
	return check(seg)
}

// addrEscaped: the struct fields ("pkg.T.F" → type of the field) whose address
// is taken and used for anything but a load, a store into it, or a further
// field/element selection, anywhere in the module.
func (m *tblModel) addrEscaped() map[string]string {
	m.escOnce.Do(func() {
		m.addrEsc = map[string]string{}
		m.c.SSA()
		seen := map[*ssa.Function]bool{}
		var visit func(fn *ssa.Function)
		visit = func(fn *ssa.Function) {
			if fn == nil || seen[fn] {
				return
			}
			seen[fn] = true
			for _, b := range fn.Blocks {
				for _, ins := range b.Instrs {
					fa, ok := ins.(*ssa.FieldAddr)
					if !ok || fa.Referrers() == nil {
						continue
					}
					for _, ref := range *fa.Referrers() {
						esc := true
						switch rr := ref.(type) {
						case *ssa.UnOp:
							esc = rr.Op != token.MUL
						case *ssa.FieldAddr, *ssa.IndexAddr, *ssa.DebugRef:
							esc = false
						case *ssa.Store:
							esc = rr.Val == ssa.Value(fa)
						}
						if esc {
							if k, t := tblSSAFieldKey(fa); k != "" {
								m.addrEsc[k] = t
							}
						}
					}
				}
			}
			for _, an := range fn.AnonFuncs {
				visit(an)
			}
		}
		for _, sp := range m.c.SSAPkgs {
			if sp == nil || !strings.HasPrefix(sp.Pkg.Path(), ModPath) {
				continue
			}
			for _, mem := range sp.Members {
				switch x := mem.(type) {
				case *ssa.Function:
					visit(x)
				case *ssa.Type:
					for _, recv := range []types.Type{x.Type(), types.NewPointer(x.Type())} {
						ms := m.c.Prog.MethodSets.MethodSet(recv)
						for i := 0; i < ms.Len(); i++ {
							if f := m.c.Prog.MethodValue(ms.At(i)); f != nil {
								visit(f)
							}
						}
					}
				}
			}
		}
	})
	return m.addrEsc
}

// tblSSAFieldKey: "pkg.T.F" of the field a FieldAddr selects, and the field's type.
func tblSSAFieldKey(fa *ssa.FieldAddr) (string, string) {
	pt, ok := types.Unalias(fa.X.Type()).Underlying().(*types.Pointer)
	if !ok {
		return "", ""
	}
	st, ok := types.Unalias(pt.Elem()).Underlying().(*types.Struct)
	if !ok {
		return "", ""
	}
	f := st.Field(fa.Field)
	return tblFieldKey(f, pt.Elem()), types.TypeString(f.Type(), nil)
}

// callWrites: the write records (see direct) of everything the call may run.
// known=false when the callee is not a statically resolved function, or a
// non-module function receives something through which module state could be
// written.
func (m *tblModel) callWrites(info *types.Info, call *ast.CallExpr) (map[string]bool, bool) {
	fn := CalleeOf(info, call)
	if fn == nil {
		return nil, false
	}
	fn = fn.Origin()
	if sig, ok := fn.Type().(*types.Signature); ok && sig.Recv() != nil {
		if _, isI := types.Unalias(sig.Recv().Type()).Underlying().(*types.Interface); isI {
			return nil, false // dynamic dispatch
		}
	}
	if fn.Pkg() == nil || !strings.HasPrefix(fn.Pkg().Path(), ModPath) {
		// library function: harmless when no argument can carry a pointer into module state
		for _, a := range call.Args {
			if tblMayCarryPointer(info.TypeOf(a), 0) {
				return nil, false
			}
		}
		if se, ok := ast.Unparen(call.Fun).(*ast.SelectorExpr); ok {
			if sel := info.Selections[se]; sel != nil && tblMayCarryPointer(info.TypeOf(se.X), 0) {
				return nil, false
			}
		}
		return map[string]bool{}, true
	}
	m.c.SSA()
	sf := m.c.Prog.FuncValue(fn)
	if sf == nil {
		return nil, false
	}
	return m.reachWrites(sf)
}

func tblMayCarryPointer(t types.Type, depth int) bool {
	if t == nil || depth > 6 {
		return true
	}
	switch u := types.Unalias(t).Underlying().(type) {
	case *types.Basic:
		return u.Kind() == types.UnsafePointer
	case *types.Pointer, *types.Interface, *types.Signature, *types.Map, *types.Chan:
		return true
	case *types.Slice:
		return tblMayCarryPointer(u.Elem(), depth+1)
	case *types.Array:
		return tblMayCarryPointer(u.Elem(), depth+1)
	case *types.Struct:
		for i := 0; i < u.NumFields(); i++ {
			if tblMayCarryPointer(u.Field(i).Type(), depth+1) {
				return true
			}
		}
		return false
	case *types.Tuple:
		for i := 0; i < u.Len(); i++ {
			if tblMayCarryPointer(u.At(i).Type(), depth+1) {
				return true
			}
		}
		return false
	}
	return true
}

// reachWrites: union of the direct field writes of every function reachable
// from sf in the VTA call graph. known=false if a reachable call site has no
// resolved callee inside the graph (call through an unresolved function
// value).
func (m *tblModel) reachWrites(sf *ssa.Function) (map[string]bool, bool) {
	tblModelMu.Lock()
	if m.writeCache == nil {
		m.writeCache = map[*ssa.Function]*tblWrites{}
		m.directWrites = map[*ssa.Function]map[string]bool{}
	}
	if w := m.writeCache[sf]; w != nil {
		tblModelMu.Unlock()
		return w.set, w.known
	}
	tblModelMu.Unlock()
	cg := m.c.CallGraph()
	out := map[string]bool{}
	known := true
	seen := map[*ssa.Function]bool{}
	var stack []*ssa.Function
	stack = append(stack, sf)
	for len(stack) > 0 {
		f := stack[len(stack)-1]
		stack = stack[:len(stack)-1]
		if seen[f] {
			continue
		}
		seen[f] = true
		for k := range m.direct(f) {
			out[k] = true
		}
		for _, an := range f.AnonFuncs {
			stack = append(stack, an)
		}
		n := cg.Nodes[f]
		if n == nil {
			continue
		}
		for _, e := range n.Out {
			stack = append(stack, e.Callee.Func)
		}
	}
	tblModelMu.Lock()
	m.writeCache[sf] = &tblWrites{set: out, known: known}
	tblModelMu.Unlock()
	return out, known
}

type tblWrites struct {
	set   map[string]bool
	known bool
}

// direct: the write records of one SSA function (see mayWrite):
//
//	"C:a>b>c"  a store to (or an escaping address of) the location base.a.b.c, base being a pointer
//	           that is not a non-escaping local of the function; "P:…" are the proper prefixes of the
//	           recorded chains
//	"W:pkg.T"  the whole struct T (and every struct nested in it by value) is overwritten through a
//	           pointer to it
//	"R:type"   a store through a plain pointer to a non-struct value of that type
func (m *tblModel) direct(f *ssa.Function) map[string]bool {
	tblModelMu.Lock()
	if w, ok := m.directWrites[f]; ok {
		tblModelMu.Unlock()
		return w
	}
	tblModelMu.Unlock()
	esc := m.addrEscaped()
	out := map[string]bool{}
	// chain: the fields on the address chain leading to v, outermost first; local=true when the chain
	// starts at a non-escaping local (no pre-existing object is written)
	var chain func(v ssa.Value, depth int) (fields []string, local bool)
	chain = func(v ssa.Value, depth int) ([]string, bool) {
		if depth > 8 {
			return nil, false
		}
		switch x := v.(type) {
		case *ssa.FieldAddr:
			acc, local := chain(x.X, depth+1)
			if local {
				return nil, true
			}
			if k, _ := tblSSAFieldKey(x); k != "" {
				acc = append(acc, k)
			}
			return acc, false
		case *ssa.IndexAddr:
			// an element of an array held by value continues the chain; a slice element starts anew
			if _, isPtr := types.Unalias(x.X.Type()).Underlying().(*types.Pointer); isPtr {
				return chain(x.X, depth+1)
			}
			return nil, false
		case *ssa.Alloc:
			return nil, !x.Heap
		}
		return nil, false
	}
	var whole func(t types.Type, depth int)
	whole = func(t types.Type, depth int) {
		if depth > 4 {
			return
		}
		t = types.Unalias(t)
		if nt, ok := t.(*types.Named); ok && nt.Obj().Pkg() != nil {
			if _, isS := nt.Underlying().(*types.Struct); isS {
				out["W:"+nt.Obj().Pkg().Path()+"."+nt.Obj().Name()] = true
			}
		}
		switch u := t.Underlying().(type) {
		case *types.Struct:
			for i := 0; i < u.NumFields(); i++ {
				whole(u.Field(i).Type(), depth+1)
			}
		case *types.Array:
			whole(u.Elem(), depth+1)
		}
	}
	record := func(fields []string, elem types.Type) {
		add := func(fs []string) {
			out["C:"+strings.Join(fs, ">")] = true
			for i := 1; i < len(fs); i++ {
				out["P:"+strings.Join(fs[:i], ">")] = true
			}
		}
		if len(fields) == 0 {
			// through a plain pointer
			if elem != nil {
				if _, isS := types.Unalias(elem).Underlying().(*types.Struct); isS {
					whole(elem, 0)
				} else if _, isA := types.Unalias(elem).Underlying().(*types.Array); isA {
					whole(elem, 0)
				} else {
					out["R:"+types.TypeString(elem, nil)] = true
				}
			}
			return
		}
		add(fields)
		// somebody else's pointer may denote the sub-object below an address-escaped field of the chain
		for i := 1; i <= len(fields); i++ {
			if esc[fields[i-1]] == "" {
				continue
			}
			if i < len(fields) {
				add(fields[i:])
			} else if elem != nil {
				whole(elem, 0)
				if _, isS := types.Unalias(elem).Underlying().(*types.Struct); !isS {
					out["R:"+types.TypeString(elem, nil)] = true
				}
			}
		}
	}
	written := func(addr ssa.Value) {
		fields, local := chain(addr, 0)
		if local {
			return
		}
		var elem types.Type
		if pt, ok := types.Unalias(addr.Type()).Underlying().(*types.Pointer); ok {
			elem = pt.Elem()
		}
		record(fields, elem)
	}
	for _, b := range f.Blocks {
		for _, ins := range b.Instrs {
			switch x := ins.(type) {
			case *ssa.Store:
				written(x.Addr)
			case *ssa.MapUpdate:
				// map element store: the map itself may be a field value, writing through it
				if u, ok := x.Map.(*ssa.UnOp); ok && u.Op == token.MUL {
					if fields, local := chain(u.X, 0); !local && len(fields) > 0 {
						record(fields, nil)
					}
				}
			case *ssa.FieldAddr:
				// address escapes (call argument, stored, captured, returned): whoever gets it may write
				if x.Referrers() == nil {
					continue
				}
				for _, ref := range *x.Referrers() {
					switch rr := ref.(type) {
					case *ssa.UnOp, *ssa.FieldAddr, *ssa.IndexAddr, *ssa.DebugRef:
					case *ssa.Store:
						if rr.Val == ssa.Value(x) {
							written(x)
						}
					default:
						written(x)
					}
				}
			}
		}
	}
	tblModelMu.Lock()
	m.directWrites[f] = out
	tblModelMu.Unlock()
	return out
}

// tblLocalSlot: the address denotes (a part of) a non-escaping local variable
// of the function being scanned.
func tblLocalSlot(v ssa.Value, depth int) bool {
	if depth > 8 {
		return false
	}
	switch x := v.(type) {
	case *ssa.Alloc:
		return !x.Heap
	case *ssa.FieldAddr:
		return tblLocalSlot(x.X, depth+1)
	case *ssa.IndexAddr:
		// only an array held in a local slot; a slice element lives elsewhere
		if _, isPtr := types.Unalias(x.X.Type()).Underlying().(*types.Pointer); isPtr {
			return tblLocalSlot(x.X, depth+1)
		}
	}
	return false
}

func tblNilNode(n ast.Node) bool {
	switch x := n.(type) {
	case ast.Expr:
		return x == nil
	case ast.Stmt:
		return x == nil
	case *ast.BlockStmt:
		return x == nil
	}
	return false
}

// ---- the walk ----

// factsAt computes the facts holding when control reaches target (a node
// inside g.body), before target itself is evaluated.
func (g *tblGuard) factsAt(target ast.Node) *tblFacts {
	return g.factsAtInit(target, nil)
}

// factsAtInit: same, starting from facts that hold at function entry.
func (g *tblGuard) factsAtInit(target ast.Node, init *tblFacts) *tblFacts {
	r := &tblRun{g: g}
	return r.factsTo(target, init)
}

func (r *tblRun) noteCall(s ast.Stmt, facts *tblFacts) {
	as, ok := s.(*ast.AssignStmt)
	if !ok || len(as.Rhs) != 1 {
		return
	}
	call, ok := ast.Unparen(as.Rhs[0]).(*ast.CallExpr)
	if !ok {
		return
	}
	if r.snaps == nil {
		r.snaps = map[*ast.CallExpr]*tblFacts{}
	}
	r.snaps[call] = facts.clone()
}

// transferStmt applies the effect of a statement that completes normally.
func (r *tblRun) transferStmt(facts *tblFacts, s ast.Stmt) {
	g := r.g
	switch x := s.(type) {
	case *ast.IfStmt:
		r.initStmt(facts, x.Init)
		g.kills(facts, x.Cond)
		cv, ck := r.evalConst(x.Cond)
		if ck {
			// the branch taken is known (constant argument / assumption about a returned local): it ran as
			// a plain sequence
			var taken []ast.Stmt
			if cv {
				taken = x.Body.List
			} else if x.Else != nil {
				taken = []ast.Stmt{x.Else}
				if eb, ok := x.Else.(*ast.BlockStmt); ok {
					taken = eb.List
				}
			}
			r.cur = facts
			facts.and(r.condFacts(x.Cond, cv))
			if len(taken) > 0 && g.m.tblTerminates(g.info, taken) {
				r.dead = true // control cannot come past this statement under the assumption
				return
			}
			for _, st := range taken {
				r.transferStmt(facts, st)
			}
			return
		}
		if !(ck && !cv) && !g.m.tblTerminates(g.info, x.Body.List) {
			g.kills(facts, x.Body)
		}
		if x.Else != nil && !(ck && cv) {
			if eb, ok := x.Else.(*ast.BlockStmt); !ok || !g.m.tblTerminates(g.info, eb.List) {
				g.kills(facts, x.Else)
			}
		}
		r.cur = facts
		facts.and(r.afterStmt(x))
	case *ast.AssignStmt:
		r.noteCall(x, facts)
		// copies: P = Q moves what is known about Q… to P…
		type cp struct {
			dst  *tblPath
			from []*tblFact
			eqs  []tblEq
			src  *tblPath
		}
		var cps []cp
		if len(x.Lhs) == len(x.Rhs) && (x.Tok == token.ASSIGN || x.Tok == token.DEFINE) {
			for i := range x.Lhs {
				dp, sp := tblPathOf(g.info, x.Lhs[i]), tblPathOf(g.info, x.Rhs[i])
				if dp == nil || sp == nil {
					continue
				}
				c := cp{dst: dp, src: sp}
				for _, ft := range facts.m {
					if ft.Path.Root == sp.Root && tblHasPrefix(ft.Path.Parts, sp.Parts) {
						c.from = append(c.from, ft)
					}
				}
				cps = append(cps, c)
			}
		}
		g.kills(facts, x)
		for _, c := range cps {
			// (in a parallel assignment the source may be overwritten by the same statement)
			clobbered := false
			for _, l := range x.Lhs {
				if lp := tblPathOf(g.info, l); lp != nil && lp.Root == c.src.Root && (tblHasPrefix(c.src.Parts, lp.Parts) || tblHasPrefix(lp.Parts, c.src.Parts)) {
					clobbered = true
				}
			}
			if c.dst.Key != c.src.Key && !clobbered {
				e := tblEq{A: c.dst, B: c.src, Why: fmt.Sprintf("%s = %s (%s)", exprStr(x.Lhs[0]), exprStr(x.Rhs[0]), g.m.c.Pos(x.Pos()))}
				facts.eqs[e.key()] = e
			}
		}
		for _, c := range cps {
			for _, ft := range c.from {
				rest := ft.Path.Parts[len(c.src.Parts):]
				np := c.dst.extend(rest, false)
				np.Fields = append(append([]string{}, c.dst.Fields...), ft.Path.Fields[tblMin(len(c.src.Fields), len(ft.Path.Fields)):]...)
				facts.restrict(&tblFact{Path: np, Enum: ft.Enum, Allowed: ft.Allowed, Why: ft.Why + fmt.Sprintf("; copied by %s = %s (%s)", exprStr(x.Lhs[0]), exprStr(x.Rhs[0]), g.m.c.Pos(x.Pos()))})
			}
		}
	case *ast.ExprStmt:
		// a call statement of a module function: what it kills, then what its body re-establishes from
		// what was known before (e.g. a helper that shifts the token cursor)
		if call, ok := ast.Unparen(x.X).(*ast.CallExpr); ok && !facts.empty() && r.depth < 3 {
			if fn := CalleeOf(g.info, call); fn != nil && g.m.fns[fn.Origin()] != nil {
				pre := facts.clone()
				g.kills(facts, s)
				saved := r.cur
				r.cur = pre
				facts.and(r.successFacts(call, -1, ""))
				r.cur = saved
				return
			}
		}
		g.kills(facts, s)
		r.cur = facts
		facts.and(r.afterStmt(s))
	case *ast.DeclStmt:
		// `var k = expr` is `k := expr`
		if gd, ok := x.Decl.(*ast.GenDecl); ok && gd.Tok == token.VAR {
			for _, sp := range gd.Specs {
				vs, ok := sp.(*ast.ValueSpec)
				if !ok {
					continue
				}
				if len(vs.Values) == 0 || (len(vs.Names) != len(vs.Values) && len(vs.Values) != 1) {
					g.kills(facts, vs)
					continue
				}
				as := &ast.AssignStmt{Tok: token.DEFINE, TokPos: vs.Pos(), Rhs: vs.Values}
				for _, nm := range vs.Names {
					as.Lhs = append(as.Lhs, nm)
				}
				r.transferStmt(facts, as)
			}
			return
		}
		g.kills(facts, s)
	default:
		g.kills(facts, s)
		r.cur = facts
		facts.and(r.afterStmt(s))
	}
}

func tblMin(a, b int) int {
	if a < b {
		return a
	}
	return b
}

// initStmt: the init statement of an if/switch (an assignment is transferred
// like any other, so that `if k := x.Kind(); k != K` links k to x.Kind()).
func (r *tblRun) initStmt(facts *tblFacts, init ast.Stmt) {
	if init == nil {
		return
	}
	if as, ok := init.(*ast.AssignStmt); ok {
		r.transferStmt(facts, as)
		r.markFresh(as)
		return
	}
	r.g.kills(facts, init)
}

// markFresh: the call bound in this statement has just run; its success test
// may use the pre-call snapshot until the next statement is processed.
func (r *tblRun) markFresh(s ast.Stmt) {
	if ds, ok := s.(*ast.DeclStmt); ok {
		if gd, ok := ds.Decl.(*ast.GenDecl); ok && gd.Tok == token.VAR && len(gd.Specs) == 1 {
			if vs, ok := gd.Specs[0].(*ast.ValueSpec); ok && len(vs.Values) == 1 {
				if call, ok := ast.Unparen(vs.Values[0]).(*ast.CallExpr); ok {
					r.fresh[call] = true
				}
			}
		}
		return
	}
	as, ok := s.(*ast.AssignStmt)
	if !ok || len(as.Rhs) != 1 {
		return
	}
	if call, ok := ast.Unparen(as.Rhs[0]).(*ast.CallExpr); ok {
		r.fresh[call] = true
	}
}

func (r *tblRun) factsTo(target ast.Node, init *tblFacts) *tblFacts {
	g := r.g
	// ancestors from body down to target
	var chain []ast.Node
	for n := target; n != nil; n = g.parents[n] {
		chain = append(chain, n)
		if n == ast.Node(g.body) {
			break
		}
	}
	if len(chain) == 0 || chain[len(chain)-1] != ast.Node(g.body) {
		return newTblFacts()
	}
	for i, j := 0, len(chain)-1; i < j; i, j = i+1, j-1 {
		chain[i], chain[j] = chain[j], chain[i]
	}
	facts := newTblFacts()
	if init != nil {
		facts = init.clone()
	}
	r.fresh = map[*ast.CallExpr]bool{}
	seq := func(list []ast.Stmt, child ast.Node) {
		var prev ast.Stmt
		for _, s := range list {
			// only a call bound by the immediately preceding statement is still fresh
			r.fresh = map[*ast.CallExpr]bool{}
			if prev != nil {
				r.markFresh(prev)
			}
			if ast.Node(s) == child {
				return
			}
			r.transferStmt(facts, s)
			prev = s
		}
	}
	for i := 0; i+1 < len(chain); i++ {
		parent, child := chain[i], chain[i+1]
		switch x := parent.(type) {
		case *ast.BlockStmt:
			seq(x.List, child)
		case *ast.CaseClause:
			inBody := false
			for _, s := range x.Body {
				if ast.Node(s) == child {
					inBody = true
				}
			}
			if !inBody {
				break
			}
			// parent chain: SwitchStmt > BlockStmt > CaseClause
			if i >= 2 {
				if sw, ok := chain[i-2].(*ast.SwitchStmt); ok {
					r.cur = facts
					facts.and(r.clauseFacts(sw, x))
				}
			}
			seq(x.Body, child)
		case *ast.CommClause:
			seq(x.Body, child)
		case *ast.SwitchStmt:
			if child == ast.Node(x.Body) {
				r.initStmt(facts, x.Init)
				if x.Tag != nil {
					g.kills(facts, x.Tag)
				}
			}
		case *ast.TypeSwitchStmt:
			if child == ast.Node(x.Body) {
				g.kills(facts, x.Init)
				g.kills(facts, x.Assign)
			}
		case *ast.IfStmt:
			if child != ast.Node(x.Init) {
				r.initStmt(facts, x.Init)
			}
			switch child {
			case ast.Node(x.Body):
				g.kills(facts, x.Cond)
				if v, k := r.evalConst(x.Cond); k && !v {
					r.dead = true
				}
				r.cur = facts
				facts.and(r.condFacts(x.Cond, true))
			case ast.Node(x.Else):
				g.kills(facts, x.Cond)
				if v, k := r.evalConst(x.Cond); k && v {
					r.dead = true
				}
				r.cur = facts
				facts.and(r.condFacts(x.Cond, false))
			}
		case *ast.BinaryExpr:
			if (x.Op == token.LAND || x.Op == token.LOR) && child == ast.Node(x.Y) {
				g.kills(facts, x.X)
				r.cur = facts
				facts.and(r.condFacts(x.X, x.Op == token.LAND))
			}
		case *ast.ForStmt:
			if child == ast.Node(x.Init) {
				break
			}
			g.kills(facts, x.Init)
			// anything the loop writes may have happened on a back edge
			g.kills(facts, x.Cond)
			g.kills(facts, x.Post)
			g.kills(facts, x.Body)
			if child == ast.Node(x.Body) && x.Cond != nil {
				r.cur = facts
				facts.and(r.condFacts(x.Cond, true))
			}
		case *ast.RangeStmt:
			if child == ast.Node(x.X) {
				break
			}
			g.kills(facts, x.X)
			g.kills(facts, x.Body)
			// range over a variadic parameter whose elements are known at this call
			if child == ast.Node(x.Body) && x.Value != nil && x.Tok == token.DEFINE {
				if id, ok := ast.Unparen(x.X).(*ast.Ident); ok {
					if es, ok := r.elems[g.info.Uses[id]]; ok {
						if vid, ok := x.Value.(*ast.Ident); ok && g.info.Defs[vid] != nil {
							set := map[string]bool{}
							for _, k := range es {
								set[k.Val().ExactString()] = true
							}
							if r.member == nil {
								r.member = map[types.Object]map[string]bool{}
							}
							r.member[g.info.Defs[vid]] = set
						}
					}
				}
			}
		case *ast.FuncLit:
			// the closure runs later: only what is known about values that cannot change any more still
			// holds (a path that stays inside a local which is bound once and never modified)
			facts.killIf(func(p *tblPath) bool { return !g.immutablePath(p) })
		case *ast.AssignStmt, *ast.ExprStmt, *ast.ReturnStmt, *ast.CallExpr, *ast.CompositeLit, *ast.KeyValueExpr:
			// evaluation order inside one statement: operands left of the target that are impure calls
			g.killsLeftOf(facts, parent, child)
		}
	}
	return facts
}

// killsLeftOf: inside one expression/statement, operands evaluated before
// child (left siblings) may contain impure calls.
func (g *tblGuard) killsLeftOf(f *tblFacts, parent, child ast.Node) {
	var sibs []ast.Node
	switch x := parent.(type) {
	case *ast.AssignStmt:
		for _, e := range x.Rhs {
			sibs = append(sibs, e)
		}
	case *ast.ReturnStmt:
		for _, e := range x.Results {
			sibs = append(sibs, e)
		}
	case *ast.CallExpr:
		sibs = append(sibs, x.Fun)
		for _, e := range x.Args {
			sibs = append(sibs, e)
		}
	case *ast.CompositeLit:
		for _, e := range x.Elts {
			sibs = append(sibs, e)
		}
	}
	for _, s := range sibs {
		if s == child {
			return
		}
		g.kills(f, s)
	}
}

func tblSetNames(en *Enum, set map[string]bool) string {
	var out []string
	for _, k := range en.Consts {
		v := k.Val().ExactString()
		if set[v] && en.ByVal[v][0] == k {
			out = append(out, k.Name())
		}
	}
	sort.Strings(out)
	return strings.Join(out, ",")
}

// ---- success facts of a tested call (inlined callee) ----

// successFacts: what holds right after `call` returned with its idx-th result
// equal to want ("true" / "nil"): the caller's pre-call facts are mapped onto
// the callee's parameters, the callee body is evaluated up to each return that
// yields want, the results are joined and mapped back.
func (r *tblRun) successFacts(call *ast.CallExpr, idx int, want string) *tblFacts {
	g := r.g
	out := newTblFacts()
	if r.depth >= 3 {
		return out
	}
	fn := CalleeOf(g.info, call)
	if fn == nil {
		return out
	}
	fn = fn.Origin()
	f := g.m.fns[fn]
	if f == nil {
		return out
	}
	sig := fn.Type().(*types.Signature)
	allExits := want == "" // the effect of a call statement: what holds at every way out of the callee
	if !allExits && idx >= sig.Results().Len() {
		return out
	}
	// pre-call facts: the snapshot taken before a bound call (usable only while nothing else ran),
	// else the facts in force where the condition is evaluated
	pre := r.cur
	stale := false
	if snap, ok := r.snaps[call]; ok {
		if r.fresh[call] {
			pre = snap
		} else {
			pre, stale = newTblFacts(), true
		}
	}
	if pre == nil {
		pre = newTblFacts()
	}
	tblModelMu.Lock()
	if g.m.inlineBusy == nil {
		g.m.inlineBusy = map[*types.Func]bool{}
	}
	if g.m.inlineBusy[fn] {
		tblModelMu.Unlock()
		return out
	}
	g.m.inlineBusy[fn] = true
	tblModelMu.Unlock()
	defer func() {
		tblModelMu.Lock()
		delete(g.m.inlineBusy, fn)
		tblModelMu.Unlock()
	}()

	g2 := g.m.guardFor(f)
	r2 := &tblRun{g: g2, depth: r.depth + 1, consts: map[types.Object]constant.Value{}, elems: map[types.Object][]*types.Const{}}
	// bind parameters
	type bind struct {
		param *types.Var
		arg   *tblPath
		ptr   bool
	}
	var binds []bind
	addBind := func(pv *types.Var, arg ast.Expr) {
		if pv == nil || arg == nil {
			return
		}
		if tv, ok := g.info.Types[arg]; ok && tv.Value != nil {
			r2.consts[pv] = tv.Value
			return
		}
		if v := r.constOf(arg); v != nil {
			r2.consts[pv] = v
			return
		}
		ap := g.pathOf(arg)
		if ap == nil {
			return
		}
		_, isPtr := types.Unalias(pv.Type()).Underlying().(*types.Pointer)
		if !isPtr {
			// a value parameter is a copy: facts must be about something that does not change under the callee's feet
			if stale && (ap.Heap || g.written[ap.Root] > 0) {
				return
			}
		} else if stale {
			return
		}
		binds = append(binds, bind{pv, ap, isPtr})
	}
	if sig.Recv() != nil {
		if se, ok := ast.Unparen(call.Fun).(*ast.SelectorExpr); ok {
			// (&x).m() is implicit for addressable x: the receiver path is x itself
			addBind(sig.Recv(), se.X)
		}
	}
	np := sig.Params().Len()
	for i := 0; i < np; i++ {
		pv := sig.Params().At(i)
		if sig.Variadic() && i == np-1 {
			// explicit constant elements, or a forwarded known slice
			if call.Ellipsis.IsValid() {
				if i < len(call.Args) {
					if id, ok := ast.Unparen(call.Args[i]).(*ast.Ident); ok {
						if es, ok := r.elems[g.info.Uses[id]]; ok {
							r2.elems[pv] = es
						}
					}
				}
				break
			}
			var es []*types.Const
			ok := len(call.Args) > i
			for _, a := range call.Args[tblMin(i, len(call.Args)):] {
				k := ConstOf(g.info, a)
				if k == nil {
					ok = false
					break
				}
				es = append(es, k)
			}
			if ok {
				r2.elems[pv] = es
			}
			break
		}
		if i < len(call.Args) {
			addBind(pv, call.Args[i])
		}
	}
	// map pre facts onto the parameters
	init2 := newTblFacts()
	toCallee := func(p *tblPath) *tblPath {
		for _, b := range binds {
			if p.Root == b.arg.Root && tblHasPrefix(p.Parts, b.arg.Parts) {
				rest := p.Parts[len(b.arg.Parts):]
				np := &tblPath{Root: b.param, Parts: rest, Heap: p.Heap || b.ptr}
				np.Key = tblRootKey(b.param) + rest
				np.Fields = p.Fields[tblMin(len(b.arg.Fields), len(p.Fields)):]
				return np
			}
		}
		return nil
	}
	for _, ft := range pre.m {
		if np := toCallee(ft.Path); np != nil {
			init2.restrict(&tblFact{Path: np, Enum: ft.Enum, Allowed: ft.Allowed, Why: ft.Why})
		}
	}
	for _, e := range pre.eqs {
		a, b := toCallee(e.A), toCallee(e.B)
		if a != nil && b != nil {
			ne := tblEq{A: a, B: b, Why: e.Why}
			init2.eqs[ne.key()] = ne
		}
	}
	// successful returns
	var acc *tblFacts
	unknown := false
	if allExits {
		if init2.empty() {
			return out // nothing known that the callee could carry over
		}
		join := func(fs *tblFacts) {
			for _, dc := range g2.deferred() {
				g2.kills(fs, dc)
			}
			if acc == nil {
				acc = fs
			} else {
				acc = tblFactsOr(acc, fs)
			}
		}
		ast.Inspect(f.Decl.Body, func(n ast.Node) bool {
			switch x := n.(type) {
			case *ast.FuncLit:
				return false
			case *ast.ReturnStmt:
				rr := &tblRun{g: g2, depth: r2.depth, consts: r2.consts, elems: r2.elems}
				fs := rr.factsTo(x, init2)
				if rr.dead {
					return true
				}
				for _, res := range x.Results {
					g2.kills(fs, res)
				}
				join(fs)
			}
			return true
		})
		// falling off the end of the body
		if list := f.Decl.Body.List; len(list) == 0 {
			join(init2.clone())
		} else if !g.m.tblTerminates(g2.info, list) {
			last := list[len(list)-1]
			rr := &tblRun{g: g2, depth: r2.depth, consts: r2.consts, elems: r2.elems}
			fs := rr.factsTo(last, init2)
			if !rr.dead {
				rr.fresh = map[*ast.CallExpr]bool{}
				rr.transferStmt(fs, last)
				if !rr.dead {
					join(fs)
				}
			}
		}
	}
	ast.Inspect(f.Decl.Body, func(n ast.Node) bool {
		if allExits {
			return false
		}
		switch x := n.(type) {
		case *ast.FuncLit:
			return false
		case *ast.ReturnStmt:
			// the returned expression that decides success; `return g(…)` forwards g's results
			var resExpr ast.Expr
			switch {
			case len(x.Results) == sig.Results().Len():
				resExpr = ast.Unparen(x.Results[idx])
			case len(x.Results) == 1:
				resExpr = ast.Unparen(x.Results[0])
				if _, isCall := resExpr.(*ast.CallExpr); !isCall {
					unknown = true
					return true
				}
			default:
				unknown = true
				return true
			}
			forwarded := len(x.Results) != sig.Results().Len()
			var assume map[types.Object]string
			var viaCall *ast.CallExpr
			var viaCond ast.Expr
			tri := tblMaybe
			if !forwarded {
				tri = g2.resultIs(r2, x, resExpr, want)
			}
			switch tri {
			case tblNo:
				return true
			case tblMaybe:
				switch v := resExpr.(type) {
				case *ast.Ident:
					// `return v` with v a local that is defined once: what holds here when v is nil / true
					vo := g2.info.Uses[v]
					_, single := g2.singleDef[vo]
					if !single {
						_, single = g2.resCalls[vo]
					}
					if single && !g2.escaping[vo] {
						assume = map[types.Object]string{vo: want}
					}
				case *ast.CallExpr:
					// `return g(…)`: what holds when g succeeds in the same sense
					if fn2 := CalleeOf(g2.info, v); fn2 != nil && g.m.fns[fn2.Origin()] != nil {
						viaCall = v
					} else if want == "true" || want == "false" {
						viaCond = v
					}
				case *ast.BinaryExpr, *ast.UnaryExpr:
					// `return x.Kind() == K && …` (a predicate helper): what the condition implies when true
					if want == "true" || want == "false" {
						viaCond = resExpr
					}
				}
			}
			rr := &tblRun{g: g2, depth: r2.depth, consts: r2.consts, elems: r2.elems, assume: assume}
			fs := rr.factsTo(x, init2)
			if rr.dead {
				return true // not reachable under the constants passed at this call
			}
			if tri == tblMaybe && assume == nil && viaCall == nil && viaCond == nil {
				unknown = true
				return true
			}
			if viaCond != nil {
				g2.kills(fs, viaCond)
				rr.cur = fs
				fs.and(rr.condFacts(viaCond, want == "true"))
			}
			// deferred calls run after the return value is set and before the caller continues
			for _, dc := range g2.deferred() {
				g2.kills(fs, dc)
			}
			if viaCall != nil {
				before := fs.clone()
				// operands evaluated before the call, then the call itself
				g2.kills(fs, viaCall)
				rr.cur = before
				fs.and(rr.successFacts(viaCall, idx, want))
			}
			if acc == nil {
				acc = fs
			} else {
				acc = tblFactsOr(acc, fs)
			}
		}
		return true
	})
	if unknown || acc == nil {
		return out
	}
	// map back
	toCaller := func(p *tblPath) *tblPath {
		for _, b := range binds {
			if p.Root == types.Object(b.param) {
				if !b.ptr && g2.written[b.param] > 0 {
					return nil
				}
				if !b.ptr && b.arg.Heap {
					return nil // the callee saw a copy; the caller's location may have changed meanwhile
				}
				np := &tblPath{Root: b.arg.Root, Parts: b.arg.Parts + p.Parts, Heap: b.arg.Heap || b.ptr || p.Heap}
				np.Key = tblRootKey(b.arg.Root) + np.Parts
				np.Fields = append(append([]string{}, b.arg.Fields...), p.Fields...)
				return np
			}
		}
		return nil
	}
	where := fmt.Sprintf("%s succeeded (%s)", exprStr(call.Fun), g.m.c.Pos(call.Pos()))
	if allExits {
		where = fmt.Sprintf("%s returned (%s)", exprStr(call.Fun), g.m.c.Pos(call.Pos()))
	}
	for _, ft := range acc.m {
		if np := toCaller(ft.Path); np != nil {
			out.restrict(&tblFact{Path: np, Enum: ft.Enum, Allowed: ft.Allowed, Why: where + " ⇒ " + ft.Why})
		}
	}
	for _, e := range acc.eqs {
		a, b := toCaller(e.A), toCaller(e.B)
		if a != nil && b != nil {
			ne := tblEq{A: a, B: b, Why: where + " ⇒ " + e.Why}
			out.eqs[ne.key()] = ne
		}
	}
	return out
}

type tblTri int

const (
	tblNo tblTri = iota
	tblYes
	tblMaybe
)

// resultIs: does the returned expression equal want ("true"/"nil")?
func (g *tblGuard) resultIs(r *tblRun, ret *ast.ReturnStmt, e ast.Expr, want string) tblTri {
	e = ast.Unparen(e)
	switch want {
	case "true":
		if v, k := r.evalConst(e); k {
			if v {
				return tblYes
			}
			return tblNo
		}
		return tblMaybe
	case "false":
		if v, k := r.evalConst(e); k {
			if !v {
				return tblYes
			}
			return tblNo
		}
		return tblMaybe
	case "nil":
		if tblIsNil(g.info, e) {
			return tblYes
		}
		if g.nonNil(ret, e, 0) {
			return tblNo
		}
		return tblMaybe
	}
	return tblMaybe
}

// nonNil: the expression cannot be nil where it is returned: &T{}, a call
// whose every return is non-nil, or a variable tested `!= nil` by an enclosing
// if.
func (g *tblGuard) nonNil(at ast.Node, e ast.Expr, depth int) bool {
	e = ast.Unparen(e)
	switch x := e.(type) {
	case *ast.UnaryExpr:
		return x.Op == token.AND
	case *ast.CompositeLit:
		return true
	case *ast.CallExpr:
		if depth > 3 {
			return false
		}
		fn := CalleeOf(g.info, x)
		if fn == nil {
			return false
		}
		f := g.m.fns[fn.Origin()]
		if f == nil {
			return false
		}
		g2 := g.m.guardFor(f)
		ok, any := true, false
		ast.Inspect(f.Decl.Body, func(n ast.Node) bool {
			switch y := n.(type) {
			case *ast.FuncLit:
				return false
			case *ast.ReturnStmt:
				any = true
				if len(y.Results) != 1 || !g2.nonNil(y, y.Results[0], depth+1) {
					ok = false
				}
			}
			return true
		})
		return ok && any
	case *ast.Ident:
		o := g.info.Uses[x]
		if o == nil {
			return false
		}
		// enclosing `if o != nil` (then-branch)
		for n := at; n != nil; n = g.parents[n] {
			p, ok := g.parents[n].(*ast.IfStmt)
			if !ok || ast.Node(p.Body) != n {
				continue
			}
			if be, ok := ast.Unparen(p.Cond).(*ast.BinaryExpr); ok && be.Op == token.NEQ {
				if id, ok := ast.Unparen(be.X).(*ast.Ident); ok && g.info.Uses[id] == o && tblIsNil(g.info, be.Y) {
					return true
				}
			}
		}
	}
	return false
}
