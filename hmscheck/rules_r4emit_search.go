package main

// R-scope-search (r4emit): lookups over a scope stack select the innermost
// matching scope; sibling lookups over the same stack agree on the direction.

import (
	"fmt"
	"go/ast"
	"go/token"
	"go/types"
	"sort"
	"strings"
)

func init() {
	register(&Rule{ID: "R-scope-search", Floor: 5, Run: ruleR4ScopeSearch,
		Doc: "lexical shadowing in every phase: a scope stack is a slice-typed struct field with a push and a pop primitive whose elements are name tables (maps keyed by string, or structs holding such maps) — the analyzer's Module.Scopes, the compiler's varScopes, the interpreter's module scopes. Every loop over such a stack that looks a name up and leaves at the first match (early return/break, with the index or element flowing out) must visit the stack from the top (innermost scope) down, so that the innermost declaration shadows outer ones; all selecting lookups over the same stack (values, types, …) therefore agree on the direction. Necessary for C03/C04/C01: an outermost-first type lookup while variables are looked up innermost-first makes an inner `type T` invisible behind an outer T (well-typed programs rejected, ill-typed ones accepted); the same mistake in the compiler or interpreter binds identifiers to the wrong variable"})
}

type r4emStack struct {
	field *types.Var
	roles *vmStackRoles
	owner string
}

func r4emIsNameTable(t types.Type, depth int) bool {
	if t == nil || depth > 2 {
		return false
	}
	switch u := t.Underlying().(type) {
	case *types.Pointer:
		return r4emIsNameTable(u.Elem(), depth+1)
	case *types.Map:
		b, ok := u.Key().Underlying().(*types.Basic)
		return ok && b.Kind() == types.String
	case *types.Struct:
		for i := 0; i < u.NumFields(); i++ {
			if m, ok := u.Field(i).Type().Underlying().(*types.Map); ok {
				if b, ok := m.Key().Underlying().(*types.Basic); ok && b.Kind() == types.String {
					return true
				}
			}
		}
	}
	return false
}

// r4emScopeStacks discovers the scope stacks of the analysed module.
func r4emScopeStacks(c *Ctx) []*r4emStack {
	var out []*r4emStack
	for _, p := range c.All {
		rel := relPkg(p.PkgPath)
		if !strings.HasPrefix(rel, "homescript") {
			continue
		}
		fns := vmFuncs(c, rel)
		sc := p.Types.Scope()
		names := sc.Names()
		sort.Strings(names)
		for _, n := range names {
			tn, ok := sc.Lookup(n).(*types.TypeName)
			if !ok {
				continue
			}
			st, ok := tn.Type().Underlying().(*types.Struct)
			if !ok {
				continue
			}
			for i := 0; i < st.NumFields(); i++ {
				f := st.Field(i)
				sl, ok := f.Type().Underlying().(*types.Slice)
				if !ok || !r4emIsNameTable(sl.Elem(), 0) {
					continue
				}
				roles := vmDiscoverStack(fns, f)
				if len(roles.push) == 0 || len(roles.pop) == 0 {
					continue
				}
				out = append(out, &r4emStack{field: f, roles: roles, owner: rel})
			}
		}
	}
	return out
}

type r4emSearch struct {
	fn     *vmFn
	loop   *r2Loop
	stack  *r4emStack
	early  string
	uses   bool
	lookup bool
}

// r4emSearchLoops lists the loops over the given stack fields.
func r4emSearchLoops(c *Ctx, stacks []*r4emStack) []*r4emSearch {
	var out []*r4emSearch
	byField := map[*types.Var]*r4emStack{}
	for _, s := range stacks {
		byField[s.field] = s
	}
	for _, p := range c.All {
		rel := relPkg(p.PkgPath)
		if !strings.HasPrefix(rel, "homescript") {
			continue
		}
		for _, fn := range vmFuncs(c, rel) {
			info := fn.info
			ast.Inspect(fn.fd.Body, func(n ast.Node) bool {
				s, ok := n.(ast.Stmt)
				if !ok {
					return true
				}
				switch s.(type) {
				case *ast.ForStmt, *ast.RangeStmt:
				default:
					return true
				}
				l := r2LoopOf(info, s)
				if l == nil || l.coll == nil {
					return true
				}
				st := byField[vmFieldOf(info, l.coll)]
				if st == nil {
					// a local alias of the stack: `scopes := self.varScopes`
					if o := vmObjOf(info, l.coll); o != nil {
						n, fld := 0, (*types.Var)(nil)
						ast.Inspect(fn.fd.Body, func(m ast.Node) bool {
							if as, ok := m.(*ast.AssignStmt); ok && len(as.Lhs) == len(as.Rhs) {
								for i, lh := range as.Lhs {
									if vmObjOf(info, lh) == o {
										n++
										fld = vmFieldOf(info, vmStripConv(info, as.Rhs[i]))
									}
								}
							}
							return true
						})
						if n == 1 && fld != nil {
							st = byField[fld]
						}
					}
				}
				if st == nil {
					return true
				}
				sr := &r4emSearch{fn: fn, loop: l, stack: st}
				// early exit of THIS loop
				var walk func(n ast.Node, nested bool)
				walk = func(n ast.Node, nested bool) {
					ast.Inspect(n, func(m ast.Node) bool {
						if sr.early != "" || m == nil {
							return false
						}
						if m != n {
							switch y := m.(type) {
							case *ast.FuncLit:
								return false
							case *ast.ForStmt, *ast.RangeStmt, *ast.SwitchStmt, *ast.TypeSwitchStmt, *ast.SelectStmt:
								walk(y, true)
								return false
							}
						}
						switch y := m.(type) {
						case *ast.ReturnStmt:
							sr.early = "return"
						case *ast.BranchStmt:
							if y.Tok == token.BREAK && (!nested || y.Label != nil) {
								sr.early = "break"
							}
						}
						return sr.early == ""
					})
				}
				walk(l.body, false)
				// element-derived variables
				elem := map[types.Object]bool{}
				if l.idx != nil {
					elem[l.idx] = true
				}
				if l.val != nil {
					elem[l.val] = true
				}
				mentions := func(e ast.Node) bool {
					for o := range elem {
						if vmMentionsObj(info, e, o) {
							return true
						}
					}
					return false
				}
				isBool := func(o types.Object) bool {
					b, ok := o.Type().Underlying().(*types.Basic)
					return ok && b.Kind() == types.Bool
				}
				inLoop := func(o types.Object) bool { return o.Pos() >= l.stmt.Pos() && o.Pos() < l.stmt.End() }
				for round := 0; round < 2; round++ {
					ast.Inspect(l.body, func(m ast.Node) bool {
						as, ok := m.(*ast.AssignStmt)
						if !ok {
							return true
						}
						for i, rh := range as.Rhs {
							if !mentions(rh) {
								continue
							}
							var lhs []ast.Expr
							if len(as.Lhs) == len(as.Rhs) {
								lhs = []ast.Expr{as.Lhs[i]}
							} else {
								lhs = as.Lhs
							}
							for _, lh := range lhs {
								o := vmObjOf(info, lh)
								switch {
								case o == nil:
									// a field / element store (`x.F = x.F[:idx+1]`): the position flows out
									if id, isId := ast.Unparen(lh).(*ast.Ident); !isId || id.Name != "_" {
										sr.uses = true
									}
								case isBool(o):
									// the comma-ok flag carries no position
								case inLoop(o):
									elem[o] = true
								default:
									sr.uses = true // stored into a variable that outlives the loop
								}
							}
						}
						return true
					})
				}
				ast.Inspect(l.body, func(m ast.Node) bool {
					switch y := m.(type) {
					case *ast.ReturnStmt:
						for _, rh := range y.Results {
							if mentions(rh) {
								sr.uses = true
							}
						}
					case *ast.IndexExpr:
						if mt, ok := info.TypeOf(y.X).Underlying().(*types.Map); ok {
							if b, ok := mt.Key().Underlying().(*types.Basic); ok && b.Kind() == types.String && mentions(y.X) {
								sr.lookup = true
							}
						}
					}
					return true
				})
				out = append(out, sr)
				return true
			})
		}
	}
	sort.SliceStable(out, func(i, j int) bool {
		if out[i].fn.name != out[j].fn.name {
			return out[i].fn.name < out[j].fn.name
		}
		return out[i].loop.stmt.Pos() < out[j].loop.stmt.Pos()
	})
	return out
}

func ruleR4ScopeSearch(c *Ctx) []Obligation {
	r2LoopCtx = c
	stacks := r4emScopeStacks(c)
	if len(stacks) == 0 {
		return []Obligation{{Key: "scope stacks", Status: Undecided, Detail: "no slice field of name tables with push/pop primitives found in the pipeline: re-anchor the rule"}}
	}
	var obs []Obligation
	searches := r4emSearchLoops(c, stacks)
	count := map[string]int{}
	type agg struct {
		sel  []string
		dirs map[int]bool
	}
	perStack := map[*r4emStack]*agg{}
	for _, st := range stacks {
		perStack[st] = &agg{dirs: map[int]bool{}}
	}
	for _, sr := range searches {
		base := fmt.Sprintf("%s|loop over %s", sr.fn.name, r4emStackName(sr.stack))
		count[base]++
		if count[base] > 1 {
			base += fmt.Sprintf(" #%d", count[base])
		}
		ob := Obligation{Key: base + "|the innermost matching scope is selected", Pos: c.Pos(sr.loop.stmt.Pos()), Nontrivial: true}
		switch {
		case sr.early == "":
			ob.Status, ob.Detail = Discharged, "the loop visits every scope (no early exit): it selects nothing by position"
		case !sr.uses:
			ob.Status, ob.Detail = Discharged, "early exit ("+sr.early+") but neither the index nor the scope flows out of the loop: an existence test"
		case sr.loop.dir < 0:
			perStack[sr.stack].sel = append(perStack[sr.stack].sel, sr.fn.name)
			perStack[sr.stack].dirs[-1] = true
			ob.Status, ob.Detail = Discharged, "top-down search with early exit ("+sr.early+"): the innermost declaration wins"
		case sr.loop.dir > 0:
			perStack[sr.stack].sel = append(perStack[sr.stack].sel, sr.fn.name)
			perStack[sr.stack].dirs[+1] = true
			ob.Status = Violated
			ob.Detail = fmt.Sprintf("bottom-up search over %s that leaves at the FIRST match (%s): the OUTERMOST scope that declares the name wins, so an inner declaration no longer shadows an outer one of the same name (e.g. `type T = int; fn f() { type T = str; let x: T = \"a\"; }`: the annotation resolves to the outer T)", vmFieldName(sr.stack.field), sr.early)
		default:
			ob.Status, ob.Detail = Undecided, "selecting loop over a scope stack with an unrecognised direction"
		}
		obs = append(obs, ob)
	}
	for _, st := range stacks {
		a := perStack[st]
		ob := Obligation{Key: fmt.Sprintf("%s|all selecting lookups agree on the direction", r4emStackName(st)), Pos: c.Pos(st.field.Pos()), Nontrivial: true}
		sel := vmUniq(a.sel)
		switch {
		case len(sel) == 0:
			ob.Status, ob.Detail = Info, fmt.Sprintf("scope stack of %s (%s): no selecting lookup loop", st.owner, st.roles.names())
		case len(a.dirs) > 1:
			ob.Status, ob.Detail = Violated, fmt.Sprintf("lookups over the same scope stack run in different directions (%v): two kinds of names (e.g. values and types) shadow differently", sel)
		default:
			ob.Status, ob.Detail = Discharged, fmt.Sprintf("%d selecting lookup(s) %v, one direction; primitives %s", len(sel), sel, st.roles.names())
		}
		obs = append(obs, ob)
	}
	return obs
}

func r4emStackName(st *r4emStack) string {
	short := st.owner
	if i := strings.LastIndex(short, "/"); i >= 0 {
		short = short[i+1:]
	}
	return short + "." + vmFieldName(st.field)
}
