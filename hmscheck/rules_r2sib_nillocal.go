package main

import (
	"fmt"
	"go/ast"
	"go/token"
	"go/types"
	"strings"
)

// R-nil-local: a local that is declared nil and assigned only on some
// branches is not dereferenced on a path that skipped all of them.

func init() {
	register(&Rule{ID: "R-nil-local", Floor: 6, Run: ruleNilLocal,
		Doc: "definite assignment of nil-able locals in the analyzer: for every local of interface or pointer type that is declared without a value (`var t ast.Type`, `var p *T = nil`) every enumerated path from the declaration to a use that needs a value (method call on the interface, field access / dereference of the pointer) passes an assignment of a non-nil value or a `!= nil` test. Sibling branches of a switch that all feed one such local must all assign it: a branch that forgets it (the 'do nothing' clause for unknown types next to the clause that sets the result type) makes the later use a nil dereference — the analyzer panics on an ill-typed program instead of rejecting it (C03 reject side, C05)."})
}

type r2nlState struct {
	st    map[types.Object]int // 1 = definitely nil, 2 = not nil / unknown
	lits  []r2sibLit
	flags map[types.Object]bool
	dec   []string
	// bool locals holding the result of a nil test of a tracked local (`ok := t != nil`), valid until
	// either side is assigned again
	nilb map[types.Object]r2nlNilTest
}

type r2nlNilTest struct {
	of types.Object
	eq bool // the bool is true when the local IS nil
}

func r2nlClone(s *r2nlState) *r2nlState {
	n := &r2nlState{st: map[types.Object]int{}, flags: map[types.Object]bool{}, nilb: map[types.Object]r2nlNilTest{}}
	for k, v := range s.nilb {
		n.nilb[k] = v
	}
	for k, v := range s.st {
		n.st[k] = v
	}
	for k, v := range s.flags {
		n.flags[k] = v
	}
	n.lits = append([]r2sibLit(nil), s.lits...)
	n.dec = append([]string(nil), s.dec...)
	return n
}

func r2nlNilable(t types.Type) bool {
	switch t.Underlying().(type) {
	case *types.Interface, *types.Pointer:
		return true
	}
	return false
}

func ruleNilLocal(c *Ctx) []Obligation {
	var out []Obligation
	for _, rel := range []string{"homescript/analyzer"} {
		p := c.Pkg(rel)
		info := p.TypesInfo
		for _, fd := range AllFuncDecls(p) {
			f := r2sibFuncOf(c, p, fd)
			// tracked locals: declared with no value or with nil
			tracked := map[types.Object]token.Pos{}
			ast.Inspect(fd.Body, func(n ast.Node) bool {
				if _, ok := n.(*ast.FuncLit); ok {
					return false
				}
				ds, ok := n.(*ast.DeclStmt)
				if !ok {
					return true
				}
				gd, ok := ds.Decl.(*ast.GenDecl)
				if !ok || gd.Tok != token.VAR {
					return true
				}
				for _, sp := range gd.Specs {
					vs := sp.(*ast.ValueSpec)
					for i, n := range vs.Names {
						o := info.Defs[n]
						if o == nil || !r2nlNilable(o.Type()) {
							continue
						}
						if len(vs.Values) == 0 {
							tracked[o] = n.Pos()
						} else if i < len(vs.Values) {
							if id, ok := ast.Unparen(vs.Values[i]).(*ast.Ident); ok && id.Name == "nil" {
								tracked[o] = n.Pos()
							}
						}
					}
				}
				return true
			})
			if len(tracked) == 0 {
				continue
			}
			// locals captured by a closure are not tracked (assigned elsewhere)
			ast.Inspect(fd.Body, func(n ast.Node) bool {
				if fl, ok := n.(*ast.FuncLit); ok {
					ast.Inspect(fl.Body, func(m ast.Node) bool {
						if id, ok := m.(*ast.Ident); ok {
							delete(tracked, info.Uses[id])
						}
						return true
					})
					return false
				}
				// address taken: not tracked
				if u, ok := n.(*ast.UnaryExpr); ok && u.Op == token.AND {
					if id, ok := ast.Unparen(u.X).(*ast.Ident); ok {
						delete(tracked, info.Uses[id])
					}
				}
				return true
			})
			if len(tracked) == 0 {
				continue
			}
			type viol struct {
				pos  token.Pos
				path string
				use  string
			}
			viols := map[types.Object]*viol{}
			uses := map[types.Object]int{}
			// use sites needing a value
			checkUses := func(st *r2nlState, n ast.Node) {
				if n == nil {
					return
				}
				ast.Inspect(n, func(n ast.Node) bool {
					switch x := n.(type) {
					case *ast.FuncLit:
						return false
					case *ast.SelectorExpr:
						if id, ok := ast.Unparen(x.X).(*ast.Ident); ok {
							o := info.Uses[id]
							if _, tr := tracked[o]; tr {
								uses[o]++
								if st.st[o] == 1 && viols[o] == nil {
									viols[o] = &viol{x.Pos(), strings.Join(st.dec, ", "), exprStr(x)}
								}
							}
						}
					case *ast.StarExpr:
						if id, ok := ast.Unparen(x.X).(*ast.Ident); ok {
							o := info.Uses[id]
							if _, tr := tracked[o]; tr {
								uses[o]++
								if st.st[o] == 1 && viols[o] == nil {
									viols[o] = &viol{x.Pos(), strings.Join(st.dec, ", "), exprStr(x)}
								}
							}
						}
					}
					return true
				})
			}
			// nilTestOf: `x != nil` / `nil == x` on a tracked local
			nilTestOf := func(e ast.Expr) (types.Object, bool, bool) {
				b, ok := ast.Unparen(e).(*ast.BinaryExpr)
				if !ok || (b.Op != token.EQL && b.Op != token.NEQ) {
					return nil, false, false
				}
				var id *ast.Ident
				if y, ok := ast.Unparen(b.Y).(*ast.Ident); ok && y.Name == "nil" {
					id, _ = ast.Unparen(b.X).(*ast.Ident)
				} else if x, ok := ast.Unparen(b.X).(*ast.Ident); ok && x.Name == "nil" {
					id, _ = ast.Unparen(b.Y).(*ast.Ident)
				}
				if id == nil {
					return nil, false, false
				}
				o := info.Uses[id]
				if _, tr := tracked[o]; !tr {
					return nil, false, false
				}
				return o, b.Op == token.EQL, true
			}
			// noteBool: an assignment `b = rhs` to a bool local records or forgets a held nil test
			noteBool := func(st *r2nlState, bo types.Object, rhs ast.Expr) {
				if bo == nil {
					return
				}
				delete(st.nilb, bo)
				for k, v := range st.nilb {
					if v.of == bo {
						delete(st.nilb, k)
					}
				}
				if rhs == nil {
					return
				}
				if o, eq, ok := nilTestOf(rhs); ok {
					if _, isVar := bo.(*types.Var); isVar && types.Identical(bo.Type().Underlying(), types.Typ[types.Bool]) {
						st.nilb[bo] = r2nlNilTest{o, eq}
					}
				}
			}
			assign := func(st *r2nlState, lhs ast.Expr, rhs ast.Expr) {
				id, ok := ast.Unparen(lhs).(*ast.Ident)
				if !ok {
					return
				}
				o := f.objOf(id)
				noteBool(st, o, rhs)
				if _, tr := tracked[o]; !tr {
					return
				}
				if rhs == nil {
					st.st[o] = 2
					return
				}
				if rid, ok := ast.Unparen(rhs).(*ast.Ident); ok {
					if rid.Name == "nil" {
						st.st[o] = 1
						return
					}
					if ro := info.Uses[rid]; ro != nil {
						if _, tr := tracked[ro]; tr {
							st.st[o] = st.st[ro]
							return
						}
					}
				}
				st.st[o] = 2
			}
			w := &Walker[*r2nlState]{Clone: r2nlClone}
			w.MaxPaths = 200000
			w.LoopUnroll = 2
			w.IsPanic = func(s ast.Stmt) bool { return IsPanicCall(info, s) }
			w.OnStmt = func(st *r2nlState, s ast.Stmt) (*r2nlState, bool) {
				switch x := s.(type) {
				case *ast.AssignStmt:
					for _, r := range x.Rhs {
						checkUses(st, r)
					}
					for _, l := range x.Lhs {
						if _, isId := ast.Unparen(l).(*ast.Ident); !isId {
							checkUses(st, l)
						}
					}
					if len(x.Lhs) == len(x.Rhs) {
						for i := range x.Lhs {
							assign(st, x.Lhs[i], x.Rhs[i])
							if id, ok := x.Lhs[i].(*ast.Ident); ok {
								if o := f.objOf(id); o != nil && f.isFlag(o) {
									if v, ok := r2sibBoolConst(info, x.Rhs[i]); ok {
										st.flags[o] = v
									} else {
										delete(st.flags, o)
									}
								}
							}
						}
					} else {
						for _, l := range x.Lhs {
							assign(st, l, nil)
						}
					}
				case *ast.DeclStmt:
					if gd, ok := x.Decl.(*ast.GenDecl); ok {
						for _, sp := range gd.Specs {
							if vs, ok := sp.(*ast.ValueSpec); ok {
								for _, v := range vs.Values {
									checkUses(st, v)
								}
								for i, n := range vs.Names {
									o := info.Defs[n]
									if _, tr := tracked[o]; tr {
										st.st[o] = 1
									}
									if i < len(vs.Values) {
										noteBool(st, o, vs.Values[i])
									}
									if o != nil && f.isFlag(o) && i < len(vs.Values) {
										if v, ok := r2sibBoolConst(info, vs.Values[i]); ok {
											st.flags[o] = v
										}
									}
								}
							}
						}
					}
				default:
					checkUses(st, s)
				}
				return st, true
			}
			w.OnCond = func(st *r2nlState, cond ast.Expr, taken bool) (*r2nlState, bool) {
				// x != nil / x == nil on a tracked local
				if b, ok := ast.Unparen(cond).(*ast.BinaryExpr); ok && (b.Op == token.EQL || b.Op == token.NEQ) {
					var id *ast.Ident
					if y, ok := ast.Unparen(b.Y).(*ast.Ident); ok && y.Name == "nil" {
						id, _ = ast.Unparen(b.X).(*ast.Ident)
					} else if x, ok := ast.Unparen(b.X).(*ast.Ident); ok && x.Name == "nil" {
						id, _ = ast.Unparen(b.Y).(*ast.Ident)
					}
					if id != nil {
						o := info.Uses[id]
						if _, tr := tracked[o]; tr {
							isNil := (b.Op == token.EQL) == taken
							if st.st[o] == 1 && !isNil {
								return st, false // infeasible
							}
							if isNil {
								st.st[o] = 1
							} else {
								st.st[o] = 2
							}
							st.dec = append(st.dec, fmt.Sprintf("%s=%v", exprStr(cond), taken))
							return st, true
						}
					}
				}
				if id, ok := ast.Unparen(cond).(*ast.Ident); ok {
					if nt, held := st.nilb[info.Uses[id]]; held {
						isNil := nt.eq == taken
						if st.st[nt.of] == 1 && !isNil {
							return st, false // infeasible
						}
						if isNil {
							st.st[nt.of] = 1
						} else {
							st.st[nt.of] = 2
						}
						st.dec = append(st.dec, fmt.Sprintf("%s=%v", exprStr(cond), taken))
						return st, true
					}
				}
				checkUses(st, cond)
				if f.loopCond[cond] {
					return st, true
				}
				if id, ok := ast.Unparen(cond).(*ast.Ident); ok {
					if o := f.objOf(id); o != nil && f.isFlag(o) {
						if v, known := st.flags[o]; known {
							return st, v == taken
						}
					}
				}
				lit := f.atomOf(cond, taken)
				for _, l := range st.lits {
					if l.atom == lit.atom && l.val != lit.val && !strings.Contains(lit.atom, "flag(") && !strings.Contains(lit.atom, "ctr(") {
						return st, false
					}
				}
				st.lits = append(st.lits, lit)
				st.dec = append(st.dec, fmt.Sprintf("%s=%v", exprStr(cond), taken))
				return st, true
			}
			w.OnCase = func(st *r2nlState, sw *ast.SwitchStmt, vals, others []ast.Expr) (*r2nlState, bool) {
				checkUses(st, sw.Tag)
				tag := f.norm(sw.Tag)
				if vals == nil {
					for _, o := range others {
						lit := r2sibLit{tag + " == " + f.norm(o), false}
						for _, l := range st.lits {
							if l.atom == lit.atom && l.val {
								return st, false
							}
						}
						st.lits = append(st.lits, lit)
					}
					st.dec = append(st.dec, "switch "+exprStr(sw.Tag)+": default")
					return st, true
				}
				var vs []string
				for _, v := range vals {
					vs = append(vs, exprStr(v))
				}
				if len(vals) == 1 {
					lit := r2sibLit{tag + " == " + f.norm(vals[0]), true}
					for _, l := range st.lits {
						if l.atom == lit.atom && !l.val {
							return st, false
						}
						// another constant of the same tag already chosen
						if l.val && strings.HasPrefix(l.atom, tag+" == ") && l.atom != lit.atom && r2sibConstLike(l.atom[len(tag)+4:]) {
							return st, false
						}
					}
					st.lits = append(st.lits, lit)
				}
				st.dec = append(st.dec, "switch "+exprStr(sw.Tag)+": case "+strings.Join(vs, ","))
				return st, true
			}
			w.OnRange = func(st *r2nlState, r *ast.RangeStmt) (*r2nlState, bool) {
				checkUses(st, r.X)
				return st, true
			}
			w.Run(fd.Body, &r2nlState{st: map[types.Object]int{}, flags: map[types.Object]bool{}})
			for o, pos := range tracked {
				key := fmt.Sprintf("%s.%s|local %s", relPkg(p.PkgPath), FuncName(fd), o.Name())
				ob := Obligation{Key: key, Pos: c.Pos(pos), Nontrivial: true}
				switch {
				case w.Overflow || len(w.Unsupported) > 0:
					ob.Status = Undecided
					ob.Detail = "path enumeration incomplete"
				case viols[o] != nil:
					v := viols[o]
					ob.Status = Violated
					ob.Pos = c.Pos(v.pos)
					ob.Detail = fmt.Sprintf("%s is declared nil at %s and used as %s at %s on a path that assigns it nowhere and does not test it: [%s]", o.Name(), c.Pos(pos), v.use, c.Pos(v.pos), v.path)
				case uses[o] == 0:
					ob.Status = Info
					ob.Detail = "never dereferenced in this function"
				default:
					ob.Detail = fmt.Sprintf("%d paths: every use that needs a value is preceded by an assignment or a nil test", w.Paths)
				}
				out = append(out, ob)
			}
		}
	}
	return out
}
