package main

// Linear integer facts over SSA atoms and a difference-bound decision
// procedure (part of E4). Everything is integer arithmetic without wrap-around
// (assumption recorded in the rule text: script integers near ±2^63 are not
// modelled).

import (
	"fmt"
	"go/constant"
	"go/token"
	"go/types"
	"sort"
	"strings"

	"golang.org/x/tools/go/ssa"
)

type gdAtom struct {
	isLen bool
	v     ssa.Value
	ctx   *gdCallCtx
}

type gdLin struct {
	k int64
	t map[int]int64 // atom index → coefficient
}

func gdK(k int64) gdLin { return gdLin{k: k, t: map[int]int64{}} }

func (l gdLin) clone() gdLin {
	m := gdLin{k: l.k, t: map[int]int64{}}
	for a, c := range l.t {
		m.t[a] = c
	}
	return m
}

func (l gdLin) add(o gdLin, scale int64) gdLin {
	m := l.clone()
	m.k += scale * o.k
	for a, c := range o.t {
		m.t[a] += scale * c
		if m.t[a] == 0 {
			delete(m.t, a)
		}
	}
	return m
}

func (l gdLin) plus(k int64) gdLin {
	m := l.clone()
	m.k += k
	return m
}

func (l gdLin) neg() gdLin { return gdK(0).add(l, -1) }

type gdSolver struct {
	eq        *gdEq
	atoms     []gdAtom
	index     map[gdAtom]int
	facts     []gdLin // each: lin <= 0
	neqs      []gdLin // each: lin != 0
	notes     []string
	ctxs      map[gdCtxKey]*gdCallCtx
	frames    map[gdCtxKey]*gdCallCtx
	goalAtoms map[int]bool
}

func newGdSolver(eq *gdEq) *gdSolver {
	return &gdSolver{eq: eq, index: map[gdAtom]int{}, ctxs: map[gdCtxKey]*gdCallCtx{}}
}

func (s *gdSolver) atom(a gdAtom) gdLin {
	i, ok := s.index[a]
	if !ok {
		i = len(s.atoms)
		s.atoms = append(s.atoms, a)
		s.index[a] = i
	}
	return gdLin{t: map[int]int64{i: 1}}
}

func gdConstInt(v ssa.Value) (int64, bool) {
	c, ok := v.(*ssa.Const)
	if !ok || c.Value == nil {
		return 0, false
	}
	if c.Value.Kind() != constant.Int {
		return 0, false
	}
	n, exact := constant.Int64Val(c.Value)
	return n, exact
}

type gdCtxKey struct {
	call  *ssa.Call
	outer *gdCallCtx
}

// ctxFor returns the (interned) callee frame of a call, made in the analysed
// function, to a pure function of the module, or nil.
func (s *gdSolver) ctxFor(call *ssa.Call) *gdCallCtx { return s.ctxForIn(call, nil) }

// ctxForIn: the same for a call made in frame outer (a helper calling a helper).
func (s *gdSolver) ctxForIn(call *ssa.Call, outer *gdCallCtx) *gdCallCtx {
	k := gdCtxKey{call, outer}
	if c, ok := s.ctxs[k]; ok {
		return c
	}
	var c *gdCallCtx
	depth := 0
	for o := outer; o != nil; o = o.outer {
		depth++
	}
	if cal := call.Call.StaticCallee(); cal != nil && depth < 3 && gdPureFunc(cal) {
		c = &gdCallCtx{call: call, callee: cal, outer: outer}
	}
	s.ctxs[k] = c
	return c
}

// frameFor returns the (interned) callee frame of a static call of any module
// function with a body: the frame of ctxFor when the callee is pure; otherwise
// a frame in which only expressions over the parameters may be evaluated
// (gdFrameStable) — the callee may write memory and call other functions.
func (s *gdSolver) frameFor(call *ssa.Call) *gdCallCtx { return s.frameForIn(call, nil) }

func (s *gdSolver) frameForIn(call *ssa.Call, outer *gdCallCtx) *gdCallCtx {
	if c := s.ctxForIn(call, outer); c != nil {
		return c
	}
	k := gdCtxKey{call, outer}
	if c, ok := s.frames[k]; ok {
		return c
	}
	var c *gdCallCtx
	if cal := call.Call.StaticCallee(); cal != nil && outer == nil && cal.Blocks != nil && cal.Pkg != nil && strings.HasPrefix(cal.Pkg.Pkg.Path(), ModPath) {
		c = &gdCallCtx{call: call, callee: cal}
	}
	if s.frames == nil {
		s.frames = map[gdCtxKey]*gdCallCtx{}
	}
	s.frames[k] = c
	return c
}

// gdPureFunc: a module function without stores, map updates, sends, defers or
// calls other than len/cap and static calls of functions that are themselves
// pure — its results are expressions over its parameters and the memory state
// at the call.
var gdPureMemo = map[*ssa.Function]int{} // 1 pure, 2 not pure, 3 in progress

func gdPureFunc(fn *ssa.Function) bool {
	if fn == nil || fn.Blocks == nil || fn.Pkg == nil || !strings.HasPrefix(fn.Pkg.Pkg.Path(), ModPath) {
		return false
	}
	switch gdPureMemo[fn] {
	case 1:
		return true
	case 2, 3: // 3: recursion — not looked through
		return false
	}
	gdPureMemo[fn] = 3
	pure := gdPureBody(fn)
	if pure {
		gdPureMemo[fn] = 1
	} else {
		gdPureMemo[fn] = 2
	}
	return pure
}

func gdPureBody(fn *ssa.Function) bool {
	for _, b := range fn.Blocks {
		for _, in := range b.Instrs {
			switch x := in.(type) {
			case *ssa.Store:
				if al, ok := x.Addr.(*ssa.Alloc); !ok || gdSpillOf(al) == nil {
					return false
				}
			case *ssa.MapUpdate, *ssa.Send, *ssa.Defer, *ssa.Go, *ssa.Panic, *ssa.RunDefers, *ssa.Select:
				return false
			case *ssa.Call:
				if b, ok := x.Call.Value.(*ssa.Builtin); ok {
					if b.Name() != "len" && b.Name() != "cap" {
						return false
					}
					continue
				}
				if cal := x.Call.StaticCallee(); cal == nil || !gdPureFunc(cal) {
					return false
				}
			}
		}
	}
	return true
}

// gdSingleReturn: the only Return of fn, or nil.
func gdSingleReturn(fn *ssa.Function) *ssa.Return {
	var ret *ssa.Return
	for _, b := range fn.Blocks {
		if len(b.Instrs) == 0 {
			continue
		}
		if r, ok := b.Instrs[len(b.Instrs)-1].(*ssa.Return); ok {
			if ret != nil {
				return nil
			}
			ret = r
		}
	}
	return ret
}

// lin: linear form of an integer value of the analysed function.
func (s *gdSolver) lin(v ssa.Value) gdLin { return s.linIn(v, nil, 0) }

func (s *gdSolver) linIn(v ssa.Value, ctx *gdCallCtx, depth int) gdLin {
	v = gdStrip(v)
	if depth > 20 {
		return s.atom(gdAtom{v: v, ctx: ctx})
	}
	if n, ok := gdConstInt(v); ok {
		return gdK(n)
	}
	switch x := v.(type) {
	case *ssa.Parameter:
		if ctx != nil && x.Parent() == ctx.callee {
			for i, q := range ctx.callee.Params {
				if q == x && i < len(ctx.call.Call.Args) {
					return s.linIn(ctx.call.Call.Args[i], ctx.outer, depth+1)
				}
			}
		}
	case *ssa.BinOp:
		if !gdIsInteger(x.Type()) {
			break
		}
		switch x.Op {
		case token.ADD:
			return s.linIn(x.X, ctx, depth+1).add(s.linIn(x.Y, ctx, depth+1), 1)
		case token.SUB:
			return s.linIn(x.X, ctx, depth+1).add(s.linIn(x.Y, ctx, depth+1), -1)
		case token.MUL:
			if n, ok := gdConstInt(x.Y); ok {
				return gdK(0).add(s.linIn(x.X, ctx, depth+1), n)
			}
			if n, ok := gdConstInt(x.X); ok {
				return gdK(0).add(s.linIn(x.Y, ctx, depth+1), n)
			}
		}
	case *ssa.UnOp:
		if x.Op == token.SUB && gdIsInteger(x.Type()) {
			return s.linIn(x.X, ctx, depth+1).neg()
		}
	case *ssa.Call:
		if b, ok := x.Call.Value.(*ssa.Builtin); ok && (b.Name() == "len" || b.Name() == "cap") && len(x.Call.Args) == 1 {
			return s.lenOf(x.Call.Args[0], ctx, depth+1)
		}
		// a call of a pure single-result module function: its returned expression
		if gdIsInteger(x.Type()) {
			if cc := s.ctxForIn(x, ctx); cc != nil {
				if r := gdSingleReturn(cc.callee); r != nil && len(r.Results) == 1 {
					return s.linIn(r.Results[0], cc, depth+1)
				}
			}
		}
	case *ssa.Extract:
		// result k of a pure multi-result module function with one return
		if call, ok := x.Tuple.(*ssa.Call); ok && gdIsInteger(x.Type()) {
			if cc := s.ctxForIn(call, ctx); cc != nil {
				if r := gdSingleReturn(cc.callee); r != nil && x.Index < len(r.Results) {
					return s.linIn(r.Results[x.Index], cc, depth+1)
				}
			}
		}
	}
	return s.atom(gdAtom{v: v, ctx: ctx})
}

// lenOf: linear form of len(x).
func (s *gdSolver) lenOf(x ssa.Value, ctx *gdCallCtx, depth int) gdLin {
	for {
		if ct, ok := x.(*ssa.ChangeType); ok {
			x = ct.X
			continue
		}
		break
	}
	if depth > 20 {
		return s.atom(gdAtom{isLen: true, v: x, ctx: ctx})
	}
	if pt, ok := x.Type().Underlying().(*types.Pointer); ok {
		if at, ok := pt.Elem().Underlying().(*types.Array); ok {
			return gdK(at.Len())
		}
	}
	if at, ok := x.Type().Underlying().(*types.Array); ok {
		return gdK(at.Len())
	}
	switch y := x.(type) {
	case *ssa.Parameter:
		if ctx != nil && y.Parent() == ctx.callee {
			for i, q := range ctx.callee.Params {
				if q == y && i < len(ctx.call.Call.Args) {
					return s.lenOf(ctx.call.Call.Args[i], ctx.outer, depth+1)
				}
			}
		}
	case *ssa.Const:
		if y.Value == nil {
			return gdK(0) // nil slice
		}
		if y.Value.Kind() == constant.String {
			return gdK(int64(len(constant.StringVal(y.Value))))
		}
	case *ssa.Slice:
		var hi gdLin
		if y.High != nil {
			hi = s.linIn(y.High, ctx, depth+1)
		} else {
			hi = s.lenOf(y.X, ctx, depth+1)
		}
		if y.Low != nil {
			return hi.add(s.linIn(y.Low, ctx, depth+1), -1)
		}
		return hi
	case *ssa.MakeSlice:
		return s.linIn(y.Len, ctx, depth+1)
	case *ssa.Call:
		if b, ok := y.Call.Value.(*ssa.Builtin); ok && b.Name() == "append" && len(y.Call.Args) == 2 {
			return s.lenOf(y.Call.Args[0], ctx, depth+1).add(s.lenOf(y.Call.Args[1], ctx, depth+1), 1)
		}
	case *ssa.BinOp:
		if y.Op == token.ADD { // string concatenation
			return s.lenOf(y.X, ctx, depth+1).add(s.lenOf(y.Y, ctx, depth+1), 1)
		}
	case *ssa.UnOp:
		if y.Op == token.MUL && ctx == nil {
			if st := s.forwardedStore(y); st != nil {
				return s.lenOf(st.Val, nil, depth+1)
			}
		}
	}
	return s.atom(gdAtom{isLen: true, v: x, ctx: ctx})
}

// forwardedStore: the store in the same block that certainly provides the
// value read by load ld (same address path, nothing in between may alias).
func (s *gdSolver) forwardedStore(ld *ssa.UnOp) *ssa.Store {
	b := ld.Block()
	if b == nil {
		return nil
	}
	p := gdDerefPath(ld.X, ld)
	if len(p.steps) == 0 {
		return nil
	}
	ms := p.memSteps()
	if len(ms) == 0 {
		return nil
	}
	rd := ms[len(ms)-1]
	rd.at = ld
	i := gdIndexIn(b, ld)
	for j := i - 1; j >= 0; j-- {
		in := b.Instrs[j]
		if st, ok := in.(*ssa.Store); ok {
			if st.Addr == ld.X || s.eq.same(st.Addr, ld.X) {
				return st
			}
		}
		if s.eq.clobbers(in, rd) {
			return nil
		}
	}
	return nil
}

func (s *gdSolver) addLE(l gdLin)           { s.facts = append(s.facts, l) }
func (s *gdSolver) addNE(l gdLin)           { s.neqs = append(s.neqs, l) }
func (s *gdSolver) note(f string, a ...any) { s.notes = append(s.notes, fmt.Sprintf(f, a...)) }

// addCond records an integer comparison known to be true/false. Returns false
// when the condition is not an integer comparison.
func (s *gdSolver) addCond(cond ssa.Value, truth bool) bool { return s.addCondIn(cond, truth, nil) }

func (s *gdSolver) addCondIn(cond ssa.Value, truth bool, ctx *gdCallCtx) bool {
	return s.addCondDepth(cond, truth, ctx, 0)
}

func (s *gdSolver) addCondDepth(cond ssa.Value, truth bool, ctx *gdCallCtx, depth int) bool {
	for {
		if u, ok := cond.(*ssa.UnOp); ok && u.Op == token.NOT {
			cond, truth = u.X, !truth
			continue
		}
		break
	}
	// a boolean computed with && / || and kept in a variable (`ok := a && b`) or
	// returned negated (`return !(a || b)`): a phi of constants and conditions.
	// When only one edge can have produced the known value, the decisions of that
	// edge hold and so does its condition. (Not for a loop-header phi: its
	// back-edge value belongs to the previous iteration.)
	if phi, ok := cond.(*ssa.Phi); ok && depth < 4 {
		blk := phi.Block()
		edge := -1
		for i, e := range phi.Edges {
			if i >= len(blk.Preds) || blk.Dominates(blk.Preds[i]) {
				return false
			}
			if cv, isConst := gdBoolConst(e); isConst && cv != truth {
				continue
			}
			if edge >= 0 {
				return false
			}
			edge = i
		}
		if edge < 0 {
			return false
		}
		for _, f := range gdEdgeFacts(blk.Preds[edge], blk) {
			s.addCondDepth(f.cond, f.truth, ctx, depth+1)
		}
		if _, isConst := gdBoolConst(phi.Edges[edge]); !isConst {
			s.addCondDepth(phi.Edges[edge], truth, ctx, depth+1)
		}
		return true
	}
	b, ok := cond.(*ssa.BinOp)
	if !ok {
		return false
	}
	xt := b.X.Type()
	if !gdIsInteger(xt) {
		return false
	}
	op := b.Op
	if !truth {
		switch op {
		case token.LSS:
			op = token.GEQ
		case token.LEQ:
			op = token.GTR
		case token.GTR:
			op = token.LEQ
		case token.GEQ:
			op = token.LSS
		case token.EQL:
			op = token.NEQ
		case token.NEQ:
			op = token.EQL
		default:
			return false
		}
	}
	L := s.linIn(b.X, ctx, 0).add(s.linIn(b.Y, ctx, 0), -1) // X - Y
	switch op {
	case token.LSS:
		s.addLE(L.plus(1))
	case token.LEQ:
		s.addLE(L)
	case token.GTR:
		s.addLE(L.neg().plus(1))
	case token.GEQ:
		s.addLE(L.neg())
	case token.EQL:
		s.addLE(L)
		s.addLE(L.neg())
	case token.NEQ:
		s.addNE(L)
	default:
		return false
	}
	return true
}

// addBlockFacts adds every integer fact established by the If edges
// dominating block b.
func (s *gdSolver) addBlockFacts(b *ssa.BasicBlock) {
	for _, f := range gdDomFacts(b) {
		s.addCond(f.cond, f.truth)
	}
}

// ---- decision ----

const gdInf = int64(1) << 60

type gdDBM struct {
	n          int
	d          [][]int64
	cls        []int // atom → class node (1-based; 0 = zero node)
	infeasible bool
}

func (s *gdSolver) classes() []int {
	n := len(s.atoms)
	par := make([]int, n)
	for i := range par {
		par[i] = i
	}
	var find func(int) int
	find = func(i int) int {
		for par[i] != i {
			par[i] = par[par[i]]
			i = par[i]
		}
		return i
	}
	for i := 0; i < n; i++ {
		for j := i + 1; j < n; j++ {
			if find(i) == find(j) {
				continue
			}
			a, b := s.atoms[i], s.atoms[j]
			if a.isLen != b.isLen {
				continue
			}
			if s.eq.sameIn(a.v, a.ctx, b.v, b.ctx) {
				par[find(j)] = find(i)
			}
		}
	}
	out := make([]int, n)
	for i := range out {
		out[i] = find(i)
	}
	return out
}

func gdCanon(l gdLin, cls []int) gdLin {
	m := gdLin{k: l.k, t: map[int]int64{}}
	for a, c := range l.t {
		m.t[cls[a]] += c
	}
	for a, c := range m.t {
		if c == 0 {
			delete(m.t, a)
		}
	}
	return m
}

// asDiff: l ≡ (a - b + k) with a, b class nodes or 0 for absent.
func gdAsDiff(l gdLin) (a, b int, k int64, ok bool) {
	a, b = -1, -1
	switch len(l.t) {
	case 0:
		return -1, -1, l.k, true
	case 1:
		for at, c := range l.t {
			if c == 1 {
				return at, -1, l.k, true
			}
			if c == -1 {
				return -1, at, l.k, true
			}
		}
	case 2:
		for at, c := range l.t {
			if c == 1 && a < 0 {
				a = at
			} else if c == -1 && b < 0 {
				b = at
			} else {
				return 0, 0, 0, false
			}
		}
		return a, b, l.k, true
	}
	return 0, 0, 0, false
}

func floorDiv(a, b int64) int64 {
	q := a / b
	if (a%b != 0) && ((a < 0) != (b < 0)) {
		q--
	}
	return q
}

func (s *gdSolver) build() *gdDBM {
	cls := s.classes()
	n := len(s.atoms) + 1
	m := &gdDBM{n: n, cls: cls}
	m.d = make([][]int64, n)
	for i := range m.d {
		m.d[i] = make([]int64, n)
		for j := range m.d[i] {
			if i != j {
				m.d[i][j] = gdInf
			}
		}
	}
	node := func(a int) int {
		if a < 0 {
			return 0
		}
		return a + 1
	}
	set := func(a, b int, w int64) {
		i, j := node(a), node(b)
		if i == j {
			if w < 0 {
				m.infeasible = true
			}
			return
		}
		if w < m.d[i][j] {
			m.d[i][j] = w
		}
	}
	for i, a := range s.atoms {
		nonneg := a.isLen
		if !a.isLen {
			if gdIsUnsigned(a.v.Type()) {
				nonneg = true
			}
			if cv, ok := a.v.(*ssa.Convert); ok && gdIsUnsigned(cv.X.Type()) {
				nonneg = true
			}
		}
		if nonneg {
			set(-1, cls[i], 0) // 0 - a <= 0
		}
	}
	for _, f := range s.facts {
		c := gdCanon(f, cls)
		if len(c.t) == 1 {
			for at, co := range c.t {
				// co*a + k <= 0
				if co > 0 {
					set(at, -1, floorDiv(-c.k, co))
				} else {
					// a >= ceil(k / -co)  →  0 - a <= -ceil(k/(-co)) = floor(-k/(-co))
					set(-1, at, floorDiv(-c.k, -co))
				}
			}
			continue
		}
		a, b, k, ok := gdAsDiff(c)
		if !ok {
			continue
		}
		if a < 0 && b < 0 {
			if k > 0 {
				m.infeasible = true
			}
			continue
		}
		set(a, b, -k)
	}
	m.close()
	// disequalities tighten integer bounds
	for round := 0; round < 6 && !m.infeasible; round++ {
		changed := false
		for _, q := range s.neqs {
			c := gdCanon(q, cls)
			a, b, k, ok := gdAsDiff(c)
			if !ok {
				continue
			}
			if a < 0 && b < 0 {
				if k == 0 {
					m.infeasible = true
				}
				continue
			}
			i, j := node(a), node(b)
			// a - b != -k
			if m.d[i][j] == -k {
				m.d[i][j] = -k - 1
				changed = true
			}
			if m.d[j][i] == k {
				m.d[j][i] = k - 1
				changed = true
			}
		}
		if !changed {
			break
		}
		m.close()
	}
	return m
}

func (m *gdDBM) close() {
	n := m.n
	for k := 0; k < n; k++ {
		for i := 0; i < n; i++ {
			if m.d[i][k] >= gdInf {
				continue
			}
			for j := 0; j < n; j++ {
				if m.d[k][j] >= gdInf {
					continue
				}
				if v := m.d[i][k] + m.d[k][j]; v < m.d[i][j] {
					m.d[i][j] = v
				}
			}
		}
	}
	for i := 0; i < n; i++ {
		if m.d[i][i] < 0 {
			m.infeasible = true
		}
	}
}

type gdVerdict int

const (
	gdProved gdVerdict = iota
	gdNotProved
	gdUnknownShape
)

// proveLE decides goal <= 0.
func (s *gdSolver) proveLE(goal gdLin) gdVerdict {
	if s.goalAtoms == nil {
		s.goalAtoms = map[int]bool{}
	}
	for a := range goal.t {
		s.goalAtoms[a] = true
	}
	m := s.build()
	if m.infeasible {
		return gdProved
	}
	c := gdCanon(goal, m.cls)
	a, b, k, ok := gdAsDiff(c)
	if !ok {
		// exact match with a fact
		for _, f := range s.facts {
			fc := gdCanon(f, m.cls)
			if gdSameTerms(fc, c) && fc.k >= c.k {
				return gdProved
			}
		}
		return gdUnknownShape
	}
	if a < 0 && b < 0 {
		if k <= 0 {
			return gdProved
		}
		return gdNotProved
	}
	i, j := 0, 0
	if a >= 0 {
		i = a + 1
	}
	if b >= 0 {
		j = b + 1
	}
	if m.d[i][j] <= -k {
		return gdProved
	}
	return gdNotProved
}

func gdSameTerms(a, b gdLin) bool {
	if len(a.t) != len(b.t) {
		return false
	}
	for k, v := range a.t {
		if b.t[k] != v {
			return false
		}
	}
	return true
}

// proveNE decides goal != 0.
func (s *gdSolver) proveNE(goal gdLin) gdVerdict {
	if s.proveLE(goal.plus(1)) == gdProved || s.proveLE(goal.neg().plus(1)) == gdProved {
		return gdProved
	}
	cls := s.classes()
	c := gdCanon(goal, cls)
	for _, q := range s.neqs {
		qc := gdCanon(q, cls)
		if gdSameTerms(qc, c) && qc.k == c.k {
			return gdProved
		}
		if n := qc.neg(); gdSameTerms(n, c) && n.k == c.k {
			return gdProved
		}
	}
	return gdNotProved
}

// ---- rendering ----

func (s *gdSolver) atomName(i int) string {
	a := s.atoms[i]
	n := a.v.Name()
	if c, ok := a.v.(*ssa.Const); ok {
		n = c.String()
	}
	p := gdPathIn(a.v, a.ctx)
	if len(p.steps) > 0 {
		n = p.String()
	}
	if a.ctx != nil && p.rootCtx != nil {
		n += "@" + a.ctx.callee.Name()
	}
	if a.isLen {
		return "len(" + n + ")"
	}
	return n
}

func (s *gdSolver) linString(l gdLin) string {
	var keys []int
	for a := range l.t {
		keys = append(keys, a)
	}
	sort.Ints(keys)
	var sb strings.Builder
	for _, a := range keys {
		c := l.t[a]
		switch {
		case c == 1:
			sb.WriteString("+" + s.atomName(a))
		case c == -1:
			sb.WriteString("-" + s.atomName(a))
		default:
			fmt.Fprintf(&sb, "%+d*%s", c, s.atomName(a))
		}
	}
	if l.k != 0 || len(keys) == 0 {
		fmt.Fprintf(&sb, "%+d", l.k)
	}
	return strings.TrimPrefix(sb.String(), "+")
}

// factsString renders the facts connected (through shared atoms) to the goals
// proved so far.
func (s *gdSolver) factsString() string {
	cls := s.classes()
	rel := map[int]bool{}
	for a := range s.goalAtoms {
		rel[cls[a]] = true
	}
	touches := func(l gdLin) bool {
		if len(s.goalAtoms) == 0 {
			return true
		}
		for a := range l.t {
			if rel[cls[a]] {
				return true
			}
		}
		return false
	}
	for changed := true; changed; {
		changed = false
		for _, fs := range [][]gdLin{s.facts, s.neqs} {
			for _, f := range fs {
				if touches(f) {
					for a := range f.t {
						if !rel[cls[a]] {
							rel[cls[a]] = true
							changed = true
						}
					}
				}
			}
		}
	}
	var out []string
	for _, f := range s.facts {
		if touches(f) {
			out = append(out, s.linString(f)+"<=0")
		}
	}
	for _, f := range s.neqs {
		if touches(f) {
			out = append(out, s.linString(f)+"!=0")
		}
	}
	if len(out) == 0 {
		return "no dominating integer guard"
	}
	return strings.Join(out, "; ")
}
