package main

import (
	"fmt"
	"go/ast"
	"go/token"
	"go/types"
	"sort"
	"strings"

	"golang.org/x/tools/go/packages"
)

// r2sib — sibling-agreement engine, part 1: role normalisation of expressions.
//
// Two sibling code regions name their locals differently (fnReturnType /
// fnReturntype, arg / args.List[idx]). To compare the checks they perform the
// operands of every check are rewritten into a *role term*: parameters become
// positional ($0, $1 …), the receiver becomes self, single-definition locals
// are replaced by the term of their defining expression, range variables by
// elem()/key()/val() of the ranged collection, loop-counter indexing by
// elem(), comma-ok lookups by has()/is(), span-only adapters (.SetSpan) and
// type assertions are dropped. The term is a naming device only: a wrong
// merge can hide a difference (miss), a wrong split is reported as a
// disagreement, which the group table must then explain.

type r2sibDefKind int

const (
	r2dAssign r2sibDefKind = iota // x := rhs / x = rhs / var x = rhs (idx = tuple position, n = tuple width)
	r2dRangeKey
	r2dRangeVal
	r2dCounter // x++ / x += … / for-post
	r2dDeclOnly
	r2dTypeSwitch
)

type r2sibDef struct {
	kind r2sibDefKind
	rhs  ast.Expr
	idx  int
	n    int
	rng  *ast.RangeStmt
	pos  token.Pos
	// the statement list that contains the definition (a later use inside it is dominated by the definition)
	boxPos, boxEnd token.Pos
}

type r2sibFunc struct {
	c      *Ctx
	pkg    *packages.Package
	info   *types.Info
	fd     *ast.FuncDecl
	fn     *types.Func
	params map[types.Object]int
	recv   types.Object
	defs   map[types.Object][]r2sibDef
	// atoms of ForStmt conditions (loop structure, not guards)
	loopCond map[ast.Expr]bool
	busy     map[types.Object]bool
	boxes    []ast.Node
}

var r2sibFuncCache = map[*ast.FuncDecl]*r2sibFunc{}

func r2sibFuncOf(c *Ctx, pkg *packages.Package, fd *ast.FuncDecl) *r2sibFunc {
	if f, ok := r2sibFuncCache[fd]; ok && f.c == c {
		return f
	}
	f := &r2sibFunc{c: c, pkg: pkg, info: pkg.TypesInfo, fd: fd, params: map[types.Object]int{}, defs: map[types.Object][]r2sibDef{},
		loopCond: map[ast.Expr]bool{}, busy: map[types.Object]bool{}}
	f.fn, _ = pkg.TypesInfo.Defs[fd.Name].(*types.Func)
	if fd.Recv != nil && len(fd.Recv.List) > 0 && len(fd.Recv.List[0].Names) > 0 {
		f.recv = f.info.Defs[fd.Recv.List[0].Names[0]]
	}
	i := 0
	for _, fl := range fd.Type.Params.List {
		if len(fl.Names) == 0 {
			i++
		}
		for _, n := range fl.Names {
			if o := f.info.Defs[n]; o != nil {
				f.params[o] = i
			}
			i++
		}
	}
	f.scan(fd.Body)
	r2sibFuncCache[fd] = f
	return f
}

func (f *r2sibFunc) objOf(id *ast.Ident) types.Object {
	if o := f.info.Defs[id]; o != nil {
		return o
	}
	return f.info.Uses[id]
}

func (f *r2sibFunc) addDef(id *ast.Ident, d r2sibDef) {
	if id == nil || id.Name == "_" {
		return
	}
	o := f.objOf(id)
	if o == nil {
		return
	}
	d.pos = id.Pos()
	if d.boxPos == 0 && len(f.boxes) > 0 {
		b := f.boxes[len(f.boxes)-1]
		d.boxPos, d.boxEnd = b.Pos(), b.End()
	}
	f.defs[o] = append(f.defs[o], d)
}

func (f *r2sibFunc) scan(body ast.Node) {
	if body == nil {
		return
	}
	var stack []ast.Node
	ast.Inspect(body, func(n ast.Node) bool {
		if n == nil {
			top := stack[len(stack)-1]
			stack = stack[:len(stack)-1]
			switch top.(type) {
			case *ast.BlockStmt, *ast.CaseClause, *ast.CommClause:
				f.boxes = f.boxes[:len(f.boxes)-1]
			}
			return true
		}
		stack = append(stack, n)
		switch n.(type) {
		case *ast.BlockStmt, *ast.CaseClause, *ast.CommClause:
			f.boxes = append(f.boxes, n)
		}
		switch x := n.(type) {
		case *ast.FuncLit:
			// locals of closures are scanned too (they may be used by R-diag-subject), harmless
			return true
		case *ast.AssignStmt:
			if x.Tok != token.ASSIGN && x.Tok != token.DEFINE {
				for _, l := range x.Lhs {
					if id, ok := l.(*ast.Ident); ok {
						f.addDef(id, r2sibDef{kind: r2dCounter})
					}
				}
				return true
			}
			if len(x.Lhs) == len(x.Rhs) {
				for i, l := range x.Lhs {
					if id, ok := l.(*ast.Ident); ok {
						f.addDef(id, r2sibDef{kind: r2dAssign, rhs: x.Rhs[i], idx: 0, n: 1})
					}
				}
			} else if len(x.Rhs) == 1 {
				for i, l := range x.Lhs {
					if id, ok := l.(*ast.Ident); ok {
						f.addDef(id, r2sibDef{kind: r2dAssign, rhs: x.Rhs[0], idx: i, n: len(x.Lhs)})
					}
				}
			}
		case *ast.IncDecStmt:
			if id, ok := x.X.(*ast.Ident); ok {
				f.addDef(id, r2sibDef{kind: r2dCounter})
			}
		case *ast.RangeStmt:
			if id, ok := x.Key.(*ast.Ident); ok {
				f.addDef(id, r2sibDef{kind: r2dRangeKey, rng: x, boxPos: x.Body.Pos(), boxEnd: x.Body.End()})
			}
			if id, ok := x.Value.(*ast.Ident); ok {
				f.addDef(id, r2sibDef{kind: r2dRangeVal, rng: x, boxPos: x.Body.Pos(), boxEnd: x.Body.End()})
			}
		case *ast.ForStmt:
			if x.Cond != nil {
				for _, a := range r2sibCondLeaves(x.Cond) {
					f.loopCond[a] = true
				}
			}
		case *ast.ValueSpec:
			for i, id := range x.Names {
				switch {
				case len(x.Values) == len(x.Names):
					f.addDef(id, r2sibDef{kind: r2dAssign, rhs: x.Values[i], n: 1})
				case len(x.Values) == 1:
					f.addDef(id, r2sibDef{kind: r2dAssign, rhs: x.Values[0], idx: i, n: len(x.Names)})
				default:
					f.addDef(id, r2sibDef{kind: r2dDeclOnly})
				}
			}
		case *ast.TypeSwitchStmt:
			if as, ok := x.Assign.(*ast.AssignStmt); ok && len(as.Lhs) == 1 {
				if id, ok := as.Lhs[0].(*ast.Ident); ok {
					// the implicit objects of the clauses are in info.Implicits; name-based handling in norm
					_ = id
				}
			}
		}
		return true
	})
}

// r2sibCondLeaves returns the atomic operands of a short-circuit condition.
func r2sibCondLeaves(e ast.Expr) []ast.Expr {
	e = ast.Unparen(e)
	switch x := e.(type) {
	case *ast.UnaryExpr:
		if x.Op == token.NOT {
			return r2sibCondLeaves(x.X)
		}
	case *ast.BinaryExpr:
		if x.Op == token.LAND || x.Op == token.LOR {
			return append(r2sibCondLeaves(x.X), r2sibCondLeaves(x.Y)...)
		}
	}
	return []ast.Expr{e}
}

// isCounter: the local is stepped (x++, x += …).
func (f *r2sibFunc) isCounter(o types.Object) bool {
	for _, d := range f.defs[o] {
		if d.kind == r2dCounter {
			return true
		}
	}
	return false
}

// isFlag: a bool local with more than one definition, all of them constants
// (found := false … found = true): tracked by value in the walker.
func (f *r2sibFunc) isFlag(o types.Object) bool {
	ds := f.defs[o]
	if len(ds) < 2 {
		return false
	}
	if b, ok := o.Type().Underlying().(*types.Basic); !ok || b.Kind() != types.Bool {
		return false
	}
	for _, d := range ds {
		if d.kind != r2dAssign || d.n != 1 {
			return false
		}
		if _, ok := r2sibBoolConst(f.info, d.rhs); !ok {
			return false
		}
	}
	return true
}

func r2sibBoolConst(info *types.Info, e ast.Expr) (bool, bool) {
	if id, ok := ast.Unparen(e).(*ast.Ident); ok {
		if k, ok := info.Uses[id].(*types.Const); ok && k.Pkg() == nil {
			switch id.Name {
			case "true":
				return true, true
			case "false":
				return false, true
			}
		}
	}
	return false, false
}

// stripped method names: adapters that change no checked content.
var r2sibStripMethods = map[string]bool{"SetSpan": true}

// r2sibDescent reports whether fn is an "analysis descent": it takes a parser
// tree (or a list of them) and returns an analysed tree / type. Such calls are
// terms (the analysed sub-construct), never inlined.
func r2sibDescent(fn *types.Func) bool {
	if fn == nil {
		return false
	}
	sig, ok := fn.Type().(*types.Signature)
	if !ok || sig.Params().Len() == 0 {
		return false
	}
	// a predicate / accessor over a node (results of basic type only) is a helper, not a walker
	if sig.Results().Len() > 0 {
		allBasic := true
		for i := 0; i < sig.Results().Len(); i++ {
			if _, ok := sig.Results().At(i).Type().Underlying().(*types.Basic); !ok {
				allBasic = false
			}
		}
		if allBasic {
			return false
		}
	}
	t := sig.Params().At(0).Type()
	for {
		switch u := t.(type) {
		case *types.Pointer:
			t = u.Elem()
			continue
		case *types.Slice:
			t = u.Elem()
			continue
		}
		break
	}
	n, ok := types.Unalias(t).(*types.Named)
	if !ok || n.Obj().Pkg() == nil {
		return false
	}
	path := n.Obj().Pkg().Path()
	if strings.HasSuffix(path, "/parser/ast") {
		return true
	}
	// outside the analyzer (interpreter, compiler, …) the tree that is descended is the analysed one;
	// inside the analyzer a function taking an analysed node is a helper working on a result
	if fn.Pkg() != nil && strings.HasSuffix(fn.Pkg().Path(), "/analyzer") {
		return false
	}
	return strings.HasSuffix(path, "/analyzer/ast") && strings.HasPrefix(n.Obj().Name(), "Analyzed")
}

// r2sibFirstArgOnly: verdict functions whose call term keeps only the checked
// operand (set by the engine: TypeCheck), so that terms agree across siblings
// that check against member-specific expectations.
var r2sibFirstArgOnly = map[*types.Func]bool{}

func (f *r2sibFunc) norm(e ast.Expr) string { return f.normD(e, 0) }

func (f *r2sibFunc) normD(e ast.Expr, depth int) string {
	if e == nil {
		return "<nil>"
	}
	if depth > 80 {
		return "…"
	}
	e = ast.Unparen(e)
	switch x := e.(type) {
	case *ast.Ident:
		return f.normIdent(x, depth)
	case *ast.BasicLit:
		return x.Value
	case *ast.SelectorExpr:
		// package-qualified object?
		if id, ok := x.X.(*ast.Ident); ok {
			if _, isPkg := f.info.Uses[id].(*types.PkgName); isPkg {
				if _, isConst := f.info.Uses[x.Sel].(*types.Const); isConst {
					return "const:" + id.Name + "." + x.Sel.Name
				}
				return id.Name + "." + x.Sel.Name
			}
		}
		return f.normD(x.X, depth+1) + "." + x.Sel.Name
	case *ast.StarExpr:
		return f.normD(x.X, depth+1)
	case *ast.UnaryExpr:
		switch x.Op {
		case token.AND:
			return f.normD(x.X, depth+1)
		case token.NOT:
			return "!(" + f.normD(x.X, depth+1) + ")"
		}
		return x.Op.String() + f.normD(x.X, depth+1)
	case *ast.TypeAssertExpr:
		return f.normD(x.X, depth+1)
	case *ast.IndexExpr:
		base := f.normD(x.X, depth+1)
		if tv, ok := f.info.Types[x.X]; ok && tv.Type != nil {
			if _, isMap := tv.Type.Underlying().(*types.Map); isMap {
				return base + "[" + f.normD(x.Index, depth+1) + "]"
			}
		}
		if tv, ok := f.info.Types[x.Index]; ok && tv.IsType() {
			return base // generic instantiation
		}
		idx := f.normD(x.Index, depth+1)
		if strings.Contains(idx, "ctr(") || strings.Contains(idx, "idx(") || strings.Contains(idx, "key(") {
			return "elem(" + base + ")"
		}
		return base + "[" + idx + "]"
	case *ast.SliceExpr:
		part := func(e ast.Expr) string {
			if e == nil {
				return ""
			}
			return f.normD(e, depth+1)
		}
		return "slice(" + f.normD(x.X, depth+1) + "," + part(x.Low) + ":" + part(x.High) + ")"
	case *ast.BinaryExpr:
		l, r := f.normD(x.X, depth+1), f.normD(x.Y, depth+1)
		switch x.Op {
		case token.EQL, token.NEQ, token.ADD, token.MUL, token.LAND, token.LOR, token.AND, token.OR, token.XOR:
			if x.Op != token.ADD || !r2sibIsString(f.info, x.X) {
				lc, rc := r2sibConstLike(l), r2sibConstLike(r)
				if lc && !rc || lc == rc && r < l {
					l, r = r, l
				}
			}
		case token.GTR:
			return r + " < " + l
		case token.GEQ:
			return r + " <= " + l
		}
		return l + " " + x.Op.String() + " " + r
	case *ast.CallExpr:
		return f.normCall(x, depth)
	case *ast.CompositeLit:
		var parts []string
		keyed := false
		for _, el := range x.Elts {
			if kv, ok := el.(*ast.KeyValueExpr); ok {
				keyed = true
				k := exprStr(kv.Key)
				if _, isId := kv.Key.(*ast.Ident); !isId {
					k = f.normD(kv.Key, depth+1)
				}
				parts = append(parts, k+":"+f.normD(kv.Value, depth+1))
			} else {
				parts = append(parts, f.normD(el, depth+1))
			}
		}
		if keyed {
			sort.Strings(parts)
		}
		t := ""
		if x.Type != nil {
			t = exprStr(x.Type)
		}
		return t + "{" + strings.Join(parts, ",") + "}"
	case *ast.FuncLit:
		return "func{…}"
	case *ast.KeyValueExpr:
		return f.normD(x.Key, depth+1) + ":" + f.normD(x.Value, depth+1)
	case *ast.ArrayType, *ast.MapType, *ast.FuncType, *ast.InterfaceType, *ast.StructType, *ast.ChanType:
		return exprStr(e)
	}
	return exprStr(e)
}

func r2sibIsString(info *types.Info, e ast.Expr) bool {
	if tv, ok := info.Types[e]; ok && tv.Type != nil {
		if b, ok := tv.Type.Underlying().(*types.Basic); ok && b.Info()&types.IsString != 0 {
			return true
		}
	}
	return false
}

// r2sibConstLike: the term denotes a constant (literal, nil/true/false, or a
// package-qualified / bare upper-case constant name).
func r2sibConstLike(s string) bool {
	if s == "" {
		return false
	}
	if s == "nil" || s == "true" || s == "false" {
		return true
	}
	c := s[0]
	if c >= '0' && c <= '9' || c == '"' || c == '\'' || c == '`' {
		return true
	}
	if strings.HasPrefix(s, "const:") {
		return true
	}
	return false
}

func (f *r2sibFunc) normIdent(id *ast.Ident, depth int) string {
	o := f.objOf(id)
	if o == nil {
		return id.Name
	}
	switch ob := o.(type) {
	case *types.Nil:
		return "nil"
	case *types.Const:
		if ob.Pkg() == nil {
			return ob.Name()
		}
		return "const:" + ob.Pkg().Name() + "." + ob.Name()
	case *types.Builtin, *types.TypeName, *types.PkgName:
		return id.Name
	case *types.Func:
		if ob.Pkg() != nil && ob.Pkg() != f.pkg.Types {
			return ob.Pkg().Name() + "." + ob.Name()
		}
		return ob.Name()
	case *types.Var:
		if o == f.recv {
			return "self"
		}
		if i, ok := f.params[o]; ok {
			return fmt.Sprintf("$%d", i)
		}
		if ob.Pkg() != nil && ob.Parent() == ob.Pkg().Scope() {
			return ob.Pkg().Name() + "." + ob.Name()
		}
		if ob.IsField() {
			return ob.Name()
		}
		return f.normLocal(ob, id, depth)
	}
	return id.Name
}

func (f *r2sibFunc) normLocal(o *types.Var, id *ast.Ident, depth int) string {
	ds := f.defs[o]
	if len(ds) == 0 {
		return "local(" + o.Name() + ")"
	}
	if f.busy[o] {
		return "local(" + o.Name() + ")"
	}
	if f.isCounter(o) {
		return "ctr(" + o.Name() + ")"
	}
	if f.isFlag(o) {
		return "flag(" + o.Name() + ")"
	}
	f.busy[o] = true
	defer delete(f.busy, o)
	// the declaration (first definition in source order) names the role …
	d := ds[0]
	for _, x := range ds[1:] {
		if x.pos < d.pos {
			d = x
		}
	}
	// … unless a later definition lexically dominates this use (same or enclosing statement list, before the use):
	// `v, found := a(); …; w, found := b(); if found` refers to b. Definitions inside a branch that does not
	// contain the use (x = fallback in an if-body) do not rename the role.
	if id != nil {
		for _, x := range ds {
			if x.kind == r2dCounter || x.pos >= id.Pos() || x.pos <= d.pos {
				continue
			}
			if x.boxPos <= id.Pos() && id.Pos() < x.boxEnd {
				d = x
			}
		}
	}
	switch d.kind {
	case r2dRangeKey, r2dRangeVal:
		base := f.normD(d.rng.X, depth+1)
		isMap := false
		if tv, ok := f.info.Types[d.rng.X]; ok && tv.Type != nil {
			_, isMap = tv.Type.Underlying().(*types.Map)
		}
		switch {
		case d.kind == r2dRangeKey && isMap:
			return "key(" + base + ")"
		case d.kind == r2dRangeKey:
			return "idx(" + base + ")"
		case isMap:
			return "val(" + base + ")"
		}
		return "elem(" + base + ")"
	case r2dDeclOnly:
		// `var body T` filled by a single assignment elsewhere (typically inside a closure handed to a helper:
		// withLoop(func() { body = self.block(…) })): that assignment names the role
		var others []r2sibDef
		for _, x := range ds {
			if x.pos != d.pos {
				others = append(others, x)
			}
		}
		if len(others) == 1 && others[0].kind == r2dAssign && others[0].n == 1 {
			if _, isCall := ast.Unparen(others[0].rhs).(*ast.CallExpr); isCall {
				return f.normD(others[0].rhs, depth+1)
			}
		}
		return "local(" + o.Name() + ")"
	case r2dAssign:
		rhs := ast.Unparen(d.rhs)
		if d.n == 1 {
			// `var x *T = nil` … `x = &y`: the nil declaration names nothing; a single later definition does
			if id, ok := rhs.(*ast.Ident); ok && id.Name == "nil" && len(ds) >= 2 {
				var others []r2sibDef
				for _, x := range ds {
					if x.pos != d.pos {
						others = append(others, x)
					}
				}
				if len(others) == 1 && others[0].kind == r2dAssign && others[0].n == 1 {
					switch o := ast.Unparen(others[0].rhs).(type) {
					case *ast.UnaryExpr:
						if o.Op == token.AND {
							if inner, ok := ast.Unparen(o.X).(*ast.Ident); ok {
								if v, ok := f.objOf(inner).(*types.Var); ok && f.loopVarOf(v) {
									return "local(" + obName(v, o) + ")"
								}
							}
							return f.normD(o, depth+1)
						}
					case *ast.CallExpr:
						return f.normD(o, depth+1)
					}
				}
				return "local(" + o.Name() + ")"
			}
			return f.normD(rhs, depth+1)
		}
		switch r := rhs.(type) {
		case *ast.IndexExpr:
			if d.idx == 1 {
				return "has(" + f.normD(r.X, depth+1) + "," + f.normD(r.Index, depth+1) + ")"
			}
			return f.normD(r, depth+1)
		case *ast.TypeAssertExpr:
			if d.idx == 1 {
				return "is(" + f.normD(r.X, depth+1) + "," + exprStr(r.Type) + ")"
			}
			return f.normD(r.X, depth+1)
		}
		if call, ok := rhs.(*ast.CallExpr); ok && d.idx == 0 && r2sibDescent(CalleeOf(f.info, call)) {
			// the analysed node is the first result of a walker, whatever else it reports
			return f.normD(rhs, depth+1)
		}
		return fmt.Sprintf("%s#%d", f.normD(rhs, depth+1), d.idx)
	}
	return "local(" + o.Name() + ")"
}

func (f *r2sibFunc) normCall(x *ast.CallExpr, depth int) string {
	args := func(list []ast.Expr) string {
		var parts []string
		for _, a := range list {
			parts = append(parts, f.normD(a, depth+1))
		}
		return strings.Join(parts, ",")
	}
	// conversion
	if tv, ok := f.info.Types[x.Fun]; ok && tv.IsType() {
		if len(x.Args) == 1 {
			return f.normD(x.Args[0], depth+1)
		}
	}
	callee := CalleeOf(f.info, x)
	if t, ok := f.inlinePure(callee, x, depth); ok {
		return t
	}
	switch fun := ast.Unparen(x.Fun).(type) {
	case *ast.SelectorExpr:
		if r2sibStripMethods[fun.Sel.Name] && callee != nil && callee.Type().(*types.Signature).Recv() != nil {
			return f.normD(fun.X, depth+1)
		}
		if id, ok := fun.X.(*ast.Ident); ok {
			if _, isPkg := f.info.Uses[id].(*types.PkgName); isPkg {
				return id.Name + "." + fun.Sel.Name + "(" + args(x.Args) + ")"
			}
		}
		recv := f.normD(fun.X, depth+1)
		if r2sibDescent(callee) && len(x.Args) > 0 {
			// the analysed sub-construct: identified by the syntax it was analysed from and by the kind of
			// result the walker returns for it (not by the walker's name, which is private to the package)
			return "desc[" + r2sibResultRole(callee) + "](" + f.normD(x.Args[0], depth+1) + ")"
		}
		if r2sibFirstArgOnly[callee] && len(x.Args) > 0 {
			return recv + "." + fun.Sel.Name + "(" + f.normD(x.Args[0], depth+1) + ")"
		}
		return recv + "." + fun.Sel.Name + "(" + args(x.Args) + ")"
	case *ast.Ident:
		return f.normIdent(fun, depth) + "(" + args(x.Args) + ")"
	}
	return f.normD(x.Fun, depth+1) + "(" + args(x.Args) + ")"
}

// r2sibSubst replaces the positional parameters of a callee summary by the
// role terms of the arguments at the call site.
func r2sibSubst(s string, args []string) string {
	if !strings.Contains(s, "$") {
		return s
	}
	var b strings.Builder
	for i := 0; i < len(s); i++ {
		if s[i] == '$' && i+1 < len(s) && s[i+1] >= '0' && s[i+1] <= '9' {
			j := i + 1
			n := 0
			for j < len(s) && s[j] >= '0' && s[j] <= '9' {
				n = n*10 + int(s[j]-'0')
				j++
			}
			if n < len(args) {
				b.WriteString(args[n])
			} else {
				b.WriteString(s[i:j])
			}
			i = j - 1
			continue
		}
		b.WriteByte(s[i])
	}
	return b.String()
}

// loopVarOf: v is a range variable (a pointer to it taken inside the loop is a "found" marker, not a role).
func (f *r2sibFunc) loopVarOf(v *types.Var) bool {
	for _, d := range f.defs[v] {
		if d.kind == r2dRangeKey || d.kind == r2dRangeVal {
			return true
		}
	}
	return false
}

func obName(v *types.Var, _ ast.Node) string { return "&" + v.Name() }

// pretty replaces the positional parameters of a role term by the parameter names (for witnesses and keys
// that concern one function only).
func (f *r2sibFunc) pretty(term string) string {
	names := map[int]string{}
	for o, i := range f.params {
		names[i] = o.Name()
	}
	var args []string
	for i := 0; i < len(names)+1; i++ {
		if n, ok := names[i]; ok {
			args = append(args, n)
		} else {
			args = append(args, fmt.Sprintf("$%d", i))
		}
	}
	return r2sibSubst(term, args)
}

// r2sibResultRole names a walker by what it returns: the named type of its first result.
func r2sibResultRole(fn *types.Func) string {
	sig, ok := fn.Type().(*types.Signature)
	if !ok || sig.Results().Len() == 0 {
		return "void"
	}
	t := sig.Results().At(0).Type()
	for {
		switch u := t.(type) {
		case *types.Pointer:
			t = u.Elem()
			continue
		case *types.Slice:
			t = u.Elem()
			continue
		}
		break
	}
	if n, ok := types.Unalias(t).(*types.Named); ok {
		return n.Obj().Name()
	}
	return t.String()
}

// inlinePure: a call of a function of the analysed module whose body is a single `return <expr>` is replaced by
// the term of that expression (parameters substituted): `isSingletonReference(t)` is `t.Kind() == K`.
func (f *r2sibFunc) inlinePure(callee *types.Func, x *ast.CallExpr, depth int) (string, bool) {
	if callee == nil || depth > 20 || callee.Pkg() == nil || !strings.HasPrefix(callee.Pkg().Path(), ModPath) {
		return "", false
	}
	if r2sibDescent(callee) || r2sibFirstArgOnly[callee] {
		return "", false
	}
	e := r2sibEngines[f.c]
	if e == nil {
		return "", false
	}
	fd := e.decls[callee]
	if fd == nil || fd.Body == nil || len(fd.Body.List) != 1 || fd == f.fd {
		return "", false
	}
	rs, ok := fd.Body.List[0].(*ast.ReturnStmt)
	if !ok || len(rs.Results) != 1 {
		return "", false
	}
	// only comparisons / boolean combinations / field reads: no further calls with effects are hidden by this
	switch ast.Unparen(rs.Results[0]).(type) {
	case *ast.BinaryExpr, *ast.UnaryExpr, *ast.SelectorExpr:
	default:
		return "", false
	}
	cf := r2sibFuncOf(f.c, e.declPkg[callee], fd)
	if cf.recv != nil {
		return "", false // methods: the receiver term would be lost
	}
	body := cf.normD(rs.Results[0], depth+1)
	var args []string
	for _, a := range x.Args {
		args = append(args, f.normD(a, depth+1))
	}
	return r2sibSubst(body, args), true
}
