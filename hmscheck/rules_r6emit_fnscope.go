package main

// R-function-scope (r6emit): the names a function introduces are registered
// in a scope the function compiler opened itself.

import (
	"fmt"
	"go/ast"
	"go/types"
	"sort"
	"strings"
)

func init() {
	register(&Rule{ID: "R-function-scope", Floor: 3, Run: ruleR6FunctionScope,
		Doc: "function-local name tables: the scope that is current when the function compiler is entered belongs to whoever called it (the module's root scope with the globals, or a scope of the enclosing function). On every non-panicking path of the function compiler, every call that can register a variable name (the registrar itself or a compiler method that reaches it: parameter binding, body compilation) happens while at least one scope pushed by this activation is open — or the callee opens a scope of its own before its first registration — and every scope the activation opened is closed again at exit. Otherwise the function's parameters / top-level locals are written into the caller's table: they shadow or replace the module's globals for every function compiled later, and names of one function resolve in the next. Necessary for C15 (block scoping, frame-local variables) and C01: `let x = 1; fn f() { let x = 2; } fn main() { f(); println(x) }`"})
}

// r6emRegistrar: the Compiler method that returns a string and stores into a
// map[string]string (same role as in R-frame-slots / R-scope-binding).
func r6emRegistrar(roles *vmCompilerRoles) *types.Func {
	var registrar *types.Func
	for _, fn := range roles.fns {
		obj, _ := fn.info.Defs[fn.fd.Name].(*types.Func)
		if obj == nil || fn.fd.Recv == nil {
			continue
		}
		sig := obj.Type().(*types.Signature)
		if sig.Results().Len() != 1 || !types.Identical(sig.Results().At(0).Type(), types.Typ[types.String]) {
			continue
		}
		ast.Inspect(fn.fd.Body, func(n ast.Node) bool {
			as, ok := n.(*ast.AssignStmt)
			if !ok {
				return true
			}
			for _, l := range as.Lhs {
				ix, ok := ast.Unparen(l).(*ast.IndexExpr)
				if !ok {
					continue
				}
				m, ok := fn.info.TypeOf(ix.X).Underlying().(*types.Map)
				if ok && types.Identical(m.Key(), types.Typ[types.String]) && types.Identical(m.Elem(), types.Typ[types.String]) {
					registrar = obj
				}
			}
			return true
		})
	}
	if registrar == nil {
		fatalf("anchor unresolved: the Compiler method that registers a mangled variable name in the current scope")
	}
	return registrar
}

// r6emScopeEffect: net effect of a compiler method on the scope stack. The
// compiler is mutually recursive (statements contain blocks contain
// statements), so the summary is coinductive: while a function is being
// summarised, a recursive call of it counts as balanced; the result is known
// when every non-panicking path has the same net effect.
type r6emEff struct {
	d       int
	unknown bool
}

type r6emScopeEffect struct {
	c     *Ctx
	roles *vmCompilerRoles
	memo  map[*types.Func]*r6emEff
	touch map[*types.Func]bool
}

func (s *r6emScopeEffect) touches(g *types.Func) bool {
	if s.touch == nil {
		s.touch = map[*types.Func]bool{}
		for _, fn := range s.roles.fns {
			obj, _ := fn.info.Defs[fn.fd.Name].(*types.Func)
			if obj == nil {
				continue
			}
			direct := vmWritesField(fn.info, fn.fd.Body, s.roles.scopes.field)
			if !direct {
				for h := range s.roles.callees[obj] {
					if _, ok := s.roles.scopes.push[h]; ok {
						direct = true
					}
					if _, ok := s.roles.scopes.pop[h]; ok {
						direct = true
					}
				}
			}
			if direct {
				s.touch[obj] = true
			}
		}
	}
	return s.touch[g]
}

func (s *r6emScopeEffect) call(g *types.Func) (int, bool) {
	if g == nil {
		return 0, false
	}
	if n, ok := s.roles.scopes.push[g]; ok {
		return n, false
	}
	if n, ok := s.roles.scopes.pop[g]; ok {
		return -n, false
	}
	if e, ok := s.memo[g]; ok {
		return e.d, e.unknown
	}
	gf := s.roles.byObj[g]
	if gf == nil {
		return 0, false
	}
	reach := s.touches(g)
	if !reach {
		for h := range s.roles.reachableFrom(g) {
			if s.touches(h) {
				reach = true
				break
			}
		}
	}
	eff := &r6emEff{}
	s.memo[g] = eff // coinductive assumption: balanced
	if !reach {
		return 0, false
	}
	gi := gf.info
	rel := func(n ast.Node) bool {
		switch x := n.(type) {
		case *ast.CallExpr:
			h := CalleeOf(gi, x)
			if h == nil {
				return false
			}
			if _, ok := s.roles.scopes.push[h]; ok {
				return true
			}
			if _, ok := s.roles.scopes.pop[h]; ok {
				return true
			}
			return h != g && s.touches(h)
		case *ast.AssignStmt:
			for _, l := range x.Lhs {
				if vmFieldOf(gi, vmBaseOfIndex(l)) == s.roles.scopes.field {
					return true
				}
			}
		}
		return false
	}
	res := vmWalk(vmWalkOpts{fn: gf, correlate: true, replace: vmSlicer(rel)})
	if res.overflow {
		eff.unknown = true
		return 0, true
	}
	first := true
	for i := range res.paths {
		p := &res.paths[i]
		if p.o.kind == cPanic {
			continue
		}
		d := 0
		for _, e := range p.ev {
			switch e.K {
			case evAssign:
				if vmFieldOf(gi, vmBaseOfIndex(e.Lhs)) != s.roles.scopes.field {
					continue
				}
				if e.Rhs != nil {
					if k, ok := vmSliceWrite(gi, e.Lhs, e.Rhs, s.roles.scopes.field); ok {
						d += k
						continue
					}
				}
				eff.unknown = true
			case evCall:
				if e.Fn == nil || e.Fn == g {
					continue
				}
				k, unk := s.call(e.Fn)
				if unk {
					eff.unknown = true
				}
				d += k
			}
		}
		if first {
			eff.d, first = d, false
		} else if d != eff.d {
			eff.unknown = true
		}
	}
	if eff.unknown {
		eff.d = 0
	}
	return eff.d, eff.unknown
}

func ruleR6FunctionScope(c *Ctx) []Obligation {
	r2LoopCtx = c
	roles := vmCompRoles(c)
	a := r3emLinkAnchors(c)
	registrar := r6emRegistrar(roles)
	summ := &r6emScopeEffect{c: c, roles: roles, memo: map[*types.Func]*r6emEff{}}
	// assume/guarantee: while the function compiler is checked, its own (re-entrant)
	// calls count as balanced — that is exactly what the exit obligation establishes
	summ.memo[a.compileFn] = &r6emEff{}
	fn := roles.byObj[a.compileFn]
	if fn == nil {
		fatalf("anchor unresolved: body of the function compiler %s", a.compileFn.Name())
	}
	info := fn.info

	registers := func(g *types.Func) bool {
		if g == nil {
			return false
		}
		if g == registrar {
			return true
		}
		if roles.byObj[g] == nil {
			return false
		}
		return roles.callees[g][registrar] || roles.reachableFrom(g)[registrar]
	}
	isPrim := func(g *types.Func) bool {
		if g == nil {
			return false
		}
		if _, ok := roles.scopes.push[g]; ok {
			return true
		}
		_, ok := roles.scopes.pop[g]
		return ok
	}
	// opensOwn: g pushes a scope before its first registering call on every path
	opensOwnMemo := map[*types.Func]bool{}
	opensOwn := func(g *types.Func) bool {
		if v, ok := opensOwnMemo[g]; ok {
			return v
		}
		opensOwnMemo[g] = false
		gf := roles.byObj[g]
		if gf == nil || g == registrar {
			return false
		}
		gi := gf.info
		rel := func(n ast.Node) bool {
			call, ok := n.(*ast.CallExpr)
			if !ok {
				return false
			}
			h := CalleeOf(gi, call)
			return isPrim(h) || registers(h)
		}
		res := vmWalk(vmWalkOpts{fn: gf, correlate: true, replace: vmSlicer(rel)})
		if res.overflow || len(res.paths) == 0 {
			return false
		}
		for i := range res.paths {
			p := &res.paths[i]
			if p.o.kind == cPanic {
				continue
			}
			for _, e := range p.ev {
				if e.K != evCall || e.Deferred || e.Fn == nil {
					continue
				}
				if _, ok := roles.scopes.push[e.Fn]; ok {
					break
				}
				if registers(e.Fn) {
					return false
				}
			}
		}
		opensOwnMemo[g] = true
		return true
	}

	relevant := func(n ast.Node) bool {
		switch x := n.(type) {
		case *ast.CallExpr:
			g := CalleeOf(info, x)
			if g == nil {
				return false
			}
			if isPrim(g) || registers(g) {
				return true
			}
			if d, unk := summ.call(g); d != 0 || unk {
				return true
			}
		case *ast.AssignStmt:
			for _, l := range x.Lhs {
				if vmFieldOf(info, vmBaseOfIndex(l)) == roles.scopes.field {
					return true
				}
			}
		}
		return false
	}
	res := vmWalk(vmWalkOpts{fn: fn, correlate: true, replace: vmSlicer(relevant)})
	if res.overflow || len(res.paths) == 0 {
		return []Obligation{{Key: fn.name + "|<paths>", Pos: c.Pos(fn.fd.Pos()), Status: Undecided, Detail: "path cap exceeded / no path"}}
	}

	type verdict struct {
		pos     string
		callee  string
		paths   int
		bad     []string
		unknown []string
		minD    int
		own     bool
	}
	verdicts := map[string]*verdict{}
	var keys []string
	siteKey := map[*ast.CallExpr]string{}
	count := map[string]int{}
	keyOf := func(call *ast.CallExpr, g *types.Func) string {
		if k, ok := siteKey[call]; ok {
			return k
		}
		arg := ""
		if len(call.Args) > 0 {
			arg = vmTrunc(exprStr(call.Args[0]), 40)
		}
		k := r2UnitKey(c, fn, call.Pos()) + "|" + g.Name() + "(" + arg + ")"
		count[k]++
		if count[k] > 1 {
			k += fmt.Sprintf(" #%d", count[k])
		}
		siteKey[call] = k
		return k
	}
	// deterministic key numbering: visit the call sites in source order first
	ast.Inspect(fn.fd.Body, func(n ast.Node) bool {
		if call, ok := n.(*ast.CallExpr); ok {
			if g := CalleeOf(info, call); g != nil && !isPrim(g) && registers(g) {
				k := keyOf(call, g)
				verdicts[k] = &verdict{pos: c.Pos(call.Pos()), callee: g.Name(), minD: 1 << 30}
				keys = append(keys, k)
			}
		}
		return true
	})

	exitPaths, exitBad := 0, []string{}
	var exitUnknown []string
	for i := range res.paths {
		p := &res.paths[i]
		if p.o.kind == cPanic {
			continue
		}
		depth := 0
		unknownAt := ""
		for _, e := range p.ev {
			switch e.K {
			case evAssign:
				if vmFieldOf(info, vmBaseOfIndex(e.Lhs)) != roles.scopes.field {
					continue
				}
				if e.Rhs != nil {
					if d, ok := vmSliceWrite(info, e.Lhs, e.Rhs, roles.scopes.field); ok {
						depth += d
						continue
					}
				}
				if unknownAt == "" {
					unknownAt = fmt.Sprintf("the scope stack is assigned @%s", c.Pos(e.Pos))
				}
			case evCall:
				if e.Fn == nil {
					continue
				}
				if !e.Deferred && !isPrim(e.Fn) && registers(e.Fn) {
					if v := verdicts[siteKey[e.Call]]; v != nil {
						v.paths++
						if depth < v.minD {
							v.minD = depth
						}
						switch {
						case unknownAt != "":
							v.unknown = append(v.unknown, unknownAt)
						case depth >= 1:
						case opensOwn(e.Fn):
							v.own = true
						default:
							v.bad = append(v.bad, fmt.Sprintf("path [%s]: %d scope(s) opened by this activation of %s are open", vmTrunc(p.decisions(), 160), depth, a.compileFn.Name()))
						}
					}
				}
				d, unk := summ.call(e.Fn)
				if unk && unknownAt == "" {
					unknownAt = fmt.Sprintf("%s() @%s changes the scope stack by an amount that differs between its paths", e.Fn.Name(), c.Pos(e.Pos))
				}
				depth += d
			}
		}
		exitPaths++
		switch {
		case unknownAt != "":
			exitUnknown = append(exitUnknown, unknownAt)
		case depth != 0:
			exitBad = append(exitBad, fmt.Sprintf("path [%s]: net change of the scope stack %+d", vmTrunc(p.decisions(), 160), depth))
		}
	}

	var obs []Obligation
	for _, k := range keys {
		v := verdicts[k]
		ob := Obligation{Key: k + "|registers names in a scope opened by the function compiler", Pos: v.pos, Nontrivial: true}
		switch {
		case len(v.bad) > 0:
			ob.Status = Violated
			ob.Detail = fmt.Sprintf("%s can register variable names (reaches %s) and runs while no scope pushed by this activation of %s is open, and it does not open one itself before registering: %s. The names land in the table that was current at entry — the module's root scope (globals) for a top-level function, a scope of the enclosing function for a nested one — and stay there after the function: a local shadows / replaces the global of the same name in every function compiled later, and one function's locals resolve inside the next. e.g. `let x = 1; fn f() { let x = 2; } fn main() { f(); println(x) }`: main's `x` resolves to f's frame slot", v.callee, registrar.Name(), a.compileFn.Name(), strings.Join(vmUniq(v.bad), " | "))
		case len(v.unknown) > 0:
			ob.Status, ob.Detail = Undecided, strings.Join(vmUniq(v.unknown), " | ")
		case v.paths == 0:
			ob.Status, ob.Detail = Info, "no explored non-panicking path reaches the call"
		case v.own && v.minD < 1:
			ob.Status, ob.Detail = Discharged, fmt.Sprintf("%d path(s); %s opens a scope of its own before its first registration", v.paths, v.callee)
		default:
			ob.Status, ob.Detail = Discharged, fmt.Sprintf("%d path(s); at least %d scope(s) pushed by this activation open at the call", v.paths, v.minD)
		}
		obs = append(obs, ob)
	}
	ob := Obligation{Key: fn.name + "|scopes opened by the function compiler are closed at exit", Pos: c.Pos(fn.fd.Pos()), Nontrivial: true}
	switch {
	case len(exitBad) > 0:
		ob.Status, ob.Detail = Violated, strings.Join(vmUniq(exitBad), " | ")
	case len(exitUnknown) > 0:
		ob.Status, ob.Detail = Undecided, strings.Join(vmUniq(exitUnknown), " | ")
	default:
		ob.Status, ob.Detail = Discharged, fmt.Sprintf("%d non-panicking path(s), net change 0 (deferred calls included)", exitPaths)
	}
	obs = append(obs, ob)
	if len(keys) == 0 {
		obs = append(obs, Obligation{Key: "compiler|registering calls of the function compiler", Status: Undecided, Detail: "no call of " + a.compileFn.Name() + " reaches " + registrar.Name() + ": re-anchor the rule"})
	}
	sort.SliceStable(obs, func(i, j int) bool { return obs[i].Key < obs[j].Key })
	return obs
}
