package main

import (
	"fmt"
	"go/ast"
	"go/token"
	"go/types"
	"golang.org/x/tools/go/packages"
	"sort"
	"strings"
)

// R-eq-dynamic: IsEqual implementations assert the kind of their argument
// (`other.(ValueString)`) — licensed by the analyzer, which only admits `==` between
// equal static types. That licence does not reach the ELEMENTS of a dynamically typed
// container: the analyzer's type of such a container carries no component type (the
// any-object `{ ? }`), so two containers of the same static type may hold values of
// different kinds under the same key. The element comparison of such a container must
// therefore establish kind equality itself before it recurses.
func init() {
	register(&Rule{ID: "R-eq-dynamic", Floor: 2, Run: ruleEqDynamic,
		Doc: "for every value struct with a container field (slice/map of values) in both value libraries: when the analyzer's type struct of the corresponding type kind records no component type (a dynamically typed container), every recursive element comparison `x.IsEqual(y)` in its IsEqual must be dominated by a guard `x.Kind() != y.Kind() → return false` over the same two operands (otherwise the callee's unguarded `other.(T)` assertion panics the host on a kind mismatch); statically typed containers are listed as info with the component-type field that licenses them"})
}

func ruleEqDynamic(c *Ctx) []Obligation {
	kmap := mbKindMap(c) // value kind const -> type kind const
	ap := c.Pkg("homescript/analyzer/ast")
	typeI := ap.Types.Scope().Lookup("Type")
	if typeI == nil {
		fatalf("anchor unresolved: analyzer/ast.Type")
	}
	typeIface, _ := typeI.Type().Underlying().(*types.Interface)
	// type kind const name -> the struct implementing ast.Type whose Kind() returns it
	typeStruct := map[string]*types.Named{}
	for _, fd := range AllFuncDecls(ap) {
		if fd.Recv == nil || fd.Name.Name != "Kind" || fd.Body == nil {
			continue
		}
		k := constOfBody(ap, fd, 0)
		if k == nil {
			continue
		}
		rt := recvNamed(ap.TypesInfo.TypeOf(fd.Recv.List[0].Type))
		if rt == nil || typeIface == nil || !types.Implements(rt, typeIface) {
			continue
		}
		typeStruct[k.Name()] = rt
	}
	// does a struct carry a component type (a field whose type can hold an ast.Type, directly or in a slice/struct)?
	var carries func(t types.Type, depth int) bool
	carries = func(t types.Type, depth int) bool {
		if depth > 4 {
			return false
		}
		if types.Identical(t, typeI.Type()) {
			return true
		}
		switch u := t.Underlying().(type) {
		case *types.Slice:
			return carries(u.Elem(), depth+1)
		case *types.Pointer:
			return carries(u.Elem(), depth+1)
		case *types.Map:
			return carries(u.Elem(), depth+1)
		case *types.Struct:
			if _, named := t.(*types.Named); named && depth > 0 {
				// a nested struct such as ObjectTypeField{FieldName, Type}
				for i := 0; i < u.NumFields(); i++ {
					if carries(u.Field(i).Type(), depth+1) {
						return true
					}
				}
			}
		}
		return false
	}
	componentField := func(n *types.Named) string {
		st, ok := n.Underlying().(*types.Struct)
		if !ok {
			return ""
		}
		for i := 0; i < st.NumFields(); i++ {
			if carries(st.Field(i).Type(), 1) || types.Identical(st.Field(i).Type(), typeI.Type()) {
				return st.Field(i).Name()
			}
		}
		return ""
	}
	var obs []Obligation
	for _, l := range []*mbLib{mbLoadLib(c, mbRelVM, "vm"), mbLoadLib(c, mbRelInterp, "interp")} {
		var impls []*mbImpl
		for _, im := range l.impls {
			impls = append(impls, im)
		}
		sort.Slice(impls, func(i, j int) bool { return impls[i].Name() < impls[j].Name() })
		for _, im := range impls {
			hasContainer := false
			for i := 0; i < im.st.NumFields(); i++ {
				if _, ok := mbIsContainer(im.st.Field(i).Type()); ok {
					hasContainer = true
				}
			}
			fd := im.methods["IsEqual"]
			if !hasContainer || fd == nil || im.kind == nil {
				continue
			}
			key := fmt.Sprintf("eq-dynamic|%s|%s.IsEqual", l.tag, im.Name())
			tk := kmap[im.kind.Name()]
			ts := typeStruct[tk]
			if tk == "" || ts == nil {
				obs = append(obs, Obligation{Key: key, Pos: c.Pos(fd.Pos()), Status: Undecided, Detail: fmt.Sprintf("no analyzer type struct found for value kind %s (type kind %q)", im.kind.Name(), tk)})
				continue
			}
			if cf := componentField(ts); cf != "" {
				obs = append(obs, Obligation{Key: key, Pos: c.Pos(fd.Pos()), Status: Info, Detail: fmt.Sprintf("statically typed container: %s.%s fixes the element type, equal static types imply equal element kinds", ts.Obj().Name(), cf)})
				continue
			}
			// dynamic container: every recursive IsEqual call must be kind-guarded
			type rec struct {
				call *ast.CallExpr
				x, y string
				body *ast.BlockStmt
			}
			var recs []rec
			bodies := []*ast.BlockStmt{fd.Body}
			// the element loop may live in a helper of the same package (one level)
			mbInspectNoLit(fd.Body, func(n ast.Node) bool {
				if call, ok := n.(*ast.CallExpr); ok {
					if fn := CalleeOf(l.info, call); fn != nil && fn.Pkg() == l.pkg.Types {
						for _, hd := range AllFuncDecls(l.pkg) {
							if hd.Body != nil && l.info.Defs[hd.Name] == fn && hd != fd {
								bodies = append(bodies, hd.Body)
							}
						}
					}
				}
				return true
			})
			for _, curBody := range bodies {
				curBody := curBody
				mbInspectNoLit(curBody, func(n ast.Node) bool {
					call, ok := n.(*ast.CallExpr)
					if !ok || len(call.Args) != 1 {
						return true
					}
					sel, ok := call.Fun.(*ast.SelectorExpr)
					if !ok || sel.Sel.Name != "IsEqual" {
						return true
					}
					if fn := CalleeOf(l.info, call); fn != nil {
						if sig, ok := fn.Type().(*types.Signature); ok && sig.Recv() != nil && types.IsInterface(sig.Recv().Type()) {
							recs = append(recs, rec{call, exprStr(mbStripDeref(sel.X)), exprStr(mbStripDeref(call.Args[0])), curBody})
						}
					}
					return true
				})
			}
			if len(recs) == 0 {
				obs = append(obs, Obligation{Key: key, Pos: c.Pos(fd.Pos()), Status: Undecided, Detail: "dynamically typed container whose IsEqual compares no elements through the value interface: shape not understood"})
				continue
			}
			var bad []string
			for _, r := range recs {
				if !eqdGuarded(l.info, r.body, r.call, r.x, r.y) && !eqdGuardedPaths(l.pkg, r.body, r.call, r.x, r.y) {
					bad = append(bad, fmt.Sprintf("%s: %s.IsEqual(%s) is not preceded by `if %s.Kind() != %s.Kind() { return false }`: %s has no component type in the analyzer (%s), so the two elements may be of different kinds and the callee's `other.(T)` assertion panics", c.Pos(r.call.Pos()), r.x, r.y, r.x, r.y, mbShortKind(tk), ts.Obj().Name()))
				}
			}
			if len(bad) > 0 {
				obs = append(obs, Obligation{Key: key, Pos: c.Pos(fd.Pos()), Status: Violated, Detail: strings.Join(bad, "; "), Nontrivial: true})
			} else {
				obs = append(obs, Obligation{Key: key, Pos: c.Pos(fd.Pos()), Status: Discharged, Detail: fmt.Sprintf("%d element comparison(s), each behind a kind-equality guard over the same operands", len(recs)), Nontrivial: true})
			}
		}
	}
	return obs
}

// eqdGuarded: an if statement that precedes the call in one of its enclosing statement
// lists tests the kinds of the same two operands for inequality and leaves with false.
func eqdGuarded(info *types.Info, body *ast.BlockStmt, call *ast.CallExpr, x, y string) bool {
	ok := false
	var walk func(list []ast.Stmt) bool // returns true when the call lies inside list
	contains := func(s ast.Stmt) bool {
		found := false
		ast.Inspect(s, func(n ast.Node) bool {
			if n == call {
				found = true
			}
			return !found
		})
		return found
	}
	isKindOf := func(e ast.Expr, who string) bool {
		c, isCall := ast.Unparen(e).(*ast.CallExpr)
		if !isCall || len(c.Args) != 0 {
			return false
		}
		sel, isSel := c.Fun.(*ast.SelectorExpr)
		return isSel && sel.Sel.Name == "Kind" && exprStr(mbStripDeref(sel.X)) == who
	}
	leavesFalse := func(b *ast.BlockStmt) bool {
		if len(b.List) == 0 {
			return false
		}
		ret, isRet := b.List[len(b.List)-1].(*ast.ReturnStmt)
		if !isRet || len(ret.Results) == 0 {
			return false
		}
		id, isId := ast.Unparen(ret.Results[0]).(*ast.Ident)
		return isId && id.Name == "false"
	}
	walk = func(list []ast.Stmt) bool {
		for i, s := range list {
			if !contains(s) {
				continue
			}
			// guards among the earlier statements of this list
			for _, p := range list[:i] {
				ifs, isIf := p.(*ast.IfStmt)
				if !isIf || ifs.Else != nil {
					continue
				}
				be, isB := ast.Unparen(ifs.Cond).(*ast.BinaryExpr)
				if !isB || be.Op != token.NEQ {
					continue
				}
				if ((isKindOf(be.X, x) && isKindOf(be.Y, y)) || (isKindOf(be.X, y) && isKindOf(be.Y, x))) && leavesFalse(ifs.Body) {
					ok = true
				}
			}
			// descend
			switch t := s.(type) {
			case *ast.BlockStmt:
				walk(t.List)
			case *ast.IfStmt:
				walk(t.Body.List)
				if eb, isB := t.Else.(*ast.BlockStmt); isB {
					walk(eb.List)
				}
			case *ast.ForStmt:
				walk(t.Body.List)
			case *ast.RangeStmt:
				walk(t.Body.List)
			case *ast.SwitchStmt:
				for _, cc := range t.Body.List {
					walk(cc.(*ast.CaseClause).Body)
				}
			}
			return true
		}
		return false
	}
	walk(body.List)
	return ok
}

// eqdGuardedPaths: on every path from the start of body to the statement containing call, a decision was taken that
// implies x.Kind() == y.Kind(): `!=` decided false, `==` decided true, a boolean local holding such a comparison, kind
// locals, or a two-parameter predicate helper returning such a comparison. Shapes it does not understand give false.
func eqdGuardedPaths(p *packages.Package, body *ast.BlockStmt, call *ast.CallExpr, x, y string) bool {
	info := p.TypesInfo
	defOf := func(id *ast.Ident) ast.Expr {
		obj := info.Uses[id]
		if obj == nil {
			return nil
		}
		var defs []ast.Expr
		ast.Inspect(body, func(n ast.Node) bool {
			if as, ok := n.(*ast.AssignStmt); ok && len(as.Lhs) == len(as.Rhs) {
				for i, l := range as.Lhs {
					if lid, ok := l.(*ast.Ident); ok && (info.Defs[lid] == obj || info.Uses[lid] == obj) {
						defs = append(defs, as.Rhs[i])
					}
				}
			}
			return true
		})
		if len(defs) == 1 {
			return defs[0]
		}
		return nil
	}
	var kindOf func(e ast.Expr, depth int) string // "x", "y" or ""
	kindOf = func(e ast.Expr, depth int) string {
		e = ast.Unparen(e)
		if id, ok := e.(*ast.Ident); ok && depth < 3 {
			if d := defOf(id); d != nil {
				return kindOf(d, depth+1)
			}
			return ""
		}
		c, ok := e.(*ast.CallExpr)
		if !ok || len(c.Args) != 0 {
			return ""
		}
		sel, ok := c.Fun.(*ast.SelectorExpr)
		if !ok || sel.Sel.Name != "Kind" {
			return ""
		}
		switch exprStr(mbStripDeref(sel.X)) {
		case x:
			return "x"
		case y:
			return "y"
		}
		return ""
	}
	// rel: +1 = e true means kinds equal, -1 = e true means kinds differ, 0 = unrelated
	var rel func(e ast.Expr, depth int) int
	rel = func(e ast.Expr, depth int) int {
		e = ast.Unparen(e)
		if depth > 3 {
			return 0
		}
		switch t := e.(type) {
		case *ast.UnaryExpr:
			if t.Op == token.NOT {
				return -rel(t.X, depth+1)
			}
		case *ast.Ident:
			if d := defOf(t); d != nil {
				return rel(d, depth+1)
			}
		case *ast.BinaryExpr:
			if t.Op == token.EQL || t.Op == token.NEQ {
				a, b := kindOf(t.X, 0), kindOf(t.Y, 0)
				if a != "" && b != "" && a != b {
					if t.Op == token.EQL {
						return 1
					}
					return -1
				}
			}
		case *ast.CallExpr:
			// predicate helper: func(a, b V) bool { return a.Kind() ==/!= b.Kind() }
			fn := CalleeOf(info, t)
			if fn == nil || len(t.Args) != 2 || fn.Pkg() != p.Types {
				return 0
			}
			ax, ay := exprStr(mbStripDeref(t.Args[0])), exprStr(mbStripDeref(t.Args[1]))
			if !((ax == x && ay == y) || (ax == y && ay == x)) {
				return 0
			}
			for _, hd := range AllFuncDecls(p) {
				if hd.Body == nil || info.Defs[hd.Name] != fn || len(hd.Body.List) != 1 {
					continue
				}
				ret, ok := hd.Body.List[0].(*ast.ReturnStmt)
				if !ok || len(ret.Results) != 1 {
					continue
				}
				be, ok := ast.Unparen(ret.Results[0]).(*ast.BinaryExpr)
				if !ok || (be.Op != token.EQL && be.Op != token.NEQ) {
					continue
				}
				isK := func(e ast.Expr) bool {
					c, ok := ast.Unparen(e).(*ast.CallExpr)
					if !ok || len(c.Args) != 0 {
						return false
					}
					sel, ok := c.Fun.(*ast.SelectorExpr)
					if !ok || sel.Sel.Name != "Kind" {
						return false
					}
					_, isId := ast.Unparen(sel.X).(*ast.Ident)
					return isId
				}
				if isK(be.X) && isK(be.Y) && exprStr(be.X) != exprStr(be.Y) {
					if be.Op == token.EQL {
						return 1
					}
					return -1
				}
			}
		}
		return 0
	}
	containsCall := func(n ast.Node) bool {
		found := false
		ast.Inspect(n, func(m ast.Node) bool {
			if m == call {
				found = true
			}
			return !found
		})
		return found
	}
	type pst struct{ same bool }
	reached, unguarded := 0, 0
	w := &Walker[*pst]{
		Clone:   func(s *pst) *pst { c := *s; return &c },
		IsPanic: func(s ast.Stmt) bool { return IsPanicCall(info, s) },
		OnStmt: func(s *pst, st ast.Stmt) (*pst, bool) {
			if containsCall(st) {
				reached++
				if !s.same {
					unguarded++
				}
			}
			return s, true
		},
		OnCond: func(s *pst, cond ast.Expr, taken bool) (*pst, bool) {
			if containsCall(cond) {
				reached++
				if !s.same {
					unguarded++
				}
			}
			r := rel(cond, 0)
			if (r == 1 && taken) || (r == -1 && !taken) {
				s.same = true
			}
			return s, true
		},
		LoopSummary: func(loop ast.Stmt, before *pst, ends []*pst) (*pst, bool) {
			return &pst{}, true
		},
	}
	// every iteration starts without knowledge about the (new) elements
	w.OnRange = func(s *pst, r *ast.RangeStmt) (*pst, bool) { return &pst{}, true }
	w.Run(body, &pst{})
	if w.Overflow || len(w.Unsupported) > 0 {
		return false
	}
	return reached > 0 && unguarded == 0
}
