package main

import (
	"fmt"
	"go/ast"
	"go/token"
	"go/types"
	"sort"
	"strings"

	"golang.org/x/tools/go/ssa"
)

func init() {
	register(&Rule{ID: "R-ctx-restore", Floor: 25, Run: ruleCtxRestore,
		Doc: "context fields of the analyzer (Module.CurrentFunction, LoopDepth, CurrentLoopIsTerminated, CreateErrorIfContainsAny, Scopes; Analyzer.currentModule/currentModuleName), of the interpreter (callStackSize, currentModule(+Name), scope stack) and of the compiler (currFn, currModule, loops, varScopes) are discovered as the struct fields that some function saves and writes back, ++/--, pushes/pops, or writes around a nested call. For every function that writes one (directly or through a leaf setter interpreted at the call site) every path, deferred calls included, must leave the field at its entry value (restored from a local saved before the write, counter/stack balance 0) whenever a call that depends on the field was made while it was modified (a call through a function value — closure parameter, callback field — counts as depending on every context field). Accepted otherwise only with proof: a constant written back that every call site provably establishes before the call; a non-restoring function all of whose callers save and restore around the call; outermost activations (root drivers, saved value nil). Necessary for C03/C09/C11: a construct analysed/executed after a nested one would otherwise see the nested construct's function, loop depth, any-policy, scope or module."})
	register(&Rule{ID: "R-loop-region", Floor: 7, Run: ruleLoopRegion,
		Doc: "the region in which the loop counter/stack (analyzer Module.LoopDepth, compiler Compiler.loops) is raised encloses exactly the analysis/compilation of the loop's body: every call made while it is raised that receives a syntax-tree node receives a Block-typed field of the loop node, every other tree-typed field of the loop node (condition, iterator expression) is processed outside the region, and loop / while / for agree (also analyzer vs compiler). Necessary for C03/C11: break/continue legality is `LoopDepth > 0`, so a header expression analysed inside the region accepts `while { break; true } {}` for which the compiler has no loop to jump to. Function boundary: a function that installs a new function context around a body analyses that body with the loop counter at 0 (reset there, or 0 at every call site) — the counter counts loops of the current function only."})
}

var actxCtxPkgs = []string{"homescript/analyzer", "homescript/compiler", "homescript/interpreter"}

type actxFnResult struct {
	fn    *types.Func
	exits []actxExit
	over  bool
	unsup []token.Pos
}

type actxAnalysis struct {
	m        *actxPkg
	res      map[*types.Func]*actxFnResult
	sites    map[*types.Func][]actxSite
	res2     map[*types.Func]*actxFnResult // phase 2 (clobbering callees applied)
	clobber  map[*types.Func]map[*types.Var]bool
	initVals map[*types.Var]string // initial (literal / zero) value of each context field
}

var actxAnalysisCache = map[string]*actxAnalysis{}

func (m *actxPkg) hasEffect(fn *types.Func) bool {
	if m.writesCtxDirect(fn) {
		return true
	}
	for _, g := range m.callees[fn] {
		if m.inlinable[g] {
			return true
		}
	}
	// saves a context field into a local
	found := false
	ast.Inspect(m.decls[fn].Body, func(n ast.Node) bool {
		if as, ok := n.(*ast.AssignStmt); ok {
			for i, l := range as.Lhs {
				if _, isId := l.(*ast.Ident); isId && i < len(as.Rhs) {
					if f, _ := m.fieldOf(as.Rhs[i]); f != nil && m.ctx[f] != nil {
						found = true
					}
				}
			}
		}
		return !found
	})
	return found
}

func actxAnalyse(c *Ctx, rel string) *actxAnalysis {
	key := c.RepoDir + "|" + rel
	if a := actxAnalysisCache[key]; a != nil && a.m.c == c {
		return a
	}
	m := actxModel(c, rel)
	a := &actxAnalysis{m: m, res: map[*types.Func]*actxFnResult{}, sites: map[*types.Func][]actxSite{}, res2: map[*types.Func]*actxFnResult{}, clobber: map[*types.Func]map[*types.Var]bool{}}
	run := &actxRun{m: m, sites: a.sites}
	for _, fn := range m.order {
		if !m.touchesAny(fn) {
			continue
		}
		if !m.hasEffect(fn) {
			// never modifies anything: all its call sites see the entry state
			st := run.newState()
			ast.Inspect(m.decls[fn].Body, func(n ast.Node) bool {
				if call, ok := n.(*ast.CallExpr); ok {
					if g := CalleeOf(m.info, call); g != nil && m.decls[g] != nil {
						a.sites[g] = append(a.sites[g], actxSite{caller: fn, call: call, vals: st.vals})
					}
				}
				return true
			})
			continue
		}
		run.cur, run.overflow, run.unsup = fn, false, nil
		ex := run.walk(fn, m.decls[fn].Body, run.newState(), true)
		a.res[fn] = &actxFnResult{fn: fn, exits: ex, over: run.overflow, unsup: run.unsup}
	}
	actxAnalysisCache[key] = a
	return a
}

// entryVal: the value of field f of the instance the function was entered
// with (if the owner pointer still points elsewhere, the stashed values).
func (a *actxAnalysis) entryVal(st *actxState, f *types.Var) actxVal {
	for o, stack := range st.stash {
		if len(stack) > 0 {
			if v, ok := stack[0][f]; ok {
				_ = o
				return v
			}
		}
	}
	return st.vals[f]
}

type actxVerdict struct {
	status   Status
	detail   string
	pos      token.Pos
	nontriv  bool
	constK   string // pending caller-constant proof
	needComp bool   // pending caller-compensation proof
}

func actxPathStr(st *actxState) string {
	d := st.decisions
	if len(d) > 8 {
		d = append([]string{"…"}, d[len(d)-8:]...)
	}
	return strings.Join(d, ", ")
}

// judge aggregates the exits of fn for field f.
func (a *actxAnalysis) judge(r *actxFnResult, f *types.Var) (written bool, v actxVerdict) {
	m := a.m
	var okN, emitN, exemptN, outerN int
	var viol, consts, comps []string
	var pos token.Pos
	constK := ""
	for _, e := range r.exits {
		val := a.entryVal(e.st, f)
		if val.lastW != token.NoPos {
			written = true
			if pos == token.NoPos {
				pos = val.lastW
			}
		}
		where := "falls off the end"
		if e.o.ret != nil {
			where = "return at " + m.c.Pos(e.o.ret.Pos())
		}
		if val.atEntry() {
			if e.st.savedDep[f] && val.lastW == token.NoPos && e.st.outermost == "" && !m.rootLike[r.fn] {
				written = true
				viol = append(viol, fmt.Sprintf("%s is saved into a local, calls that depend on it follow, but it is never written back [%s; %s]", m.fieldName(f), actxPathStr(e.st), where))
			} else {
				okN++
			}
			continue
		}
		owed, owedWhy := a.restoreOwed(r.fn, e.st, f, val)
		switch {
		case !val.dirty && !owed:
			emitN++
		case e.errExit && !m.catchable[r.fn]:
			exemptN++
		case e.st.outermost != "" || m.rootLike[r.fn]:
			outerN++
		case val.kind == avConst && val.delta == 0:
			if constK != "" && constK != val.k {
				viol = append(viol, fmt.Sprintf("%s is written back as different constants (%s, %s)", m.fieldName(f), constK, val.k))
			}
			constK = val.k
			w := where
			if val.why != "" {
				w += "; " + val.why
			}
			if owedWhy != "" && !val.dirty {
				w += "; " + owedWhy
			}
			consts = append(consts, fmt.Sprintf("%s [%s]", w, actxPathStr(e.st)))
		case val.kind == avAmbig:
			viol = append(viol, fmt.Sprintf("%s after a setter whose effect is path dependent: %s [%s; %s]", m.fieldName(f), val, actxPathStr(e.st), where))
		default:
			w := where
			if owedWhy != "" && !val.dirty {
				w += "; " + owedWhy
			}
			comps = append(comps, fmt.Sprintf("%s is %s at %s [%s]", m.fieldName(f), val, w, actxPathStr(e.st)))
		}
	}
	if !written {
		return false, v
	}
	v.pos = pos
	n := len(r.exits)
	switch {
	case len(viol) > 0:
		v.status, v.detail, v.nontriv = Violated, strings.Join(viol, " | "), true
	case len(comps) > 0:
		v.status, v.needComp, v.nontriv = Violated, true, true
		if len(comps) > 3 {
			comps = append(comps[:3], fmt.Sprintf("… (%d paths)", len(comps)))
		}
		v.detail = "not restored after a dependent nested call: " + strings.Join(comps, " | ")
	case len(consts) > 0:
		v.status, v.constK, v.nontriv = Violated, constK, true
		v.detail = fmt.Sprintf("%s is written back as the constant %s instead of the saved entry value on %d path(s), e.g. %s", m.fieldName(f), constK, len(consts), consts[0])
	default:
		v.status = Discharged
		v.nontriv = okN > 0
		v.detail = fmt.Sprintf("%d exit paths: %d restored to the entry value", n, okN)
		if emitN > 0 {
			v.detail += fmt.Sprintf(", %d leave it set with no dependent call after the write (setter/signal: callers are checked)", emitN)
		}
		if exemptN > 0 {
			v.detail += fmt.Sprintf(", %d error exits from which execution cannot resume", exemptN)
		}
		if outerN > 0 {
			v.detail += fmt.Sprintf(", %d outermost activations (no enclosing construct)", outerN)
		}
	}
	return true, v
}

// constAtSites: every call site of fn establishes f == k before the call
// (callers that do not write f pass the question to their own callers).
func (a *actxAnalysis) constAtSites(fn *types.Func, f *types.Var, k string, seen map[*types.Func]bool) (bool, string) {
	if len(seen) == 0 {
		// The proof passes the question up through callers that do not write f themselves and
		// assumes that the functions called in between preserve f. That assumption fails for a
		// field that some function of the package hands back changed (an emission such as the
		// `break` mark): a later call site can then see another value although no caller on the
		// chain writes it. The proof also needs at least one site that really establishes k.
		if other, who := a.leavesOther(fn, f, k); other {
			return false, who
		}
		seen[fn] = true
		ok, how := a.constAtSites2(fn, f, k, seen)
		if ok && !strings.Contains(how, " sets ") {
			return false, "no call site on the chains of callers establishes the constant (the chains only lead back into the recursion)"
		}
		return ok, how
	}
	if seen[fn] {
		return true, ""
	}
	seen[fn] = true
	return a.constAtSites2(fn, f, k, seen)
}

// leavesOther: some other function of the package (not interpreted at its call sites, not a root
// driver) can return with f neither at its entry value nor equal to k.
func (a *actxAnalysis) leavesOther(fn *types.Func, f *types.Var, k string) (bool, string) {
	m := a.m
	var fns []*types.Func
	for g := range a.res {
		fns = append(fns, g)
	}
	sort.Slice(fns, func(i, j int) bool { return actxPosLess(m.c, fns[i].Pos(), fns[j].Pos()) })
	for _, g := range fns {
		if g == fn || m.inlinable[g] || m.rootLike[g] {
			continue
		}
		for _, e := range a.res[g].exits {
			if e.errExit && !m.catchable[g] {
				continue
			}
			if e.st.outermost != "" {
				continue
			}
			val := a.entryVal(e.st, f)
			if val.atEntry() || val.gen != 0 {
				continue
			}
			if val.kind == avConst && val.delta == 0 && val.k == k {
				continue
			}
			return true, fmt.Sprintf("%s can return with %s = %s, so a call site reached after it sees that value although no caller on the chain writes it", g.Name(), m.fieldName(f), val)
		}
	}
	return false, ""
}

func (a *actxAnalysis) constAtSites2(fn *types.Func, f *types.Var, k string, seen map[*types.Func]bool) (bool, string) {
	sites := a.sites[fn]
	if len(sites) == 0 {
		return false, fn.Name() + " has no call site inside the package that establishes the constant"
	}
	var how []string
	for _, s := range sites {
		v := s.vals[f]
		if v.gen != 0 && v.kind == avUnknown {
			continue // another instance on a path where its initial values are not known is never the receiver of this call's field
		}
		switch {
		case v.kind == avConst && v.delta == 0 && v.k == k:
			how = append(how, fmt.Sprintf("%s sets %s=%s before the call at %s", s.caller.Name(), a.m.fieldName(f), k, a.m.c.Pos(s.call.Pos())))
		case v.atEntry():
			ok, why := a.constAtSites(s.caller, f, k, seen)
			if !ok {
				return false, why
			}
			how = append(how, fmt.Sprintf("%s (called only where it is %s)", s.caller.Name(), k))
		default:
			return false, fmt.Sprintf("at the call in %s (%s) %s is %s, not the constant %s", s.caller.Name(), a.m.c.Pos(s.call.Pos()), a.m.fieldName(f), v, k)
		}
	}
	how = actxUniq(how)
	sort.Strings(how)
	if len(how) > 4 {
		how = append(how[:4], "…")
	}
	return true, strings.Join(how, "; ")
}

// compensated: every non-root caller of fn saves f before and restores it
// after the call, before any dependent call or exit.
func (a *actxAnalysis) compensated(fn *types.Func, f *types.Var) (bool, string) {
	m := a.m
	run := &actxRun{m: m, clobbers: map[*types.Func]map[*types.Var]bool{fn: {f: true}}}
	var fails, oks []string
	callers := map[*types.Func]bool{}
	for _, cs := range m.callers[fn] {
		callers[cs.caller] = true
	}
	if len(callers) == 0 {
		return false, "no callers"
	}
	var list []*types.Func
	for c := range callers {
		list = append(list, c)
	}
	sort.Slice(list, func(i, j int) bool { return actxPosLess(m.c, list[i].Pos(), list[j].Pos()) })
	for _, c := range list {
		if m.rootLike[c] {
			oks = append(oks, c.Name()+" (root driver)")
			continue
		}
		run.cur = c
		exits := run.walk(c, m.decls[c].Body, run.newState(), true)
		bad := false
		for _, e := range exits {
			for _, cf := range e.st.compFail {
				fails = append(fails, c.Name()+": "+cf)
				bad = true
			}
			if v := a.entryVal(e.st, f); v.pending != "" {
				fails = append(fails, fmt.Sprintf("%s returns with %s still as left by %s [%s]", c.Name(), m.fieldName(f), fn.Name(), actxPathStr(e.st)))
				bad = true
			}
			if bad {
				break
			}
		}
		if !bad {
			oks = append(oks, c.Name()+" (saves before and writes back after the call)")
		}
	}
	if len(fails) > 0 {
		sort.Strings(fails)
		if len(fails) > 2 {
			fails = fails[:2]
		}
		return false, strings.Join(fails, " | ")
	}
	return true, strings.Join(oks, "; ")
}

func ruleCtxRestore(c *Ctx) []Obligation {
	var out []Obligation
	for _, rel := range actxCtxPkgs {
		a := actxAnalyse(c, rel)
		m := a.m
		if len(m.ctx) == 0 {
			out = append(out, Obligation{Key: rel + "|<no context fields>", Status: Undecided, Detail: "discovery found no context field in " + rel})
			continue
		}
		for _, f := range m.sortedCtx() {
			out = append(out, Obligation{Key: rel + "|context field|" + m.fieldName(f), Pos: c.Pos(f.Pos()), Status: Info, Detail: "discovered: " + strings.Join(m.ctx[f].evidence, "; ")})
		}
		out = append(out, actxSwitchOrder(c, a)...)
		out = append(out, actxArgsBeforeSwitch(c, a)...)
		var fns []*types.Func
		for fn := range a.res {
			fns = append(fns, fn)
		}
		sort.Slice(fns, func(i, j int) bool { return actxPosLess(c, fns[i].Pos(), fns[j].Pos()) })
		for _, fn := range fns {
			r := a.res[fn]
			if r.over || len(r.unsup) > 0 {
				out = append(out, Obligation{Key: m.fname(fn) + "|<paths>", Pos: c.Pos(fn.Pos()), Status: Undecided, Detail: fmt.Sprintf("path enumeration incomplete (overflow=%v, unsupported statements=%d)", r.over, len(r.unsup))})
				continue
			}
			for _, f := range m.sortedCtx() {
				written, v := a.judge(r, f)
				if !written {
					continue
				}
				ob := Obligation{Key: m.fname(fn) + "|" + m.fieldName(f), Pos: c.Pos(v.pos), Status: v.status, Detail: v.detail, Nontrivial: v.nontriv}
				if v.status == Violated && v.constK != "" {
					if ok, how := a.constAtSites(fn, f, v.constK, map[*types.Func]bool{}); ok {
						ob.Status = Discharged
						ob.Detail = fmt.Sprintf("written back as the constant %s, which equals the entry value at every call site: %s", v.constK, how)
						out = append(out, Obligation{Key: ob.Key + "|constant write-back", Pos: ob.Pos, Status: Info,
							Detail: "restores by constant, not from a saved local: correct only while every caller establishes " + v.constK + " before the call (" + how + ")"})
					} else {
						ob.Detail += " — and not every call site establishes that constant: " + how
					}
				} else if v.status == Violated && v.needComp {
					if ok, how := a.compensated(fn, f); ok {
						ob.Status = Discharged
						ob.Detail = "leaves " + m.fieldName(f) + " set, and every caller compensates: " + how
					} else {
						ob.Detail += " — callers do not compensate: " + how
					}
				}
				out = append(out, ob)
			}
		}
	}
	return out
}

// ---------------------------------------------------------------------------
// R-loop-region

func actxIsTreePkg(p *types.Package) bool {
	return p != nil && (strings.HasSuffix(p.Path(), "/parser/ast") || strings.HasSuffix(p.Path(), "/analyzer/ast"))
}

func actxTreeType(t types.Type) (*types.Named, bool) {
	if t == nil {
		return nil, false
	}
	if p, ok := t.(*types.Pointer); ok {
		t = p.Elem()
	}
	n, ok := t.(*types.Named)
	if !ok || !actxIsTreePkg(n.Obj().Pkg()) {
		return nil, false
	}
	switch n.Underlying().(type) {
	case *types.Struct, *types.Interface:
		return n, true
	}
	return nil, false
}

type actxRegionCall struct {
	owner  *types.Func // the function the call is attributed to (the caller, when the region's argument is a parameter)
	inside bool
	callee string
	node   string // struct type of the loop node
	field  string
	ftype  string
	other  string // argument that is not a field of a node
	pos    token.Pos
}

func ruleLoopRegion(c *Ctx) []Obligation {
	var out []Obligation
	type regionKey struct{ rel, fn, node string }
	bodyFields := map[string]map[string]bool{} // role key (package) → set of in-region field names, for the sibling check
	for _, rel := range []string{"homescript/analyzer", "homescript/compiler"} {
		a := actxAnalyse(c, rel)
		m := a.m
		loopFields := actxLoopFields(m)
		if len(loopFields) == 0 {
			out = append(out, Obligation{Key: rel + "|<loop counter>", Status: Undecided, Detail: "no ++/-- or push/pop context field naming a loop found in " + rel})
			continue
		}
		var fns []*types.Func
		for fn := range a.res {
			fns = append(fns, fn)
		}
		sort.Slice(fns, func(i, j int) bool { return actxPosLess(c, fns[i].Pos(), fns[j].Pos()) })
		for _, lf := range loopFields {
			for _, fn := range fns {
				r := a.res[fn]
				if m.inlinable[fn] {
					continue
				}
				// does fn raise lf on some path?
				raises := false
				for _, e := range r.exits {
					for _, ev := range e.st.events {
						if ev.vals[lf].delta > 0 && ev.vals[lf].gen == 0 {
							raises = true
						}
					}
				}
				if !raises {
					continue
				}
				// collect tree-typed calls per loop node type, per path
				perNode := map[string][]actxRegionCall{}
				var viaCallers []actxRegionCall
				for _, e := range r.exits {
					var pathNode string
					var calls []actxRegionCall
					for _, ev := range e.st.events {
						for _, arg := range ev.call.Args {
							if _, ok := actxTreeType(m.info.TypeOf(arg)); !ok {
								continue
							}
							rc := actxRegionCall{inside: ev.vals[lf].delta > 0, callee: ev.callee.Name(), pos: ev.call.Pos()}
							if sel, ok := ast.Unparen(arg).(*ast.SelectorExpr); ok {
								if nt, ok := actxTreeType(m.info.TypeOf(sel.X)); ok {
									if _, isStruct := nt.Underlying().(*types.Struct); isStruct {
										rc.node, rc.field = nt.Obj().Name(), sel.Sel.Name
										if ft, ok := actxTreeType(m.info.TypeOf(arg)); ok {
											rc.ftype = ft.Obj().Name()
										}
									}
								}
							}
							if rc.node == "" {
								// the argument is a parameter of this function (a helper that raises the
								// region around a body it is handed): the construct belongs to the callers;
								// substitute the argument of every call site
								if pid, ok := ast.Unparen(arg).(*ast.Ident); ok && rc.inside {
									if pi := actxParamIndex(m, fn, pid); pi >= 0 && len(m.callers[fn]) > 0 {
										for _, cs := range m.callers[fn] {
											if pi >= len(cs.call.Args) {
												continue
											}
											sub := actxRegionCall{owner: cs.caller, inside: true, callee: ev.callee.Name() + " (in " + fn.Name() + ")", pos: cs.call.Pos()}
											if sel, ok := ast.Unparen(cs.call.Args[pi]).(*ast.SelectorExpr); ok {
												if nt, ok := actxTreeType(m.info.TypeOf(sel.X)); ok {
													if _, isStruct := nt.Underlying().(*types.Struct); isStruct {
														sub.node, sub.field = nt.Obj().Name(), sel.Sel.Name
														if ft, ok := actxTreeType(m.info.TypeOf(cs.call.Args[pi])); ok {
															sub.ftype = ft.Obj().Name()
														}
													}
												}
											}
											if sub.node == "" {
												sub.other = exprStr(cs.call.Args[pi])
											}
											viaCallers = append(viaCallers, sub)
										}
										continue
									}
								}
								rc.other = exprStr(arg)
							}
							calls = append(calls, rc)
							if rc.inside && rc.node != "" {
								pathNode = rc.node
							}
						}
					}
					if pathNode == "" {
						// region without a node-field call on this path
						for _, rc := range calls {
							if rc.inside {
								pathNode = "?"
							}
						}
						if pathNode == "" {
							continue
						}
					}
					perNode[pathNode] = append(perNode[pathNode], calls...)
				}
				ownerOf := map[string]*types.Func{}
				seenVia := map[string]bool{}
				for _, sub := range viaCallers {
					node := sub.node
					if node == "" {
						node = "?"
					}
					k := m.fname(sub.owner) + "\x00" + node
					dk := fmt.Sprintf("%s|%d|%s", k, sub.pos, sub.field)
					if seenVia[dk] {
						continue
					}
					seenVia[dk] = true
					if _, had := perNode[k]; !had {
						// the caller's own calls that take a field of the node: outside the region
						ast.Inspect(m.decls[sub.owner].Body, func(x ast.Node) bool {
							ce, ok := x.(*ast.CallExpr)
							if !ok {
								return true
							}
							g := CalleeOf(m.info, ce)
							if g == nil || m.decls[g] == nil || ce == nil {
								return true
							}
							for _, a := range ce.Args {
								sel, ok := ast.Unparen(a).(*ast.SelectorExpr)
								if !ok {
									continue
								}
								nt, ok := actxTreeType(m.info.TypeOf(sel.X))
								if !ok || nt.Obj().Name() != sub.node {
									continue
								}
								if _, isTree := actxTreeType(m.info.TypeOf(a)); !isTree {
									continue
								}
								if ce.Pos() == sub.pos {
									continue // the call that hands the body to the helper
								}
								perNode[k] = append(perNode[k], actxRegionCall{owner: sub.owner, inside: false, callee: g.Name(), node: sub.node, field: sel.Sel.Name, pos: ce.Pos()})
							}
							return true
						})
					}
					perNode[k] = append(perNode[k], sub)
					ownerOf[k] = sub.owner
				}
				var nodes []string
				for n := range perNode {
					nodes = append(nodes, n)
				}
				sort.Strings(nodes)
				for _, nodeKey := range nodes {
					calls := perNode[nodeKey]
					node := nodeKey
					keyFn := fn
					if o := ownerOf[nodeKey]; o != nil {
						keyFn = o
						node = nodeKey[strings.Index(nodeKey, "\x00")+1:]
					}
					key := fmt.Sprintf("%s|%s|%s", m.fname(keyFn), m.fieldName(lf), node)
					var bad []string
					inside := map[string]bool{}
					outside := map[string]bool{}
					var pos token.Pos
					var blockType string
					for _, rc := range calls {
						if rc.node != node && rc.node != "" {
							continue
						}
						if pos == token.NoPos {
							pos = rc.pos
						}
						if rc.inside {
							if rc.node == "" {
								bad = append(bad, fmt.Sprintf("%s(%s) at %s is called inside the raised region with a tree argument that is not a field of the loop node", rc.callee, rc.other, c.Pos(rc.pos)))
								continue
							}
							inside[rc.field] = true
							if !strings.Contains(rc.ftype, "Block") {
								bad = append(bad, fmt.Sprintf("%s.%s (type %s) is processed by %s at %s while %s is raised: only the loop body may be", node, rc.field, rc.ftype, rc.callee, c.Pos(rc.pos), m.fieldName(lf)))
							} else {
								blockType = rc.ftype
							}
						} else if rc.node == node {
							outside[rc.field] = true
						}
					}
					// every Block-typed field of the node is inside; every other tree field outside
					if nt := actxLookupNode(m, node); nt != nil {
						st := nt.Underlying().(*types.Struct)
						for i := 0; i < st.NumFields(); i++ {
							fl := st.Field(i)
							ft, ok := actxTreeType(fl.Type())
							if !ok {
								continue
							}
							if strings.Contains(ft.Obj().Name(), "Block") {
								if !inside[fl.Name()] {
									bad = append(bad, fmt.Sprintf("%s.%s (the loop body) is not processed inside the raised region", node, fl.Name()))
								}
							}
						}
					}
					_ = blockType
					var ins, outs []string
					for k := range inside {
						ins = append(ins, k)
					}
					for k := range outside {
						outs = append(outs, k)
					}
					sort.Strings(ins)
					sort.Strings(outs)
					sk := rel
					if bodyFields[sk] == nil {
						bodyFields[sk] = map[string]bool{}
					}
					bodyFields[sk][strings.Join(ins, ",")] = true
					ob := Obligation{Key: key, Pos: c.Pos(pos), Nontrivial: true}
					if len(bad) > 0 {
						ob.Status = Violated
						ob.Detail = strings.Join(actxUniq(bad), " | ")
					} else {
						ob.Status = Discharged
						ob.Detail = fmt.Sprintf("inside the raised region: %s.{%s}; outside: {%s}", node, strings.Join(ins, ","), strings.Join(outs, ","))
					}
					out = append(out, ob)
				}
			}
		}
	}
	out = append(out, actxFnBoundary(c)...)
	// sibling agreement: all loop statements of a package put the same field set inside the region
	for rel, sets := range bodyFields {
		var ks []string
		for k := range sets {
			ks = append(ks, "{"+k+"}")
		}
		sort.Strings(ks)
		ob := Obligation{Key: rel + "|siblings agree", Status: Discharged, Detail: "all loop constructs raise the loop context around " + strings.Join(ks, " "), Nontrivial: true}
		if len(ks) != 1 {
			ob.Status = Violated
			ob.Detail = "loop constructs disagree on what is processed inside the raised region: " + strings.Join(ks, " vs ")
		}
		out = append(out, ob)
	}
	return out
}

func actxUniq(in []string) []string {
	seen := map[string]bool{}
	var out []string
	for _, s := range in {
		if !seen[s] {
			seen[s] = true
			out = append(out, s)
		}
	}
	return out
}

func actxLookupNode(m *actxPkg, name string) *types.Named {
	for _, imp := range m.p.Types.Imports() {
		if actxIsTreePkg(imp) {
			if tn, ok := imp.Scope().Lookup(name).(*types.TypeName); ok {
				if n, ok := tn.Type().(*types.Named); ok {
					if _, ok := n.Underlying().(*types.Struct); ok {
						return n
					}
				}
			}
		}
	}
	return nil
}

// actxFnBoundary: the loop counter counts the loops of the *current function*.
// A function that installs a new function context (writes the context field
// pointing at the function record, the struct with a ReturnType) around the
// analysis of a body must analyse that body with the loop counter at 0:
// either it writes the constant itself, or every call site provably has it
// at 0. Otherwise `loop { let f = fn() { break; }; }` is accepted and the
// compiler has no loop to jump to inside the lambda.
func actxFnBoundary(c *Ctx) []Obligation {
	var out []Obligation
	a := actxAnalyse(c, "homescript/analyzer")
	m := a.m
	var fnField, loopField *types.Var
	for _, f := range m.sortedCtx() {
		if pt, ok := f.Type().Underlying().(*types.Pointer); ok {
			if st, ok := pt.Elem().Underlying().(*types.Struct); ok {
				for i := 0; i < st.NumFields(); i++ {
					if st.Field(i).Name() == "ReturnType" {
						fnField = f
					}
				}
			}
		}
	}
	for _, f := range actxLoopFields(m) {
		if m.ctx[f].isCount {
			loopField = f
		}
	}
	if fnField == nil || loopField == nil {
		return []Obligation{{Key: "homescript/analyzer|function boundary", Status: Undecided, Detail: "function-context field or loop counter not found"}}
	}
	var fns []*types.Func
	for fn := range a.res {
		fns = append(fns, fn)
	}
	sort.Slice(fns, func(i, j int) bool { return actxPosLess(c, fns[i].Pos(), fns[j].Pos()) })
	n := 0
	for _, fn := range fns {
		if m.inlinable[fn] {
			continue
		}
		r := a.res[fn]
		opens := false
		var bad []string
		var pos token.Pos
		needSites := false
		for _, e := range r.exits {
			for _, ev := range e.st.events {
				fv := ev.vals[fnField]
				if fv.atEntry() || fv.gen != 0 || (fv.kind == avConst && fv.k == "nil") {
					continue
				}
				// a body is analysed under the new function context
				isBody := false
				for _, arg := range ev.call.Args {
					if t, ok := actxTreeType(m.info.TypeOf(arg)); ok && strings.Contains(t.Obj().Name(), "Block") {
						isBody = true
					}
				}
				if !isBody {
					continue
				}
				opens = true
				pos = ev.call.Pos()
				lv := ev.vals[loopField]
				switch {
				case lv.kind == avConst && lv.k == "0" && lv.delta == 0:
				case lv.atEntry():
					needSites = true
				default:
					bad = append(bad, fmt.Sprintf("the body is analysed at %s with %s = %s", c.Pos(ev.call.Pos()), m.fieldName(loopField), lv))
				}
			}
		}
		if !opens {
			continue
		}
		n++
		ob := Obligation{Key: m.fname(fn) + "|" + m.fieldName(loopField) + " is 0 inside a new function body", Pos: c.Pos(pos), Nontrivial: true}
		if needSites && len(bad) == 0 {
			if ok, how := a.constAtSites(fn, loopField, "0", map[*types.Func]bool{}); ok {
				ob.Status, ob.Detail = Discharged, "not reset here, but 0 at every call site: "+how
			} else {
				bad = append(bad, fmt.Sprintf("%s installs a new %s and analyses the function body without resetting %s, and it is not 0 at every call site: %s", fn.Name(), m.fieldName(fnField), m.fieldName(loopField), how))
			}
		}
		if len(bad) > 0 {
			ob.Status, ob.Detail = Violated, strings.Join(actxUniq(bad), " | ")
		} else if ob.Detail == "" {
			ob.Status, ob.Detail = Discharged, m.fieldName(loopField)+" is set to 0 before the body is analysed and restored afterwards (R-ctx-restore)"
		}
		out = append(out, ob)
	}
	if n == 0 {
		out = append(out, Obligation{Key: "homescript/analyzer|function boundary", Status: Undecided, Detail: "no function installs a function context around a body"})
	}
	return out
}

// actxLoopFields: the counter / stack context fields that record "inside a
// loop". By role: the fields consulted where a break / continue statement is
// handled — read (directly or through a getter of the package) by a function
// that takes a Break/Continue statement node, or inside the case clause for
// the Break/Continue statement kind. Falls back to the field's name when the
// role yields nothing.
func actxLoopFields(m *actxPkg) []*types.Var {
	cand := map[*types.Var]bool{}
	readIn := func(n ast.Node) {
		ast.Inspect(n, func(x ast.Node) bool {
			switch y := x.(type) {
			case *ast.SelectorExpr:
				if f, _ := m.fieldOf(y); f != nil && m.ctx[f] != nil {
					cand[f] = true
				}
			case *ast.CallExpr:
				if g := CalleeOf(m.info, y); g != nil && m.decls[g] != nil && len(m.writes[g]) == 0 {
					for f := range m.reads[g] {
						if m.ctx[f] != nil {
							cand[f] = true
						}
					}
				}
			}
			return true
		})
	}
	isJumpNode := func(t types.Type) bool {
		n, ok := actxTreeType(t)
		if !ok {
			return false
		}
		name := n.Obj().Name()
		return strings.HasSuffix(name, "BreakStatement") || strings.HasSuffix(name, "ContinueStatement")
	}
	for _, fn := range m.order {
		fd := m.decls[fn]
		sig := fn.Type().(*types.Signature)
		for i := 0; i < sig.Params().Len(); i++ {
			if isJumpNode(sig.Params().At(i).Type()) {
				readIn(fd.Body)
			}
		}
		ast.Inspect(fd.Body, func(x ast.Node) bool {
			cc, ok := x.(*ast.CaseClause)
			if !ok {
				return true
			}
			for _, e := range cc.List {
				if k := ConstOf(m.info, e); k != nil && (k.Name() == "BreakStatementKind" || k.Name() == "ContinueStatementKind") {
					for _, st := range cc.Body {
						readIn(st)
					}
				}
			}
			return true
		})
	}
	var out []*types.Var
	for _, f := range m.sortedCtx() {
		if (m.ctx[f].isCount || m.ctx[f].isStack) && cand[f] {
			out = append(out, f)
		}
	}
	if len(out) == 0 {
		for _, f := range m.sortedCtx() {
			if (m.ctx[f].isCount || m.ctx[f].isStack) && strings.Contains(strings.ToLower(f.Name()), "loop") {
				out = append(out, f)
			}
		}
	}
	return out
}

// actxParamIndex: id names parameter i of fn (-1: not a parameter).
func actxParamIndex(m *actxPkg, fn *types.Func, id *ast.Ident) int {
	sig := fn.Type().(*types.Signature)
	for i := 0; i < sig.Params().Len(); i++ {
		if m.info.Uses[id] == sig.Params().At(i) {
			return i
		}
	}
	return -1
}

// restoreOwed: a function may hand a context field back changed without any
// dependent call after the write — that is how setters and signals work (a
// `break` raises the termination mark, a leaf setter installs a value) — and
// such an exit is normally left to the callers. Two typestate conditions make
// the exit owe a restore all the same:
//
//  1. the function holds a local into which it saved the entry value of the
//     field (or of a field that the same leaf setter writes together with it):
//     a function that saves intends to put the value back on every way out;
//  2. the value left behind is the field's initial value (the zero value / the
//     value of the creating composite literal): that lowers a signal instead
//     of raising it. Only the owner of the scope may do that, by writing back
//     what it saved — anything seen before the call is erased otherwise.
//
// Leaf setters are exempt (they are interpreted at their call sites and the
// caller is judged).
func (a *actxAnalysis) restoreOwed(fn *types.Func, st *actxState, f *types.Var, val actxVal) (bool, string) {
	m := a.m
	if m.inlinable[fn] || val.gen != 0 {
		return false, ""
	}
	// (1) a save local of f / of a co-set field
	saved := map[*types.Var]bool{}
	for _, l := range st.locals {
		if l.kind == alSave && l.f != nil {
			if sv, ok := l.snap[l.f]; ok && sv.atEntry() {
				saved[l.f] = true
			}
		}
	}
	if len(saved) > 0 {
		if saved[f] {
			return true, "the entry value was saved into a local but is not written back on this way out"
		}
		for _, g := range m.order {
			if !m.inlinable[g] {
				continue
			}
			ps := m.paramSet[g]
			if _, sets := ps[f]; !sets {
				continue
			}
			var names []string
			for sf := range ps {
				if saved[sf] {
					names = append(names, m.fieldName(sf))
				}
			}
			if len(names) > 0 {
				sort.Strings(names)
				return true, fmt.Sprintf("the entry value of %s (set together with it by %s) was saved into a local but is not handed back to %s on this way out", names[0], g.Name(), g.Name())
			}
		}
	}
	// (2) reset to the initial value
	if val.kind == avConst && val.delta == 0 {
		if init, ok := a.initialValue(f); ok && init == val.k {
			return true, fmt.Sprintf("the field is reset to its initial value %s without having been saved: whatever was signalled before this call is erased", init)
		}
	}
	return false, ""
}

// initialValue: the constant a context field starts with: the value given in
// the composite literals of its owner type inside the package when they agree,
// else the zero value of its type.
func (a *actxAnalysis) initialValue(f *types.Var) (string, bool) {
	m := a.m
	if a.initVals == nil {
		a.initVals = map[*types.Var]string{}
		lit := map[*types.Var]map[string]bool{}
		for _, fn := range m.order {
			ast.Inspect(m.decls[fn].Body, func(n ast.Node) bool {
				cl, ok := n.(*ast.CompositeLit)
				if !ok {
					return true
				}
				t := m.info.TypeOf(cl)
				if t == nil {
					return true
				}
				named, _ := t.(*types.Named)
				if named == nil {
					return true
				}
				for _, el := range cl.Elts {
					kv, ok := el.(*ast.KeyValueExpr)
					if !ok {
						continue
					}
					kid, ok := kv.Key.(*ast.Ident)
					if !ok {
						continue
					}
					fv, _ := m.info.Uses[kid].(*types.Var)
					if fv == nil || m.ctx[fv] == nil {
						continue
					}
					v := "?"
					if tv := m.info.Types[kv.Value]; tv.Value != nil {
						v = tv.Value.String()
					} else if id, ok := ast.Unparen(kv.Value).(*ast.Ident); ok && id.Name == "nil" {
						v = "nil"
					}
					if lit[fv] == nil {
						lit[fv] = map[string]bool{}
					}
					lit[fv][v] = true
				}
				return true
			})
		}
		for fv := range m.ctx {
			if vs := lit[fv]; len(vs) == 1 {
				for v := range vs {
					if v != "?" {
						a.initVals[fv] = v
					}
				}
				continue
			} else if len(vs) > 1 {
				continue
			}
			switch t := fv.Type().Underlying().(type) {
			case *types.Basic:
				switch {
				case t.Info()&types.IsBoolean != 0:
					a.initVals[fv] = "false"
				case t.Info()&types.IsNumeric != 0:
					a.initVals[fv] = "0"
				case t.Info()&types.IsString != 0:
					a.initVals[fv] = `""`
				}
			case *types.Pointer, *types.Slice, *types.Map, *types.Interface:
				a.initVals[fv] = "nil"
			}
		}
	}
	v, ok := a.initVals[f]
	return v, ok
}

// actxSwitchOrder: order around a context switch. A function that installs
// another instance of the context (a leaf setter that points an owner field —
// the current module — at the instance named by its argument) on behalf of a
// value V (the setter's argument is a field of V: `switchModule(fn.Module)`)
// acts for V from the switch on. Every call that consults the switched context
// (reads the owner field or one of its member fields: scope lookups) with data
// that also comes from V (names owned by the callee: its extracted singletons,
// its globals) must therefore not be executed before the switch: no path may
// run such a call first and the switch afterwards — the name would be resolved
// in the module of the caller. Calls fed from other data (the argument
// expressions of the call, evaluated in the caller's module) are free.
func actxSwitchOrder(c *Ctx, a *actxAnalysis) []Obligation {
	m := a.m
	c.SSA()
	var out []Obligation
	// leaf setters that switch an owner field from a parameter
	type swInfo struct {
		idx   int
		owner *types.Var
	}
	switchers := map[*ssa.Function]swInfo{}
	run := &actxRun{m: m}
	for _, g := range m.order {
		if !m.inlinable[g] {
			continue
		}
		for f, idx := range m.paramSet[g] {
			if idx >= 0 && len(run.members(f)) > 0 {
				if sf := c.Prog.FuncValue(g); sf != nil {
					if old, had := switchers[sf]; !had || m.fieldName(f) < m.fieldName(old.owner) {
						switchers[sf] = swInfo{idx, f}
					}
				}
			}
		}
	}
	if len(switchers) == 0 {
		return nil
	}
	consults := func(h *types.Func, owner *types.Var) bool {
		if m.inlinable[h] && len(m.paramSet[h]) > 0 {
			return false // a setter, not a lookup
		}
		if m.touch[owner][h] {
			return true
		}
		for _, mf := range run.members(owner) {
			if m.touch[mf][h] {
				return true
			}
		}
		return false
	}
	for _, fn := range m.order {
		sf := c.Prog.FuncValue(fn)
		if sf == nil || sf.Blocks == nil {
			continue
		}
		fr := actxNewFrame(sf, nil, 0)
		nsw := 0
		for _, b := range sf.Blocks {
			for _, ins := range b.Instrs {
				sc, ok := ins.(ssa.CallInstruction)
				if !ok {
					continue
				}
				g := sc.Common().StaticCallee()
				sw, isSw := switchers[g]
				if !isSw {
					continue
				}
				ai := sw.idx
				if g.Signature.Recv() != nil {
					ai++
				}
				if ai >= len(sc.Common().Args) {
					continue
				}
				as := fr.sym(sc.Common().Args[ai])
				if actxUnknownSym(as) || !strings.HasPrefix(as, "$") {
					continue
				}
				cut := strings.LastIndex(as, ".")
				if cut < 0 || strings.HasSuffix(as, ")") {
					continue
				}
				base := as[:cut]
				if !strings.Contains(strings.TrimPrefix(base, "$"+sf.Name()), ".") {
					continue // a plain parameter, not a field of a value
				}
				if sf.Signature.Recv() != nil && len(sf.Params) > 0 {
					if rs := fr.sym(sf.Params[0]); base == rs || strings.HasPrefix(base, rs+".") {
						continue // taken from the context itself (a saved value being put back), not from a value the function acts for
					}
				}
				nsw++
				key := fmt.Sprintf("%s|%s|names owned by the switched-to instance are resolved after the switch", m.fname(fn), m.fieldName(sw.owner))
				if nsw > 1 {
					key += fmt.Sprintf(" #%d", nsw)
				}
				ob := Obligation{Key: key, Pos: c.Pos(ins.Pos()), Nontrivial: true}
				var early []string
				nlook := 0
				for _, b2 := range sf.Blocks {
					for _, i2 := range b2.Instrs {
						lc, ok := i2.(ssa.CallInstruction)
						if !ok || i2 == ins {
							continue
						}
						h := lc.Common().StaticCallee()
						if h == nil || h.Object() == nil {
							continue
						}
						ho, _ := h.Object().(*types.Func)
						if ho == nil || m.decls[ho] == nil || !consults(ho, sw.owner) {
							continue
						}
						fed := false
						for _, arg := range lc.Common().Args {
							if s := fr.sym(arg); s == base || strings.HasPrefix(s, base+".") || strings.HasPrefix(s, base+"[") {
								fed = true
							}
						}
						if !fed {
							continue
						}
						nlook++
						before := false
						if b2 == b {
							before = actxInstrIndex(i2) < actxInstrIndex(ins)
						}
						if !before && b2 != b && actxReach(b2)[b] {
							before = true
						}
						if b2 == b && !before {
							// same block after the switch; a loop back to the block would also run it before the next switch: ignore
						}
						if before {
							early = append(early, fmt.Sprintf("%s at %s", h.Name(), c.Pos(i2.Pos())))
						}
					}
				}
				if len(early) > 0 {
					sort.Strings(early)
					ob.Status = Violated
					ob.Detail = fmt.Sprintf("%s consults %s with data of %s before %s(%s) has switched to its instance: the name is resolved in the instance that is current at the call (the caller's module), not in the one the value belongs to", strings.Join(actxUniq(early), ", "), m.fieldName(sw.owner), base, g.Name(), as)
				} else {
					ob.Status = Discharged
					ob.Detail = fmt.Sprintf("%d call(s) that consult %s with data of %s: none can run before %s(%s)", nlook, m.fieldName(sw.owner), base, g.Name(), as)
				}
				out = append(out, ob)
			}
		}
	}
	return out
}

// actxArgsBeforeSwitch: the mirror image of actxSwitchOrder. A function that
// acts for a callee value (it has a parameter of the engine's runtime value
// interface) and receives the caller's still unevaluated argument expressions
// (a slice parameter whose elements carry an analysed expression) must
// evaluate those expressions in the context of the CALLER: every call that is
// handed (part of) an element of that parameter lies before the first change
// of the name-resolution context — a store into the owner field (current
// module) or one of its member fields (the scope stack), directly or through a
// leaf setter (module switch, scope push). No path may change the context
// first and evaluate a caller-supplied expression afterwards: `let x = 5;
// f(x)` would resolve `x` in the scopes of the callee. After the change only
// callee-owned things (its block, its parameter names) are evaluated.
func actxArgsBeforeSwitch(c *Ctx, a *actxAnalysis) []Obligation {
	m := a.m
	c.SSA()
	run := &actxRun{m: m}
	// the resolution context: owner fields with members, and those members
	ctxField := map[*types.Var]*types.Var{} // field → its owner field
	for _, f := range m.sortedCtx() {
		if mem := run.members(f); len(mem) > 0 {
			ctxField[f] = f
			for _, mf := range mem {
				ctxField[mf] = f
			}
		}
	}
	if len(ctxField) == 0 {
		return nil
	}
	// leaf setters (transitively through leaf setters) that write such a field
	writesCtx := map[*types.Func]*types.Var{}
	for changed := true; changed; {
		changed = false
		for _, g := range m.order {
			if !m.inlinable[g] || writesCtx[g] != nil {
				continue
			}
			for _, w := range m.writes[g] {
				if o := ctxField[w.field]; o != nil && writesCtx[g] == nil {
					writesCtx[g] = o
					changed = true
				}
			}
			for _, h := range m.callees[g] {
				if o := writesCtx[h]; o != nil && writesCtx[g] == nil {
					writesCtx[g] = o
					changed = true
				}
			}
		}
	}
	carriesExpr := func(t types.Type) bool {
		sl, ok := t.Underlying().(*types.Slice)
		if !ok {
			return false
		}
		el := sl.Elem()
		if p, ok := el.(*types.Pointer); ok {
			el = p.Elem()
		}
		st, ok := el.Underlying().(*types.Struct)
		if !ok {
			return false
		}
		for i := 0; i < st.NumFields(); i++ {
			if n, ok := st.Field(i).Type().(*types.Named); ok && n.Obj().Name() == "AnalyzedExpression" {
				if _, isIface := n.Underlying().(*types.Interface); isIface {
					return true
				}
			}
		}
		return false
	}
	isRuntimeValue := func(t types.Type) bool {
		n, ok := t.(*types.Named)
		if !ok || n.Obj().Name() != "Value" || n.Obj().Pkg() == nil || !strings.HasSuffix(n.Obj().Pkg().Path(), "/value") {
			return false
		}
		_, isIface := n.Underlying().(*types.Interface)
		return isIface
	}
	var out []Obligation
	for _, fn := range m.order {
		sf := c.Prog.FuncValue(fn)
		if sf == nil || sf.Blocks == nil {
			continue
		}
		var argsP *ssa.Parameter
		hasCallee := false
		for _, p := range sf.Params {
			if carriesExpr(p.Type()) {
				argsP = p
			}
			if isRuntimeValue(p.Type()) {
				hasCallee = true
			}
		}
		if argsP == nil || !hasCallee {
			continue
		}
		fr := actxNewFrame(sf, nil, 0)
		argsSym := fr.sym(argsP)
		type site struct {
			ins  ssa.Instruction
			what string
		}
		var changes, evals []site
		var owner *types.Var
		for _, b := range sf.Blocks {
			for _, ins := range b.Instrs {
				switch x := ins.(type) {
				case *ssa.Store:
					if fa, ok := x.Addr.(*ssa.FieldAddr); ok {
						bt := fa.X.Type()
						if pt, ok := bt.Underlying().(*types.Pointer); ok {
							bt = pt.Elem()
						}
						if st, ok := bt.Underlying().(*types.Struct); ok && fa.Field < st.NumFields() {
							if o := ctxField[st.Field(fa.Field)]; o != nil {
								changes = append(changes, site{ins, "store into " + m.fieldName(st.Field(fa.Field))})
								owner = o
							}
						}
					}
				case ssa.CallInstruction:
					g := x.Common().StaticCallee()
					if g == nil {
						continue
					}
					if go_, _ := g.Object().(*types.Func); go_ != nil {
						if o := writesCtx[go_]; o != nil {
							changes = append(changes, site{ins, g.Name() + "(…)"})
							owner = o
							continue
						}
					}
					if _, isDefer := ins.(*ssa.Defer); isDefer {
						continue
					}
					for _, arg := range x.Common().Args {
						if s := fr.sym(arg); s == argsSym || strings.HasPrefix(s, argsSym+"[") {
							evals = append(evals, site{ins, g.Name()})
							break
						}
					}
				}
			}
		}
		if len(changes) == 0 || len(evals) == 0 || owner == nil {
			continue
		}
		ob := Obligation{Key: fmt.Sprintf("%s|%s|caller-supplied expressions are evaluated before the context is switched", m.fname(fn), m.fieldName(owner)), Pos: c.Pos(fn.Pos()), Nontrivial: true}
		var late []string
		for _, ev := range evals {
			for _, ch := range changes {
				if _, isDefer := ch.ins.(*ssa.Defer); isDefer {
					continue // runs at function exit
				}
				after := false
				if ch.ins.Block() == ev.ins.Block() {
					after = actxInstrIndex(ch.ins) < actxInstrIndex(ev.ins)
				} else {
					after = actxReach(ch.ins.Block())[ev.ins.Block()]
				}
				if after {
					late = append(late, fmt.Sprintf("%s at %s runs after %s at %s", ev.what, c.Pos(ev.ins.Pos()), ch.what, c.Pos(actxInstrPos(ch.ins))))
					break
				}
			}
		}
		if len(late) > 0 {
			sort.Strings(late)
			late = actxUniq(late)
			if len(late) > 3 {
				late = append(late[:3], "…")
			}
			ob.Status = Violated
			ob.Detail = "an argument expression of the caller (element of parameter " + argsP.Name() + ") is evaluated after the name-resolution context has been changed for the callee: " + strings.Join(late, " | ") + " — identifiers in the argument are then looked up in the scopes / module of the callee"
		} else {
			ob.Status = Discharged
			ob.Detail = fmt.Sprintf("%d evaluation(s) of elements of %s, %d context change(s): no change can precede an evaluation", len(evals), argsP.Name(), len(changes))
		}
		out = append(out, ob)
	}
	return out
}
